import PqModel.VariantLevels
import PqModel.VariantShredLemmas

/-! Lemmas for the level round trip (`read_emit` in `Props/C19.lean`). -/
namespace PqModel.Variant

/-! ### column-wise append -/

theorem zipApp_length (a b : List Col) : (zipApp a b).length = min a.length b.length := by
  induction a generalizing b with
  | nil => simp [zipApp]
  | cons x xs ih =>
    cases b with
    | nil => simp [zipApp]
    | cons y ys => simp [zipApp, ih]

theorem zipApp_append (a1 a2 b1 b2 : List Col) (h : a1.length = b1.length) :
    zipApp (a1 ++ a2) (b1 ++ b2) = zipApp a1 b1 ++ zipApp a2 b2 := by
  induction a1 generalizing b1 with
  | nil =>
    cases b1 with
    | nil => simp [zipApp]
    | cons y ys => simp at h
  | cons x xs ih =>
    cases b1 with
    | nil => simp at h
    | cons y ys =>
      simp only [List.length_cons, Nat.add_right_cancel_iff] at h
      simp [zipApp, ih ys h]

theorem zipApp_assoc (a b c : List Col) : zipApp (zipApp a b) c = zipApp a (zipApp b c) := by
  induction a generalizing b c with
  | nil => simp [zipApp]
  | cons x xs ih =>
    cases b with
    | nil => simp [zipApp]
    | cons y ys =>
      cases c with
      | nil => simp [zipApp]
      | cons z zs => simp [zipApp, ih]

theorem zipApp_replicate_nil (n : Nat) (rest : List Col) (h : rest.length = n) :
    zipApp (List.replicate n []) rest = rest := by
  induction n generalizing rest with
  | zero => cases rest with
    | nil => simp [zipApp]
    | cons y ys => simp at h
  | succ n ih =>
    cases rest with
    | nil => simp at h
    | cons y ys =>
      simp only [List.length_cons, Nat.add_right_cancel_iff] at h
      simp [List.replicate_succ, zipApp, ih ys h]

theorem zipApp_nullCols (n D rep : Nat) (rest : List Col) (h : rest.length = n) :
    zipApp (nullCols n D rep) rest = rest.map (fun col => (⟨D, rep, .null⟩ : Cell) :: col) := by
  induction n generalizing rest with
  | zero => cases rest with
    | nil => simp [zipApp, nullCols]
    | cons y ys => simp at h
  | succ n ih =>
    cases rest with
    | nil => simp at h
    | cons y ys =>
      simp only [List.length_cons, Nat.add_right_cancel_iff] at h
      have := ih ys h
      simp only [nullCols] at this
      simp [nullCols, List.replicate_succ, zipApp, this]

theorem popAll_cons (c : Cell) (rest : List Col) : popAll (rest.map (fun col => c :: col)) = rest := by
  simp [popAll, List.map_map, Function.comp_def]

theorem peekDl_cons (c : Cell) (rest : List Col) (h : 0 < rest.length) :
    peekDl (rest.map (fun col => c :: col)) = some c := by
  cases rest with
  | nil => simp at h
  | cons y ys => simp [peekDl]

/-! ### sizes -/

theorem numLeaves_pos (s : Schema) : 0 < numLeaves s := by
  cases s <;> simp [numLeaves] <;> omega

/-- every column of the occurrence starts with a cell at the occurrence's repetition level and at
    least the group's definition level -/
def HeadsOk (rep g : Nat) (cols : List Col) : Prop :=
  ∀ col ∈ cols, ∃ c tl, col = c :: tl ∧ c.rl = rep ∧ g ≤ c.dl

theorem headsOk_nullCols (n D rep g : Nat) (h : g ≤ D) : HeadsOk rep g (nullCols n D rep) := by
  intro col hc
  simp only [nullCols, List.mem_replicate] at hc
  exact ⟨_, _, hc.2, rfl, h⟩

theorem headsOk_append {rep g : Nat} {a b : List Col} (ha : HeadsOk rep g a) (hb : HeadsOk rep g b) :
    HeadsOk rep g (a ++ b) := by
  intro col hc
  rcases List.mem_append.mp hc with h | h
  · exact ha col h
  · exact hb col h

theorem headsOk_mono {rep g g' : Nat} {a : List Col} (h : HeadsOk rep g' a) (hg : g ≤ g') :
    HeadsOk rep g a := by
  intro col hc
  obtain ⟨c, tl, h1, h2, h3⟩ := h col hc
  exact ⟨c, tl, h1, h2, by omega⟩

theorem headsOk_zipApp {rep g : Nat} {a b : List Col} (ha : HeadsOk rep g a) :
    HeadsOk rep g (zipApp a b) := by
  induction a generalizing b with
  | nil => intro col hc; simp [zipApp] at hc
  | cons x xs ih =>
    cases b with
    | nil => intro col hc; simp [zipApp] at hc
    | cons y ys =>
      intro col hc
      simp only [zipApp, List.mem_cons] at hc
      rcases hc with rfl | hc
      · obtain ⟨c, tl, h1, h2, h3⟩ := ha x (by simp)
        exact ⟨c, tl ++ y, by simp [h1], h2, h3⟩
      · exact ih (fun col h => ha col (by simp [h])) col hc

theorem peekDl_zipApp {rep g : Nat} {a b : List Col} (ha : HeadsOk rep g a) (hl : 0 < a.length)
    (hb : 0 < b.length) : ∃ c, peekDl (zipApp a b) = some c ∧ c.rl = rep ∧ g ≤ c.dl := by
  cases a with
  | nil => simp at hl
  | cons x xs =>
    cases b with
    | nil => simp at hb
    | cons y ys =>
      obtain ⟨c, tl, h1, h2, h3⟩ := ha x (by simp)
      exact ⟨c, by simp [zipApp, h1, peekDl], h2, h3⟩

theorem firstLen_zipApp (a b : List Col) : firstLen a ≤ firstLen (zipApp a b) ∨ b = [] := by
  cases a with
  | nil => simp [firstLen]
  | cons x xs =>
    cases b with
    | nil => simp
    | cons y ys => simp [zipApp, firstLen]

/-! ### shape of what the writer emits -/

theorem emit_missing (s : Schema) (g r rep : Nat) :
    emit s g r rep .missing = nullCols (numLeaves s) g rep := by
  cases s <;> simp [emit]

theorem nullCols_length (n D rep : Nat) : (nullCols n D rep).length = n := by simp [nullCols]

theorem emitList_length (e : Schema)
    (hE : ∀ sl g r rep, slotFits e sl = true → (emit e g r rep sl).length = numLeaves e) :
    ∀ slots g r rep, slotFitsList e slots = true → (emitList e g r rep slots).length = numLeaves e
  | [], _, _, _, _ => by simp [emitList]
  | x :: xs, g, r, rep, h => by
    simp only [slotFitsList, Bool.and_eq_true] at h
    simp only [emitList, zipApp_length, hE x g r rep h.1, emitList_length e hE xs g r r h.2]
    omega

mutual
theorem emit_length : ∀ s sl g r rep, slotFits s sl = true → (emit s g r rep sl).length = numLeaves s
  | s, .missing, g, r, rep, _ => by simp [emit_missing, nullCols_length]
  | .untyped, .mk v ty, _, _, _, _ => by simp [emit, numLeaves]
  | .prim _, .mk v ty, _, _, _, _ => by simp [emit, numLeaves]
  | .list e, .mk v ty, g, r, rep, h => by
    cases ty with
    | none => simp [emit, numLeaves, nullCols_length]; omega
    | prim p => simp [slotFits] at h
    | obj tfs => simp [slotFits] at h
    | list slots =>
      simp only [slotFits] at h
      simp only [emit, numLeaves, List.length_cons]
      split
      · simp [nullCols_length]; omega
      · rw [emitList_length e (fun sl g r rep hh => emit_length e sl g r rep hh) slots _ _ _ h]; omega
  | .obj fs, .mk v ty, g, r, rep, h => by
    cases ty with
    | none => simp [emit, numLeaves, nullCols_length]; omega
    | prim p => simp [slotFits] at h
    | list slots => simp [slotFits] at h
    | obj tfs =>
      simp only [slotFits] at h
      simp only [emit, numLeaves, List.length_cons, emitFields_length fs tfs _ _ _ h]; omega
theorem emitFields_length : ∀ fs tfs g r rep, slotFitsFields fs tfs = true →
    (emitFields fs g r rep tfs).length = numLeavesFields fs
  | [], [], _, _, _, _ => by simp [emitFields, numLeavesFields, nullCols]
  | [], _ :: _, _, _, _, h => by simp [slotFitsFields] at h
  | (_, s) :: fs, [], _, _, _, h => by simp [slotFitsFields] at h
  | (_, s) :: fs, (_, sl) :: sls, g, r, rep, h => by
    simp only [slotFitsFields, Bool.and_eq_true] at h
    simp only [emitFields, List.length_append, numLeavesFields, emit_length s sl g r rep h.1,
      emitFields_length fs sls g r rep h.2]
end

theorem emitList_heads (e : Schema) (g : Nat)
    (hE : ∀ sl r rep, slotFits e sl = true → HeadsOk rep g (emit e g r rep sl)) :
    ∀ slots r rep, slots ≠ [] → slotFitsList e slots = true → HeadsOk rep g (emitList e g r rep slots)
  | [], _, _, hne, _ => absurd rfl hne
  | x :: xs, r, rep, _, h => by
    simp only [slotFitsList, Bool.and_eq_true] at h
    simp only [emitList]
    exact headsOk_zipApp (hE x r rep h.1)

mutual
theorem emit_heads : ∀ s sl g r rep, slotFits s sl = true → HeadsOk rep g (emit s g r rep sl)
  | s, .missing, g, r, rep, _ => by
    rw [emit_missing]; exact headsOk_nullCols _ _ _ _ (Nat.le_refl _)
  | .untyped, .mk v ty, g, _, rep, _ => by
    intro col hc
    simp only [emit, List.mem_singleton] at hc
    cases v <;> exact ⟨_, [], hc, rfl, by simp [valueCell]⟩
  | .prim _, .mk v ty, g, _, rep, _ => by
    intro col hc
    simp only [emit, List.mem_cons, List.not_mem_nil, or_false] at hc
    rcases hc with hc | hc
    · cases v <;> exact ⟨_, [], hc, rfl, by simp [valueCell]⟩
    · cases ty <;> exact ⟨_, [], hc, rfl, by simp⟩
  | .list e, .mk v ty, g, r, rep, h => by
    have hv : HeadsOk rep g [[valueCell g rep v]] := by
      intro col hc
      simp only [List.mem_singleton] at hc
      cases v <;> exact ⟨_, [], hc, rfl, by simp [valueCell]⟩
    cases ty with
    | none => exact headsOk_append hv (headsOk_nullCols _ _ _ _ (Nat.le_refl _))
    | prim p => simp [slotFits] at h
    | obj tfs => simp [slotFits] at h
    | list slots =>
      simp only [slotFits] at h
      simp only [emit]
      by_cases hne : slots.isEmpty = true
      · rw [if_pos hne]
        exact headsOk_append (a := [[valueCell g rep v]]) hv (headsOk_nullCols _ _ _ _ (by omega))
      · rw [if_neg hne]
        refine headsOk_append (a := [[valueCell g rep v]]) hv ?_
        refine headsOk_mono (g' := g + 2) ?_ (by omega)
        exact emitList_heads e (g + 2) (fun sl r rep hh => emit_heads e sl (g + 2) r rep hh) slots _ _
          (by intro h0; simp [h0] at hne) h
  | .obj fs, .mk v ty, g, r, rep, h => by
    have hv : HeadsOk rep g [[valueCell g rep v]] := by
      intro col hc
      simp only [List.mem_singleton] at hc
      cases v <;> exact ⟨_, [], hc, rfl, by simp [valueCell]⟩
    cases ty with
    | none => exact headsOk_append hv (headsOk_nullCols _ _ _ _ (Nat.le_refl _))
    | prim p => simp [slotFits] at h
    | list slots => simp [slotFits] at h
    | obj tfs =>
      simp only [slotFits] at h
      simp only [emit]
      exact headsOk_append (a := [[valueCell g rep v]]) hv
        (headsOk_mono (emitFields_heads fs tfs (g + 1) r rep h) (by omega))
theorem emitFields_heads : ∀ fs tfs g r rep, slotFitsFields fs tfs = true →
    HeadsOk rep g (emitFields fs g r rep tfs)
  | [], [], _, _, _, _ => by intro col hc; simp [emitFields, nullCols, numLeavesFields] at hc
  | [], _ :: _, _, _, _, h => by simp [slotFitsFields] at h
  | (_, s) :: fs, [], _, _, _, h => by simp [slotFitsFields] at h
  | (_, s) :: fs, (_, sl) :: sls, g, r, rep, h => by
    simp only [slotFitsFields, Bool.and_eq_true] at h
    simp only [emitFields]
    exact headsOk_append (emit_heads s sl g r rep h.1) (emitFields_heads fs sls g r rep h.2)
end

/-! ### reading nulls written by an ancestor -/

def nullCell (D rep : Nat) : Cell := ⟨D, rep, .null⟩

theorem readValue_null (g D rep : Nat) (col : Col) :
    readValue g (nullCell D rep :: col) = (none, col) := by
  simp [readValue, nullCell]

mutual
theorem readG_nulls : ∀ s g r D rep rest, D ≤ g → rest.length = numLeaves s →
    readG s g r (rest.map (fun col => nullCell D rep :: col)) = some (.missing, rest)
  | .untyped, g, r, D, rep, rest, _, hl => by
    match rest, hl with
    | [r0], _ => simp [readG, readValue_null, valueCol]
  | .prim _, g, r, D, rep, rest, _, hl => by
    match rest, hl with
    | [r0, r1], _ =>
      simp only [List.map_cons, List.map_nil, readG, readValue_null]
      simp [nullCell, valueCol]
  | .list e, g, r, D, rep, rest, hD, hl => by
    match rest, hl with
    | [], hl => simp [numLeaves] at hl; omega
    | r0 :: rs, hl =>
      simp only [numLeaves, List.length_cons] at hl
      have hp := numLeaves_pos e
      have hpk := peekDl_cons (nullCell D rep) rs (by omega)
      simp only [List.map_cons, readG, hpk, readValue_null, valueCol, popAll_cons]
      have h1 : ¬ (g + 2 ≤ (nullCell D rep).dl) := by simp [nullCell]; omega
      have h2 : ¬ (g + 1 ≤ (nullCell D rep).dl) := by simp [nullCell]; omega
      simp [h1, h2]
  | .obj fs, g, r, D, rep, rest, hD, hl => by
    match rest, hl with
    | [], hl => simp [numLeaves] at hl; omega
    | r0 :: rs, hl =>
      simp only [numLeaves, List.length_cons] at hl
      have hf := readFields_nulls fs (g + 1) r D rep rs (by omega) (by omega)
      simp only [List.map_cons, readG, hf, readValue_null, valueCol]
      cases rs with
      | nil => simp [peekDl]
      | cons y ys =>
        have : ¬ (g + 1 ≤ D) := by omega
        simp [peekDl, nullCell, this]
theorem readFields_nulls : ∀ fs g r D rep rest, D ≤ g → rest.length = numLeavesFields fs →
    readFields fs g r (rest.map (fun col => nullCell D rep :: col)) = some ([], rest)
  | [], g, r, D, rep, rest, _, hl => by
    simp only [numLeavesFields, List.length_eq_zero_iff] at hl
    simp [readFields, hl]
  | (_, s) :: fs, g, r, D, rep, rest, hD, hl => by
    simp only [numLeavesFields] at hl
    have h1 := readG_nulls s g r D rep (rest.take (numLeaves s)) hD (by simp; omega)
    have h2 := readFields_nulls fs g r D rep (rest.drop (numLeaves s)) hD (by simp; omega)
    simp only [readFields, ← List.map_take, ← List.map_drop, h1, h2, List.take_append_drop]
end

/-! ### the level round trip -/

/-- what the Go triple `(value, present, err)` is expected to be, with the columns left over -/
def expect (r : RRes) (rest : List Col) : Option (RRes × List Col) :=
  match r with
  | .err => none
  | .missing => some (.missing, rest)
  | .val v => some (.val v, rest)

/-- whatever follows the occurrence in a column starts at a repetition level of at most `k` -/
def capped (k : Nat) (rest : List Col) : Prop := ∀ col ∈ rest, ∀ c tl, col = c :: tl → c.rl ≤ k

mutual
/-- every object group of the schema has at least one field (`buildShreddedTypedValue` 202-206) -/
def lvOK : Schema → Bool
  | .untyped => true
  | .prim _ => true
  | .list e => lvOK e
  | .obj fs => !fs.isEmpty && lvOKFields fs
def lvOKFields : List (Key × Schema) → Bool
  | [] => true
  | (_, s) :: fs => lvOK s && lvOKFields fs
end

def ReadOK (s : Schema) : Prop :=
  ∀ sl g r rep rest, slotFits s sl = true → rest.length = numLeaves s → capped r rest →
    readG s g r (zipApp (emit s g r rep sl) rest) = expect (unshredR s sl) rest

theorem readValue_valueCell (g rep : Nat) (v : Option Value) (col : Col) :
    readValue g (valueCell g rep v :: col) = (v, col) := by
  cases v <;> simp [readValue, valueCell]

theorem capped_mono {k k' : Nat} {rest : List Col} (h : capped k rest) (hk : k ≤ k') : capped k' rest :=
  fun col hc c tl he => Nat.le_trans (h col hc c tl he) hk

theorem capped_of_heads {rep g : Nat} {a : List Col} (h : HeadsOk rep g a) : capped rep a := by
  intro col hc c tl he
  obtain ⟨c', tl', h1, h2, _⟩ := h col hc
  rw [h1] at he
  cases he
  omega

theorem peekDl_capped {k : Nat} {rest : List Col} (h : capped k rest) :
    ∀ c, peekDl rest = some c → c.rl ≤ k := by
  intro c hc
  cases rest with
  | nil => simp [peekDl] at hc
  | cons y ys =>
    cases y with
    | nil => simp [peekDl] at hc
    | cons c' tl =>
      simp only [peekDl, Option.some.injEq] at hc
      subst hc
      exact h (c' :: tl) (by simp) c' tl rfl

theorem firstLen_zipApp_add (a b : List Col) (ha : a ≠ []) (hb : b ≠ []) :
    firstLen (zipApp a b) = firstLen a + firstLen b := by
  cases a with
  | nil => exact absurd rfl ha
  | cons x xs =>
    cases b with
    | nil => exact absurd rfl hb
    | cons y ys => simp [zipApp, firstLen]

theorem firstLen_pos {rep g : Nat} {a : List Col} (h : HeadsOk rep g a) (ha : a ≠ []) : 0 < firstLen a := by
  cases a with
  | nil => exact absurd rfl ha
  | cons x xs =>
    obtain ⟨c, tl, h1, _, _⟩ := h x (by simp)
    simp [firstLen, h1]

theorem ne_nil_of_length_pos {α : Type} {l : List α} (h : 0 < l.length) : l ≠ [] := by
  intro h0; simp [h0] at h

theorem emitList_firstLen (e : Schema) (g r : Nat) :
    ∀ slots rep, slotFitsList e slots = true → slots.length ≤ firstLen (emitList e g r rep slots)
  | [], _, _ => by simp
  | x :: xs, rep, h => by
    simp only [slotFitsList, Bool.and_eq_true] at h
    have hp := numLeaves_pos e
    have l1 := emit_length e x g r rep h.1
    have l2 := emitList_length e (fun sl g r rep hh => emit_length e sl g r rep hh) xs g r r h.2
    have ih := emitList_firstLen e g r xs r h.2
    have hpos := firstLen_pos (emit_heads e x g r rep h.1) (ne_nil_of_length_pos (by omega))
    simp only [emitList, List.length_cons]
    rw [firstLen_zipApp_add _ _ (ne_nil_of_length_pos (by omega)) (ne_nil_of_length_pos (by omega))]
    omega

theorem unshredList_cons (e : Schema) (x : Slot) (xs : List Slot) :
    unshredList e (x :: xs) =
      match (unshredR e x).orNull, unshredList e xs with
      | some v, some vs => some (v :: vs)
      | _, _ => none := by
  simp only [unshredList]
  cases (unshredR e x).orNull <;> cases unshredList e xs <;> rfl

theorem readElems_emitList (e : Schema) (he : ReadOK e) (g r : Nat) :
    ∀ slots rep rest fuel, slots ≠ [] → slotFitsList e slots = true → slots.length ≤ fuel →
      rest.length = numLeaves e → capped r rest →
      readElems (readG e g (r + 1)) (r + 1) fuel (zipApp (emitList e g (r + 1) rep slots) rest) =
        (unshredList e slots).map (fun vs => (vs, rest))
  | [], _, _, _, hne, _, _, _, _ => absurd rfl hne
  | x :: xs, rep, rest, 0, _, _, hf, _, _ => by simp at hf
  | x :: xs, rep, rest, fuel + 1, _, hfit, hf, hl, hcap => by
    simp only [slotFitsList, Bool.and_eq_true] at hfit
    simp only [List.length_cons, Nat.add_le_add_iff_right] at hf
    have hp := numLeaves_pos e
    have l2 := emitList_length e (fun sl g r rep hh => emit_length e sl g r rep hh) xs g (r + 1) (r + 1) hfit.2
    have hl' : (zipApp (emitList e g (r + 1) (r + 1) xs) rest).length = numLeaves e := by
      rw [zipApp_length, l2, hl]; omega
    have hcap' : capped (r + 1) (zipApp (emitList e g (r + 1) (r + 1) xs) rest) := by
      cases xs with
      | nil =>
        simp only [emitList]
        rw [zipApp_replicate_nil _ _ hl]
        exact capped_mono hcap (by omega)
      | cons y ys =>
        exact capped_of_heads (headsOk_zipApp (emitList_heads e g
          (fun sl r rep hh => emit_heads e sl g r rep hh) (y :: ys) (r + 1) (r + 1) (by simp) hfit.2))
    have hx := he x g (r + 1) rep _ hfit.1 hl' hcap'
    simp only [emitList, zipApp_assoc, readElems, hx]
    cases hu : unshredR e x with
    | err => simp [expect, unshredList, hu, RRes.orNull]
    | missing | val v =>
      simp only [expect, RRes.orNull]
      cases xs with
      | nil =>
        simp only [emitList]
        rw [zipApp_replicate_nil _ _ hl]
        have hpk := peekDl_capped hcap
        cases hpeek : peekDl rest with
        | none => simp [unshredList, hu, RRes.orNull]
        | some c =>
          have : c.rl ≠ r + 1 := by have := hpk c hpeek; omega
          simp [unshredList, hu, RRes.orNull, this]
      | cons y ys =>
        have hh := emitList_heads e g (fun sl r rep hh => emit_heads e sl g r rep hh) (y :: ys)
          (r + 1) (r + 1) (by simp) hfit.2
        obtain ⟨c, hc1, hc2, _⟩ := peekDl_zipApp (b := rest) hh (by omega) (by omega)
        have ih := readElems_emitList e he g r (y :: ys) (r + 1) rest fuel (by simp) hfit.2 hf hl hcap
        simp only [hc1, hc2, if_true, ih]
        rw [unshredList_cons e x (y :: ys), hu]
        cases hus : unshredList e (y :: ys) with
        | none => simp [RRes.orNull]
        | some vs => simp [RRes.orNull]

theorem readG_emit_missing (s : Schema) (g r rep : Nat) (rest : List Col)
    (hl : rest.length = numLeaves s) :
    readG s g r (zipApp (emit s g r rep .missing) rest) = expect (unshredR s .missing) rest := by
  rw [emit_missing, zipApp_nullCols _ _ _ _ hl, unshredR_missing]
  exact readG_nulls s g r g rep rest (Nat.le_refl _) hl

theorem numLeavesFields_pos : ∀ fs : List (Key × Schema), fs.isEmpty = false → 0 < numLeavesFields fs
  | [], h => by simp at h
  | (_, s) :: fs, _ => by
    have := numLeaves_pos s
    simp only [numLeavesFields]; omega

mutual
theorem readG_emit : ∀ s, lvOK s = true → ReadOK s
  | .untyped, _ => by
    intro sl g r rep rest hfit hl hcap
    cases sl with
    | missing => exact readG_emit_missing _ _ _ _ _ hl
    | mk v ty =>
      match rest, hl with
      | [r0], _ =>
        simp only [emit, zipApp, List.cons_append, List.nil_append, readG, readValue_valueCell]
        cases v <;> simp [unshredR, valueCol, expect]
  | .prim t, _ => by
    intro sl g r rep rest hfit hl hcap
    cases sl with
    | missing => exact readG_emit_missing _ _ _ _ _ hl
    | mk v ty =>
      match rest, hl with
      | [r0, r1], _ =>
        cases ty with
        | none =>
          simp only [emit, zipApp, List.cons_append, List.nil_append, readG, readValue_valueCell]
          cases v <;> simp [unshredR, valueCol, expect]
        | prim p =>
          simp only [emit, zipApp, List.cons_append, List.nil_append, readG, readValue_valueCell]
          cases v <;> simp [unshredR, expect]
        | list _ => simp [slotFits] at hfit
        | obj _ => simp [slotFits] at hfit
  | .list e, hw => by
    have he : ReadOK e := readG_emit e (by simpa [lvOK] using hw)
    intro sl g r rep rest hfit hl hcap
    cases sl with
    | missing => exact readG_emit_missing _ _ _ _ _ hl
    | mk v ty =>
      match rest, hl with
      | [], hl => simp [numLeaves] at hl; omega
      | r0 :: rs, hl =>
        simp only [numLeaves, List.length_cons] at hl
        have hrs : rs.length = numLeaves e := by omega
        have hp := numLeaves_pos e
        have hcaprs : capped r rs := fun col hc => hcap col (by simp [hc])
        cases ty with
        | prim _ => simp [slotFits] at hfit
        | obj _ => simp [slotFits] at hfit
        | none =>
          have hpk := peekDl_cons (⟨g, rep, .null⟩ : Cell) rs (by omega)
          simp only [emit, zipApp, List.cons_append, List.nil_append, zipApp_nullCols _ _ _ _ hrs,
            readG, hpk, readValue_valueCell, popAll_cons]
          have h1 : ¬ (g + 2 ≤ g) := by omega
          have h2 : ¬ (g + 1 ≤ g) := by omega
          cases v <;> simp [h1, h2, unshredR, valueCol, expect]
        | list slots =>
          simp only [slotFits] at hfit
          by_cases hne : slots.isEmpty = true
          · have h0 : slots = [] := by simpa using hne
            subst h0
            have hpk := peekDl_cons (⟨g + 1, rep, .null⟩ : Cell) rs (by omega)
            simp only [emit, List.isEmpty_nil, if_true, zipApp, List.cons_append, List.nil_append,
              zipApp_nullCols _ _ _ _ hrs, readG, hpk, readValue_valueCell, popAll_cons]
            have h1 : ¬ (g + 2 ≤ g + 1) := by omega
            cases v <;> simp [h1, unshredR, unshredList, expect]
          · have hne' : slots ≠ [] := by intro h0; simp [h0] at hne
            have hh := emitList_heads e (g + 2) (fun sl r rep hh => emit_heads e sl (g + 2) r rep hh)
              slots (r + 1) rep hne' hfit
            have ll := emitList_length e (fun sl g r rep hh => emit_length e sl g r rep hh) slots
              (g + 2) (r + 1) rep hfit
            obtain ⟨c, hc1, _, hc3⟩ := peekDl_zipApp (b := rs) hh (by omega) (by omega)
            have hfuel : slots.length ≤ firstLen (zipApp (emitList e (g + 2) (r + 1) rep slots) rs) := by
              have h1 := emitList_firstLen e (g + 2) (r + 1) slots rep hfit
              have h2 := firstLen_zipApp_add (emitList e (g + 2) (r + 1) rep slots) rs
                (ne_nil_of_length_pos (by omega)) (ne_nil_of_length_pos (by omega))
              omega
            have hre := readElems_emitList e he (g + 2) r slots rep rs _ hne' hfit hfuel hrs hcaprs
            simp only [emit, if_neg hne, zipApp, List.cons_append, List.nil_append, readG, hc1, hc3,
              if_true, hre, readValue_valueCell]
            cases hu : unshredList e slots with
            | none => simp [unshredR, hu, expect]
            | some es => cases v <;> simp [unshredR, hu, expect]
  | .obj fs, hw => by
    simp only [lvOK, Bool.and_eq_true, Bool.not_eq_true'] at hw
    intro sl g r rep rest hfit hl hcap
    cases sl with
    | missing => exact readG_emit_missing _ _ _ _ _ hl
    | mk v ty =>
      match rest, hl with
      | [], hl => simp [numLeaves] at hl; omega
      | r0 :: rs, hl =>
        simp only [numLeaves, List.length_cons] at hl
        have hrs : rs.length = numLeavesFields fs := by omega
        have hpos := numLeavesFields_pos fs hw.1
        have hcaprs : capped r rs := fun col hc => hcap col (by simp [hc])
        cases ty with
        | prim _ => simp [slotFits] at hfit
        | list _ => simp [slotFits] at hfit
        | none =>
          have hf := readFields_nulls fs (g + 1) r g rep rs (by omega) hrs
          simp only [nullCell] at hf
          have hpk := peekDl_cons (⟨g, rep, .null⟩ : Cell) rs (by omega)
          simp only [emit, zipApp, List.cons_append, List.nil_append, zipApp_nullCols _ _ _ _ hrs,
            readG, hf, hpk, readValue_valueCell]
          have h2 : ¬ (g + 1 ≤ g) := by omega
          cases v <;> simp [h2, unshredR, valueCol, expect]
        | obj tfs =>
          simp only [slotFits] at hfit
          have hf := readFields_emit fs hw.2 tfs (g + 1) r rep rs hfit hrs hcaprs
          have ll := emitFields_length fs tfs (g + 1) r rep hfit
          obtain ⟨c, hc1, _, hc3⟩ := peekDl_zipApp (b := rs) (emitFields_heads fs tfs (g + 1) r rep hfit)
            (by omega) (by omega)
          simp only [emit, zipApp, List.cons_append, List.nil_append, readG, hf, hc1,
            readValue_valueCell]
          cases hu : unshredFields fs tfs with
          | none => simp [unshredR, hu, expect]
          | some ofs =>
            cases v with
            | none => simp [hc3, unshredR, hu, expect]
            | some x => cases x <;> simp [hc3, unshredR, hu, expect]
theorem readFields_emit : ∀ fs, lvOKFields fs = true → ∀ tfs g r rep rest,
    slotFitsFields fs tfs = true → rest.length = numLeavesFields fs → capped r rest →
    readFields fs g r (zipApp (emitFields fs g r rep tfs) rest) =
      (unshredFields fs tfs).map (fun ofs => (ofs, rest))
  | [], _, tfs, g, r, rep, rest, hfit, hl, _ => by
    cases tfs with
    | cons _ _ => simp [slotFitsFields] at hfit
    | nil =>
      simp only [numLeavesFields, List.length_eq_zero_iff] at hl
      simp [hl, emitFields, numLeavesFields, nullCols, zipApp, readFields, unshredFields]
  | (name, s) :: fs, hw, tfs, g, r, rep, rest, hfit, hl, hcap => by
    cases tfs with
    | nil => simp [slotFitsFields] at hfit
    | cons f sls =>
      obtain ⟨k, sl⟩ := f
      simp only [slotFitsFields, Bool.and_eq_true] at hfit
      simp only [lvOKFields, Bool.and_eq_true] at hw
      simp only [numLeavesFields] at hl
      have l1 := emit_length s sl g r rep hfit.1
      have hz := zipApp_append (emit s g r rep sl) (emitFields fs g r rep sls)
        (rest.take (numLeaves s)) (rest.drop (numLeaves s)) (by simp [l1]; omega)
      rw [List.take_append_drop] at hz
      have hA : (zipApp (emit s g r rep sl) (rest.take (numLeaves s))).length = numLeaves s := by
        simp [zipApp_length, l1]; omega
      have h1 := readG_emit s hw.1 sl g r rep (rest.take (numLeaves s)) hfit.1 (by simp; omega)
        (fun col hc => hcap col (List.mem_of_mem_take hc))
      have h2 := readFields_emit fs hw.2 sls g r rep (rest.drop (numLeaves s)) hfit.2
        (by simp; omega) (fun col hc => hcap col (List.mem_of_mem_drop hc))
      simp only [emitFields, hz, readFields, List.take_left' hA, List.drop_left' hA, h1, h2]
      cases hu : unshredR s sl <;> cases hus : unshredFields fs sls <;>
        simp [expect, unshredFields, hu, hus]
end

/-! ### what the writer shreds fits the schema -/

theorem fits_shredList (e : Schema) (he : ∀ v, slotFits e (shred e v) = true) :
    ∀ es, slotFitsList e (shredList e es) = true
  | [] => by simp [shredList, slotFitsList]
  | x :: xs => by simp [shredList, slotFitsList, he x, fits_shredList e he xs]

mutual
theorem fits_shred : ∀ s v, slotFits s (shred s v) = true
  | .untyped, v => by simp [shred, slotFits]
  | .prim t, v => by
    cases v with
    | prim p => by_cases hm : matchesP t p = true <;> simp [shred, slotFits, hm]
    | arr es => simp [shred, slotFits]
    | obj fs => simp [shred, slotFits]
  | .list e, v => by
    cases v with
    | prim p => simp [shred, slotFits]
    | obj fs => simp [shred, slotFits]
    | arr es => simp [shred, slotFits, fits_shredList e (fun v => fits_shred e v) es]
  | .obj fields, v => by
    cases v with
    | prim p => simp [shred, slotFits]
    | arr es => simp [shred, slotFits]
    | obj fs => simp [shred, slotFits, fits_shredFields fields fs]
theorem fits_shredFields : ∀ fields fs, slotFitsFields fields (shredFields fields fs) = true
  | [], fs => by simp [shredFields, slotFitsFields]
  | (name, s) :: rest, fs => by
    simp only [shredFields, slotFitsFields, Bool.and_eq_true]
    refine ⟨?_, fits_shredFields rest fs⟩
    cases findField name fs with
    | none => simp [slotFits]
    | some fv => exact fits_shred s fv
end

/-! ### a run of occurrences (the elements of repeated ancestors, the rows of a chunk) -/

/-- the column streams holding a run of occurrences, each with its own first repetition level -/
def emitAll (s : Schema) (g r : Nat) : List (Nat × Slot) → List Col
  | [] => List.replicate (numLeaves s) []
  | (rep, sl) :: rest => zipApp (emit s g r rep sl) (emitAll s g r rest)

/-- `n` successive calls of the reader on the same cursors -/
def readAll (s : Schema) (g r : Nat) : Nat → List Col → Option (List RRes × List Col)
  | 0, cols => some ([], cols)
  | n + 1, cols =>
    match readG s g r cols with
    | none => none
    | some (x, cols') =>
      match readAll s g r n cols' with
      | none => none
      | some (xs, c) => some (x :: xs, c)

theorem emitAll_length (s : Schema) (g r : Nat) :
    ∀ occs : List (Nat × Slot), (∀ o ∈ occs, slotFits s o.2 = true) →
      (emitAll s g r occs).length = numLeaves s
  | [], _ => by simp [emitAll]
  | (rep, sl) :: rest, h => by
    simp only [emitAll, zipApp_length, emit_length s sl g r rep (h (rep, sl) (by simp)),
      emitAll_length s g r rest (fun o ho => h o (by simp [ho]))]
    omega

theorem emitAll_capped (s : Schema) (g r : Nat) :
    ∀ occs : List (Nat × Slot), (∀ o ∈ occs, slotFits s o.2 = true ∧ o.1 ≤ r) →
      capped r (emitAll s g r occs)
  | [], _ => by
    intro col hc c tl he
    simp only [emitAll, List.mem_replicate] at hc
    rw [hc.2] at he
    cases he
  | (rep, sl) :: rest, h => by
    have h0 := h (rep, sl) (by simp)
    exact capped_mono (capped_of_heads (headsOk_zipApp (emit_heads s sl g r rep h0.1))) h0.2

theorem readAll_emitAll' (s : Schema) (hs : lvOK s = true) (g r : Nat) :
    ∀ occs : List (Nat × Slot),
      (∀ o ∈ occs, slotFits s o.2 = true ∧ o.1 ≤ r ∧ unshredR s o.2 ≠ .err) →
      readAll s g r occs.length (emitAll s g r occs) =
        some (occs.map (fun o => unshredR s o.2), List.replicate (numLeaves s) [])
  | [], _ => by simp [readAll, emitAll]
  | (rep, sl) :: rest, h => by
    have h0 := h (rep, sl) (by simp)
    have hrest : ∀ o ∈ rest, slotFits s o.2 = true ∧ o.1 ≤ r ∧ unshredR s o.2 ≠ .err :=
      fun o ho => h o (by simp [ho])
    have hr := readG_emit s hs sl g r rep (emitAll s g r rest) h0.1
      (emitAll_length s g r rest (fun o ho => (hrest o ho).1))
      (emitAll_capped s g r rest (fun o ho => ⟨(hrest o ho).1, (hrest o ho).2.1⟩))
    have ih := readAll_emitAll' s hs g r rest hrest
    simp only [List.length_cons, readAll, emitAll, hr]
    cases hu : unshredR s sl with
    | err => exact absurd hu h0.2.2
    | missing => simp [expect, ih, hu]
    | val v => simp [expect, ih, hu]

end PqModel.Variant
