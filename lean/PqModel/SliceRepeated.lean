namespace PqModel.Seek

/-! # `repeatedPage.Slice` on level lists (page_repeated.go:60-112)

`FilePages.ReadPage` returns `page.Slice(skip, numRows)` when a seek lands inside a page; for a
column below a repeated field the slice bounds are found by scanning the repetition levels.

* MIRROR: `scanZero` (both `for` loops, lines 81-89 and 91-99), `sliceIdx`, `sliceRepeated`.
* SPEC: a page is a list of rows, each row a level list `0 :: t` with `t` free of zeros; the slice
  `i..j` is the concatenation of rows `i..j-1`. -/

/-- MIRROR of one scan loop: `k` is the index of the head of the list, `cnt` is `rowIndex0`,
    `dflt` the value the result variable was initialised with (`len(repetitionLevels)`). -/
def scanZero (target : Nat) : List Nat → Nat → Nat → Nat → Nat × Nat
  | [], _, cnt, dflt => (dflt, cnt)
  | x :: xs, k, cnt, dflt =>
    if x = 0 then
      if cnt = target then (k, cnt) else scanZero target xs (k + 1) (cnt + 1) dflt
    else scanZero target xs (k + 1) cnt dflt

/-- MIRROR of lines 77-99: `(rowIndex1, rowIndex2)` -/
def sliceIdx (rep : List Nat) (i j : Nat) : Nat × Nat :=
  let r1 := scanZero i rep 0 0 rep.length
  let r2 := scanZero j (rep.drop r1.1) r1.1 r1.2 rep.length
  (r1.1, r2.1)

/-- MIRROR of lines 100-111: the sliced level lists and the bounds handed to `base.Slice`
    (indexes into the non-null values) -/
def sliceRepeated (maxDef : Nat) (rep dfn : List Nat) (i j : Nat) : (List Nat × List Nat) × (Nat × Nat) :=
  let ab := sliceIdx rep i j
  let a := ab.1
  let b := ab.2
  let nulls1 := ((dfn.take a).filter (· ≠ maxDef)).length
  let nulls2 := (((dfn.drop a).take (b - a)).filter (· ≠ maxDef)).length
  (((rep.drop a).take (b - a), (dfn.drop a).take (b - a)), (a - nulls1, b - (nulls1 + nulls2)))

/-- SPEC: a row of repetition levels -/
def RowWF (r : List Nat) : Prop := ∃ t, r = 0 :: t ∧ ∀ x ∈ t, x ≠ 0

theorem scanZero_skip (target : Nat) : ∀ (t l : List Nat) (k cnt d : Nat), (∀ x ∈ t, x ≠ 0) →
    scanZero target (t ++ l) k cnt d = scanZero target l (k + t.length) cnt d
  | [], l, k, cnt, d, _ => by simp
  | x :: t, l, k, cnt, d, h => by
    have hx : x ≠ 0 := h x (by simp)
    simp only [List.cons_append, scanZero, if_neg hx]
    rw [scanZero_skip target t l (k + 1) cnt d (fun y hy => h y (by simp [hy]))]
    simp only [List.length_cons]
    congr 1
    omega

theorem scanZero_rows (target : Nat) : ∀ (rows : List (List Nat)) (k cnt d : Nat),
    (∀ r ∈ rows, RowWF r) → cnt ≤ target →
    scanZero target rows.flatten k cnt d =
      if target - cnt < rows.length then (k + (rows.take (target - cnt)).flatten.length, target)
      else (d, cnt + rows.length)
  | [], k, cnt, d, _, _ => by simp [scanZero]
  | r :: rs, k, cnt, d, h, hc => by
    obtain ⟨t, rfl, ht⟩ := h r (by simp)
    have hrs : ∀ r ∈ rs, RowWF r := fun r hr => h r (by simp [hr])
    simp only [List.flatten_cons, List.cons_append, scanZero, if_true]
    rcases Nat.lt_or_ge cnt target with hlt | hge
    · have hne : cnt ≠ target := by omega
      rw [if_neg hne, scanZero_skip target t rs.flatten (k + 1) (cnt + 1) d ht,
        scanZero_rows target rs (k + 1 + t.length) (cnt + 1) d hrs (by omega)]
      have e : target - cnt = (target - (cnt + 1)) + 1 := by omega
      rw [e]
      simp only [List.length_cons, List.take_succ_cons, List.flatten_cons, List.length_append,
        Nat.add_lt_add_iff_right]
      split
      · congr 1; omega
      · congr 1; omega
    · have heq : cnt = target := by omega
      subst heq
      simp

theorem flatten_take_length_le (rows : List (List Nat)) (n : Nat) :
    (rows.take n).flatten.length ≤ rows.flatten.length := by
  induction rows generalizing n with
  | nil => simp
  | cons r rs ih =>
    cases n with
    | zero => simp
    | succ n => have := ih n; simp only [List.take_succ_cons, List.flatten_cons, List.length_append]; omega

theorem drop_flatten_take (rows : List (List Nat)) : ∀ n,
    rows.flatten.drop (rows.take n).flatten.length = (rows.drop n).flatten := by
  induction rows with
  | nil => intro n; simp
  | cons r rs ih =>
    intro n
    cases n with
    | zero => simp
    | succ n =>
      simp only [List.take_succ_cons, List.flatten_cons, List.length_append, List.drop_succ_cons]
      rw [List.drop_append]
      simp only [Nat.add_sub_cancel_left]
      rw [List.drop_eq_nil_of_le (by omega), List.nil_append]
      exact ih n

theorem take_flatten_take (rows : List (List Nat)) : ∀ n,
    rows.flatten.take (rows.take n).flatten.length = (rows.take n).flatten := by
  induction rows with
  | nil => intro n; simp
  | cons r rs ih =>
    intro n
    cases n with
    | zero => simp
    | succ n =>
      simp only [List.take_succ_cons, List.flatten_cons, List.length_append]
      rw [List.take_append]
      simp only [Nat.add_sub_cancel_left]
      rw [List.take_of_length_le (by omega), ih n]

theorem take_split (rows : List (List Nat)) (i j : Nat) (hij : i ≤ j) :
    rows.take j = rows.take i ++ (rows.drop i).take (j - i) := by
  have : j = i + (j - i) := by omega
  rw [this, List.take_add]
  simp

/-- the mirror's indexes are the value offsets of rows `i` and `j` -/
theorem sliceIdx_spec (rows : List (List Nat)) (h : ∀ r ∈ rows, RowWF r) (i j : Nat)
    (hij : i ≤ j) (hj : j ≤ rows.length) :
    sliceIdx rows.flatten i j = ((rows.take i).flatten.length, (rows.take j).flatten.length) := by
  unfold sliceIdx
  have h1 := scanZero_rows i rows 0 0 rows.flatten.length h (Nat.zero_le _)
  simp only [Nat.sub_zero, Nat.zero_add] at h1
  rcases Nat.lt_or_ge i rows.length with hi | hi
  · rw [if_pos hi] at h1
    simp only [h1]
    rw [drop_flatten_take]
    have hd : ∀ r ∈ rows.drop i, RowWF r := fun r hr => h r (List.mem_of_mem_drop hr)
    rw [scanZero_rows j (rows.drop i) _ i rows.flatten.length hd hij]
    simp only [List.length_drop]
    rcases Nat.lt_or_ge j rows.length with hjl | hjl
    · rw [if_pos (by omega)]
      simp only [Prod.mk.injEq, true_and]
      rw [take_split rows i j hij]
      simp
    · have : j = rows.length := by omega
      subst this
      rw [if_neg (by omega)]
      simp
  · have hi' : i = rows.length := by omega
    have hj' : j = rows.length := by omega
    subst hi'
    rw [if_neg (by omega)] at h1
    simp only [h1, hj']
    rw [List.drop_eq_nil_of_le (Nat.le_refl _)]
    simp [scanZero]

/-- **slice_spec**: `Slice(i, j)` keeps exactly the repetition levels of rows `i..j-1`. -/
theorem slice_levels (rows : List (List Nat)) (h : ∀ r ∈ rows, RowWF r) (i j : Nat)
    (hij : i ≤ j) (hj : j ≤ rows.length) :
    let ab := sliceIdx rows.flatten i j
    (rows.flatten.drop ab.1).take (ab.2 - ab.1) = ((rows.drop i).take (j - i)).flatten := by
  simp only [sliceIdx_spec rows h i j hij hj]
  rw [drop_flatten_take]
  have e : (rows.take j).flatten.length - (rows.take i).flatten.length
      = ((rows.drop i).take (j - i)).flatten.length := by
    rw [take_split rows i j hij]
    simp
  rw [e, take_flatten_take]

theorem filter_split_length (p : Nat → Bool) (l : List Nat) :
    (l.filter p).length + (l.filter (fun x => !p x)).length = l.length := by
  induction l with
  | nil => rfl
  | cons x xs ih =>
    cases hp : p x <;> simp [List.filter, hp] <;> omega

/-- the bounds handed to `base.Slice` count the defined (non-null) values in front of the two cuts -/
theorem slice_base_bounds (maxDef : Nat) (rep dfn : List Nat) (i j : Nat)
    (hlen : dfn.length = rep.length) (hab : (sliceIdx rep i j).1 ≤ (sliceIdx rep i j).2)
    (hb : (sliceIdx rep i j).2 ≤ rep.length) :
    (sliceRepeated maxDef rep dfn i j).2 =
      (((dfn.take (sliceIdx rep i j).1).filter (· == maxDef)).length,
       ((dfn.take (sliceIdx rep i j).2).filter (· == maxDef)).length) := by
  simp only [sliceRepeated]
  generalize (sliceIdx rep i j).1 = a at hab hb ⊢
  generalize (sliceIdx rep i j).2 = b at hab hb ⊢
  have e1 := filter_split_length (· == maxDef) (dfn.take a)
  have e2 := filter_split_length (· == maxDef) ((dfn.drop a).take (b - a))
  have hsplit : dfn.take b = dfn.take a ++ (dfn.drop a).take (b - a) := by
    have : b = a + (b - a) := by omega
    rw [this, List.take_add]
    simp
  have l1 : (dfn.take a).length = a := by simp; omega
  have l2 : ((dfn.drop a).take (b - a)).length = b - a := by simp; omega
  have n1 : ∀ l : List Nat, (l.filter (fun x => !(x == maxDef))) = l.filter (· ≠ maxDef) := by
    intro l; congr 1; funext x; cases h : x == maxDef <;> simp_all
  rw [n1] at e1 e2
  rw [hsplit, List.filter_append, List.length_append]
  congr 1 <;> omega

end PqModel.Seek
