/-! # The leaf windows of the columnar `VariantReader` (round 6)

MIRROR of `variant_column_reader.go`: how one leaf column of the variant subtree is cut into row
windows (`variantLeafReader.readWindow` / `ensurePage` / `setPage` + `checkPageValues` /
`consumeSlot`), the slot-group index of a window (`variantLeafWindow.starts` / `slotOf`) and the
`Next` / `SeekToRow` bookkeeping of the reader as one leaf sees it (`rowOffset`, `pendingSeek`, lazy
`open`).

Representation. A page is its level pairs and its dense (non-null) values. The Go reader keeps
`(page, ppos, pdense)` and indexes `pdefs[ppos]`, `preps[ppos]`, `values[pdense]`; the mirror keeps
the part of the page not consumed yet, already zipped (`cellsOf` = the `ppos`/`pdense` walk of
`consumeSlot`/`appendValue` done at `setPage` time), so `l.cur.head` is `(pdefs[ppos], preps[ppos],
values[pdense])`. A page without definition levels (`pdefs == nil`) is a page whose levels all equal
`maxDef`; without repetition levels, all `0`. A window is the list of the cells consumed, in order;
`defs`, `reps`, `denseIdx`, `values` of `variantLeafWindow` are views of it.

SPEC side (not a mirror): `Pages.SeekToRow(k)` followed by `ReadPage` is taken by its contract (C08:
seeking to a row = skipping to it): the cells delivered afterwards are the cells of rows `k..`, in
SOME pagination; `seekLeaf` picks the one-page pagination, and `readWindow_rows` shows the
pagination does not matter. -/
namespace PqModel.VariantWindow

/-- one slot of a leaf column: definition level, repetition level, payload (`none` = null slot) -/
structure Cell where
  d : Nat
  r : Nat
  v : Option Nat
deriving DecidableEq

/-- a data page as `setPage` sees it: `(def, rep)` per slot, and the decoded non-null values -/
structure Page where
  lv : List (Nat × Nat)
  vals : List Nat

/-- the `ppos`/`pdense` walk (`consumeSlot` variant_column_reader.go:1519-1536 with `appendValue`
    :1538-1588 taking `values[pdense]`): a slot carries a value iff its definition level is `maxDef` -/
def cellsOf (maxDef : Nat) : List (Nat × Nat) → List Nat → List Cell
  | [], _ => []
  | (d, r) :: lv, vs =>
    if d = maxDef then
      match vs with
      | v :: vs' => ⟨d, r, some v⟩ :: cellsOf maxDef lv vs'
      | [] => ⟨d, r, none⟩ :: cellsOf maxDef lv []
    else ⟨d, r, none⟩ :: cellsOf maxDef lv vs

/-- `countLevelsEqual(pdefs, maxDef)` -/
def countDef (maxDef : Nat) : List (Nat × Nat) → Nat
  | [] => 0
  | (d, _) :: lv => (if d = maxDef then 1 else 0) + countDef maxDef lv

/-- `checkPageValues` variant_column_reader.go:1461-1494: `have < needed` is ErrCorrupted -/
def pageOK (maxDef : Nat) (p : Page) : Bool := decide (countDef maxDef p.lv ≤ p.vals.length)

/-- `(page, ppos, pdense)` as the cells not consumed yet, and the pages `ReadPage` will still return -/
structure Leaf where
  cur : List Cell
  rest : List Page

inductive Err where
  | eof | corrupted | ended | fuel
deriving DecidableEq

/-- `ensurePage` variant_column_reader.go:1371-1390: while there is no current page or it is used up,
    read the next one (`setPage`, which checks it) -/
def ensurePage (maxDef : Nat) : List Page → List Cell → Except Err (List Cell × List Page)
  | rest, c :: cs => .ok (c :: cs, rest)
  | [], [] => .error .eof
  | p :: ps, [] => if pageOK maxDef p then ensurePage maxDef ps (cellsOf maxDef p.lv p.vals) else .error .corrupted

/-- the loop of `readWindow` variant_column_reader.go:1341-1368; `w` is the window filled so far
    (`consumeSlot` appends). The fuel bounds the number of iterations (one slot each). -/
def readLoop (maxDef nRows : Nat) : Nat → Leaf → List Cell → Nat → Bool → Except Err (List Cell × Leaf)
  | 0, _, _, _, _ => .error .fuel
  | fuel + 1, l, w, rowsDone, started =>
    match ensurePage maxDef l.rest l.cur with
    | .error .eof =>
      if (if started then rowsDone + 1 else rowsDone) = nRows then .ok (w, ⟨[], []⟩) else .error .ended
    | .error e => .error e
    | .ok ([], _) => .error .fuel
    | .ok (c :: cs, rest) =>
      if c.r = 0 then
        if started then
          if rowsDone + 1 = nRows then .ok (w, ⟨c :: cs, rest⟩)
          else readLoop maxDef nRows fuel ⟨cs, rest⟩ (w ++ [c]) (rowsDone + 1) true
        else readLoop maxDef nRows fuel ⟨cs, rest⟩ (w ++ [c]) rowsDone true
      else readLoop maxDef nRows fuel ⟨cs, rest⟩ (w ++ [c]) rowsDone started

/-- everything the leaf will still deliver -/
def stream (maxDef : Nat) (l : Leaf) : List Cell :=
  l.cur ++ (l.rest.map (fun p => cellsOf maxDef p.lv p.vals)).flatten

/-- `readWindow(nRows)` variant_column_reader.go:1321-1369 once the leaf is open and positioned
    (`w.reset()`, `rowsDone = 0`, `started = false`) -/
def readWindow (maxDef nRows : Nat) (l : Leaf) : Except Err (List Cell × Leaf) :=
  readLoop maxDef nRows ((stream maxDef l).length + 1) l [] 0 false

/-! ## views of a window -/

def winDefs (w : List Cell) : List Nat := w.map (·.d)

/-- `w.reps`: only recorded when the leaf is repeated (`maxRep > 0`) -/
def winReps (maxRep : Nat) (w : List Cell) : List Nat := if maxRep = 0 then [] else w.map (·.r)

/-- `w.denseIdx` / `w.dense`: slot → index of its value in the typed buffers, `-1` for null slots -/
def denseIdxFrom : Nat → List Cell → List Int
  | _, [] => []
  | k, c :: cs => if c.v.isSome then (k : Int) :: denseIdxFrom (k + 1) cs else (-1) :: denseIdxFrom k cs

def winValues (w : List Cell) : List Nat := w.filterMap (·.v)

/-! ## slot groups: `starts` / `slotOf` -/

/-- the loop of `starts` variant_column_reader.go:1248-1252: slots whose repetition level is ≤ depth -/
def startsFrom (depth : Nat) : Nat → List Nat → List Nat
  | _, [] => []
  | i, rp :: t => if rp ≤ depth then i :: startsFrom depth (i + 1) t else startsFrom depth (i + 1) t

/-- `variantLeafWindow.starts(depth)` variant_column_reader.go:1234-1258 (the cache is a pure memo) -/
def starts (reps : List Nat) (nslots depth : Nat) : List Nat :=
  (if reps = [] then List.range nslots else startsFrom depth 0 reps) ++ [nslots]

/-- `variantLeafWindow.slotOf(depth, g)` variant_column_reader.go:1218-1232 -/
def slotOf (reps : List Nat) (nslots depth g : Nat) : Option Nat :=
  if reps = [] then (if g ≥ nslots then none else some g)
  else
    let s := starts reps nslots depth
    if g ≥ s.length - 1 then none else s[g]?

/-! ## `Next` / `SeekToRow` as one leaf sees them -/

/-- SPEC (C08 contract of `Pages.SeekToRow`, not a mirror): drop the first `k` rows of a cell stream -/
def dropRows : Nat → List Cell → List Cell
  | 0, cs => cs
  | _ + 1, [] => []
  | k + 1, _ :: cs => dropRows k (cs.dropWhile (fun c => c.r ≠ 0))

def allCells (maxDef : Nat) (col : List Page) : List Cell :=
  (col.map (fun p => cellsOf maxDef p.lv p.vals)).flatten

/-- SPEC: the page source after `Pages.SeekToRow(k)`, as one page holding the rows `k..` -/
def seekLeaf (maxDef : Nat) (col : List Page) (k : Nat) : Leaf := ⟨dropRows k (allCells maxDef col), []⟩

/-- the reader fields one leaf depends on, and the leaf's own state.
    `attached`: some cursor of the tree uses the leaf (`collectLeaves` finds it; cursors are only
    ever added). `pendingSeek = none` is Go's `-1`. -/
structure St where
  numRows : Nat
  rowOffset : Nat
  failed : Bool
  attached : Bool
  opened : Bool
  pendingSeek : Option Nat
  leaf : Leaf

inductive Op where
  | next (n : Nat)
  | seek (k : Nat)
  | attach
deriving DecidableEq

/-- what a call shows: a window of the leaf, end of row group, an error, or nothing to see -/
inductive Out where
  | win (n : Nat) (w : List Cell)
  | rows (n : Nat)
  | eof
  | err
  | nothing
deriving DecidableEq

def init (numRows : Nat) : St :=
  { numRows, rowOffset := 0, failed := false, attached := false, opened := false, pendingSeek := none,
    leaf := ⟨[], []⟩ }

/-- the leaf as `readWindow` :1321-1336 finds it before the loop. `open()` :1307-1319: `l.pages =
    chunk.Pages()`, and `pendingSeek = rowOffset` when `rowOffset > 0` and no seek is pending; then a
    pending seek releases the current page and calls `pages.SeekToRow` -/
def positioned (maxDef : Nat) (col : List Page) (s : St) : Leaf :=
  let pending :=
    if s.opened then s.pendingSeek
    else if s.rowOffset > 0 ∧ s.pendingSeek = none then some s.rowOffset else s.pendingSeek
  match pending with
  | some k => seekLeaf maxDef col k
  | none => if s.opened then s.leaf else ⟨[], col⟩

/-- `VariantReader.Next` :341-372 (for one leaf: `readWindow` :1321-1339 with `open` :1307-1319),
    `VariantReader.SeekToRow` :390-404, and a cursor being created on the leaf. -/
def step (maxDef : Nat) (col : List Page) (s : St) : Op → St × Out
  | .attach => ({ s with attached := true }, .nothing)
  | .seek k =>
    if s.failed then (s, .err)
    else if k > s.numRows then (s, .err)
    else ({ s with rowOffset := k, pendingSeek := if s.opened then some k else s.pendingSeek }, .nothing)
  | .next n =>
    if s.failed then (s, .err)
    else if n = 0 then (s, .rows 0)
    else if s.numRows ≤ s.rowOffset then (s, .eof)
    else
      let n := if n > s.numRows - s.rowOffset then s.numRows - s.rowOffset else n
      if ¬ s.attached then ({ s with rowOffset := s.rowOffset + n }, .rows n)
      else
        let leaf := positioned maxDef col s
        match readWindow maxDef n leaf with
        | .error _ => ({ s with failed := true, opened := true, pendingSeek := none, leaf := leaf }, .err)
        | .ok (w, leaf') =>
          ({ s with rowOffset := s.rowOffset + n, opened := true, pendingSeek := none, leaf := leaf' }, .win n w)

def run (maxDef : Nat) (col : List Page) : St → List Op → List Out
  | _, [] => []
  | s, op :: ops => (step maxDef col s op).2 :: run maxDef col (step maxDef col s op).1 ops

end PqModel.VariantWindow
