import PqModel.IoFaultRead
import PqModel.MergeLoser

/-! # C14 — the k-way merge reader `mergedRowReader` over sources that may fail

MIRROR of `mergedRowReader.initialize` (merge.go:827-854) and `mergedRowReader.ReadRows`
(merge.go:856-949) with `bufferedRowReader.read` (merge.go:1073-1101, the mirror `Rd.Buf.read` of
IoFaultRead.lean): the refill of the winner's buffer, the drop of an input on io.EOF
(`winner = -1; count--`), the `return n, err` of every other error, the `count == 0` -> io.EOF exit.
The tournament tree is the C09 transliteration (`Merge.playInitialGames` merge.go:973-986,
`Merge.replayLoop` merge.go:1004-1022) run on the head keys of the buffers (`hv`).
Run mode (merge.go:898-933, `streak >= 3`: `runBound`, `runLength`, the bulk emission and
`advance`) is mirrored too (`runEmit`, with C09's `Merge.runBoundLoop` / `Merge.runLength`), so the
mirror follows the code on unsorted inputs as well.  An index out of range
(`m.buffers[m.winner]` with `winner = -1` while `count != 0`) is the result `panic`.
SPEC: `Rd.Src` (the scripted failing source of IoFaultRead.lean).

Rows are integers (the sort key); the output carries the index of the input. -/
namespace PqModel.IoFault.RdK
open PqModel.IoFault.Rd

inductive KRes | nil | eof | err | panic
  deriving DecidableEq, Repr

/-- head view of a buffer for the tree functions of C09 (they read `head()` only) -/
def hv (b : Buf) : Merge.Buf :=
  { src := [], sizes := [], win := b.win.map (fun x => ⟨x, 0, 0⟩), cap := 0, full := false }

def dsrc : Src := ⟨[], none, false, false⟩
def dbuf : Buf := Buf.fresh dsrc

/-- MIRROR `mergedRowReader` (merge.go:807-816) -/
structure MK where
  bufs : List Buf
  losers : List Int
  count : Nat
  winner : Int
  winnerLeaf : Int
  streak : Nat
  initialized : Bool
  deriving DecidableEq

def MK.new (srcs : List Src) : MK := ⟨srcs.map Buf.fresh, [], 0, 0, 0, 0, false⟩

/-- number of entries that name an input (`>= 0`) -/
def nn (l : List Int) : Nat := (l.filter (fun x => decide (0 ≤ x))).length

/-- MIRROR merge.go:837-847: the first `read()` of every buffer, in order; stops at the first error
other than io.EOF. Result: (error?, buffers, leaves). -/
def initReads : List Buf → Nat → Res × List Buf × List Int
  | [], _ => (.nil, [], [])
  | b :: bs, i =>
    match b.read with
    | (.err, b') => (.err, b' :: bs, [])
    | (.eof, b') => let r := initReads bs (i + 1); (r.1, b' :: r.2.1, (-1) :: r.2.2)
    | (.nil, b') => let r := initReads bs (i + 1); (r.1, b' :: r.2.1, (i : Int) :: r.2.2)

/-- MIRROR `mergedRowReader.initialize` (merge.go:827-854); on an error `count = 0` (merge.go:844) -/
def MK.init (st : MK) : Res × MK :=
  let k := st.bufs.length
  let r := initReads st.bufs 0
  if r.1 = .err then
    (.err, { st with bufs := r.2.1, losers := List.replicate k 0, count := 0, initialized := true })
  else if nn r.2.2 > 0 then
    let g := Merge.playInitialGames (r.2.1.map hv) r.2.2 k 0 (List.replicate k 0)
    (.nil, { bufs := r.2.1, losers := g.2, count := nn r.2.2, winner := g.1, winnerLeaf := (k : Int) + g.1,
             streak := st.streak, initialized := true })
  else
    (.nil, { st with bufs := r.2.1, losers := List.replicate k 0, count := 0, initialized := true })

/-- MIRROR `replayGames` (merge.go:1004-1022) -/
def MK.replay (st : MK) : MK :=
  let r := Merge.replayLoop (st.bufs.map hv) st.bufs.length ((st.winnerLeaf.toNat - 1) / 2) st.winner st.losers
  { st with losers := r.2, winner := r.1, winnerLeaf := (st.bufs.length : Int) + r.1 }

def MK.cur (st : MK) : Buf := st.bufs.getD st.winner.toNat dbuf
def MK.setBuf (st : MK) (c : Buf) : MK := { st with bufs := st.bufs.set st.winner.toNat c }

def toRow (x : Int) : Merge.Row := ⟨x, 0, 0⟩

/-- MIRROR `runBound` (merge.go:957-968) -/
def MK.runBound (st : MK) : Option Merge.Row :=
  Merge.runBoundLoop (st.bufs.map hv) st.losers st.bufs.length ((st.winnerLeaf.toNat - 1) / 2) none

/-- MIRROR merge.go:915-918: the length of the run inside the (truncated) window -/
def runOf (bound : Option Merge.Row) (window : List Int) : Nat :=
  match bound with
  | some b => Merge.runLength (window.map toRow) b 0
  | none => window.length

/-- MIRROR of the bulk emission loop of run mode (merge.go:910-929) on the winner's buffer `c`,
`m = len(rows) - n`. Result: the rows, the buffer, `true` = the function returned (`!c.advance(run)`). -/
def runEmit (bound : Option Merge.Row) : Nat → Nat → Buf → List Int × Buf × Bool
  | 0, _, c => ([], c, false)
  | f + 1, m, c =>
    if m = 0 then ([], c, false) else
    let run := runOf bound (c.win.take m)
    if c.win.drop run = [] then ((c.win.take m).take run, { c with win := c.win.drop run }, true)
    else if run < (c.win.take m).length then ((c.win.take m).take run, { c with win := c.win.drop run }, false)
    else
      let r := runEmit bound f (m - run) { c with win := c.win.drop run }
      ((c.win.take m).take run ++ r.1, r.2)

def tagK (i : Nat) (l : List Int) : List (Nat × Int) := l.map (fun x => (i, x))

/-- MIRROR of the loop of `ReadRows` (merge.go:865-949), `m = len(rows) - n`; one unit of fuel per
iteration (a call needs at most `len(rows) + 2`). -/
def MK.loop : Nat → Nat → MK → (List (Nat × Int) × KRes) × MK
  | 0, _, st => (([], .nil), st)
  | f + 1, m, st =>
    if m = 0 ∨ st.count = 0 then (([], if st.count = 0 then .eof else .nil), st)
    else if st.winner < 0 ∨ st.bufs.length ≤ st.winner.toNat then (([], .panic), st)
    else
      match st.cur.win with
      | [] =>
        match st.cur.read with
        | (.nil, c') =>
          let st2 := (st.setBuf c').replay
          MK.loop f m { st2 with streak := if st2.winner ≠ st.winner then 0 else st.streak }
        | (.eof, c') =>
          let st2 := ({ st.setBuf c' with winner := -1, count := st.count - 1 }).replay
          MK.loop f m { st2 with streak := if st2.winner ≠ -1 then 0 else st.streak }
        | (.err, c') => (([], .err), st.setBuf c')
      | x :: w' =>
        let st' := st.setBuf { st.cur with win := w' }
        if w' = [] then (([(st.winner.toNat, x)], .nil), st')
        else if 3 ≤ st.streak then
          let e := runEmit st'.runBound m (m - 1) { st.cur with win := w' }
          if e.2.2 = true then (((st.winner.toNat, x) :: tagK st.winner.toNat e.1, .nil), st.setBuf e.2.1)
          else
            let r := MK.loop f (m - 1 - e.1.length) ({ st.setBuf e.2.1 with streak := 0 }).replay
            (((st.winner.toNat, x) :: (tagK st.winner.toNat e.1 ++ r.1.1), r.1.2), r.2)
        else
          let st2 := st'.replay
          let r := MK.loop f (m - 1) { st2 with streak := if st2.winner = st.winner then st.streak + 1 else 0 }
          (((st.winner.toNat, x) :: r.1.1, r.1.2), r.2)

def MK.fuel (st : MK) (cap : Nat) : Nat := 2 * cap + st.bufs.length + 4

/-- MIRROR `mergedRowReader.ReadRows` (merge.go:856-949), `cap = len(rows)` -/
def MK.readRows (st : MK) (cap : Nat) : (List (Nat × Int) × KRes) × MK :=
  if st.initialized = true then MK.loop (st.fuel cap) cap st
  else if st.init.1 = .nil then MK.loop (st.fuel cap) cap st.init.2
  else (([], .err), st.init.2)

/-- a consumer: `ReadRows` with the given buffer lengths until a call answers anything but nil -/
def session : List Nat → MK → List (List (Nat × Int)) × KRes × MK
  | [], m => ([], .nil, m)
  | c :: cs, m =>
    let x := m.readRows c
    if x.1.2 ≠ .nil then ([x.1.1], x.1.2, x.2)
    else let r := session cs x.2; (x.1.1 :: r.1, r.2)

/-- a consumer that keeps calling after an error (retry): every call's rows and result -/
def sessionAll : List Nat → MK → List (List (Nat × Int) × KRes)
  | [], _ => []
  | c :: cs, m => (m.readRows c).1 :: sessionAll cs (m.readRows c).2

/-- the rows of input `i` in the output, in output order -/
def projK (i : Nat) (out : List (Nat × Int)) : List Int := (out.filter (fun p => p.1 == i)).map (·.2)

/-! ## lemmas -/

theorem projK_append (i : Nat) (a b : List (Nat × Int)) : projK i (a ++ b) = projK i a ++ projK i b := by
  simp [projK]

theorem getD_set_perm : ∀ (L : List Int) (o : Nat) (w : Int), 0 ≤ L.getD o (-1) →
    (L.getD o (-1) :: L.set o w).Perm (w :: L)
  | [], o, w, h => by simp at h
  | a :: L, 0, w, _ => by simpa using List.Perm.swap _ _ _
  | a :: L, o + 1, w, h => by
    have ih := getD_set_perm L o w (by simpa using h)
    simp only [List.getD_cons_succ, List.set_cons_succ]
    exact (List.Perm.swap _ _ _).trans (((List.Perm.cons a ih)).trans (List.Perm.swap _ _ _))

theorem replayStep_perm (bufs : List Merge.Buf) (o : Nat) (w : Int) (L : List Int) :
    ((Merge.replayStep bufs o w L).1 :: (Merge.replayStep bufs o w L).2).Perm (w :: L) := by
  simp only [Merge.replayStep]
  split
  · rename_i h
    simp only [Bool.and_eq_true, decide_eq_true_eq] at h
    exact getD_set_perm L o w h.1
  · exact List.Perm.refl _

theorem replayLoop_perm (bufs : List Merge.Buf) : ∀ (f o : Nat) (w : Int) (L : List Int),
    ((Merge.replayLoop bufs f o w L).1 :: (Merge.replayLoop bufs f o w L).2).Perm (w :: L)
  | 0, _, _, _ => List.Perm.refl _
  | f + 1, o, w, L => by
    simp only [Merge.replayLoop]
    split
    · exact replayStep_perm bufs o w L
    · exact (replayLoop_perm bufs f _ _ _).trans (replayStep_perm bufs o w L)

theorem nn_perm {a b : List Int} (h : a.Perm b) : nn a = nn b := (h.filter _).length_eq

/-- The invariant of a merge over `srcs` after the output `out`. `rows`: per input, emitted ++
buffered ++ still in the source = the rows of the input. `bites`: a fault that bites still bites.
`done`: with `count = 0` nothing is buffered and nothing is left. `mem`/`cnt`: while `count != 0`
every input that still holds rows is a player of the tree, and the tree has at most `count`
players. -/
structure KInv (st : MK) (srcs : List Src) (out : List (Nat × Int)) : Prop where
  len : st.bufs.length = srcs.length
  rows : ∀ i, i < srcs.length →
    projK i out ++ ((st.bufs.getD i dbuf).win ++ (st.bufs.getD i dbuf).src.rows) = (srcs.getD i dsrc).rows
  bites : ∀ i, i < srcs.length → (srcs.getD i dsrc).Bites → (st.bufs.getD i dbuf).src.Bites
  done : st.count = 0 → ∀ i, i < srcs.length →
    (st.bufs.getD i dbuf).win = [] ∧ (st.bufs.getD i dbuf).src.rows = []
  mem : st.count ≠ 0 → ∀ i, i < srcs.length →
    ((st.bufs.getD i dbuf).win ≠ [] ∨ (st.bufs.getD i dbuf).src.rows ≠ []) → (i : Int) ∈ st.winner :: st.losers
  cnt : st.count ≠ 0 → nn (st.winner :: st.losers) ≤ st.count

theorem KInv.replay {st : MK} {srcs : List Src} {out : List (Nat × Int)} (h : KInv st srcs out) :
    KInv st.replay srcs out := by
  have hp := replayLoop_perm (st.bufs.map hv) st.bufs.length ((st.winnerLeaf.toNat - 1) / 2) st.winner st.losers
  refine ⟨h.len, h.rows, h.bites, h.done, ?_, ?_⟩
  · intro hc i hi hne
    exact hp.mem_iff.mpr (h.mem hc i hi hne)
  · intro hc
    have := h.cnt hc
    simp only [MK.replay]
    rw [nn_perm hp]; exact this

theorem KInv.streak {st : MK} {srcs : List Src} {out : List (Nat × Int)} (h : KInv st srcs out) (s : Nat) :
    KInv { st with streak := s } srcs out :=
  ⟨h.len, h.rows, h.bites, h.done, h.mem, h.cnt⟩

theorem getD_set_eq {bufs : List Buf} {w : Nat} (c : Buf) (hw : w < bufs.length) :
    (bufs.set w c).getD w dbuf = c := by
  simp [List.getD_eq_getElem?_getD, hw]

theorem getD_set_ne {bufs : List Buf} {w i : Nat} (c : Buf) (h : i ≠ w) :
    (bufs.set w c).getD i dbuf = bufs.getD i dbuf := by
  simp [List.getD_eq_getElem?_getD, Ne.symm h]

/-- replacing the winner's buffer by one that holds the same rows (emitted ++ window ++ source) -/
theorem KInv.setBuf {st : MK} {srcs : List Src} {out out' : List (Nat × Int)} (h : KInv st srcs out)
    (w : Nat) (hw0 : st.winner = (w : Int)) (hw : w < st.bufs.length) (c : Buf)
    (hrows : projK w out' ++ (c.win ++ c.src.rows) = projK w out ++ (st.cur.win ++ st.cur.src.rows))
    (hother : ∀ i, i ≠ w → projK i out' = projK i out)
    (hb : st.cur.src.Bites → c.src.Bites)
    (hlive : (c.win ≠ [] ∨ c.src.rows ≠ []) → (st.cur.win ≠ [] ∨ st.cur.src.rows ≠ []))
    (hdone : st.count = 0 → c.win = [] ∧ c.src.rows = []) :
    KInv (st.setBuf c) srcs out' := by
  have hcur : st.cur = st.bufs.getD w dbuf := by simp [MK.cur, hw0]
  have hset : (st.setBuf c).bufs = st.bufs.set w c := by simp [MK.setBuf, hw0]
  refine ⟨by rw [hset]; simpa using h.len, ?_, ?_, ?_, ?_, h.cnt⟩
  · intro i hi
    by_cases e : i = w
    · subst e; rw [hset, getD_set_eq c hw, hrows, hcur]; exact h.rows i hi
    · rw [hset, getD_set_ne c e, hother i e]; exact h.rows i hi
  · intro i hi hbi
    by_cases e : i = w
    · subst e; rw [hset, getD_set_eq c hw]; apply hb; rw [hcur]; exact h.bites i hi hbi
    · rw [hset, getD_set_ne c e]; exact h.bites i hi hbi
  · intro hc i hi
    by_cases e : i = w
    · subst e; rw [hset, getD_set_eq c hw]; exact hdone hc
    · rw [hset, getD_set_ne c e]; exact h.done hc i hi
  · intro hc i hi hne
    by_cases e : i = w
    · subst e; rw [hset, getD_set_eq c hw] at hne
      have := hlive hne; rw [hcur] at this
      exact h.mem hc i hi this
    · rw [hset, getD_set_ne c e] at hne; exact h.mem hc i hi hne

/-- the input that answered io.EOF leaves the tree: `winner = -1; count--` (merge.go:871-876) -/
theorem KInv.drop {st : MK} {srcs : List Src} {out : List (Nat × Int)} (h : KInv st srcs out)
    (w : Nat) (hw0 : st.winner = (w : Int)) (hw : w < st.bufs.length) (hc : st.count ≠ 0)
    (hdead : (st.bufs.getD w dbuf).win = [] ∧ (st.bufs.getD w dbuf).src.rows = []) :
    KInv { st with winner := -1, count := st.count - 1 } srcs out := by
  have hcnt := h.cnt hc
  have hnn : nn (st.winner :: st.losers) = nn st.losers + 1 := by
    simp [nn, hw0]
  have hnn' : nn ((-1 : Int) :: st.losers) = nn st.losers := by
    simp [nn]
  have hmem : ∀ i, i < srcs.length →
      ((st.bufs.getD i dbuf).win ≠ [] ∨ (st.bufs.getD i dbuf).src.rows ≠ []) → (i : Int) ∈ st.losers := by
    intro i hi hne
    have := h.mem hc i hi hne
    rcases List.mem_cons.mp this with e | e
    · have : i = w := by omega
      subst this; rcases hne with a | a
      · exact absurd hdead.1 a
      · exact absurd hdead.2 a
    · exact e
  refine ⟨h.len, h.rows, h.bites, ?_, ?_, ?_⟩
  · intro hc0 i hi
    simp only at hc0
    have hz : nn st.losers = 0 := by omega
    by_cases hne : (st.bufs.getD i dbuf).win ≠ [] ∨ (st.bufs.getD i dbuf).src.rows ≠ []
    · have hm := hmem i hi hne
      have : (i : Int) ∈ st.losers.filter (fun x => decide (0 ≤ x)) := by
        simp [List.mem_filter, hm]
      simp only [nn] at hz
      rw [List.length_eq_zero_iff.mp hz] at this
      cases this
    · constructor
      · exact Classical.byContradiction fun a => hne (Or.inl a)
      · exact Classical.byContradiction fun a => hne (Or.inr a)
  · intro _ i hi hne
    exact List.mem_cons_of_mem _ (hmem i hi hne)
  · intro _
    show nn ((-1 : Int) :: st.losers) ≤ st.count - 1
    omega

end PqModel.IoFault.RdK
