namespace PqModel.MergeAbstract

/-! Spike: abstract k-way merge — any schedule that always emits a minimal head is sorted, complete, stable. -/

abbrev Tagged := Nat × Int

inductive Merges : List (List Int) → List Tagged → Prop where
  | done {ins : List (List Int)} : (∀ l ∈ ins, l = []) → Merges ins []
  | step {ins : List (List Int)} {i : Nat} {x : Int} {rest : List Int} {out : List Tagged} :
      ins[i]? = some (x :: rest) →
      (∀ (j : Nat) (l : List Int) (y : Int), ins[j]? = some l → l.head? = some y → x ≤ y) →
      Merges (ins.set i rest) out → Merges ins ((i, x) :: out)

def proj (i : Nat) (out : List Tagged) : List Int := (out.filter (fun t => t.1 == i)).map (·.2)

/-- per-input stability and completeness: the rows of input i come out in order, all of them -/
theorem merges_proj {ins : List (List Int)} {out : List Tagged} (h : Merges ins out) :
    ∀ i l, ins[i]? = some l → proj i out = l := by
  induction h with
  | done hall =>
    intro i l hl
    have := hall l (List.mem_of_getElem? hl)
    simp [proj, this]
  | @step ins i0 x rest out' hi hmin _ ih =>
    intro i l hl
    have hi0 : i0 < ins.length := by
      rcases Nat.lt_or_ge i0 ins.length with h | h
      · exact h
      · simp [List.getElem?_eq_none h] at hi
    by_cases he : i = i0
    · subst he
      have hl' : l = x :: rest := by rw [hi] at hl; exact (Option.some.inj hl).symm
      have h1 := ih i rest (by simp [List.getElem?_set, hi0])
      subst hl'
      simp only [proj, List.filter_cons, beq_self_eq_true, if_true, List.map_cons]
      simp only [proj] at h1
      rw [h1]
    · have hne : (i0 == i) = false := by simp; omega
      have h1 := ih i l (by
        rw [List.getElem?_set]
        have : ¬ i0 = i := fun h => he h.symm
        simp [this, hl])
      simp only [proj, List.filter_cons, hne] at h1 ⊢
      simpa using h1

theorem mem_proj {i : Nat} {y : Int} {out : List Tagged} (h : (i, y) ∈ out) : y ∈ proj i out := by
  simp only [proj, List.mem_map, List.mem_filter]
  exact ⟨(i, y), ⟨h, by simp⟩, rfl⟩

theorem merges_mem {ins : List (List Int)} {out : List Tagged} (h : Merges ins out) :
    ∀ j y, (j, y) ∈ out → ∃ l, ins[j]? = some l ∧ y ∈ l := by
  induction h with
  | done _ => intro j y hm; simp at hm
  | @step ins i0 x rest out' hi _ _ ih =>
    intro j y hm
    have hi0 : i0 < ins.length := by
      rcases Nat.lt_or_ge i0 ins.length with h | h
      · exact h
      · simp [List.getElem?_eq_none h] at hi
    rcases List.mem_cons.mp hm with heq | hm
    · have : j = i0 ∧ y = x := by simpa using heq
      exact ⟨x :: rest, by rw [this.1]; exact hi, by simp [this.2]⟩
    · rcases ih j y hm with ⟨l, hl, hy⟩
      rw [List.getElem?_set] at hl
      by_cases he : i0 = j
      · subst he
        simp [hi0] at hl
        subst hl
        exact ⟨x :: rest, hi, by simp [hy]⟩
      · simp [he] at hl
        exact ⟨l, hl, hy⟩

abbrev Sorted (l : List Int) : Prop := l.Pairwise (· ≤ ·)

theorem sorted_head_le {x y : Int} {l : List Int} (hs : Sorted l) (hh : l.head? = some x) (hy : y ∈ l) : x ≤ y := by
  cases l with
  | nil => simp at hh
  | cons a as =>
    simp at hh; subst hh
    rcases List.mem_cons.mp hy with rfl | hy
    · exact Int.le_refl _
    · exact (List.pairwise_cons.mp hs).1 y hy

/-- C09 abstract core: if every input is sorted, the merged output is sorted. -/
theorem merges_sorted {ins : List (List Int)} {out : List Tagged} (h : Merges ins out) :
    (∀ l ∈ ins, Sorted l) → Sorted (out.map (·.2)) := by
  induction h with
  | done _ => intro _; simp [Sorted]
  | @step ins i0 x rest out' hi hmin hrest ih =>
    intro hs
    have hi0 : i0 < ins.length := by
      rcases Nat.lt_or_ge i0 ins.length with h | h
      · exact h
      · simp [List.getElem?_eq_none h] at hi
    have hsx : Sorted (x :: rest) := hs _ (List.mem_of_getElem? hi)
    have hs' : ∀ l ∈ ins.set i0 rest, Sorted l := by
      intro l hl
      rcases List.mem_or_eq_of_mem_set hl with h | h
      · exact hs l h
      · subst h; exact (List.pairwise_cons.mp hsx).2
    simp only [List.map_cons]
    refine List.pairwise_cons.mpr ⟨?_, ih hs'⟩
    intro y hy
    rcases List.mem_map.mp hy with ⟨⟨j, y'⟩, hjm, rfl⟩
    rcases merges_mem hrest j y' hjm with ⟨l, hl, hyl⟩
    rw [List.getElem?_set] at hl
    by_cases he : i0 = j
    · subst he
      simp [hi0] at hl; subst hl
      exact (List.pairwise_cons.mp hsx).1 y' hyl
    · simp [he] at hl
      cases hh : l.head? with
      | none => cases l <;> simp_all
      | some z =>
        have hxz := hmin j l z hl hh
        have hzy := sorted_head_le (hs l (List.mem_of_getElem? hl)) hh hyl
        exact Int.le_trans hxz hzy

#print axioms merges_sorted
#print axioms merges_proj

end PqModel.MergeAbstract
