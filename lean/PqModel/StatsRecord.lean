import PqModel.Stats

/-! # The statistics record of one column chunk as the writer builds it (C05), and re-encoded copies.

MIRRORS of writer.go (`writePage` → `recordPageStats`, `writeRowGroup`) and writer_reencode.go. -/
namespace PqModel.Stats

/-- MIRROR writer.go `ColumnWriter.writePage` / `recordPageStats` / `writer.writeRowGroup` for one column chunk
    whose pages hold `pages` (`none` = null): per page the indexer is told `(numValues, numNulls, Bounds())`
    (`pageStats`), `null_counts` gets the page's null count, the chunk min/max are the `recordPageStats` fold of
    the page bounds (`foldChunk`), the chunk null count is the running sum. Byte-array index entries are truncated
    afterwards (`truncMin`/`truncMax`, see `skip_safe_truncated`). -/
def writerRecord {α} (o : ColOrder α) (pages : List (List (Option α))) (offsets : List Nat) : ChunkRecord α :=
  { pages := pages
    index := pages.map (fun vals => (pageStats o vals).bounds)
    nullCounts := pages.map (fun vals => (pageStats o vals).numNulls)
    chunk := foldChunk o (pages.map (fun vals => (pageStats o vals).bounds))
    chunkNulls := (pages.map (fun vals => (pageStats o vals).numNulls)).sum
    offsets := offsets }

/-- MIRROR writer_reencode.go:195-268 `writeRowGroupByColumn` / `copyColumnValues` (and the row-oriented fallback
    `CopyRows` of `WriteRowGroup`): the values of the source chunk are read back in order and handed to the
    destination column writer, which cuts its OWN pages (`newPages`, any cut of the same value sequence) and
    computes every statistic again; nothing of the source's metadata is reused. -/
def reencode {α} (o : ColOrder α) (_src : ChunkRecord α) (newPages : List (List (Option α))) (offsets : List Nat) :
    ChunkRecord α := writerRecord o newPages offsets

/-- widening index entries (truncation of byte-array bounds): entry `i` becomes `f i (mn, mx)` -/
def widenIndex {α} (f : α × α → α × α) (c : ChunkRecord α) : ChunkRecord α :=
  { c with index := c.index.map (fun e => e.map f) }

theorem countP_none_flatten {α} : ∀ pages : List (List (Option α)),
    (pages.map (fun vals => vals.countP (· = none))).sum = pages.flatten.countP (· = none)
  | [] => rfl
  | p :: rest => by
    simp only [List.map_cons, List.sum_cons, List.flatten_cons, List.countP_append, countP_none_flatten rest]

theorem numNulls_eq_countP {α} (o : ColOrder α) (vals : List (Option α)) :
    (pageStats o vals).numNulls = vals.countP (· = none) := by
  simp only [pageStats, List.countP_eq_length_filter]
  congr 1
  apply List.filter_congr
  intro x _; cases x <;> simp

end PqModel.Stats
