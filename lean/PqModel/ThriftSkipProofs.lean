import PqModel.ThriftSkip

/-! Lemmas: every reader primitive and the whole walk satisfy `Rel` (the run on a cut input agrees
    with the run on the whole input up to the cut and fails at it). -/
namespace PqModel.ThriftSkip
open PqModel.IoFault (Bytes)

theorem getElem?_take' (d : Bytes) (m pos : Nat) :
    (d.take m)[pos]? = if pos < m then d[pos]? else none := by
  rw [List.getElem?_take]

theorem readByte_rel (d : Bytes) (pos m : Nat) : Rel pos m (readByte d pos) (readByte (d.take m) pos) := by
  intro b p h
  unfold readByte at h ⊢
  rw [getElem?_take']
  split at h
  · rename_i b' hb
    cases h
    refine ⟨by omega, fun _ => ⟨fun h' => ?_, fun h' => ?_⟩⟩
    · rw [if_pos (by omega), hb]
    · rw [if_neg (by omega)]; exact ⟨_, rfl, Or.inl rfl⟩
  · cases h

theorem uvLoop_rel (d : Bytes) (m : Nat) : ∀ (k pos i x s u n : Nat), uvLoop d k pos i x s = .val u n →
    i < n ∧ (pos + (n - i) ≤ m → uvLoop (d.take m) k pos i x s = .val u n) ∧
      (m < pos + (n - i) → uvLoop (d.take m) k pos i x s = .short) := by
  intro k
  induction k with
  | zero =>
    intro pos i x s u n h
    unfold uvLoop at h
    split at h <;> cases h
  | succ k ih =>
    intro pos i x s u n h
    unfold uvLoop at h ⊢
    rw [getElem?_take']
    split at h
    · cases h
    · rename_i b hb
      split at h
      · split at h
        · cases h
        · rename_i hlt hov
          cases h
          refine ⟨by omega, fun h' => ?_, fun h' => ?_⟩
          · rw [if_pos (by omega), hb]; simp only [hlt, if_true, hov]; rfl
          · rw [if_neg (by omega)]
      · rename_i hge
        obtain ⟨h1, h2, h3⟩ := ih (pos + 1) (i + 1) _ _ u n h
        refine ⟨by omega, fun h' => ?_, fun h' => ?_⟩
        · rw [if_pos (by omega), hb]; simp only [hge, if_false]
          exact h2 (by omega)
        · by_cases hp : pos < m
          · rw [if_pos hp, hb]; simp only [hge, if_false]
            exact h3 (by omega)
          · rw [if_neg hp]

theorem readUvarint_rel (mx : Nat) (d : Bytes) (pos m : Nat) :
    Rel pos m (readUvarint mx d pos) (readUvarint mx (d.take m) pos) := by
  intro u p h
  unfold readUvarint goUvarint at h ⊢
  split at h
  · cases h
  · cases h
  · rename_i u' n hv
    split at h
    · cases h
    · rename_i hr
      cases h
      obtain ⟨h1, h2, h3⟩ := uvLoop_rel d m 10 pos 0 0 0 u n hv
      refine ⟨by omega, fun _ => ⟨fun h' => ?_, fun h' => ?_⟩⟩
      · rw [h2 (by omega)]; simp only [hr, if_false]
      · rw [h3 (by omega)]; exact ⟨_, rfl, Or.inr rfl⟩

theorem readVarint_rel (lo hi : Int) (d : Bytes) (pos m : Nat) :
    Rel pos m (readVarint lo hi d pos) (readVarint lo hi (d.take m) pos) := by
  intro u p h
  unfold readVarint goUvarint at h ⊢
  split at h
  · cases h
  · cases h
  · rename_i u' n hv
    split at h
    · cases h
    · rename_i hr
      cases h
      obtain ⟨h1, h2, h3⟩ := uvLoop_rel d m 10 pos 0 0 0 u' n hv
      refine ⟨by omega, fun _ => ⟨fun h' => ?_, fun h' => ?_⟩⟩
      · rw [h2 (by omega)]; simp [hr]
      · rw [h3 (by omega)]; exact ⟨_, rfl, Or.inr rfl⟩

theorem readFloat_rel (d : Bytes) (pos m : Nat) : Rel pos m (readFloat d pos) (readFloat (d.take m) pos) := by
  intro u p h
  unfold readFloat at h ⊢
  rw [List.length_take]
  split at h
  · cases h
  · cases h
    refine ⟨by omega, fun _ => ⟨fun h' => ?_, fun h' => ?_⟩⟩
    · rw [if_neg (by omega)]
    · rw [if_pos (by omega)]; exact ⟨_, rfl, Or.inr rfl⟩

theorem discard_rel (n : Nat) (d : Bytes) (pos m : Nat) : Rel pos m (discard n d pos) (discard n (d.take m) pos) := by
  intro u p h
  unfold discard at h ⊢
  rw [List.length_take]
  split at h
  · cases h
  · cases h
    refine ⟨by omega, fun _ => ⟨fun h' => ?_, fun h' => ?_⟩⟩
    · rw [if_neg (by omega)]
    · rw [if_pos (by omega)]; exact ⟨_, rfl, Or.inr rfl⟩

theorem Rel.ok {α} {pos m : Nat} (a : α) : Rel pos m (.ok (a, pos)) (.ok (a, pos)) := by
  intro a' p' e
  cases e
  exact ⟨Nat.le_refl _, fun _ => ⟨fun _ => rfl, fun h' => by omega⟩⟩

theorem Rel.ite {α} {pos m : Nat} (c : Prop) [Decidable c] {r1 r1' r2 r2' : PR α}
    (h1 : Rel pos m r1 r1') (h2 : Rel pos m r2 r2') :
    Rel pos m (if c then r1 else r2) (if c then r1' else r2') := by
  split
  · exact h1
  · exact h2

theorem skipBinary_rel (d : Bytes) (pos m : Nat) : Rel pos m (skipBinary d pos) (skipBinary (d.take m) pos) := by
  unfold skipBinary
  refine seq_rel _ (readUvarint_rel _ d pos m) fun n p _ => ?_
  refine Rel.ite _ (Rel.ok _) ?_
  exact seq_rel _ (discard_rel n d p m) fun _ q _ => Rel.ok _

theorem readField_rel (d : Bytes) (pos m : Nat) : Rel pos m (readField d pos) (readField (d.take m) pos) := by
  unfold readField
  refine seq_rel _ (readByte_rel d pos m) fun b p _ => ?_
  refine Rel.ite _ (Rel.ok _) (Rel.ite _ (Rel.ok _) ?_)
  exact seq_rel _ (readVarint_rel _ _ d p m) fun _ q _ => Rel.ok _

theorem readList_rel (d : Bytes) (pos m : Nat) : Rel pos m (readList d pos) (readList (d.take m) pos) := by
  unfold readList
  refine seq_rel _ (readByte_rel d pos m) fun b p _ => ?_
  refine Rel.ite _ (Rel.ok _) ?_
  exact seq_rel _ (readUvarint_rel _ d p m) fun _ q _ => Rel.ok _

theorem readMap_rel (d : Bytes) (pos m : Nat) : Rel pos m (readMap d pos) (readMap (d.take m) pos) := by
  unfold readMap
  refine seq_rel _ (readUvarint_rel _ d pos m) fun n p _ => ?_
  refine Rel.ite _ (Rel.ok _) ?_
  exact seq_rel _ (readByte_rel d p m) fun _ q _ => Rel.ok _

/-- the walk: for every fuel, task, offset and cut -/
theorem skipT_rel (d : Bytes) (m : Nat) : ∀ (f : Nat) (t : Task) (pos : Nat),
    Rel pos m (skipT d f t pos) (skipT (d.take m) f t pos) := by
  intro f
  induction f with
  | zero => intro t pos; simp only [skipT]; exact Rel.error _ _ _ _
  | succ f ih =>
    intro t pos
    cases t with
    | val ty =>
      simp only [skipT]
      split
      · exact Rel.ok _
      · exact Rel.ok _
      · exact seq_rel _ (readByte_rel d pos m) fun _ p _ => Rel.ok _
      · exact seq_rel _ (readVarint_rel _ _ d pos m) fun _ p _ => Rel.ok _
      · exact seq_rel _ (readVarint_rel _ _ d pos m) fun _ p _ => Rel.ok _
      · exact seq_rel _ (readVarint_rel _ _ d pos m) fun _ p _ => Rel.ok _
      · exact readFloat_rel d pos m
      · exact skipBinary_rel d pos m
      · exact seq_rel _ (readList_rel d pos m) fun l p _ => ih _ p
      · exact seq_rel _ (readList_rel d pos m) fun l p _ => ih _ p
      · refine seq_rel _ (readMap_rel d pos m) fun mp p _ => ?_
        cases mp with
        | none => exact Rel.ok _
        | some x => obtain ⟨kt, vt, n⟩ := x; exact ih _ p
      · exact ih _ pos
      · exact seq_rel _ (readFloat_rel d pos m) fun _ p _ => readFloat_rel d p m
      · exact Rel.error _ _ _ _
    | item ty =>
      simp only [skipT]
      refine Rel.ite _ ?_ (ih _ pos)
      exact seq_rel _ (readByte_rel d pos m) fun _ p _ => Rel.ok _
    | items ty n =>
      cases n with
      | zero => simp only [skipT]; exact Rel.ok _
      | succ n =>
        simp only [skipT]
        exact seq_rel _ (ih _ pos) fun _ p _ => ih _ p
    | pairs kt vt n =>
      cases n with
      | zero => simp only [skipT]; exact Rel.ok _
      | succ n =>
        simp only [skipT]
        exact seq_rel _ (ih _ pos) fun _ p _ => seq_rel _ (ih _ p) fun _ q _ => ih _ q
    | fields first =>
      simp only [skipT]
      refine seq_rel _ (readField_rel d pos m) fun h p _ => ?_
      cases h with
      | none => exact Rel.ok _
      | some ty => exact seq_rel _ (ih _ p) fun _ q _ => ih _ q

/-! ## more fuel never changes an accepted walk -/

/-- whatever `r` accepts, `r'` accepts with the same answer -/
def Le {α} (r r' : PR α) : Prop := ∀ y, r = .ok y → r' = .ok y

theorem Le.refl {α} (r : PR α) : Le r r := fun _ h => h

theorem seq_le {α β} {r r' : PR α} (fe : SkErr → SkErr) {k k' : α → Nat → PR β}
    (hr : Le r r') (hk : ∀ a p, Le (k a p) (k' a p)) : Le (seq r fe k) (seq r' fe k') := by
  intro y h
  cases r with
  | error e => simp [seq] at h
  | ok ap =>
    obtain ⟨a, p⟩ := ap
    rw [hr _ rfl]
    simp only [seq] at h ⊢
    exact hk a p y h

theorem Le.ite {α} (c : Prop) [Decidable c] {r1 r1' r2 r2' : PR α} (h1 : Le r1 r1') (h2 : Le r2 r2') :
    Le (if c then r1 else r2) (if c then r1' else r2') := by
  split
  · exact h1
  · exact h2

theorem skipT_fuel_succ (d : Bytes) : ∀ (f : Nat) (t : Task) (pos : Nat),
    Le (skipT d f t pos) (skipT d (f + 1) t pos) := by
  intro f
  induction f with
  | zero => intro t pos y h; simp [skipT] at h
  | succ f ih =>
    intro t pos
    cases t with
    | val ty =>
      rw [skipT.eq_def d (f + 1 + 1)]
      simp only [skipT]
      split
      · exact Le.refl _
      · exact Le.refl _
      · exact Le.refl _
      · exact Le.refl _
      · exact Le.refl _
      · exact Le.refl _
      · exact Le.refl _
      · exact Le.refl _
      · exact seq_le _ (Le.refl _) fun l p => ih _ p
      · exact seq_le _ (Le.refl _) fun l p => ih _ p
      · refine seq_le _ (Le.refl _) fun mp p => ?_
        cases mp with
        | none => exact Le.refl _
        | some x => obtain ⟨kt, vt, n⟩ := x; exact ih _ p
      · exact ih _ pos
      · exact Le.refl _
      · exact Le.refl _
    | item ty =>
      rw [skipT.eq_def d (f + 1 + 1)]
      simp only [skipT]
      exact Le.ite _ (Le.refl _) (ih _ pos)
    | items ty n =>
      cases n with
      | zero => simp only [skipT]; exact Le.refl _
      | succ n =>
        rw [skipT.eq_def d (f + 1 + 1)]
        simp only [skipT]
        exact seq_le _ (ih _ pos) fun _ p => ih _ p
    | pairs kt vt n =>
      cases n with
      | zero => simp only [skipT]; exact Le.refl _
      | succ n =>
        rw [skipT.eq_def d (f + 1 + 1)]
        simp only [skipT]
        exact seq_le _ (ih _ pos) fun _ p => seq_le _ (ih _ p) fun _ q => ih _ q
    | fields first =>
      rw [skipT.eq_def d (f + 1 + 1)]
      simp only [skipT]
      refine seq_le _ (Le.refl _) fun h p => ?_
      cases h with
      | none => exact Le.refl _
      | some ty => exact seq_le _ (ih _ p) fun _ q => ih _ q

theorem skipT_fuel_mono (d : Bytes) (t : Task) (pos : Nat) {f f' : Nat} (h : f ≤ f') :
    Le (skipT d f t pos) (skipT d f' t pos) := by
  induction h with
  | refl => exact Le.refl _
  | step _ ih => exact fun y hy => skipT_fuel_succ d _ t pos y (ih y hy)

end PqModel.ThriftSkip
