/-! # C12, fourth part — row groups that are views of other views

`MergeRowGroups`, `MultiRowGroup`, `ConvertRowGroup` and the merge planner's row ranges build row
groups out of row groups. Each such view has two faces: `Rows()` (what a reader of rows gets) and
`ColumnChunks()` (what a consumer reading the chunks one after the other gets). The two agree only
for some kinds of row groups, and the library decides at run time which face of a member it reads.

MIRROR: `chunks`, `inOrder`, `rows`, `rangeOf`, `supports` (multi_row_group.go:125-165
`multiRowGroup.Rows` / `rowGroupReadsChunksInOrder`; convert.go:611-700, 991-1010 `ConvertRowGroup`
/ `maskMissingRowGroupColumns` / `convertedRowGroup.Rows`; row_range.go `rowRangeRowGroup.Rows`,
`rowRangeOf`, `supportsRowRanges`).
SPEC: `sem` — the rows a view stands for, written from the meaning of the constructors
(concatenate / convert row by row / rows `[off, off+len)`).

A row is an abstract `α`. A conversion is the pair `(f, g)`: `f` is what `conversion.Convert` does to
a row, `g` what the column-chunk face of the converted row group shows for it (`g = f` for
targets that delete/permute/widen columns since repair 2c2062a: `chunk_view_eq_row_view`; not for
added columns). -/
namespace PqModel.ConvertViews

mutual
/-- a row group -/
inductive View (α : Type) where
  /-- a row group that is not a view of others: `transparent` = it carries the
      `chunkTransparentRowGroup` marker (file row group, Buffer, GenericBuffer) or is the plain
      `*rowGroup`; `rows` / `chunks` = what its `Rows()` / its chunks read in order yield (they may
      differ for a merged, deduplicating or application-defined row group) -/
  | leaf (transparent : Bool) (rows chunks : List α)
  /-- `ConvertRowGroup(v, conv)` when the schemas differ -/
  | conv (f g : α → α) (v : View α)
  /-- `*multiRowGroup` (`MultiRowGroup`, `MergeRowGroups` without sorting columns) -/
  | multi (vs : Views α)
  /-- `*rowRangeRowGroup`: rows `[off, off+len)` read through the column chunks of its base -/
  | range (off len : Nat) (v : View α)
inductive Views (α : Type) where
  | nil
  | cons (v : View α) (vs : Views α)
end

variable {α : Type}

mutual
/-- MIRROR: the column chunks read one after the other (`multiColumnChunk` concatenates,
    `convertedColumnChunk`/`missingColumnChunk` show `g`, `rangeColumnChunk` seeks and stops). -/
def chunks : View α → List α
  | .leaf _ _ cs => cs
  | .conv _ g v => (chunks v).map g
  | .multi vs => chunksL vs
  | .range off len v => ((chunks v).drop off).take len
def chunksL : Views α → List α
  | .nil => []
  | .cons v vs => chunks v ++ chunksL vs
end

mutual
/-- MIRROR of `rowGroupReadsChunksInOrder` (multi_row_group.go:152-165). `anyMember = false` is the
    code (ALL members of a nested multi row group); `anyMember = true` is the slip "some member". -/
def inOrder (anyMember : Bool) : View α → Bool
  | .leaf t _ _ => t
  | .conv _ _ _ => false
  | .multi vs => if anyMember then inOrderAny anyMember vs else inOrderAll anyMember vs
  | .range _ _ _ => true
def inOrderAll (anyMember : Bool) : Views α → Bool
  | .nil => true
  | .cons v vs => inOrder anyMember v && inOrderAll anyMember vs
def inOrderAny (anyMember : Bool) : Views α → Bool
  | .nil => false
  | .cons v vs => inOrder anyMember v || inOrderAny anyMember vs
end

mutual
/-- MIRROR of `Rows()`:
    * converted row group: the conversion over `NewRowGroupRowReader` of the (masked) SOURCE
      chunks — `maskMissingRowGroupColumns` rebuilds the source as a plain `*rowGroup`;
    * multi row group: the concatenated chunks when every member reads its chunks in order,
      else the members' own `Rows()` one after the other (multi_row_group.go:125-146);
    * row range: `NewRowGroupRowReader` over the range chunks. -/
def rows (anyMember : Bool) : View α → List α
  | .leaf _ rs _ => rs
  | .conv f _ v => (chunks v).map f
  | .multi vs => if inOrderAll anyMember vs then chunksL vs else rowsL anyMember vs
  | .range off len v => ((chunks v).drop off).take len
def rowsL (anyMember : Bool) : Views α → List α
  | .nil => []
  | .cons v vs => rows anyMember v ++ rowsL anyMember vs
end

/-- the members test of `multiRowGroup.Rows` is `rowGroupReadsChunksInOrder` of each member -/
theorem inOrderAll_code (vs : Views α) : inOrderAll false vs = inOrder false (.multi vs) := by
  simp [inOrder]

mutual
/-- SPEC: the rows a view stands for. -/
def sem : View α → List α
  | .leaf _ rs _ => rs
  | .conv f _ v => (sem v).map f
  | .multi vs => semL vs
  | .range off len v => ((sem v).drop off).take len
def semL : Views α → List α
  | .nil => []
  | .cons v vs => sem v ++ semL vs
end

mutual
/-- Well-formed compositions: a leaf marked transparent really reads its chunks in order; a
    conversion and a row range are only put on top of row groups that read their chunks in order
    (what `ConvertRowGroup` and `newRowRangeRowGroup` silently assume). -/
def wf : View α → Prop
  | .leaf t rs cs => t = true → cs = rs
  | .conv _ _ v => wf v ∧ inOrder false v = true
  | .multi vs => wfL vs
  | .range _ _ v => wf v ∧ inOrder false v = true
def wfL : Views α → Prop
  | .nil => True
  | .cons v vs => wf v ∧ wfL vs
end

/-- MIRROR of `rowRangeOf` (row_range.go): the range of a converted row group is taken below the
    conversion. -/
def rangeOf (off len : Nat) : View α → View α
  | .conv f g v => .conv f g (rangeOf off len v)
  | v => .range off len v

/-- MIRROR of `supportsRowRanges` (row_range.go): the masked source of a converted row group is a
    plain `*rowGroup`. -/
def supports : View α → Bool
  | .conv _ _ _ => true
  | v => inOrder false v

/-- the row ranges of the merge planner BEFORE the repair: `newRowRangeRowGroup` on whatever the
    segment holds -/
def rangeBeforeFix (off len : Nat) (v : View α) : View α := .range off len v

/-! ## lemmas -/

mutual
theorem chunks_eq_sem : (v : View α) → wf v → inOrder false v = true → chunks v = sem v
  | .leaf t rs cs, h, ht => by
    simp only [inOrder] at ht
    simp only [wf] at h
    simp only [chunks, sem]
    exact h ht
  | .conv _ _ _, _, ht => by simp [inOrder] at ht
  | .multi vs, h, ht => by
    simp only [inOrder] at ht
    simp only [wf] at h
    simp only [chunks, sem]
    exact chunksL_eq_semL vs h (by simpa using ht)
  | .range off len v, h, _ => by
    simp only [wf] at h
    simp only [chunks, sem]
    rw [chunks_eq_sem v h.1 h.2]
theorem chunksL_eq_semL : (vs : Views α) → wfL vs → inOrderAll false vs = true → chunksL vs = semL vs
  | .nil, _, _ => rfl
  | .cons v vs, h, ht => by
    simp only [wfL] at h
    simp only [inOrderAll, Bool.and_eq_true] at ht
    simp only [chunksL, semL]
    rw [chunks_eq_sem v h.1 ht.1, chunksL_eq_semL vs h.2 ht.2]
end

mutual
theorem rows_eq_sem : (v : View α) → wf v → rows false v = sem v
  | .leaf _ _ _, _ => rfl
  | .conv f g v, h => by
    simp only [wf] at h
    simp only [rows, sem]
    rw [chunks_eq_sem v h.1 h.2]
  | .multi vs, h => by
    simp only [wf] at h
    simp only [rows, sem]
    split
    · rename_i ht
      exact chunksL_eq_semL vs h ht
    · exact rowsL_eq_semL vs h
  | .range off len v, h => by
    simp only [wf] at h
    simp only [rows, sem]
    rw [chunks_eq_sem v h.1 h.2]
theorem rowsL_eq_semL : (vs : Views α) → wfL vs → rowsL false vs = semL vs
  | .nil, _ => rfl
  | .cons v vs, h => by
    simp only [wfL] at h
    simp only [rowsL, semL]
    rw [rows_eq_sem v h.1, rowsL_eq_semL vs h.2]
end

theorem rangeOf_of_inOrder (off len : Nat) (v : View α) (h : inOrder false v = true) :
    rangeOf off len v = .range off len v := by
  cases v <;> simp_all [rangeOf, inOrder]

theorem rangeOf_wf_sem (off len : Nat) : (v : View α) → wf v → supports v = true →
    wf (rangeOf off len v) ∧ sem (rangeOf off len v) = ((sem v).drop off).take len
  | .leaf t rs cs, h, hs => by
    simp only [supports] at hs
    simp only [rangeOf, wf, sem]
    exact ⟨⟨h, hs⟩, trivial⟩
  | .multi vs, h, hs => by
    simp only [supports] at hs
    simp only [rangeOf, wf, sem]
    exact ⟨⟨h, hs⟩, trivial⟩
  | .range o l v, h, hs => by
    simp only [supports] at hs
    simp only [rangeOf, wf, sem]
    exact ⟨⟨h, hs⟩, trivial⟩
  | .conv f g v, h, _ => by
    simp only [wf] at h
    have hr := rangeOf_of_inOrder off len v h.2
    simp only [rangeOf, wf, sem]
    rw [hr]
    simp only [wf, sem, inOrder]
    refine ⟨⟨⟨h.1, h.2⟩, trivial⟩, ?_⟩
    rw [List.map_take, List.map_drop]

end PqModel.ConvertViews
