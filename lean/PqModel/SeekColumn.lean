import PqModel.SeekLayers

/-! # `columnPages` (column.go): `Column.Pages()`, one reader over the chunks of ALL row groups (C08)

Unlike `multiPages` (which opens a fresh `Pages` of the chunk it needs and closes the previous
one), `columnPages` holds one `FilePages` per row group for its whole life, each with its own
position; `ReadPage` reads the current one and moves on at EOF, `SeekToRow` positions the row group
that holds the row AND rewinds every later row group to row 0 — the ones in front keep whatever
position they had, they are not read again before the next seek.

MIRROR (column.go:116-154). `c.pages` / `c.index` are kept as a zipper: `before` = the readers
`c.pages[:c.index]`, `after` = `c.pages[c.index:]` (so `c.index = before.length` and the reader in
use is the head of `after`). Row indexes are `Nat`: the negative `rowIndex` of the Go signature is
outside the model. The chunk readers are arbitrary `Machine`s (refining readers), `FilePages` being
the instance the library uses. -/
namespace PqModel.SeekLayers

universe u

namespace Column
open PqModel.Seek (Op)
open Multi (Running)

structure CSt.{v} where
  before : List Running.{v}   -- c.pages[:c.index]
  after : List Running.{v}    -- c.pages[c.index:]
  lost : Bool                 -- ghost: a read failed since the last seek

def tot (r : Running.{u}) : Nat := r.m.total

def sumT (l : List Running.{u}) : Nat := (l.map tot).sum

/-- `SeekToRow(0)` on every reader of the list, stopping at the first error (column.go:146-151) -/
def rewind : List Running.{u} → List Running.{u} × ROut
  | [] => ([], .ok)
  | r :: rest =>
    match (r.m.step r.s (.seek 0)).2 with
    | .ok => (⟨r.m, (r.m.step r.s (.seek 0)).1⟩ :: (rewind rest).1, (rewind rest).2)
    | o => (⟨r.m, (r.m.step r.s (.seek 0)).1⟩ :: rest, o)

/-- MIRROR of `columnPages.SeekToRow` on the whole list `c.pages` (column.go:134-154): skip the row
    groups with `NumRows < rowIndex`, seek the first other one, rewind all the later ones.
    Result: `((pages[:index], pages[index:]), error)`. -/
def seekList : List Running.{u} → Nat → (List Running.{u} × List Running.{u}) × ROut
  | [], _ => (([], []), .ok)
  | r :: rest, k =>
    if tot r < k then
      ((r :: (seekList rest (k - tot r)).1.1, (seekList rest (k - tot r)).1.2), (seekList rest (k - tot r)).2)
    else
      match (r.m.step r.s (.seek k)).2 with
      | .ok => (([], ⟨r.m, (r.m.step r.s (.seek k)).1⟩ :: (rewind rest).1), (rewind rest).2)
      | o => (([], ⟨r.m, (r.m.step r.s (.seek k)).1⟩ :: rest), o)

/-- MIRROR of `columnPages.ReadPage` (column.go:121-132): read the current reader, at EOF go on
    with the next one; rows are reported in the coordinates of the whole column -/
def readList (before : List Running.{u}) (lost : Bool) : List Running.{u} → CSt.{u} × ROut
  | [] => (⟨before, [], lost⟩, .eof)
  | r :: rest =>
    match (r.m.step r.s .readPage).2 with
    | .eof => readList (before ++ [⟨r.m, (r.m.step r.s .readPage).1⟩])
                (lost || (r.m.pos (r.m.step r.s .readPage).1).isNone) rest
    | .rows st n => (⟨before, ⟨r.m, (r.m.step r.s .readPage).1⟩ :: rest,
                      lost || (r.m.pos (r.m.step r.s .readPage).1).isNone⟩, .rows (sumT before + st) n)
    | o => (⟨before, ⟨r.m, (r.m.step r.s .readPage).1⟩ :: rest,
             lost || (r.m.pos (r.m.step r.s .readPage).1).isNone⟩, o)

def step (s : CSt.{u}) : Op → CSt.{u} × ROut
  | .seek k =>
    (⟨(seekList (s.before ++ s.after) k).1.1, (seekList (s.before ++ s.after) k).1.2,
      (seekList (s.before ++ s.after) k).2 != .ok⟩, (seekList (s.before ++ s.after) k).2)
  | .readPage => readList s.before s.lost s.after
  | .loadIndex => (s, .ok)

/-- abstraction: the row of the whole column the reader stands before -/
def posOf (before : List Running.{u}) (lost : Bool) (after : List Running.{u}) : Option Nat :=
  if lost then none else
  match after with
  | [] => some (sumT before)
  | r :: _ => (r.m.pos r.s).map fun p => sumT before + min p (tot r)

def pos (s : CSt.{u}) : Option Nat := posOf s.before s.lost s.after

/-- a reader that will deliver all the rows of its chunk -/
def Fresh (r : Running.{u}) : Prop := ∃ p, r.m.pos r.s = some p ∧ (p = 0 ∨ tot r = 0)

def AllInv (l : List Running.{u}) : Prop := ∀ r ∈ l, r.m.inv r.s

/-- the readers behind the current one are at row 0; the current one knows where it is -/
def AfterOK (lost : Bool) : List Running.{u} → Prop
  | [] => True
  | r :: rest => (∀ r' ∈ rest, Fresh r') ∧ (lost = false → ∃ p, r.m.pos r.s = some p)

def inv (tots : List Nat) (s : CSt.{u}) : Prop :=
  (s.before ++ s.after).map tot = tots ∧ AllInv (s.before ++ s.after) ∧ AfterOK s.lost s.after

theorem sumT_append (a b : List Running.{u}) : sumT (a ++ b) = sumT a + sumT b := by
  simp [sumT, List.map_append, List.sum_append]

theorem sumT_cons (r : Running.{u}) (l : List Running.{u}) : sumT (r :: l) = tot r + sumT l := by
  simp [sumT]

/-- rewinding keeps the chunks, the invariants, makes every reader fresh and never fails -/
theorem rewind_spec : ∀ (l : List Running.{u}), AllInv l →
    (rewind l).2 = .ok ∧ (rewind l).1.map tot = l.map tot ∧ AllInv (rewind l).1 ∧ ∀ r ∈ (rewind l).1, Fresh r
  | [], _ => by
    refine ⟨rfl, rfl, ?_, ?_⟩ <;> intro x hx <;> cases hx
  | r :: rest, h => by
    have hr : r.m.inv r.s := h r (List.mem_cons_self ..)
    have hrest : AllInv rest := fun x hx => h x (List.mem_cons_of_mem _ hx)
    obtain ⟨i1, i2, i3, i4⟩ := rewind_spec rest hrest
    have hspec := r.m.step_spec r.s (.seek 0) hr
    have hinv := r.m.step_inv r.s (.seek 0) hr
    rcases hspec with ⟨ho, k', hp, hsame⟩ | ⟨_, _, hbad⟩
    · simp only [rewind, ho]
      refine ⟨i1, by simp [tot, i2] , ?_, ?_⟩
      · intro x hx
        rcases List.mem_cons.mp hx with rfl | hx
        · exact hinv
        · exact i3 x hx
      · intro x hx
        rcases List.mem_cons.mp hx with rfl | hx
        · refine ⟨k', hp, ?_⟩
          rcases hsame with a | ⟨a, _⟩
          · exact Or.inl a
          · exact Or.inr (by simp only [tot]; omega)
        · exact i4 x hx
    · omega

/-- what `seekList` establishes, for the zipper it returns -/
theorem seekList_spec : ∀ (l : List Running.{u}) (k : Nat), AllInv l →
    (seekList l k).2 = .ok ∧
    ((seekList l k).1.1 ++ (seekList l k).1.2).map tot = l.map tot ∧
    AllInv ((seekList l k).1.1 ++ (seekList l k).1.2) ∧
    AfterOK false (seekList l k).1.2 ∧
    ∃ k', posOf (seekList l k).1.1 false (seekList l k).1.2 = some k' ∧ SamePos (sumT l) k k'
  | [], k, _ => by
    refine ⟨rfl, rfl, ?_, trivial, 0, rfl, ?_⟩
    · intro x hx; cases hx
    · simp only [SamePos, sumT, List.map_nil, List.sum_nil]
      omega
  | r :: rest, k, h => by
    have hr : r.m.inv r.s := h r (List.mem_cons_self ..)
    have hrest : AllInv rest := fun x hx => h x (List.mem_cons_of_mem _ hx)
    simp only [seekList]
    split
    · rename_i hlt
      obtain ⟨i1, i2, i3, i4, k', i5, i6⟩ := seekList_spec rest (k - tot r) hrest
      refine ⟨i1, by simp only [List.cons_append, List.map_cons, i2], ?_, i4, tot r + k', ?_, ?_⟩
      · intro x hx
        rcases List.mem_cons.mp hx with rfl | hx
        · exact hr
        · exact i3 x hx
      · simp only [posOf, Bool.false_eq_true, if_false] at i5 ⊢
        cases ha : (seekList rest (k - tot r)).1.2 with
        | nil =>
          rw [ha] at i5
          simp only [Option.some.injEq] at i5
          simp only [sumT_cons]
          congr 1; omega
        | cons a as =>
          rw [ha] at i5
          simp only [] at i5 ⊢
          cases hp : a.m.pos a.s with
          | none => rw [hp] at i5; cases i5
          | some p =>
            rw [hp] at i5
            simp only [Option.map_some, Option.some.injEq] at i5 ⊢
            simp only [sumT_cons]
            omega
      · simp only [SamePos, sumT_cons] at i6 ⊢
        omega
    · rename_i hge
      have hspec := r.m.step_spec r.s (.seek k) hr
      have hinv := r.m.step_inv r.s (.seek k) hr
      obtain ⟨j1, j2, j3, j4⟩ := rewind_spec rest hrest
      have htot : r.m.total = tot r := rfl
      rcases hspec with ⟨ho, k', hp, hsame⟩ | ⟨_, _, hbad⟩
      · simp only [ho]
        refine ⟨j1, by simp [tot, j2], ?_, ⟨j4, fun _ => ⟨k', hp⟩⟩, min k' (tot r), ?_, ?_⟩
        · intro x hx
          simp only [List.nil_append] at hx
          rcases List.mem_cons.mp hx with rfl | hx
          · exact hinv
          · exact j3 x hx
        · simp [posOf, hp, sumT, tot]
        · simp only [SamePos, sumT_cons] at hsame ⊢
          omega
      · omega

/-- what `readList` establishes -/
theorem readList_spec (tots : List Nat) : ∀ (after before : List Running.{u}) (lost : Bool),
    inv tots ⟨before, after, lost⟩ →
    inv tots (readList before lost after).1 ∧
    PSpec tots.sum (posOf before lost after) .readPage (pos (readList before lost after).1) (readList before lost after).2
  | [], before, lost, h => by
    refine ⟨h, ?_⟩
    obtain ⟨h1, _, _⟩ := h
    simp only [List.append_nil] at h1
    simp only [readList, pos, posOf, PSpec]
    cases lost with
    | true => simp
    | false =>
      simp only [Bool.false_eq_true, if_false]
      refine ⟨?_, trivial⟩
      simp [sumT, h1]
  | r :: rest, before, lost, h => by
    obtain ⟨h1, h2, h3, h4⟩ := h
    simp only [] at h1 h2 h3 h4
    have hr : r.m.inv r.s := h2 r (by simp)
    have hspec := r.m.step_spec r.s .readPage hr
    have hinv := r.m.step_inv r.s .readPage hr
    simp only [PSpec] at hspec
    -- the chunk totals of the whole column
    have hsum : tots.sum = sumT before + tot r + sumT rest := by
      rw [← h1]
      show sumT (before ++ r :: rest) = _
      rw [sumT_append, sumT_cons]; omega
    -- replacing the current reader by its successor state keeps totals and invariants
    have hall : ∀ s1, r.m.inv s1 → AllInv (before ++ (⟨r.m, s1⟩ : Running.{u}) :: rest) := by
      intro s1 hs1 x hx
      rcases List.mem_append.mp hx with hx | hx
      · exact h2 x (List.mem_append_left _ hx)
      · rcases List.mem_cons.mp hx with rfl | hx
        · exact hs1
        · exact h2 x (List.mem_append_right _ (List.mem_cons_of_mem _ hx))
    have htots : ∀ s1, (before ++ (⟨r.m, s1⟩ : Running.{u}) :: rest).map tot = tots := by
      intro s1; rw [← h1]; simp [tot]
    -- the state kept when the chunk stays open
    have keep : ∀ s1 l', r.m.inv s1 → (l' = false → ∃ p, r.m.pos s1 = some p) →
        inv tots ⟨before, ⟨r.m, s1⟩ :: rest, l'⟩ := fun s1 l' hs1 hl' =>
      ⟨htots s1, hall s1 hs1, h3, hl'⟩
    -- moving on to the next chunk
    have next : ∀ s1 l', r.m.inv s1 → inv tots ⟨before ++ [⟨r.m, s1⟩], rest, l'⟩ := by
      intro s1 l' hs1
      refine ⟨by simpa using htots s1, by simpa using hall s1 hs1, ?_⟩
      cases rest with
      | nil => trivial
      | cons a as =>
        refine ⟨fun x hx => h3 x (List.mem_cons_of_mem _ hx), fun _ => ?_⟩
        obtain ⟨p, hp, _⟩ := h3 a (List.mem_cons_self ..)
        exact ⟨p, hp⟩
    generalize hx : r.m.step r.s .readPage = x at hspec hinv
    obtain ⟨s1, o⟩ := x
    simp only [] at hspec hinv
    simp only [readList, hx]
    cases hl : lost with
    | true =>
      have hp0 : posOf before true (r :: rest) = none := by simp [posOf]
      rw [hp0]
      cases o with
      | eof =>
        simp only [Bool.true_or]
        have ih := readList_spec tots rest (before ++ [⟨r.m, s1⟩]) true (next s1 true hinv)
        refine ⟨ih.1, ?_⟩
        have := ih.2
        simp only [posOf, if_true, PSpec] at this ⊢
        exact this
      | rows st n => simp only [Bool.true_or]; exact ⟨keep s1 true hinv (by intro h; cases h), by simp [PSpec, pos, posOf]⟩
      | ok => simp only [Bool.true_or]; exact ⟨keep s1 true hinv (by intro h; cases h), by simp [PSpec, pos, posOf]⟩
      | err => simp only [Bool.true_or]; exact ⟨keep s1 true hinv (by intro h; cases h), by simp [PSpec, pos, posOf]⟩
      | fail => simp only [Bool.true_or]; exact ⟨keep s1 true hinv (by intro h; cases h), by simp [PSpec, pos, posOf]⟩
    | false =>
      obtain ⟨p, hp⟩ := h4 hl
      rw [hp] at hspec
      simp only [] at hspec
      have hp0 : posOf before false (r :: rest) = some (sumT before + min p (tot r)) := by
        simp [posOf, hp]
      rw [hp0]
      have htot : r.m.total = tot r := rfl
      cases o with
      | ok => simp at hspec
      | err => simp at hspec
      | fail =>
        simp only [] at hspec
        simp only [Bool.false_or, hspec, Option.isNone_none]
        exact ⟨keep s1 true hinv (by intro h; cases h), by simp [PSpec, pos, posOf]⟩
      | rows st n =>
        simp only [] at hspec
        obtain ⟨e1, e2, e3, e4⟩ := hspec
        simp only [Bool.false_or, e4, Option.isNone_some]
        refine ⟨keep s1 false hinv (fun _ => ⟨_, e4⟩), ?_⟩
        simp only [PSpec, pos, posOf, Bool.false_eq_true, if_false, e4, Option.map_some]
        refine ⟨by omega, e2, by omega, ?_⟩
        congr 1
        simp only [tot]
        omega
      | eof =>
        simp only [] at hspec
        obtain ⟨e1, e2⟩ := hspec
        simp only [Bool.false_or, e2, Option.isNone_some]
        have ih := readList_spec tots rest (before ++ [⟨r.m, s1⟩]) false (next s1 false hinv)
        have e1' : tot r ≤ p := e1
        refine ⟨ih.1, ?_⟩
        have hpos' : posOf (before ++ [(⟨r.m, s1⟩ : Running.{u})]) false rest = some (sumT before + min p (tot r)) := by
          have hs : sumT (before ++ [(⟨r.m, s1⟩ : Running.{u})]) = sumT before + tot r := by
            rw [sumT_append]; simp [sumT, tot]
          simp only [posOf, Bool.false_eq_true, if_false]
          cases rest with
          | nil =>
            have h0 : sumT ([] : List Running.{u}) = 0 := rfl
            rw [h0] at hsum
            rw [hs]; show some (sumT before + tot r) = _; congr 1; omega
          | cons a as =>
            obtain ⟨q, hq, hq'⟩ := h3 a (List.mem_cons_self ..)
            simp only [hq, Option.map_some, hs]
            congr 1
            omega
        rw [hpos'] at ih
        exact ih.2

end Column

/-- `columnPages` over the chunk readers of a column in every row group of a file -/
def columnM (ms : List Machine.{u}) : Machine.{u+1} where
  σ := Column.CSt.{u}
  step := Column.step
  inv := Column.inv (ms.map (·.total))
  pos := Column.pos
  total := (ms.map (·.total)).sum
  init := ⟨[], ms.map fun m => ⟨m, m.init⟩, false⟩
  init_inv := by
    refine ⟨by simp [Column.tot, Function.comp_def], ?_, ?_⟩
    · intro r hr
      simp only [List.nil_append, List.mem_map] at hr
      obtain ⟨m, _, rfl⟩ := hr
      exact m.init_inv
    · cases ms with
      | nil => trivial
      | cons a as =>
        refine ⟨?_, fun _ => ⟨0, a.init_pos⟩⟩
        intro r hr
        simp only [List.mem_map] at hr
        obtain ⟨m, _, rfl⟩ := hr
        exact ⟨0, m.init_pos, Or.inl rfl⟩
  init_pos := by
    cases ms with
    | nil => simp [Column.pos, Column.posOf, Column.sumT]
    | cons a as => simp [Column.pos, Column.posOf, Column.sumT, a.init_pos]
  step_inv s op h := by
    cases op with
    | seek k =>
      obtain ⟨h1, h2, _⟩ := h
      obtain ⟨i1, i2, i3, i4, _⟩ := Column.seekList_spec (s.before ++ s.after) k h2
      refine ⟨by simp only [Column.step]; rw [i2, h1], i3, ?_⟩
      simp only [Column.step, i1]
      exact i4
    | readPage => exact (Column.readList_spec _ s.after s.before s.lost h).1
    | loadIndex => exact h
  step_spec s op h := by
    cases op with
    | seek k =>
      obtain ⟨h1, h2, _⟩ := h
      obtain ⟨i1, _, _, _, k', i5, i6⟩ := Column.seekList_spec (s.before ++ s.after) k h2
      refine Or.inl ⟨i1, k', ?_, ?_⟩
      · simp only [Column.step, Column.pos, i1]
        exact i5
      · have : Column.sumT (s.before ++ s.after) = (ms.map (·.total)).sum := by
          simp only [Column.sumT, h1]
        rw [← this]
        exact i6
    | readPage => exact (Column.readList_spec _ s.after s.before s.lost h).2
    | loadIndex => exact ⟨rfl, rfl⟩

/-- `columnPages` accepts every seek -/
theorem columnM_lenient (ms : List Machine.{u}) : (columnM ms).Lenient := by
  intro s k h
  exact (Column.seekList_spec (s.before ++ s.after) k h.2.1).1

end PqModel.SeekLayers
