import PqModel.ConvertChunksProofs
import PqModel.ConvertFixed

/-! C12: the column-chunk view of a converted row group after repair 2c2062a, for targets that
    delete, permute and WIDEN fields (`subN`): the chunks apply the column's conversion
    (`chunkLeaf`), so the chunk view is the row view. The proofs follow `lin_convN` /
    `absent_convN` / `main_convN` (ConvertProofs.lean) with `chunkN` in place of `convN`. -/
namespace PqModel.Convert
open PqModel.Dremel

theorem dir_false {lv : Lv} (h : ¬ (isDirect lv.R (lv.sr + 1) && isDirect lv.D (lv.sd + 1)) = true) :
    (isDirect lv.R (lv.sr + 1) && isDirect lv.D (lv.sd + 1)) = false := by
  cases h' : (isDirect lv.R (lv.sr + 1) && isDirect lv.D (lv.sd + 1)) <;> simp_all

theorem chunkLeaf_append (lv : Lv) (x y : List Triple) :
    chunkLeaf lv (x ++ y) = chunkLeaf lv x ++ chunkLeaf lv y := by
  simp only [chunkLeaf]
  split <;> simp [zeroCol, fixup, convLevels]

theorem chunkLeaf_value (lv : Lv) (x r : Nat) (hr : r ≤ lv.sr) (hD : lv.D lv.sd = lv.td) :
    chunkLeaf lv [⟨some x, r, lv.sd⟩] = [⟨some x, lv.R r, lv.td⟩] := by
  by_cases hdir : (isDirect lv.R (lv.sr + 1) && isDirect lv.D (lv.sd + 1)) = true
  · have h1 := isDirect_spec (Bool.and_eq_true_iff.mp hdir).1 (show r < lv.sr + 1 by omega)
    have h2 := isDirect_spec (Bool.and_eq_true_iff.mp hdir).2 (show lv.sd < lv.sd + 1 by omega)
    simp [chunkLeaf, hdir, h1, ← hD, h2]
  · have hg : ¬ (r ≥ lv.sr + 1 ∨ lv.sd ≥ lv.sd + 1) := by omega
    simp [chunkLeaf, dir_false hdir, convLevels, fixup, zeroCol, hg, hD]

theorem chunkLeaf_absent (lv : Lv) (r d : Nat) (hr : r ≤ lv.sr) (hd : d ≤ lv.sd) (htd : 0 < lv.td)
    (hlt : lv.D d < lv.td) :
    chunkLeaf lv [⟨none, r, d⟩] = [⟨none, lv.R r, lv.D d⟩] := by
  by_cases hdir : (isDirect lv.R (lv.sr + 1) && isDirect lv.D (lv.sd + 1)) = true
  · have h1 := isDirect_spec (Bool.and_eq_true_iff.mp hdir).1 (show r < lv.sr + 1 by omega)
    have h2 := isDirect_spec (Bool.and_eq_true_iff.mp hdir).2 (show d < lv.sd + 1 by omega)
    simp [chunkLeaf, hdir, h1, h2]
  · have hg : ¬ (r ≥ lv.sr + 1 ∨ d ≥ lv.sd + 1) := by omega
    have hne : ¬ lv.D d = lv.td := by omega
    simp [chunkLeaf, dir_false hdir, convLevels, fixup, zeroCol, hg, htd, hne]

mutual
theorem lin_chunkN_sub (n : Nat) : ∀ (t : PNode) (trp : Rp) (lv : Lv) (s : PNode) (X Y : Cols)
    (p1 p2 p3 a1 a2 a3 : Option (List Triple)),
    subN s t = true → X.length = leavesP s → Y.length = leavesP s →
    chunkN n t trp lv (.on s (zipApp X Y) p3) a3 =
      zipApp (chunkN n t trp lv (.on s X p1) a1) (chunkN n t trp lv (.on s Y p2) a2)
  | .leaf, trp, lv, s, X, Y, p1, p2, p3, a1, a2, a3, hs, hx, hy => by
    cases s with
    | group sfs => simp [subN] at hs
    | leaf =>
      simp only [leavesP, eraseN, leavesN] at hx hy
      match X, Y, hx, hy with
      | [x], [y], _, _ => simp [chunkN, zipApp, chunkLeaf_append]
  | .group tfs, trp, lv, s, X, Y, p1, p2, p3, a1, a2, a3, hs, hx, hy => by
    cases s with
    | leaf => simp [subN] at hs
    | group sfs =>
      simp only [subN] at hs
      simp only [leavesP, eraseN, leavesN] at hx hy
      simp only [chunkN]
      exact lin_chunkF_sub n tfs tfs lv sfs X Y p1 p2 p3 hs hx hy
theorem lin_chunkF_sub (n : Nat) (all : PFields) : ∀ (tfs : PFields) (lv : Lv) (sfs : PFields) (X Y : Cols)
    (p1 p2 p3 : Option (List Triple)),
    subF sfs tfs = true → X.length = leavesF (eraseF sfs) → Y.length = leavesF (eraseF sfs) →
    chunkF n all tfs lv (.on (.group sfs) (zipApp X Y) p3) =
      zipApp (chunkF n all tfs lv (.on (.group sfs) X p1)) (chunkF n all tfs lv (.on (.group sfs) Y p2))
  | .nil, _, _, _, _, _, _, _, _, _, _ => by simp [chunkF, zipApp]
  | .cons nm trp tn tfs, lv, sfs, X, Y, p1, p2, p3, hs, hx, hy => by
    obtain ⟨srp, sn, hg, hok, hsn, hrest⟩ := subF_cons hs
    simp only [chunkF, stepS_on nm trp lv sfs _ _ hg]
    rw [blkOf_zip nm sfs X Y (by rw [hx, hy])]
    rw [lin_chunkN_sub n tn trp (lv.step trp srp) sn (blkOf nm sfs X) (blkOf nm sfs Y) _ _ _ _ _ _ hsn
      (blkOf_length nm srp sn sfs X hg hx) (blkOf_length nm srp sn sfs Y hg hy)]
    rw [lin_chunkF_sub n all tfs lv sfs X Y p1 p2 p3 hrest hx hy]
    rw [zipApp_append _ _ (by rw [chunkN_length, chunkN_length])]
end

mutual
theorem absent_chunkN_sub (n : Nat) : ∀ (t : PNode) (trp : Rp) (lv : Lv) (s : PNode) (r d : Nat)
    (pc adj : Option (List Triple)),
    subN s t = true → r ≤ lv.sr → lv.R lv.sr = lv.tr → d < lv.sd → 0 < lv.td → lv.D d < lv.td →
    chunkN n t trp lv (.on s (absentN (eraseN s) r d) pc) adj = absentN (eraseN t) (lv.R r) (lv.D d)
  | .leaf, trp, lv, s, r, d, pc, adj, hs, hr, hR, hd, htd, hlt => by
    cases s with
    | leaf =>
      simp only [chunkN, eraseN, absentN, List.headD_cons]
      rw [chunkLeaf_absent lv r d hr (by omega) htd hlt]
    | group sfs => simp [subN] at hs
  | .group tfs, trp, lv, s, r, d, pc, adj, hs, hr, hR, hd, htd, hlt => by
    cases s with
    | leaf => simp [subN] at hs
    | group sfs =>
      simp only [subN] at hs
      simp only [chunkN, eraseN, absentN]
      exact absent_chunkF_sub n tfs tfs lv sfs r d pc hs hr hR hd htd hlt
theorem absent_chunkF_sub (n : Nat) (all : PFields) : ∀ (tfs : PFields) (lv : Lv) (sfs : PFields) (r d : Nat)
    (pc : Option (List Triple)),
    subF sfs tfs = true → r ≤ lv.sr → lv.R lv.sr = lv.tr → d < lv.sd → 0 < lv.td → lv.D d < lv.td →
    chunkF n all tfs lv (.on (.group sfs) (absentF (eraseF sfs) r d) pc) = absentF (eraseF tfs) (lv.R r) (lv.D d)
  | .nil, _, _, _, _, _, _, _, _, _, _, _ => by simp [chunkF, eraseF, absentF]
  | .cons nm trp tn tfs, lv, sfs, r, d, pc, hs, hr, hR, hd, htd, hlt => by
    obtain ⟨srp, sn, hg, hok, hsn, hrest⟩ := subF_cons hs
    simp only [chunkF, stepS_on nm trp lv sfs _ pc hg, eraseF, absentF, absent_wrap]
    rw [fld_absent nm srp sn r d sfs hg]
    have hDd : (lv.step trp srp).D d = lv.D d := step_D (Nat.lt_add_right _ hd)
    rw [absent_chunkN_sub n tn trp (lv.step trp srp) sn r d _ _ hsn
      (by simp [Lv.step]; omega) (by simp [Lv.step, upd_same]) (by simp [Lv.step]; omega) (by simp [Lv.step]; omega)
      (by rw [hDd]; simp [Lv.step]; omega)]
    rw [step_R hok hr hR, hDd]
    rw [absent_chunkF_sub n all tfs lv sfs r d pc hrest hr hR hd htd hlt]
end

mutual
/-- one row: the chunks' streams of the converted group are the shredded projection, for every
    target that deletes, permutes and widens -/
theorem main_chunkN_sub (n : Nat) : ∀ (t : PNode) (trp : Rp) (lv : Lv) (s : PNode) (v : Val) (r : Nat)
    (pc adj : Option (List Triple)),
    subN s t = true → wfN (eraseN s) = true → confN (eraseN s) v = true →
    r ≤ lv.sr → lv.R lv.sr = lv.tr → lv.D lv.sd = lv.td →
    chunkN n t trp lv (.on s (shredN (eraseN s) r lv.sr lv.sd v) pc) adj =
      shredN (eraseN t) (lv.R r) lv.tr lv.td (projN s t v)
  | .leaf, trp, lv, s, v, r, pc, adj, hs, hw, hc, hr, hR, hD => by
    cases s with
    | group sfs => simp [subN] at hs
    | leaf =>
      cases v with
      | prim x =>
        simp only [chunkN, eraseN, shredN, projN, List.headD_cons]
        rw [chunkLeaf_value lv x r hr hD]
      | struct vs => simp [eraseN, confN] at hc
      | none => simp [eraseN, confN] at hc
      | some w => simp [eraseN, confN] at hc
      | list ws => simp [eraseN, confN] at hc
  | .group tfs, trp, lv, s, v, r, pc, adj, hs, hw, hc, hr, hR, hD => by
    cases s with
    | leaf => simp [subN] at hs
    | group sfs =>
      simp only [subN] at hs
      cases v with
      | struct vs =>
        simp only [eraseN, confN] at hc
        simp only [eraseN, wfN, Bool.and_eq_true] at hw
        simp only [chunkN, eraseN, shredN, projN]
        exact main_chunkF_sub n tfs tfs lv sfs vs r pc hs hw.1 hc hr hR hD
      | prim x => simp [eraseN, confN] at hc
      | none => simp [eraseN, confN] at hc
      | some w => simp [eraseN, confN] at hc
      | list ws => simp [eraseN, confN] at hc
theorem main_chunkF_sub (n : Nat) (all : PFields) : ∀ (tfs : PFields) (lv : Lv) (sfs : PFields) (vs : List Val)
    (r : Nat) (pc : Option (List Triple)),
    subF sfs tfs = true → wfF (eraseF sfs) = true → confF (eraseF sfs) vs = true →
    r ≤ lv.sr → lv.R lv.sr = lv.tr → lv.D lv.sd = lv.td →
    chunkF n all tfs lv (.on (.group sfs) (shredF (eraseF sfs) r lv.sr lv.sd vs) pc) =
      shredF (eraseF tfs) (lv.R r) lv.tr lv.td (projF sfs vs tfs)
  | .nil, _, _, _, _, _, _, _, _, _, _, _ => by simp [chunkF, eraseF, shredF, projF]
  | .cons nm trp tn tfs, lv, sfs, vs, r, pc, hs, hw, hc, hr, hR, hD => by
    obtain ⟨srp, sn, hg, hok, hsn, hrest⟩ := subF_cons hs
    obtain ⟨v, hfv, hblk, hcv, hwn⟩ := fld_shred nm srp sn r lv.sr lv.sd hr sfs vs hw hc hg
    have hsk : sameKind sn tn = true := sameKind_of_sub hsn
    simp only [chunkF, stepS_on nm trp lv sfs _ pc hg, hblk, eraseF, projF, hfv, hsk, if_true, shredF]
    rw [main_chunkF_sub n all tfs lv sfs vs r pc hrest hw hc hr hR hD]
    congr 1
    have hRr := step_R (trp := trp) hok hr hR
    generalize Option.map (fun x => x.snd) (closestLeaf sfs (shredF (eraseF sfs) r lv.sr lv.sd vs) none) = pc'
    generalize adjOf nm (trp == Rp.rpt) lv (Src.on (PNode.group sfs) (shredF (eraseF sfs) r lv.sr lv.sd vs) pc) all none = adj
    cases srp <;> cases trp <;> simp only [rpOk, Bool.false_eq_true] at hok
    · -- required → required
      simp only [wrap] at hcv ⊢
      have h := main_chunkN_sub n tn .req (lv.step .req .req) sn v r pc' adj hsn hwn hcv (by simp [Lv.step]; omega)
        (step_inv_R _ _ _) (step_inv_D _ _ _)
      rw [hRr] at h
      exact h
    · -- required → optional
      simp only [wrap] at hcv ⊢
      have h := main_chunkN_sub n tn .opt (lv.step .opt .req) sn v r pc' adj hsn hwn hcv (by simp [Lv.step]; omega)
        (step_inv_R _ _ _) (step_inv_D _ _ _)
      rw [hRr] at h
      simp only [shredN]
      exact h
    · -- optional → optional
      simp only [wrap] at hcv ⊢
      cases v with
      | some w =>
        simp only [confN] at hcv
        have h := main_chunkN_sub n tn .opt (lv.step .opt .opt) sn w r pc' adj hsn hwn hcv (by simp [Lv.step]; omega)
          (step_inv_R _ _ _) (step_inv_D _ _ _)
        rw [hRr] at h
        simp only [shredN]
        exact h
      | none =>
        simp only [shredN]
        have hDs : (lv.step .opt .opt).D lv.sd = lv.D lv.sd :=
          step_D (lv := lv) (trp := .opt) (srp := .opt) (d := lv.sd) (by simp [defOf])
        have h := absent_chunkN_sub n tn .opt (lv.step .opt .opt) sn r lv.sd pc' adj hsn
          (by simp [Lv.step]; omega) (step_inv_R _ _ _) (by simp [Lv.step, defOf]) (by simp [Lv.step, defOf])
          (by rw [hDs, hD]; simp [Lv.step, defOf])
        rw [hRr, hDs, hD] at h
        exact h
      | prim x => simp [confN] at hcv
      | struct vs' => simp [confN] at hcv
      | list ws => simp [confN] at hcv
    · -- repeated → repeated
      simp only [wrap] at hcv ⊢
      cases v with
      | list ws =>
        simp only [confN] at hcv
        cases ws with
        | nil =>
          simp only [shredN, List.map_nil]
          have hDs : (lv.step .rpt .rpt).D lv.sd = lv.D lv.sd :=
            step_D (lv := lv) (trp := .rpt) (srp := .rpt) (d := lv.sd) (by simp [defOf])
          have h := absent_chunkN_sub n tn .rpt (lv.step .rpt .rpt) sn r lv.sd pc' adj hsn
            (by simp [Lv.step]; omega) (step_inv_R _ _ _) (by simp [Lv.step, defOf]) (by simp [Lv.step, defOf])
            (by rw [hDs, hD]; simp [Lv.step, defOf])
          rw [hRr, hDs, hD] at h
          exact h
        | cons w0 ws =>
          simp only [List.all_cons, Bool.and_eq_true] at hcv
          simp only [shredN, List.map_cons, List.foldr_map]
          have hgood : ∀ (r' : Nat) (w : Val), r' ≤ lv.sr + 1 →
              (shredN (eraseN sn) r' (lv.sr + 1) (lv.sd + 1) w).length = leavesN (eraseN sn) ∧
                NE (shredN (eraseN sn) r' (lv.sr + 1) (lv.sd + 1) w) := fun r' w hr' =>
            ⟨(shredN_spec (eraseN sn) r' (lv.sr + 1) (lv.sd + 1) w hwn hr').1.1,
              ne_of_good (shredN_spec (eraseN sn) r' (lv.sr + 1) (lv.sd + 1) w hwn hr').1⟩
          rw [conv_fold (fun X => chunkN n tn .rpt (lv.step .rpt .rpt) (.on sn X pc') adj) (leavesN (eraseN sn)) (leavesN (eraseN tn))
            (fun w => shredN (eraseN sn) (lv.sr + 1) (lv.sr + 1) (lv.sd + 1) w)
            (fun X Y hx hy _ _ => lin_chunkN_sub n tn .rpt _ sn X Y pc' pc' pc' adj adj adj hsn hx hy)
            (fun X => chunkN_length n tn _ _ _ _) ws (fun w _ => hgood (lv.sr + 1) w (Nat.le_refl _))
            _ (hgood r w0 (by omega)).1 (hgood r w0 (by omega)).2]
          have h0 := main_chunkN_sub n tn .rpt (lv.step .rpt .rpt) sn w0 r pc' adj hsn hwn hcv.1 (by simp [Lv.step]; omega)
            (step_inv_R _ _ _) (step_inv_D _ _ _)
          rw [hRr] at h0
          have hrest' : ∀ w ∈ ws, chunkN n tn .rpt (lv.step .rpt .rpt) (.on sn (shredN (eraseN sn) (lv.sr + 1) (lv.sr + 1) (lv.sd + 1) w) pc') adj =
              shredN (eraseN tn) (lv.tr + 1) (lv.tr + 1) (lv.td + 1) (projN sn tn w) := by
            intro w hw'
            have hcw : confN (eraseN sn) w = true := (List.all_eq_true.mp hcv.2) w hw'
            have h := main_chunkN_sub n tn .rpt (lv.step .rpt .rpt) sn w (lv.sr + 1) pc' adj hsn hwn hcw (Nat.le_refl _)
              (step_inv_R _ _ _) (step_inv_D _ _ _)
            have hRk : (lv.step .rpt .rpt).R (lv.sr + 1) = lv.tr + 1 := step_inv_R lv .rpt .rpt
            rw [hRk] at h
            exact h
          show zipApp (chunkN n tn .rpt (lv.step .rpt .rpt) (.on sn (shredN (eraseN sn) r (lv.sr + 1) (lv.sd + 1) w0) pc') adj) _ = _
          rw [foldr_zip_congr ws hrest']
          exact congrArg (fun z => zipApp z _) h0
      | prim x => simp [confN] at hcv
      | struct vs' => simp [confN] at hcv
      | none => simp [confN] at hcv
      | some w => simp [confN] at hcv
end

/-- a whole (non-empty) row group: the chunk view distributes over the rows -/
theorem chunkView_rows_sub (src tgt : PNode) (n : Nat) (v0 : Val) (vs : List Val)
    (hp : subN src tgt = true) (hwf : wfN (eraseN src) = true)
    (hconf : ∀ v ∈ v0 :: vs, confN (eraseN src) v = true) :
    chunkView src tgt (joinRows (leavesP src) ((v0 :: vs).map (shred src))) n =
      joinRows (leavesP tgt) ((v0 :: vs).map fun v => shred tgt (projN src tgt v)) := by
  have hgood : ∀ w, (shred src w).length = leavesP src ∧ NE (shred src w) := fun w =>
    ⟨(shredN_spec (eraseN src) 0 0 0 w hwf (Nat.le_refl _)).1.1,
      ne_of_good (shredN_spec (eraseN src) 0 0 0 w hwf (Nat.le_refl _)).1⟩
  simp only [chunkView, joinRows, joinSegs, List.map_cons, List.foldr_cons, List.foldr_map]
  rw [conv_fold (fun X => chunkN n tgt .req lv0 (.on src X none) none) (leavesP src) (leavesP tgt)
    (fun w => shred src w)
    (fun X Y hx hy _ _ => lin_chunkN_sub n tgt .req lv0 src X Y none none none none none none hp hx hy)
    (fun X => chunkN_length n tgt _ _ _ _) vs (fun w _ => hgood w) _ (hgood v0).1 (hgood v0).2]
  have h0 : chunkN n tgt .req lv0 (.on src (shred src v0) none) none = shred tgt (projN src tgt v0) :=
    main_chunkN_sub n tgt .req lv0 src v0 0 none none hp hwf (hconf v0 (by simp)) (Nat.le_refl _) rfl rfl
  have hrest : ∀ w ∈ vs, chunkN n tgt .req lv0 (.on src (shred src w) none) none = shred tgt (projN src tgt w) :=
    fun w hw => main_chunkN_sub n tgt .req lv0 src w 0 none none hp hwf (hconf w (by simp [hw])) (Nat.le_refl _) rfl rfl
  show zipApp (chunkN n tgt .req lv0 (.on src (shredN (eraseN src) 0 0 0 v0) none) none) _ = _
  rw [foldr_zip_congr vs hrest]
  exact congrArg (fun z => zipApp z _) h0

end PqModel.Convert
