import PqModel.FileCodecsTyped
import PqModel.PlainDict
import PqModel.DeltaGo
import PqModel.RleDecode

/-! # The Go DECODERS on the read path of the C01 file model

`FileCodecsTyped.lean` reads pages with the SPEC decoders. This file builds the same columns with
the MIRRORS of the Go decoders of C04 on the read side (the write side — MIRROR encoders, page
framing — is unchanged, field by field):

* values: `PlainDict.goDecFixed` (PLAIN INT32/INT64/INT96/FLOAT/DOUBLE), `PlainDict.goDecFLBA`,
  `Plain.goDecByteArray`, the PLAIN boolean page (`DecodeBoolean` is a copy, `newBooleanPage`
  slices `ByteCount(numValues)` bytes), `PlainDict.goBssDecFixed` / `goBssDecFLBA` (with the stale
  content of the recycled destination as a parameter), `Delta.goDecode32/64`,
  `Delta.goDecodeDLBA` (flat buffer + offsets, cut back into values by `sliceOffs`),
  `Delta.goDecodeDBA` (portable loop; FIXED_LEN_BYTE_ARRAY: the concatenation, re-cut into
  `n`-byte values), `Rle.goDecodeBoolean`;
* levels: `Rle.goDecodeLevels` (`decodeBytes`), the first `num_values` levels are kept;
* dictionary indexes: `Rle.goDecodeDict` + `PlainDict.goNewIndexedPage` with the stale content of
  the pooled index buffer as a parameter;
* dictionary page: the Go PLAIN decoder of the type.

Everything here is MIRROR glue (definitions only); `Props/C01Go.lean` proves the round-trip
hypotheses of the composition theorem for these columns from the C04 theorems about the Go
decoders. What is the model's and not Go's: the comparison of the number of decoded values with
the page header's value count (`exactly`) — parquet-go takes the count of most page types from the
decoded buffer; for the pages the writer produces the two agree. A Go panic and a Go error are both
`none` here. -/
namespace PqModel.FileModel
open PqModel PqModel.Bits

def goOk {α : Type} : Plain.GoRes α → Option α
  | .ok a => some a
  | _ => none

/-- what a page may hold: the page header's `num_values` is an `int32`, and the Go RLE / DELTA
    decoders refuse streams announcing more than `math.MaxInt32` values -/
def okCount (k : Nat) : Bool := decide (k < 2 ^ 31)

/-- the values of a FIXED_LEN_BYTE_ARRAY page: the `n`-byte chunks of the flat buffer
    (`fixedLenByteArrayPage.index`, page_fixed_len_byte_array.go) as little-endian numerals -/
def flatValues (n : Nat) (flat : Plain.Bytes) : List Nat :=
  (Plain.chunks n (flat.length / n) flat).map Plain.leVal

/-- PLAIN INT32/INT64/INT96/FLOAT/DOUBLE read by `goDecFixed` -/
def goPlainFixed (k : Nat) : ValCodec :=
  { plainFixed k with dec := fun cnt bs => exactly cnt (goOk (PlainDict.goDecFixed k (toB bs))) }

/-- PLAIN FIXED_LEN_BYTE_ARRAY(n) read by `goDecFLBA` -/
def goPlainFLBA (n : Nat) : ValCodec :=
  { plainFixed n with
    dec := fun cnt bs => exactly cnt ((goOk (PlainDict.goDecFLBA n (toB bs))).map (flatValues n)) }

/-- BYTE_STREAM_SPLIT numeric types read by `goBssDecFixed` -/
def goBssFixed (k : Nat) : ValCodec :=
  { bssFixed k with dec := fun cnt bs => exactly cnt (goOk (PlainDict.goBssDecFixed k (toB bs))) }

/-- BYTE_STREAM_SPLIT FIXED_LEN_BYTE_ARRAY(n) read by `goBssDecFLBA` into a destination that held
    `stale` -/
def goBssFLBA (n : Nat) (stale : Plain.Bytes) : ValCodec :=
  { bssFixed n with
    dec := fun cnt bs => exactly cnt ((goOk (PlainDict.goBssDecFLBA n stale (toB bs))).map (flatValues n)) }

/-- DELTA_BINARY_PACKED INT32 read by `goDecode32` (`DecodeInt32` drops the unread rest) -/
def goDelta32 : ValCodec :=
  { delta32 with
    okP := fun xs => okCount xs.length
    dec := fun cnt bs =>
      match Delta.goDecode32 bs with
      | .ok (ys, _) => if ys.length = cnt then some (ys.map BitVec.toNat) else none
      | .error _ => none }

def goDelta64 : ValCodec :=
  { delta64 with
    okP := fun xs => okCount xs.length
    dec := fun cnt bs =>
      match Delta.goDecode64 bs with
      | .ok (ys, _) => if ys.length = cnt then some (ys.map BitVec.toNat) else none
      | .error _ => none }

/-- MIRROR of the boolean page over decoded bytes: `newBooleanPage` (page_boolean.go:19-26) keeps
    `values[:bitpack.ByteCount(numValues)]` (a slice-bounds panic when the buffer is shorter), value
    `i` is bit `i % 8` of byte `i / 8` -/
def goBoolPage (cnt : Nat) (bytes : Plain.Bytes) : Option (List Nat) :=
  if bytes.length < (cnt + 7) / 8 then none
  else some ((List.range cnt).map fun i => Rle.b2n (Plain.bitAt (bytes.take ((cnt + 7) / 8)) i))

/-- PLAIN BOOLEAN: `plain.DecodeBoolean` (plain.go:65-67) is `append(dst[:0], src...)` -/
def goPlainBool : ValCodec :=
  { plainBool with dec := fun cnt bs => goBoolPage cnt (toB bs) }

/-- `goBoolPage` over bytes given as naturals (the output of the RLE mirror): bit `i % 8` of byte
    `i / 8` is entry `i` of `bytesToBits` (LSB first) -/
def goBoolPageN (cnt : Nat) (bytes : List Nat) : Option (List Nat) :=
  if bytes.length < (cnt + 7) / 8 then none
  else some (((bytesToBits (bytes.take ((cnt + 7) / 8))).map Rle.b2n).take cnt)

/-- RLE BOOLEAN read by `Rle.goDecodeBoolean` (bytes, 8 values each), then the boolean page.
    Admissible pages: the body fits the `uint32` prefix and the bit count fits `MaxInt32`. -/
def goRleBool : ValCodec :=
  { rleBool with
    okP := fun xs => rleBool.okP xs && decide (8 * (boolPack xs).length ≤ 2 ^ 31 - 1)
    dec := fun cnt bs =>
      match Rle.goDecodeBoolean bs with
      | .ok bytes => goBoolPageN cnt bytes
      | .error _ => none }

/-- PLAIN BYTE_ARRAY read by `goDecByteArray` -/
def goPlainBA : ValCodec :=
  { plainBA with
    dec := fun cnt bs =>
      exactly cnt ((goOk (Plain.goDecByteArray (toB bs))).map (·.map fun v => natOfBytes (toN v))) }

/-- the values of a byte array page: `flat[offs[i] : offs[i+1]]` (`byteArrayPage.index`) -/
def sliceFrom (flat : List Nat) : Nat → List Nat → List (List Nat)
  | _, [] => []
  | o, o' :: rest => (flat.drop o).take (o' - o) :: sliceFrom flat o' rest

def sliceOffs (flat : List Nat) : List Nat → List (List Nat)
  | [] => []
  | o :: rest => sliceFrom flat o rest

/-- DELTA_LENGTH_BYTE_ARRAY read by `goDecodeDLBA`. Admissible pages: fewer than 2^31 values, less
    than 4 GiB of value bytes (Go's offsets are `uint32`). -/
def goDlba : ValCodec :=
  { dlba with
    okP := fun xs => okCount xs.length && decide ((xs.map bytesOfNat).flatten.length < 2 ^ 32)
    dec := fun cnt bs =>
      match Delta.goDecodeDLBA bs with
      | .ok (flat, offs) =>
        if (sliceOffs flat offs).length = cnt then some ((sliceOffs flat offs).map natOfBytes) else none
      | .error _ => none }

/-- DELTA_BYTE_ARRAY read by the portable `goDecodeDBA` (the assembly build's wrapper returns the
    same values on streams that end with their suffix bytes: C04 `conformant_dba_go_amd64`) -/
def goDba : ValCodec :=
  { dba with
    okP := fun xs => okCount xs.length
    dec := fun cnt bs =>
      match Delta.goDecodeDBA bs with
      | .ok vs => if vs.length = cnt then some (vs.map natOfBytes) else none
      | .error _ => none }

/-- DELTA_BYTE_ARRAY of FIXED_LEN_BYTE_ARRAY(n): `DecodeFixedLenByteArray` runs the same loop and
    returns the concatenation, which the page cuts into `n`-byte values -/
def goDbaFixed (n : Nat) : ValCodec :=
  { dbaFixed n with
    okP := fun xs => okCount xs.length
    dec := fun cnt bs =>
      match Delta.goDecodeDBA bs with
      | .ok vs =>
        let ws := Delta.chunksOf n vs.flatten.length vs.flatten
        if ws.length = cnt ∧ vs.flatten.length % n = 0 then some (ws.map Rle.leNat) else none
      | .error _ => none }

/-- PLAIN of every type with the Go decoder: also its dictionary page -/
def goPlainOf : PType → ValCodec
  | .boolean => goPlainBool
  | .int32 => goPlainFixed 4
  | .int64 => goPlainFixed 8
  | .int96 => goPlainFixed 12
  | .float => goPlainFixed 4
  | .double => goPlainFixed 8
  | .byteArray => goPlainBA
  | .flba n => goPlainFLBA n

/-- the table of `valCodecOf` with the Go decoders; `stale` = former content of the destination
    the BYTE_STREAM_SPLIT FIXED_LEN_BYTE_ARRAY decoder writes into by index -/
def goValCodecOf (stale : Plain.Bytes) : PType → VEnc → Option ValCodec
  | t, .plain => some (goPlainOf t)
  | .boolean, .rle => some goRleBool
  | .int32, .deltaBinaryPacked => some goDelta32
  | .int64, .deltaBinaryPacked => some goDelta64
  | .int32, .byteStreamSplit => some (goBssFixed 4)
  | .int64, .byteStreamSplit => some (goBssFixed 8)
  | .float, .byteStreamSplit => some (goBssFixed 4)
  | .double, .byteStreamSplit => some (goBssFixed 8)
  | .flba n, .byteStreamSplit => some (goBssFLBA n stale)
  | .byteArray, .deltaLengthByteArray => some goDlba
  | .byteArray, .deltaByteArray => some goDba
  | .flba n, .deltaByteArray => some (goDbaFixed n)
  | _, _ => none

def ColSpec.goVal (c : ColSpec) (stale : Plain.Bytes) : ValCodec :=
  (goValCodecOf stale c.t c.e).getD (goPlainOf c.t)

/-! ## levels and dictionary indexes -/

/-- MIRROR of the level read path: `decodeBytes` at width `bits.Len(m)` returns every value of
    every run (the padding of a last bit-packed group included); `decodeLevels` (column.go:938-955):
    fewer than `num_values` levels is an error ("decoding level expected %d values but got only
    %d"), more are cut off (`Resize(numValues)`). Nothing is stored at maximum level 0. -/
def goLvDec (m cnt : Nat) (bs : List Nat) : Option (List Nat) :=
  if m = 0 then some (List.replicate cnt 0)
  else
    match Rle.goDecodeLevels (Rle.maxLen [m]) bs with
    | .ok ys => if ys.length < cnt then none else some (ys.take cnt)
    | .error _ => none

/-- MIRROR of the index read path: `RLEDictionary.DecodeInt32` into the pooled buffer, then
    `newIndexedPage` with the page's value count -/
def goIdxDec (stale : List Nat) (cnt : Nat) (bs : List Nat) : Option (List Nat) :=
  match Rle.goDecodeDict bs with
  | .ok ys => some (PlainDict.goNewIndexedPage ys stale cnt)
  | .error _ => none

/-- `mkCodec` with the Go decoders on the read side; the write side is `mkCodec`'s -/
def mkCodecGo (v d : ValCodec) (staleIdx : List Nat) (v1 : Bool) (lv : Nat × Nat) (comp : List Nat → List Nat)
    (decomp : List Nat → Option (List Nat)) : ColCodec (List Nat) (Page (List Nat)) :=
  { mkCodec v d v1 lv comp decomp with
    decL := goLvDec
    decI := goIdxDec staleIdx }

/-- column `j` of schema `n` with spec `cols j`, read by the Go decoders -/
def typedCodecGo (n : Dremel.Node) (cols : Nat → ColSpec) (stale : Plain.Bytes) (staleIdx : List Nat) (v1 : Bool)
    (comp : List Nat → List Nat) (decomp : List Nat → Option (List Nat)) (j : Nat) :
    ColCodec (List Nat) (Page (List Nat)) :=
  mkCodecGo ((cols j).goVal stale) (goPlainOf (cols j).t) staleIdx v1 ((levelsN n 0 0).getD j (0, 0)) comp decomp

end PqModel.FileModel
