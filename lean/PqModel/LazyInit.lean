/-! # Lazily initialised shared state: once-guarded loads and copy-on-write caches

Two publication protocols of the library that are neither a lock-protected map (`Registry.lean`)
nor a CAS on a pointer (`CasPublish.lean`).

## `OnceLoad` — MIRROR of the lazily loaded gzip bloom filter (bloom.go `newBloomFilter`,
case `*format.BloomFilterGzip`; the same shape as schema.go `onceValue.load`)

```
var ( once sync.Once; decompressed []byte; decompErr error )
lazyCheck := func(...) {
    once.Do(func() { ... file.ReadAt ...; decompressed, decompErr = gunzip(buf) })   -- guard + loader
    if decompErr != nil { return false, decompErr }                                   -- probe
    return bloom.CheckSplitBlock(bytes.NewReader(decompressed), ...)                  -- probe
}
```

k callers of `Check` on one column chunk, all interleavings. `sync.Once.Do` is modelled as what its
documentation promises: the first caller runs the function, every other caller *returns only after
that run has completed*. The `wait` flag of the step relation selects this behaviour; `wait = false`
is the variant in which a late caller does not wait (a flag set by compare-and-swap in front of the
loader): the code as it is has `wait = true`.

The loader writes the captured variables over a *window* (`loading`), a caller reads them in `probe`;
a probe while another caller is loading is a read concurrent with a write.

## `CowCache` — MIRROR of the copy-on-write caches (column_buffer_reflect.go `structFieldsCache`
in `writeValueFuncOfGroup`; schema.go `cacheMap.load`)

```
cached := cache.Load()                       -- load
tbl, ok := cached[t]
if !ok {
    tbl = make(...)                          -- alloc: a new, empty table ...
    newMap := copy(cached) + {t ↦ tbl}       --        ... in a NEW outer map
    for f in fields(t) { tbl[f.name] = ... } -- fill (one step per field)
    cache.Store(newMap)                      -- store
}
... tbl[name] ...                            -- use: look the fields up
```

The outer map is a value (it is never written after it was built: a new one is made for every
insertion); the per-type table is a mutable object that is filled field by field. `early = true`
selects the variant that stores the new outer map before the table is filled. -/
namespace PqModel.OnceLoad

inductive OPc where
  | start
  | loading                  -- inside the function given to once.Do (ReadAt, gunzip, assignment)
  | probe                    -- past the guard, before reading decompErr / decompressed
  | done (r : Option Nat)    -- what the caller probed: `none` = the zero values (nil slice, nil error)
deriving DecidableEq, Repr

inductive Guard where
  | idle | running | finished
deriving DecidableEq, Repr

structure St where
  guard : Guard
  var : Option Nat     -- decompressed / decompErr; `none` = still the zero values
  loads : Nat          -- ghost: how often the loader body was entered
  cs : List OPc
deriving DecidableEq, Repr

def init (k : Nat) : St := { guard := .idle, var := none, loads := 0, cs := List.replicate k .start }

/-- one atomic step of caller `i`; `v` is what the loader produces (filter bits or the error) -/
inductive Step (wait : Bool) (v : Nat) : St → St → Prop where
  /-- once.Do, first caller: enters the loader -/
  | first {s} {i : Nat} : s.cs[i]? = some .start → s.guard = .idle →
      Step wait v s { s with guard := .running, loads := s.loads + 1, cs := s.cs.set i .loading }
  /-- end of the loader: the variables are assigned, once.Do returns -/
  | finish {s} {i : Nat} : s.cs[i]? = some .loading →
      Step wait v s { s with guard := .finished, var := some v, cs := s.cs.set i .probe }
  /-- once.Do, the run has completed: returns at once -/
  | late {s} {i : Nat} : s.cs[i]? = some .start → s.guard = .finished →
      Step wait v s { s with cs := s.cs.set i .probe }
  /-- VARIANT (`wait = false`): the guard is taken, the run has not completed, the caller goes on -/
  | lateNoWait {s} {i : Nat} : wait = false → s.cs[i]? = some .start → s.guard = .running →
      Step wait v s { s with cs := s.cs.set i .probe }
  /-- reads decompErr / decompressed and answers from them -/
  | probe {s} {i : Nat} : s.cs[i]? = some .probe →
      Step wait v s { s with cs := s.cs.set i (.done s.var) }

inductive Reach (wait : Bool) (v : Nat) (k : Nat) : St → Prop where
  | init : Reach wait v k (init k)
  | step {s s'} : Reach wait v k s → Step wait v s s' → Reach wait v k s'

/-- a caller reads the variables while another caller is still inside the loader -/
def Conflict (s : St) : Prop :=
  ∃ (i j : Nat), i ≠ j ∧ s.cs[i]? = some .loading ∧ s.cs[j]? = some .probe

structure OInv (v : Nat) (s : St) : Prop where
  idle : s.guard = .idle → s.loads = 0 ∧ s.var = none ∧ ∀ (i : Nat) pc, s.cs[i]? = some pc → pc = .start
  run : s.guard = .running → s.loads = 1 ∧ (∃ (i : Nat), s.cs[i]? = some .loading) ∧
      ∀ (i : Nat) pc, s.cs[i]? = some pc → pc = .start ∨ pc = .loading
  one : ∀ (i j : Nat), s.cs[i]? = some .loading → s.cs[j]? = some .loading → i = j
  ld : ∀ (i : Nat), s.cs[i]? = some .loading → s.guard = .running
  fin : s.guard = .finished → s.loads = 1 ∧ s.var = some v
  res : ∀ (i : Nat) r, s.cs[i]? = some (.done r) → r = some v

theorem oinv_init (v k : Nat) : OInv v (init k) := by
  constructor <;> simp [init, List.getElem?_replicate] <;> grind

theorem oinv_step {v : Nat} {s s'} (hi : OInv v s) (h : Step true v s s') : OInv v s' := by
  obtain ⟨h1, h2, h3, h4, h5, h6⟩ := hi
  cases h
  case lateNoWait i hw _ _ => cases hw
  case first i hs hg =>
    have all := (h1 hg).2.2
    constructor <;> simp only [List.getElem?_set] <;> grind
  case finish i hs =>
    have hg := h4 i hs
    have all := (h2 hg).2.2
    constructor <;> simp only [List.getElem?_set] <;> grind
  case late i hs hg =>
    constructor <;> simp only [List.getElem?_set] <;> grind
  case probe i hs =>
    have hg : s.guard = .finished := by
      rcases hgd : s.guard with _ | _ | _
      · have := (h1 hgd).2.2 i _ hs; cases this
      · rcases (h2 hgd).2.2 i _ hs with h | h <;> cases h
      · rfl
    have hv := (h5 hg).2
    constructor <;> simp only [List.getElem?_set] <;> grind

theorem oinv_reach {v k s} (hr : Reach true v k s) : OInv v s := by
  induction hr with
  | init => exact oinv_init v k
  | step _ hs ih => exact oinv_step ih hs

theorem oinv_no_conflict {v s} (hi : OInv v s) : ¬ Conflict s := by
  intro ⟨i, j, _, hl, hp⟩
  have hg := hi.ld i hl
  rcases (hi.run hg).2.2 j _ hp with h | h <;> cases h

theorem cs_length {wait v s s'} (h : Step wait v s s') : s'.cs.length = s.cs.length := by
  cases h <;> simp

/-- while some caller has not returned, some step is enabled: a caller that finds the guard taken
    waits for a loader that can always finish -/
theorem progress {v s} (hi : OInv v s) {i : Nat} {pc} (h : s.cs[i]? = some pc) (hn : ∀ r, pc ≠ .done r) :
    ∃ s', Step true v s s' := by
  cases pc with
  | loading => exact ⟨_, .finish h⟩
  | probe => exact ⟨_, .probe h⟩
  | done r => exact absurd rfl (hn r)
  | start =>
    rcases hg : s.guard with _ | _ | _
    · exact ⟨_, .first h hg⟩
    · obtain ⟨j, hj⟩ := (hi.run hg).2.1
      exact ⟨_, .finish hj⟩
    · exact ⟨_, .late h hg⟩

/-! ### executable form (driver op `once.run`): one action of one caller -/

inductive Act where
  | enter (i : Nat)    -- the caller reaches the guard
  | finish (i : Nat)   -- the loader of caller i completes
  | probe (i : Nat)    -- caller i reads the variables and answers
deriving DecidableEq, Repr

/-- `none` = the action is not enabled. For `enter` on a running guard with `wait = true` this is the
    caller blocked inside `once.Do`. -/
def exec (wait : Bool) (v : Nat) (s : St) : Act → Option St
  | .enter i =>
    if s.cs[i]? = some .start then
      match s.guard with
      | .idle => some { s with guard := .running, loads := s.loads + 1, cs := s.cs.set i .loading }
      | .finished => some { s with cs := s.cs.set i .probe }
      | .running => if wait then none else some { s with cs := s.cs.set i .probe }
    else none
  | .finish i =>
    if s.cs[i]? = some .loading then some { s with guard := .finished, var := some v, cs := s.cs.set i .probe } else none
  | .probe i =>
    if s.cs[i]? = some .probe then some { s with cs := s.cs.set i (.done s.var) } else none

theorem exec_sound {wait v s a s'} (h : exec wait v s a = some s') : Step wait v s s' := by
  cases a with
  | enter i =>
    simp only [exec] at h
    split at h
    · rename_i hs
      split at h
      · rename_i hg; cases h; exact .first hs hg
      · rename_i hg; cases h; exact .late hs hg
      · rename_i hg
        split at h
        · cases h
        · rename_i hw; cases h; exact .lateNoWait (by simpa using hw) hs hg
    · cases h
  | finish i =>
    simp only [exec] at h
    split at h
    · rename_i hs; cases h; exact .finish hs
    · cases h
  | probe i =>
    simp only [exec] at h
    split at h
    · rename_i hs; cases h; exact .probe hs
    · cases h

theorem exec_complete {wait v s s'} (h : Step wait v s s') : ∃ a, exec wait v s a = some s' := by
  cases h
  case first i hs hg => exact ⟨.enter i, by simp [exec, hs, hg]⟩
  case finish i hs => exact ⟨.finish i, by simp [exec, hs]⟩
  case late i hs hg => exact ⟨.enter i, by simp [exec, hs, hg]⟩
  case lateNoWait i hw hs hg => exact ⟨.enter i, by simp [exec, hs, hg, hw]⟩
  case probe i hs => exact ⟨.probe i, by simp [exec, hs]⟩

/-- outcome tokens of a schedule; a disabled action leaves the state as it is -/
def runActs (wait : Bool) (v : Nat) : St → List Act → List String × St
  | s, [] => ([], s)
  | s, a :: as =>
    match exec wait v s a with
    | none =>
      let tok := match a with
        | .enter i => if s.cs[i]? = some .start then "blocked" else "bad"
        | _ => "bad"
      let r := runActs wait v s as
      (tok :: r.1, r.2)
    | some s' =>
      let tok := match a with
        | .enter i => if s'.cs[i]? = some .loading then "load" else "pass"
        | .finish _ => "ok"
        | .probe _ => match s.var with
          | some x => s!"r{x}"
          | none => "rnil"
      let r := runActs wait v s' as
      (tok :: r.1, r.2)

end PqModel.OnceLoad

namespace PqModel.CowCache

inductive CPc where
  | start
  | alloc (snap : List (Nat × Nat))                          -- Load missed; `snap` = the map it loaded
  | filling (m : List (Nat × Nat)) (t : Nat) (j : Nat) (stored : Bool)   -- new outer map `m`, own table `t`, `j` fields inserted
  | storing (m : List (Nat × Nat)) (t : Nat)                 -- table complete, before Store
  | use (t : Nat)                                            -- about to look the fields up in table `t`
  | done (r : Nat)                                           -- number of fields it found
deriving DecidableEq, Repr

structure Gor where
  key : Nat
  pc : CPc
deriving DecidableEq, Repr

structure St where
  pub : List (Nat × Nat)    -- the published outer map: key ↦ table id (first match wins)
  filled : Nat → Nat        -- per table: number of fields inserted so far
  fresh : Nat
  gs : List Gor

def init (keys : List Nat) : St :=
  { pub := [], filled := fun _ => 0, fresh := 0, gs := keys.map fun k => ⟨k, .start⟩ }

def bump (f : Nat → Nat) (t : Nat) : Nat → Nat := fun x => if x = t then f x + 1 else f x

/-- one atomic step of goroutine `i`; every struct type has `size` fields -/
inductive Step (early : Bool) (size : Nat) : St → St → Prop where
  /-- cache.Load() and the outer lookup: hit -/
  | loadHit {s} {i : Nat} {k t} : s.gs[i]? = some ⟨k, .start⟩ → s.pub.lookup k = some t →
      Step early size s { s with gs := s.gs.set i ⟨k, .use t⟩ }
  /-- cache.Load() and the outer lookup: miss -/
  | loadMiss {s} {i : Nat} {k} : s.gs[i]? = some ⟨k, .start⟩ → s.pub.lookup k = none →
      Step early size s { s with gs := s.gs.set i ⟨k, .alloc s.pub⟩ }
  /-- a new empty table inside a new outer map (copy of the loaded one) -/
  | alloc {s} {i : Nat} {k snap} : s.gs[i]? = some ⟨k, .alloc snap⟩ →
      Step early size s { s with gs := s.gs.set i ⟨k, .filling ((k, s.fresh) :: snap) s.fresh 0 false⟩,
                                 fresh := s.fresh + 1 }
  /-- VARIANT (`early = true`): Store before the table is filled -/
  | storeEarly {s} {i : Nat} {k m t} : early = true → s.gs[i]? = some ⟨k, .filling m t 0 false⟩ →
      Step early size s { s with pub := m, gs := s.gs.set i ⟨k, .filling m t 0 true⟩ }
  /-- insert one field into the own table -/
  | fill {s} {i : Nat} {k m t j st} : s.gs[i]? = some ⟨k, .filling m t j st⟩ → j < size → (early = true → st = true) →
      Step early size s { s with filled := bump s.filled t, gs := s.gs.set i ⟨k, .filling m t (j + 1) st⟩ }
  /-- the loop is over -/
  | filled {s} {i : Nat} {k m t st} : s.gs[i]? = some ⟨k, .filling m t size st⟩ → (early = true → st = true) →
      Step early size s { s with gs := s.gs.set i ⟨k, if st then .use t else .storing m t⟩ }
  /-- cache.Store(newMap) -/
  | store {s} {i : Nat} {k m t} : s.gs[i]? = some ⟨k, .storing m t⟩ →
      Step early size s { s with pub := m, gs := s.gs.set i ⟨k, .use t⟩ }
  /-- look every field up in the table -/
  | use {s} {i : Nat} {k t} : s.gs[i]? = some ⟨k, .use t⟩ →
      Step early size s { s with gs := s.gs.set i ⟨k, .done (s.filled t)⟩ }

inductive Reach (early : Bool) (size : Nat) (keys : List Nat) : St → Prop where
  | init : Reach early size keys (init keys)
  | step {s s'} : Reach early size keys s → Step early size s s' → Reach early size keys s'

/-- goroutine `j` reads table `t` while goroutine `i` is still inserting into it -/
def Conflict (size : Nat) (s : St) : Prop :=
  ∃ (i j : Nat) (ki kj : Nat) (m : List (Nat × Nat)) (t n : Nat) (st : Bool), i ≠ j ∧
    s.gs[i]? = some ⟨ki, .filling m t n st⟩ ∧ n < size ∧ s.gs[j]? = some ⟨kj, .use t⟩

/-- every table an outer map mentions is complete -/
def AllC (size : Nat) (filled : Nat → Nat) (m : List (Nat × Nat)) : Prop :=
  ∀ kt ∈ m, filled kt.2 = size

theorem lookup_mem {l : List (Nat × Nat)} {k t : Nat} (h : l.lookup k = some t) : (k, t) ∈ l := by
  induction l with
  | nil => simp [List.lookup] at h
  | cons x xs ih =>
    obtain ⟨a, b⟩ := x
    simp only [List.lookup] at h
    split at h
    · rename_i heq
      have : k = a := by simpa using heq
      cases h; subst this; exact List.mem_cons_self
    · exact List.mem_cons_of_mem _ (ih h)

theorem allc_bump {size : Nat} {f : Nat → Nat} {m : List (Nat × Nat)} {t : Nat} (h : AllC size f m) (ht : f t < size) :
    AllC size (bump f t) m := by
  intro kt hk
  have := h kt hk
  unfold bump
  split
  · rename_i he; rw [he] at this; omega
  · exact this

structure CInv (size : Nat) (s : St) : Prop where
  pubC : AllC size s.filled s.pub
  snapC : ∀ (i : Nat) k snap, s.gs[i]? = some ⟨k, .alloc snap⟩ → AllC size s.filled snap
  fillC : ∀ (i : Nat) k m t j st, s.gs[i]? = some ⟨k, .filling m t j st⟩ →
      st = false ∧ s.filled t = j ∧ j ≤ size ∧ t < s.fresh ∧ ∃ snap, m = (k, t) :: snap ∧ AllC size s.filled snap
  storC : ∀ (i : Nat) k m t, s.gs[i]? = some ⟨k, .storing m t⟩ → s.filled t = size ∧ AllC size s.filled m
  useC : ∀ (i : Nat) k t, s.gs[i]? = some ⟨k, .use t⟩ → s.filled t = size
  own : ∀ (i j : Nat) ki kj mi mj t ni nj si sj, s.gs[i]? = some ⟨ki, .filling mi t ni si⟩ →
      s.gs[j]? = some ⟨kj, .filling mj t nj sj⟩ → i = j
  freshC : ∀ t, s.fresh ≤ t → s.filled t = 0
  res : ∀ (i : Nat) k r, s.gs[i]? = some ⟨k, .done r⟩ → r = size

theorem cinv_init (size : Nat) (keys : List Nat) : CInv size (init keys) := by
  have hg : ∀ (i : Nat) g, (init keys).gs[i]? = some g → g.pc = .start := by
    intro i g hi
    simp only [init, List.getElem?_map, Option.map_eq_some_iff] at hi
    obtain ⟨k, _, rfl⟩ := hi
    rfl
  constructor
  · intro kt hk; simp [init] at hk
  · intro i k snap hi; have := hg i _ hi; simp at this
  · intro i k m t j st hi; have := hg i _ hi; simp at this
  · intro i k m t hi; have := hg i _ hi; simp at this
  · intro i k t hi; have := hg i _ hi; simp at this
  · intro i j ki kj mi mj t ni nj si sj hi; have := hg i _ hi; simp at this
  · intro t _; rfl
  · intro i k r hi; have := hg i _ hi; simp at this

theorem cinv_step {size : Nat} {s s'} (hi : CInv size s) (h : Step false size s s') : CInv size s' := by
  obtain ⟨h1, h2, h3, h4, h5, h6, h7, h8⟩ := hi
  cases h
  case storeEarly i k m t he _ => cases he
  case loadHit i k t hs hl =>
    have hc := h1 _ (lookup_mem hl)
    constructor <;> simp only [List.getElem?_set] <;> grind
  case loadMiss i k hs hl =>
    constructor <;> simp only [List.getElem?_set] <;> grind
  case alloc i k snap hs =>
    have hsn := h2 i k snap hs
    have hz := h7 s.fresh (Nat.le_refl _)
    constructor <;> simp only [List.getElem?_set] <;> grind
  case fill i k m t j st hs hj _ =>
    obtain ⟨a, b, c, d, snap, e, f⟩ := h3 i k m t j st hs
    have hlt : s.filled t < size := by omega
    have hb : ∀ m', AllC size s.filled m' → AllC size (bump s.filled t) m' := fun m' hm => allc_bump hm hlt
    have hne : ∀ t', s.filled t' = size → bump s.filled t t' = size := by
      intro t' ht'; unfold bump; split
      · rename_i he; rw [he] at ht'; omega
      · exact ht'
    have hself : bump s.filled t t = j + 1 := by simp [bump, b]
    have hoth : ∀ t', t' ≠ t → bump s.filled t t' = s.filled t' := by intro t' h; simp [bump, h]
    constructor <;> simp only [List.getElem?_set] <;> grind
  case filled i k m t st hs _ =>
    obtain ⟨a, b, c, d, snap, e, f⟩ := h3 i k m t size st hs
    have hm : AllC size s.filled m := by
      intro kt hk; rw [e] at hk
      rcases List.mem_cons.mp hk with h | h
      · rw [h]; exact b
      · exact f kt h
    subst a
    constructor <;> simp only [List.getElem?_set] <;> grind
  case store i k m t hs =>
    obtain ⟨a, b⟩ := h4 i k m t hs
    constructor <;> simp only [List.getElem?_set] <;> grind
  case use i k t hs =>
    have := h5 i k t hs
    constructor <;> simp only [List.getElem?_set] <;> grind

theorem cinv_reach {size keys s} (hr : Reach false size keys s) : CInv size s := by
  induction hr with
  | init => exact cinv_init size keys
  | step _ hs ih => exact cinv_step ih hs

theorem cinv_no_conflict {size s} (hi : CInv size s) : ¬ Conflict size s := by
  intro ⟨i, j, ki, kj, m, t, n, st, _, hf, hn, hu⟩
  have a := (hi.fillC i ki m t n st hf).2.1
  have b := hi.useC j kj t hu
  omega

end PqModel.CowCache
