import PqModel.Variant

/-! Lemmas for the C19 round-trip theorems (helper layer; the property theorems are in
    `Props/C19.lean`). -/
namespace PqModel.Variant

/-! ### little-endian integers -/

@[simp] theorem leN_length (k n : Nat) : (leN k n).length = k := by
  induction k generalizing n with
  | zero => rfl
  | succ k ih => simp [leN, ih]

theorem unLE_leN (k n : Nat) (h : n < 256 ^ k) : unLE (leN k n) = n := by
  induction k generalizing n with
  | zero => simp [leN, unLE]; omega
  | succ k ih =>
    have h1 : n / 256 < 256 ^ k := by
      rw [Nat.div_lt_iff_lt_mul (by decide)]; rw [Nat.pow_succ] at h; exact h
    simp only [leN, unLE, ih _ h1]
    have : (UInt8.ofNat (n % 256)).toNat = n % 256 := by
      simp [UInt8.toNat_ofNat']
    rw [this]; omega

theorem readUInt_leN (k n : Nat) (rest : Bytes) (h : fits k n) :
    readUInt k (leN k n ++ rest) = some (n, rest) := by
  unfold readUInt
  have hl : k ≤ (leN k n ++ rest).length := by simp
  rw [if_pos hl]
  have e1 : (leN k n ++ rest).take k = leN k n := by
    rw [List.take_append_of_le_length (by simp)]; simp [List.take_of_length_le]
  have e2 : (leN k n ++ rest).drop k = rest := by
    rw [List.drop_append_of_le_length (by simp)]; simp [List.drop_of_length_le]
  rw [e1, e2, unLE_leN k n h]

theorem readMany_flatMap (k : Nat) (xs : List Nat) (rest : Bytes) (h : ∀ x ∈ xs, fits k x) :
    readMany k xs.length (xs.flatMap (leN k) ++ rest) = some (xs, rest) := by
  induction xs with
  | nil => simp [readMany]
  | cons x xs ih =>
    simp only [List.length_cons, List.flatMap_cons, List.append_assoc, readMany]
    rw [readUInt_leN k x _ (h x (by simp))]
    simp only
    rw [ih (fun y hy => h y (by simp [hy]))]


/-! ### widths -/

theorem fits_mono {w m n : Nat} (h : m ≤ n) (hn : fits w n) : fits w m := by
  unfold fits at *; omega

/-- the width chosen by `offsetSizeCode` is large enough (values below 2^32) -/
theorem fits_widthOf {n : Nat} (h : n < 2 ^ 32) : fits (offsetSizeCode n + 1) n := by
  unfold fits offsetSizeCode
  split
  · omega
  · split
    · omega
    · split
      · omega
      · omega

theorem offsetSizeCode_le (n : Nat) : offsetSizeCode n ≤ 3 := by
  unfold offsetSizeCode; split <;> (try split) <;> (try split) <;> omega

theorem fits_one_of_le {n : Nat} (h : n ≤ 255) : fits 1 n := by unfold fits; omega

theorem fits_four_of_lt {n : Nat} (h : n < 2 ^ 32) : fits 4 n := by unfold fits; omega

/-! ### offsets -/

@[simp] theorem startsOf_length (acc : Nat) (ls : List Nat) : (startsOf acc ls).length = ls.length := by
  induction ls generalizing acc with
  | nil => rfl
  | cons l ls ih => simp [startsOf, ih]

@[simp] theorem offsetsOf_length (ls : List Nat) : (offsetsOf ls).length = ls.length + 1 := by
  simp [offsetsOf]

theorem startsOf_le (acc : Nat) (ls : List Nat) : ∀ o ∈ startsOf acc ls, o ≤ acc + ls.sum := by
  induction ls generalizing acc with
  | nil => simp [startsOf]
  | cons l ls ih =>
    intro o ho
    simp only [startsOf, List.mem_cons] at ho
    simp only [List.sum_cons]
    cases ho with
    | inl h => omega
    | inr h => have := ih _ o h; omega

theorem offsetsOf_le (ls : List Nat) : ∀ o ∈ offsetsOf ls, o ≤ ls.sum := by
  intro o ho
  simp only [offsetsOf, List.mem_append, List.mem_singleton] at ho
  cases ho with
  | inl h => have := startsOf_le 0 ls o h; omega
  | inr h => omega

theorem offsetsOf_take (ls : List Nat) : (offsetsOf ls).take ls.length = startsOf 0 ls := by
  unfold offsetsOf
  rw [List.take_append_of_le_length (by simp)]
  simp [List.take_of_length_le]

theorem offsetsOf_getLastD (ls : List Nat) : (offsetsOf ls).getLastD 0 = ls.sum := by
  simp [offsetsOf]

/-- the offsets list seen as consecutive pairs: `startsOf acc ls ++ [acc + sum ls]` -/
theorem sliceAll_starts (pre : Bytes) (cs : List Bytes) (rest : Bytes) :
    sliceAll (pre ++ (cs.flatten ++ rest))
      (startsOf pre.length (cs.map List.length) ++ [pre.length + (cs.map List.length).sum]) = some cs := by
  induction cs generalizing pre with
  | nil => simp [startsOf, sliceAll]
  | cons c cs ih =>
    have ih' := ih (pre ++ c)
    simp only [List.length_append, List.append_assoc] at ih'
    simp only [List.map_cons, startsOf, List.sum_cons, List.flatten_cons, List.append_assoc]
    cases hcs : startsOf (pre.length + c.length) (cs.map List.length) ++
        [pre.length + (c.length + (cs.map List.length).sum)] with
    | nil => simp at hcs
    | cons b bs =>
      have hb : b = pre.length + c.length := by
        cases cs with
        | nil => simp [startsOf] at hcs; omega
        | cons c2 cs2 => simp [startsOf] at hcs; omega
      rw [List.cons_append, hcs]
      simp only [sliceAll]
      have hle : pre.length ≤ b ∧ b ≤ (pre ++ (c ++ (cs.flatten ++ rest))).length := by
        simp; omega
      rw [if_pos hle]
      have e : startsOf (pre.length + c.length) (cs.map List.length) ++
          [pre.length + c.length + (cs.map List.length).sum] = b :: bs := by
        rw [← hcs]; congr 2; omega
      rw [e] at ih'
      rw [ih']
      simp only [Option.some.injEq, List.cons.injEq, and_true]
      rw [List.drop_append_of_le_length (by simp), List.drop_of_length_le (by simp)]
      simp only [List.nil_append]
      rw [hb]
      have : pre.length + c.length - pre.length = c.length := by omega
      rw [this, List.take_append_of_le_length (by simp)]
      simp [List.take_of_length_le]

theorem sliceAll_offsetsOf (cs : List Bytes) (rest : Bytes) :
    sliceAll (cs.flatten ++ rest) (offsetsOf (cs.map List.length)) = some cs := by
  have := sliceAll_starts [] cs rest
  simpa [offsetsOf] using this

/-- suffixes of the value area starting at each element: element `i` followed by the rest -/
def suffixesOf : List Bytes → List Bytes
  | [] => []
  | c :: cs => (c :: cs).flatten :: suffixesOf cs

theorem map_drop_starts (pre : Bytes) (cs : List Bytes) :
    (startsOf pre.length (cs.map List.length)).map (fun o => (pre ++ cs.flatten).drop o) = suffixesOf cs := by
  induction cs generalizing pre with
  | nil => simp [startsOf, suffixesOf]
  | cons c cs ih =>
    have ih' := ih (pre ++ c)
    simp only [List.length_append, List.append_assoc] at ih'
    simp only [List.map_cons, startsOf, suffixesOf, List.flatten_cons, List.cons.injEq]
    constructor
    · rw [List.drop_append_of_le_length (by simp), List.drop_of_length_le (by simp)]; simp
    · exact ih'

/-! ### allOk / allSome -/

theorem allOk_of_forall {α β : Type} (f : α → Except String β) (g : α → β) (xs : List α)
    (h : ∀ x ∈ xs, f x = .ok (g x)) : allOk (xs.map f) = .ok (xs.map g) := by
  induction xs with
  | nil => rfl
  | cons x xs ih =>
    simp only [List.map_cons]
    rw [h x (by simp)]
    simp only [allOk]
    rw [ih (fun y hy => h y (by simp [hy]))]

theorem allSome_of_forall {α β : Type} (f : α → Option β) (g : α → β) (xs : List α)
    (h : ∀ x ∈ xs, f x = some (g x)) : allSome (xs.map f) = some (xs.map g) := by
  induction xs with
  | nil => rfl
  | cons x xs ih =>
    simp only [List.map_cons]
    rw [h x (by simp)]
    simp only [allSome]
    rw [ih (fun y hy => h y (by simp [hy]))]

/-! ### dictionary lookup -/

theorem findIdx_lt {k : Key} {d : Dict} (h : k ∈ d) : findIdx k d < d.length := by
  induction d with
  | nil => cases h
  | cons x xs ih =>
    simp only [findIdx]
    split
    · simp
    · rename_i hne
      have : k ∈ xs := by
        cases h with
        | head => exact absurd rfl hne
        | tail _ h => exact h
      have := ih this
      simp; omega

theorem getElem?_findIdx {k : Key} {d : Dict} (h : k ∈ d) : d[findIdx k d]? = some k := by
  induction d with
  | nil => cases h
  | cons x xs ih =>
    simp only [findIdx]
    split
    · rename_i he; simp [he]
    · rename_i hne
      have : k ∈ xs := by
        cases h with
        | head => exact absurd rfl hne
        | tail _ h => exact h
      simp [ih this]


/-! ### primitives -/

theorem mkHeader_toNat (b vh : Nat) (hb : b < 4) : (mkHeader b vh).toNat = b + 4 * (vh % 64) := by
  unfold mkHeader
  rw [UInt8.toNat_ofNat']
  omega

theorem fixed_leN (k n : Nat) (rest : Bytes) (h : n < 256 ^ k) :
    fixed k (leN k n ++ rest) = .ok n := by
  unfold fixed
  rw [readUInt_leN k n rest h]

theorem lenPrefixed_enc (b rest : Bytes) (h : b.length < 2 ^ 32) :
    lenPrefixed (leN 4 b.length ++ (b ++ rest)) = .ok b := by
  unfold lenPrefixed
  rw [readUInt_leN 4 b.length _ (fits_four_of_lt h)]
  simp only
  rw [if_pos (by simp)]
  rw [List.take_append_of_le_length (by simp)]
  simp [List.take_of_length_le]

theorem bv8 (x : BitVec 8) : x.toNat < 256 ^ 1 := by have := x.isLt; omega
theorem bv16 (x : BitVec 16) : x.toNat < 256 ^ 2 := by have := x.isLt; omega
theorem bv32 (x : BitVec 32) : x.toNat < 256 ^ 4 := by have := x.isLt; omega
theorem bv64 (x : BitVec 64) : x.toNat < 256 ^ 8 := by have := x.isLt; omega
theorem bv128 (x : BitVec 128) : x.toNat < 256 ^ 16 := by have := x.isLt; omega

/-- variable-length payloads must have a 32-bit length -/
def primSizeOk : Prim → Prop
  | .binary b => b.length < 2 ^ 32
  | .string s => s.length < 2 ^ 32
  | _ => True

theorem decodeF_prim (fuel : Nat) (d : Dict) (p : Prim) (rest : Bytes)
    (hw : wfPrim p = true) (hs : primSizeOk p) :
    decodeF (fuel + 1) d (encPrim p ++ rest) = .ok (.prim p) := by
  cases p with
  | null => simp [encPrim, decodeF, mkHeader_toNat, decPrim, Except.map]
  | bool b => cases b <;> simp [encPrim, decodeF, mkHeader_toNat, decPrim, Except.map]
  | int8 x => simp [encPrim, decodeF, mkHeader_toNat, decPrim, Except.map, fixed_leN _ _ _ (bv8 x)]
  | int16 x => simp [encPrim, decodeF, mkHeader_toNat, decPrim, Except.map, fixed_leN _ _ _ (bv16 x)]
  | int32 x => simp [encPrim, decodeF, mkHeader_toNat, decPrim, Except.map, fixed_leN _ _ _ (bv32 x)]
  | int64 x => simp [encPrim, decodeF, mkHeader_toNat, decPrim, Except.map, fixed_leN _ _ _ (bv64 x)]
  | double x => simp [encPrim, decodeF, mkHeader_toNat, decPrim, Except.map, fixed_leN _ _ _ (bv64 x)]
  | dec4 s x => simp [encPrim, decodeF, mkHeader_toNat, decPrim, Except.map, fixed_leN _ _ _ (bv32 x)]
  | dec8 s x => simp [encPrim, decodeF, mkHeader_toNat, decPrim, Except.map, fixed_leN _ _ _ (bv64 x)]
  | dec16 s x => simp [encPrim, decodeF, mkHeader_toNat, decPrim, Except.map, fixed_leN _ _ _ (bv128 x)]
  | date x => simp [encPrim, decodeF, mkHeader_toNat, decPrim, Except.map, fixed_leN _ _ _ (bv32 x)]
  | ts x => simp [encPrim, decodeF, mkHeader_toNat, decPrim, Except.map, fixed_leN _ _ _ (bv64 x)]
  | tsNtz x => simp [encPrim, decodeF, mkHeader_toNat, decPrim, Except.map, fixed_leN _ _ _ (bv64 x)]
  | float x => simp [encPrim, decodeF, mkHeader_toNat, decPrim, Except.map, fixed_leN _ _ _ (bv32 x)]
  | time x => simp [encPrim, decodeF, mkHeader_toNat, decPrim, Except.map, fixed_leN _ _ _ (bv64 x)]
  | tsNanos x => simp [encPrim, decodeF, mkHeader_toNat, decPrim, Except.map, fixed_leN _ _ _ (bv64 x)]
  | tsNtzNanos x => simp [encPrim, decodeF, mkHeader_toNat, decPrim, Except.map, fixed_leN _ _ _ (bv64 x)]
  | binary b =>
    simp only [primSizeOk] at hs
    simp [encPrim, decodeF, mkHeader_toNat, decPrim, Except.map, lenPrefixed_enc _ _ hs]
  | string s =>
    simp only [primSizeOk] at hs
    simp only [wfPrim] at hw
    simp only [encPrim]
    split
    · rename_i hle
      have h64 : s.length % 64 = s.length := by omega
      have e1 : (1 + 4 * s.length) / 4 = s.length := by omega
      have e2 : (1 + 4 * s.length) % 4 = 1 := by omega
      simp only [List.cons_append, decodeF, mkHeader_toNat 1 _ (by decide), h64, e1, e2, decShort]
      rw [if_pos (by simp)]
      rw [List.take_append_of_le_length (by simp), List.take_of_length_le (by simp)]
      simp [hw, Except.map]
    · simp [decodeF, mkHeader_toNat, decPrim, Except.map, lenPrefixed_enc _ _ hs, hw]
  | uuid x =>
    have : (List.take 16 ((leN 16 x.toNat).reverse ++ rest)).reverse = leN 16 x.toNat := by
      rw [List.take_append_of_le_length (by simp), List.take_of_length_le (by simp)]; simp
    simp [encPrim, decodeF, mkHeader_toNat, decPrim, Except.map, beN, unLE_leN _ _ (bv128 x)]


/-! ### insertion sort by key -/

section sorting
variable {α β : Type}

theorem insertBy_perm (key : α → Key) (a : α) (l : List α) : (insertBy key a l).Perm (a :: l) := by
  induction l with
  | nil => exact List.Perm.refl _
  | cons b bs ih =>
    simp only [insertBy]
    split
    · exact (List.Perm.cons b ih).trans (List.Perm.swap a b bs)
    · exact List.Perm.refl _

theorem isort_perm (key : α → Key) (l : List α) : (isort key l).Perm l := by
  induction l with
  | nil => exact List.Perm.refl _
  | cons a as ih =>
    simp only [isort]
    exact (insertBy_perm key a _).trans (List.Perm.cons a ih)

theorem mem_isort (key : α → Key) (l : List α) (x : α) : x ∈ isort key l ↔ x ∈ l :=
  (isort_perm key l).mem_iff

@[simp] theorem length_isort (key : α → Key) (l : List α) : (isort key l).length = l.length :=
  (isort_perm key l).length_eq

theorem insertBy_map (key : α → Key) (key' : β → Key) (f : α → β) (hk : ∀ a, key' (f a) = key a)
    (a : α) (l : List α) : insertBy key' (f a) (l.map f) = (insertBy key a l).map f := by
  induction l with
  | nil => rfl
  | cons b bs ih =>
    simp only [List.map_cons, insertBy, hk]
    split
    · simp [ih]
    · simp

theorem isort_map (key : α → Key) (key' : β → Key) (f : α → β) (hk : ∀ a, key' (f a) = key a)
    (l : List α) : isort key' (l.map f) = (isort key l).map f := by
  induction l with
  | nil => rfl
  | cons a as ih => simp only [List.map_cons, isort, ih, insertBy_map key key' f hk]

theorem nodup_map_isort (key : α → Key) (f : α → β) (l : List α) (h : (l.map f).Nodup) :
    ((isort key l).map f).Nodup :=
  ((isort_perm key l).map f).nodup_iff.mpr h

end sorting

theorem foldl_max_lt (l : List Nat) (a B : Nat) (ha : a < B) (h : ∀ x ∈ l, x < B) :
    l.foldl max a < B := by
  induction l generalizing a with
  | nil => simpa
  | cons x xs ih =>
    simp only [List.foldl_cons]
    apply ih
    · have := h x (by simp); omega
    · intro y hy; exact h y (by simp [hy])

theorem le_foldl_max (l : List Nat) (a : Nat) : a ≤ l.foldl max a ∧ ∀ x ∈ l, x ≤ l.foldl max a := by
  induction l generalizing a with
  | nil => simp
  | cons x xs ih =>
    simp only [List.foldl_cons]
    have := ih (max a x)
    constructor
    · omega
    · intro y hy
      simp only [List.mem_cons] at hy
      cases hy with
      | inl h => subst h; omega
      | inr h => exact this.2 y h


/-! ### containers -/

theorem readUInt_numElems (n : Nat) (rest : Bytes) (h : n < 2 ^ 32) :
    readUInt (if (if n > 255 then 1 else 0) = 1 then 4 else 1) (numElems n ++ rest) = some (n, rest) := by
  unfold numElems
  by_cases hn : n > 255
  · simp only [hn, if_true]
    exact readUInt_leN 4 n rest (fits_four_of_lt h)
  · simp only [hn, if_false]
    have : (if (0 : Nat) = 1 then 4 else 1) = 1 := by decide
    rw [this]
    exact readUInt_leN 1 n rest (fits_one_of_le (by omega))

theorem flatMap_leN_length (w : Nat) (xs : List Nat) : (xs.flatMap (leN w)).length = xs.length * w := by
  induction xs with
  | nil => simp
  | cons x xs ih => simp [List.flatMap_cons, ih, Nat.add_mul]; omega

theorem decArrayWith_build (dec : Bytes → Except String Value) (cs : List Bytes) (vs : List Value)
    (rest : Bytes) (hdec : allOk (cs.map dec) = .ok vs)
    (hsize : (cs.map List.length).sum < 2 ^ 32) (hn : cs.length < 2 ^ 32) :
    decArrayWith dec (offsetSizeCode (cs.map List.length).sum + 4 * (if cs.length > 255 then 1 else 0))
      (numElems cs.length ++ ((offsetsOf (cs.map List.length)).flatMap
        (leN (offsetSizeCode (cs.map List.length).sum + 1)) ++ cs.flatten) ++ rest) = .ok (.arr vs) := by
  have hc := offsetSizeCode_le (cs.map List.length).sum
  generalize hcode : offsetSizeCode (cs.map List.length).sum = code at *
  generalize hlarge : (if cs.length > 255 then 1 else 0 : Nat) = large
  have hl : large ≤ 1 := by rw [← hlarge]; split <;> omega
  unfold decArrayWith
  have e1 : (code + 4 * large) % 4 + 1 = code + 1 := by omega
  have e2 : (code + 4 * large) / 4 % 2 = large := by omega
  simp only [e1, e2, List.append_assoc]
  rw [← hlarge, readUInt_numElems _ _ hn]
  simp only
  have hfits : ∀ x ∈ offsetsOf (cs.map List.length), fits (code + 1) x := by
    intro x hx
    have := offsetsOf_le _ x hx
    rw [← hcode]
    exact fits_mono this (fits_widthOf hsize)
  have hlen : ((offsetsOf (cs.map List.length)).flatMap (leN (code + 1)) ++ (cs.flatten ++ rest)).length
      = (cs.length + 1) * (code + 1) + (cs.flatten ++ rest).length := by
    rw [List.length_append, flatMap_leN_length]; simp
  have hguard : ¬ (((offsetsOf (cs.map List.length)).flatMap (leN (code + 1)) ++ (cs.flatten ++ rest)).length
      / (code + 1) ≤ cs.length) := by
    rw [hlen, Nat.not_le]
    apply (Nat.le_div_iff_mul_le (by omega)).mpr
    show (cs.length + 1) * (code + 1) ≤ _
    omega
  rw [if_neg hguard]
  have hrm := readMany_flatMap (code + 1) (offsetsOf (cs.map List.length)) (cs.flatten ++ rest) hfits
  simp only [offsetsOf_length, List.length_map] at hrm
  rw [hrm]
  simp only
  rw [sliceAll_offsetsOf]
  simp only [hdec]


theorem length_flatten_eq (cs : List Bytes) : cs.flatten.length = (cs.map List.length).sum := by
  induction cs with
  | nil => rfl
  | cons c cs ih => simp [ih]

theorem decObjectWith_build (dec : Bytes → Except String Value) (d : Dict) (es : List Entry)
    (vs : List Value) (rest : Bytes) (idCode : Nat)
    (hdec : allOk ((suffixesOf (es.map (·.bytes))).map dec) = .ok vs)
    (hids : ∀ e ∈ es, d[e.id]? = some e.name)
    (hnodup : (es.map (·.name)).Nodup)
    (hidc : idCode ≤ 3) (hidb : ∀ e ∈ es, fits (idCode + 1) e.id)
    (hsize : ((es.map (·.bytes)).map List.length).sum < 2 ^ 32) (hn : es.length < 2 ^ 32) :
    decObjectWith dec d
      (offsetSizeCode ((es.map (·.bytes)).map List.length).sum + 4 * idCode
        + 16 * (if es.length > 255 then 1 else 0))
      (numElems es.length ++ ((es.map (·.id)).flatMap (leN (idCode + 1)) ++
        ((offsetsOf ((es.map (·.bytes)).map List.length)).flatMap
          (leN (offsetSizeCode ((es.map (·.bytes)).map List.length).sum + 1)) ++
            (es.map (·.bytes)).flatten)) ++ rest) = .ok (.obj ((es.map (·.name)).zip vs)) := by
  generalize hcs : es.map (·.bytes) = cs at *
  have hcl : cs.length = es.length := by rw [← hcs]; simp
  have hc := offsetSizeCode_le (cs.map List.length).sum
  generalize hcode : offsetSizeCode (cs.map List.length).sum = code at *
  generalize hlarge : (if es.length > 255 then 1 else 0 : Nat) = large
  have hl : large ≤ 1 := by rw [← hlarge]; split <;> omega
  unfold decObjectWith
  have e1 : (code + 4 * idCode + 16 * large) % 4 + 1 = code + 1 := by omega
  have e2 : (code + 4 * idCode + 16 * large) / 4 % 4 + 1 = idCode + 1 := by omega
  have e3 : (code + 4 * idCode + 16 * large) / 16 % 2 = large := by omega
  simp only [e1, e2, e3, List.append_assoc]
  rw [← hlarge, readUInt_numElems _ _ hn]
  simp only
  have hfits : ∀ x ∈ offsetsOf (cs.map List.length), fits (code + 1) x := by
    intro x hx
    have := offsetsOf_le _ x hx
    rw [← hcode]
    exact fits_mono this (fits_widthOf hsize)
  have hfid : ∀ x ∈ es.map (·.id), fits (idCode + 1) x := by
    intro x hx
    simp only [List.mem_map] at hx
    obtain ⟨e, he, rfl⟩ := hx
    exact hidb e he
  have hlen : ((es.map (·.id)).flatMap (leN (idCode + 1)) ++
      ((offsetsOf (cs.map List.length)).flatMap (leN (code + 1)) ++ (cs.flatten ++ rest))).length
      = es.length * (idCode + 1) + ((es.length + 1) * (code + 1) + (cs.flatten ++ rest).length) := by
    rw [List.length_append, flatMap_leN_length, List.length_append, flatMap_leN_length]; simp [hcl]
  have hguard : ¬ (((es.map (·.id)).flatMap (leN (idCode + 1)) ++
      ((offsetsOf (cs.map List.length)).flatMap (leN (code + 1)) ++ (cs.flatten ++ rest))).length
      / (idCode + 1 + (code + 1)) < es.length) := by
    rw [hlen, Nat.not_lt]
    apply (Nat.le_div_iff_mul_le (by omega)).mpr
    rw [Nat.mul_add es.length, Nat.add_mul es.length 1]
    omega
  rw [if_neg hguard]
  have hrm1 := readMany_flatMap (idCode + 1) (es.map (·.id))
    ((offsetsOf (cs.map List.length)).flatMap (leN (code + 1)) ++ (cs.flatten ++ rest)) hfid
  simp only [List.length_map] at hrm1
  rw [hrm1]
  simp only
  have hrm := readMany_flatMap (code + 1) (offsetsOf (cs.map List.length)) (cs.flatten ++ rest) hfits
  simp only [offsetsOf_length, List.length_map, hcl] at hrm
  rw [hrm]
  simp only [offsetsOf_getLastD]
  have hnot : ¬ ((cs.map List.length).sum > (cs.flatten ++ rest).length) := by
    rw [List.length_append, length_flatten_eq]; omega
  rw [if_neg hnot]
  have hnames : allSome ((es.map (·.id)).map (fun i => d[i]?)) = some (es.map (·.name)) := by
    rw [List.map_map]
    exact allSome_of_forall _ _ es (fun e he => hids e he)
  rw [hnames]
  simp only
  rw [if_neg (by simpa using hnodup)]
  have hregion : (cs.flatten ++ rest).take (cs.map List.length).sum = cs.flatten := by
    rw [← length_flatten_eq, List.take_append_of_le_length (by simp), List.take_of_length_le (by simp)]
  have htake : (offsetsOf (cs.map List.length)).take es.length = startsOf 0 (cs.map List.length) := by
    have := offsetsOf_take (cs.map List.length)
    simpa [hcl] using this
  rw [hregion, htake]
  have hmap : (startsOf 0 (cs.map List.length)).map (fun o => dec (cs.flatten.drop o))
      = (suffixesOf cs).map dec := by
    have := map_drop_starts [] cs
    simp only [List.length_nil, List.nil_append] at this
    rw [← this, List.map_map]
    rfl
  rw [hmap, hdec]


/-! ### the mutual definitions as list operations -/

/-- the entry `encodeValueObject` builds for one field -/
def toEntry (d : Dict) (f : Key × Value) : Entry := ⟨findIdx f.1 d, f.1, enc d f.2⟩

/-- one field in normal form -/
def canonField (f : Key × Value) : Key × Value := (f.1, canon f.2)

theorem encList_eq (d : Dict) (es : List Value) : encList d es = es.map (enc d) := by
  induction es with
  | nil => simp [encList]
  | cons e es ih => simp [encList, ih]

theorem encFields_eq (d : Dict) (fs : List (Key × Value)) : encFields d fs = fs.map (toEntry d) := by
  induction fs with
  | nil => simp [encFields]
  | cons f fs ih => obtain ⟨k, v⟩ := f; simp [encFields, ih, toEntry]

theorem canonList_eq (es : List Value) : canonList es = es.map canon := by
  induction es with
  | nil => simp [canonList]
  | cons e es ih => simp [canonList, ih]

theorem canonFields_eq (fs : List (Key × Value)) : canonFields fs = fs.map canonField := by
  induction fs with
  | nil => simp [canonFields]
  | cons f fs ih => obtain ⟨k, v⟩ := f; simp [canonFields, ih, canonField]

theorem wfList_iff (d : Dict) (es : List Value) : wfList d es = true ↔ ∀ e ∈ es, wfV d e = true := by
  induction es with
  | nil => simp [wfList]
  | cons e es ih => simp [wfList, ih]

theorem wfFields_iff (d : Dict) (fs : List (Key × Value)) :
    wfFields d fs = true ↔ ∀ f ∈ fs, utf8Valid f.1 = true ∧ f.1 ∈ d ∧ wfV d f.2 = true := by
  induction fs with
  | nil => simp [wfFields]
  | cons f fs ih => obtain ⟨k, v⟩ := f; simp [wfFields, ih, and_assoc]

theorem depth_le_depthList {e : Value} {es : List Value} (h : e ∈ es) : depth e ≤ depthList es := by
  induction es with
  | nil => cases h
  | cons a as ih =>
    simp only [depthList]
    cases h with
    | head => omega
    | tail _ h => have := ih h; omega

theorem depth_le_depthFields {f : Key × Value} {fs : List (Key × Value)} (h : f ∈ fs) :
    depth f.2 ≤ depthFields fs := by
  induction fs with
  | nil => cases h
  | cons a as ih =>
    obtain ⟨k, v⟩ := a
    simp only [depthFields]
    cases h with
    | head => show depth v ≤ _; omega
    | tail _ h => have := ih h; omega

theorem le_sum_of_mem {x : Nat} {l : List Nat} (h : x ∈ l) : x ≤ l.sum := by
  induction l with
  | nil => cases h
  | cons a as ih =>
    simp only [List.sum_cons]
    cases h with
    | head => omega
    | tail _ h => have := ih h; omega

theorem length_le_sum {l : List Nat} (h : ∀ x ∈ l, 1 ≤ x) : l.length ≤ l.sum := by
  induction l with
  | nil => simp
  | cons a as ih =>
    simp only [List.sum_cons, List.length_cons]
    have := h a (by simp)
    have := ih (fun x hx => h x (by simp [hx]))
    omega

theorem encPrim_pos (p : Prim) : 1 ≤ (encPrim p).length := by
  cases p <;> simp [encPrim]
  · rename_i b; cases b <;> simp
  · split <;> simp

theorem enc_pos (d : Dict) (v : Value) : 1 ≤ (enc d v).length := by
  cases v with
  | prim p => simp only [enc]; exact encPrim_pos p
  | arr es => simp [enc, buildArray]
  | obj fs => simp [enc, buildObject]

theorem numElems_pos (n : Nat) : 1 ≤ (numElems n).length := by
  unfold numElems; split <;> simp

theorem buildArray_length_gt (cs : List Bytes) : (cs.map List.length).sum + 2 ≤ (buildArray cs).length := by
  have := numElems_pos cs.length
  simp only [buildArray, List.length_cons, List.length_append, length_flatten_eq]
  omega

theorem buildObject_length_gt (es : List Entry) :
    ((es.map (·.bytes)).map List.length).sum + 2 ≤ (buildObject es).length := by
  have := numElems_pos es.length
  simp only [buildObject, List.length_cons, List.length_append, length_flatten_eq]
  omega

theorem zip_map_map {α β γ : Type} (f : α → β) (g : α → γ) (l : List α) :
    (l.map f).zip (l.map g) = l.map (fun x => (f x, g x)) := by
  induction l with
  | nil => rfl
  | cons a as ih => simp [ih]

theorem allOk_suffixes {α : Type} (dec : Bytes → Except String Value) (encf : α → Bytes) (cv : α → Value)
    (gs : List α) (h : ∀ g ∈ gs, ∀ rest, dec (encf g ++ rest) = .ok (cv g)) :
    allOk ((suffixesOf (gs.map encf)).map dec) = .ok (gs.map cv) := by
  induction gs with
  | nil => rfl
  | cons g gs ih =>
    simp only [List.map_cons, suffixesOf, List.flatten_cons]
    rw [h g (by simp)]
    simp only [allOk]
    rw [ih (fun x hx => h x (by simp [hx]))]


/-! ### the round trip, by induction on the fuel -/

/-- the induction hypothesis at one fuel level -/
def RoundTripsAt (d : Dict) (fuel : Nat) : Prop :=
  ∀ (v : Value) (rest : Bytes), depth v < fuel → wfV d v = true → (enc d v).length < 2 ^ 32 →
    decodeF fuel d (enc d v ++ rest) = .ok (canon v)

theorem primSizeOk_of_len (p : Prim) (h : (encPrim p).length < 2 ^ 32) : primSizeOk p := by
  cases p <;> simp only [primSizeOk]
  · simp [encPrim] at h; omega
  · rename_i s
    simp only [encPrim] at h
    split at h <;> simp at h <;> omega

theorem header_arr (code large : Nat) (hc : code ≤ 3) (hl : large ≤ 1) :
    (UInt8.ofNat (3 + 4 * code + 16 * large)).toNat % 4 = 3 ∧
    (UInt8.ofNat (3 + 4 * code + 16 * large)).toNat / 4 = code + 4 * large := by
  rw [UInt8.toNat_ofNat']; omega

theorem header_obj (code idCode large : Nat) (hc : code ≤ 3) (hi : idCode ≤ 3) (hl : large ≤ 1) :
    (UInt8.ofNat (2 + 4 * code + 16 * idCode + 64 * large)).toNat % 4 = 2 ∧
    (UInt8.ofNat (2 + 4 * code + 16 * idCode + 64 * large)).toNat / 4 = code + 4 * idCode + 16 * large := by
  rw [UInt8.toNat_ofNat']; omega

theorem decodeF_arr (d : Dict) (fuel : Nat) (ih : RoundTripsAt d fuel) (es : List Value) (rest : Bytes)
    (hdepth : depth (.arr es) < fuel + 1) (hwf : wfV d (.arr es) = true)
    (hlen : (enc d (.arr es)).length < 2 ^ 32) :
    decodeF (fuel + 1) d (enc d (.arr es) ++ rest) = .ok (canon (.arr es)) := by
  simp only [enc, encList_eq] at hlen ⊢
  simp only [canon, canonList_eq]
  simp only [depth] at hdepth
  simp only [wfV, wfList_iff] at hwf
  have htot := buildArray_length_gt (es.map (enc d))
  have hsize : ((es.map (enc d)).map List.length).sum < 2 ^ 32 := by omega
  have hn : (es.map (enc d)).length < 2 ^ 32 := by
    have : (es.map (enc d)).length ≤ ((es.map (enc d)).map List.length).sum := by
      have := length_le_sum (l := (es.map (enc d)).map List.length) (by
        intro x hx
        simp only [List.mem_map] at hx
        obtain ⟨c, ⟨e, _, rfl⟩, rfl⟩ := hx
        exact enc_pos d e)
      simpa using this
    omega
  have hdec : allOk ((es.map (enc d)).map (decodeF fuel d)) = .ok (es.map canon) := by
    rw [List.map_map]
    apply allOk_of_forall
    intro e he
    have h1 : depth e < fuel := by have := depth_le_depthList he; omega
    have h2 : (enc d e).length < 2 ^ 32 := by
      have : (enc d e).length ≤ ((es.map (enc d)).map List.length).sum :=
        le_sum_of_mem (by simp only [List.mem_map]; exact ⟨enc d e, ⟨e, he, rfl⟩, rfl⟩)
      omega
    have := ih e [] h1 (hwf e he) h2
    simpa using this
  have hc := offsetSizeCode_le ((es.map (enc d)).map List.length).sum
  have hb := decArrayWith_build (decodeF fuel d) (es.map (enc d)) (es.map canon) rest hdec hsize hn
  unfold buildArray
  simp only [List.cons_append, decodeF]
  have hh := header_arr (offsetSizeCode ((es.map (enc d)).map List.length).sum)
    (if (es.map (enc d)).length > 255 then 1 else 0) hc (by split <;> omega)
  rw [hh.1, hh.2]
  simp only [List.append_assoc] at hb ⊢
  exact hb


theorem decodeF_obj (d : Dict) (hd : d.length ≤ 2 ^ 32) (fuel : Nat) (ih : RoundTripsAt d fuel)
    (fs : List (Key × Value)) (rest : Bytes)
    (hdepth : depth (.obj fs) < fuel + 1) (hwf : wfV d (.obj fs) = true)
    (hlen : (enc d (.obj fs)).length < 2 ^ 32) :
    decodeF (fuel + 1) d (enc d (.obj fs) ++ rest) = .ok (canon (.obj fs)) := by
  have hsortE : isort (·.name) (fs.map (toEntry d)) = (isort (·.1) fs).map (toEntry d) :=
    isort_map (·.1) (·.name) (toEntry d) (fun _ => rfl) fs
  have hsortC : isort (·.1) (fs.map canonField) = (isort (·.1) fs).map canonField :=
    isort_map (·.1) (·.1) canonField (fun _ => rfl) fs
  simp only [enc, encFields_eq, hsortE] at hlen ⊢
  simp only [canon, canonFields_eq, hsortC]
  simp only [depth] at hdepth
  simp only [wfV, Bool.and_eq_true, wfFields_iff, decide_eq_true_eq] at hwf
  obtain ⟨hwf, hnd⟩ := hwf
  generalize hgs : isort (·.1) fs = gs at *
  have hmem : ∀ g, g ∈ gs → g ∈ fs := fun g hg => (mem_isort (·.1) fs g).mp (hgs ▸ hg)
  have hbytes : (gs.map (toEntry d)).map (·.bytes) = gs.map (fun g => enc d g.2) := by
    rw [List.map_map]; rfl
  have hnames : (gs.map (toEntry d)).map (·.name) = gs.map (·.1) := by
    rw [List.map_map]; rfl
  have hidsE : (gs.map (toEntry d)).map (·.id) = gs.map (fun g => findIdx g.1 d) := by
    rw [List.map_map]; rfl
  have htot := buildObject_length_gt (gs.map (toEntry d))
  have hsize : (((gs.map (toEntry d)).map (·.bytes)).map List.length).sum < 2 ^ 32 := by omega
  have hn : (gs.map (toEntry d)).length < 2 ^ 32 := by
    have : ((gs.map (toEntry d)).map (·.bytes)).length
        ≤ (((gs.map (toEntry d)).map (·.bytes)).map List.length).sum := by
      have := length_le_sum (l := ((gs.map (toEntry d)).map (·.bytes)).map List.length) (by
        intro x hx
        rw [hbytes] at hx
        simp only [List.mem_map] at hx
        obtain ⟨c, ⟨g, _, rfl⟩, rfl⟩ := hx
        exact enc_pos d g.2)
      simpa using this
    simp only [List.length_map] at this ⊢
    omega
  have hdec : allOk ((suffixesOf ((gs.map (toEntry d)).map (·.bytes))).map (decodeF fuel d))
      = .ok (gs.map (fun g => canon g.2)) := by
    rw [hbytes]
    apply allOk_suffixes
    intro g hg rest'
    have hgf := hmem g hg
    have h1 : depth g.2 < fuel := by have := depth_le_depthFields hgf; omega
    have h2 : (enc d g.2).length < 2 ^ 32 := by
      have : (enc d g.2).length ≤ (((gs.map (toEntry d)).map (·.bytes)).map List.length).sum := by
        rw [hbytes]
        exact le_sum_of_mem (by simp only [List.mem_map]; exact ⟨enc d g.2, ⟨g, hg, rfl⟩, rfl⟩)
      omega
    exact ih g.2 rest' h1 (hwf g hgf).2.2 h2
  have hids : ∀ e ∈ gs.map (toEntry d), d[e.id]? = some e.name := by
    intro e he
    simp only [List.mem_map] at he
    obtain ⟨g, hg, rfl⟩ := he
    exact getElem?_findIdx (hwf g (hmem g hg)).2.1
  have hnodup : ((gs.map (toEntry d)).map (·.name)).Nodup := by
    rw [hnames, ← hgs]
    exact nodup_map_isort (·.1) (·.1) fs (by simpa [keysOf] using hnd)
  have hidlt : ∀ x ∈ (gs.map (toEntry d)).map (·.id), x < 2 ^ 32 := by
    intro x hx
    rw [hidsE] at hx
    simp only [List.mem_map] at hx
    obtain ⟨g, hg, rfl⟩ := hx
    have := findIdx_lt (hwf g (hmem g hg)).2.1
    omega
  have hmax : ((gs.map (toEntry d)).map (·.id)).foldl max 0 < 2 ^ 32 :=
    foldl_max_lt _ 0 _ (by decide) hidlt
  have hidb : ∀ e ∈ gs.map (toEntry d),
      fits (offsetSizeCode (((gs.map (toEntry d)).map (·.id)).foldl max 0) + 1) e.id := by
    intro e he
    have := (le_foldl_max ((gs.map (toEntry d)).map (·.id)) 0).2 e.id (List.mem_map_of_mem he)
    exact fits_mono this (fits_widthOf hmax)
  have hidc := offsetSizeCode_le (((gs.map (toEntry d)).map (·.id)).foldl max 0)
  have hc := offsetSizeCode_le (((gs.map (toEntry d)).map (·.bytes)).map List.length).sum
  have hb := decObjectWith_build (decodeF fuel d) d (gs.map (toEntry d)) (gs.map (fun g => canon g.2))
    rest _ hdec hids hnodup hidc hidb hsize hn
  have hlens : (gs.map (toEntry d)).map (fun e => e.bytes.length)
      = ((gs.map (toEntry d)).map (·.bytes)).map List.length := by
    simp [List.map_map]
  unfold buildObject
  simp only [List.cons_append, decodeF, hlens]
  have hh := header_obj (offsetSizeCode (((gs.map (toEntry d)).map (·.bytes)).map List.length).sum)
    (offsetSizeCode (((gs.map (toEntry d)).map (·.id)).foldl max 0))
    (if (gs.map (toEntry d)).length > 255 then 1 else 0) hc hidc (by split <;> omega)
  rw [hh.1, hh.2]
  simp only [List.append_assoc] at hb ⊢
  rw [hb, hnames, zip_map_map]
  rfl

theorem roundTripsAt (d : Dict) (hd : d.length ≤ 2 ^ 32) : ∀ fuel, RoundTripsAt d fuel := by
  intro fuel
  induction fuel with
  | zero => intro v rest h; omega
  | succ fuel ih =>
    intro v rest hdepth hwf hlen
    cases v with
    | prim p =>
      simp only [enc, canon] at hlen ⊢
      exact decodeF_prim fuel d p rest (by simpa [wfV] using hwf) (primSizeOk_of_len p hlen)
    | arr es => exact decodeF_arr d fuel ih es rest hdepth hwf hlen
    | obj fs => exact decodeF_obj d hd fuel ih fs rest hdepth hwf hlen


/-! ### fuel: nesting depth is below the encoded length -/

mutual
theorem depth_lt_enc (d : Dict) : ∀ v : Value, depth v < (enc d v).length
  | .prim p => by simp only [depth, enc]; exact encPrim_pos p
  | .arr es => by
    have h := depthList_le_sum d es
    have := buildArray_length_gt (es.map (enc d))
    simp only [depth, enc, encList_eq]
    omega
  | .obj fs => by
    have h := depthFields_le_sum d fs
    have hs : isort (·.name) (fs.map (toEntry d)) = (isort (·.1) fs).map (toEntry d) :=
      isort_map (·.1) (·.name) (toEntry d) (fun _ => rfl) fs
    have := buildObject_length_gt ((isort (·.1) fs).map (toEntry d))
    have hp : ((((isort (·.1) fs).map (toEntry d)).map (·.bytes)).map List.length).sum
        = (fs.map (fun f => (enc d f.2).length)).sum := by
      have : (((isort (·.1) fs).map (toEntry d)).map (·.bytes)).map List.length
          = (isort (·.1) fs).map (fun f => (enc d f.2).length) := by
        simp [List.map_map, toEntry, Function.comp_def]
      rw [this]
      exact ((isort_perm (·.1) fs).map _).sum_nat
    simp only [depth, enc, encFields_eq, hs]
    omega
theorem depthList_le_sum (d : Dict) : ∀ es : List Value, depthList es ≤ ((es.map (enc d)).map List.length).sum
  | [] => by simp [depthList]
  | e :: es => by
    have h1 := depth_lt_enc d e
    have h2 := depthList_le_sum d es
    simp only [depthList, List.map_cons, List.sum_cons]
    omega
theorem depthFields_le_sum (d : Dict) :
    ∀ fs : List (Key × Value), depthFields fs ≤ (fs.map (fun f => (enc d f.2).length)).sum
  | [] => by simp [depthFields]
  | (k, v) :: fs => by
    have h1 := depth_lt_enc d v
    have h2 := depthFields_le_sum d fs
    simp only [depthFields, List.map_cons, List.sum_cons]
    omega
end

/-- SPEC decoder on MIRROR encoder output, any dictionary that interns the keys -/
theorem decode_enc_append (d : Dict) (hd : d.length ≤ 2 ^ 32) (v : Value) (rest : Bytes)
    (hwf : wfV d v = true) (hlen : (enc d v).length < 2 ^ 32) :
    decodeF ((enc d v ++ rest).length + 1) d (enc d v ++ rest) = .ok (canon v) := by
  apply roundTripsAt d hd _ v rest _ hwf hlen
  have := depth_lt_enc d v
  simp only [List.length_append]
  omega


/-! ### the dictionary built by the encoder -/

theorem mem_addKey (d : Dict) (k x : Key) : x ∈ addKey d k ↔ x ∈ d ∨ x = k := by
  unfold addKey
  split
  · rename_i h
    constructor
    · exact Or.inl
    · rintro (h' | rfl)
      · exact h'
      · exact h
  · simp

theorem nodup_addKey (d : Dict) (k : Key) (h : d.Nodup) : (addKey d k).Nodup := by
  unfold addKey
  split
  · exact h
  · rename_i hk
    rw [List.nodup_append]
    refine ⟨h, by simp, ?_⟩
    intro a ha b hb
    simp only [List.mem_singleton] at hb
    subst hb
    intro hab; subst hab; exact hk ha

theorem length_addKey (d : Dict) (k : Key) : (addKey d k).length ≤ d.length + 1 := by
  unfold addKey; split <;> simp

mutual
theorem mem_collect (x : Key) : ∀ (v : Value) (d : Dict), x ∈ collect d v ↔ x ∈ d ∨ x ∈ allKeys v
  | .prim _, d => by simp [collect, allKeys]
  | .arr es, d => by simp only [collect, allKeys]; exact mem_collectList x es d
  | .obj fs, d => by simp only [collect, allKeys]; exact mem_collectFields x fs d
theorem mem_collectList (x : Key) :
    ∀ (es : List Value) (d : Dict), x ∈ collectList d es ↔ x ∈ d ∨ x ∈ allKeysList es
  | [], d => by simp [collectList, allKeysList]
  | e :: es, d => by
    simp only [collectList, allKeysList, List.mem_append]
    rw [mem_collectList x es, mem_collect x e]
    simp [or_assoc]
theorem mem_collectFields (x : Key) :
    ∀ (fs : List (Key × Value)) (d : Dict), x ∈ collectFields d fs ↔ x ∈ d ∨ x ∈ allKeysFields fs
  | [], d => by simp [collectFields, allKeysFields]
  | (k, v) :: fs, d => by
    simp only [collectFields, allKeysFields, List.mem_cons, List.mem_append]
    rw [mem_collectFields x fs, mem_collect x v, mem_addKey]
    simp [or_assoc]
end

mutual
theorem nodup_collect : ∀ (v : Value) (d : Dict), d.Nodup → (collect d v).Nodup
  | .prim _, d, h => by simpa [collect] using h
  | .arr es, d, h => by simp only [collect]; exact nodup_collectList es d h
  | .obj fs, d, h => by simp only [collect]; exact nodup_collectFields fs d h
theorem nodup_collectList : ∀ (es : List Value) (d : Dict), d.Nodup → (collectList d es).Nodup
  | [], d, h => by simpa [collectList] using h
  | e :: es, d, h => by
    simp only [collectList]
    exact nodup_collectList es _ (nodup_collect e d h)
theorem nodup_collectFields :
    ∀ (fs : List (Key × Value)) (d : Dict), d.Nodup → (collectFields d fs).Nodup
  | [], d, h => by simpa [collectFields] using h
  | (k, v) :: fs, d, h => by
    simp only [collectFields]
    exact nodup_collectFields fs _ (nodup_collect v _ (nodup_addKey d k h))
end

mutual
/-- number of object fields in a value (an upper bound for the dictionary size) -/
def numFields : Value → Nat
  | .prim _ => 0
  | .arr es => numFieldsList es
  | .obj fs => numFieldsFields fs
def numFieldsList : List Value → Nat
  | [] => 0
  | e :: es => numFields e + numFieldsList es
def numFieldsFields : List (Key × Value) → Nat
  | [] => 0
  | (_, v) :: fs => 1 + numFields v + numFieldsFields fs
end

mutual
theorem length_collect : ∀ (v : Value) (d : Dict), (collect d v).length ≤ d.length + numFields v
  | .prim _, d => by simp [collect, numFields]
  | .arr es, d => by simp only [collect, numFields]; exact length_collectList es d
  | .obj fs, d => by simp only [collect, numFields]; exact length_collectFields fs d
theorem length_collectList :
    ∀ (es : List Value) (d : Dict), (collectList d es).length ≤ d.length + numFieldsList es
  | [], d => by simp [collectList, numFieldsList]
  | e :: es, d => by
    have h1 := length_collect e d
    have h2 := length_collectList es (collect d e)
    simp only [collectList, numFieldsList]
    omega
theorem length_collectFields :
    ∀ (fs : List (Key × Value)) (d : Dict), (collectFields d fs).length ≤ d.length + numFieldsFields fs
  | [], d => by simp [collectFields, numFieldsFields]
  | (k, v) :: fs, d => by
    have h0 := length_addKey d k
    have h1 := length_collect v (addKey d k)
    have h2 := length_collectFields fs (collect (addKey d k) v)
    simp only [collectFields, numFieldsFields]
    omega
end

mutual
theorem numFields_le_enc (d : Dict) : ∀ v : Value, numFields v ≤ (enc d v).length
  | .prim p => by simp [numFields]
  | .arr es => by
    have h := numFieldsList_le_sum d es
    have := buildArray_length_gt (es.map (enc d))
    simp only [numFields, enc, encList_eq]
    omega
  | .obj fs => by
    have h := numFieldsFields_le_sum d fs
    have hs : isort (·.name) (fs.map (toEntry d)) = (isort (·.1) fs).map (toEntry d) :=
      isort_map (·.1) (·.name) (toEntry d) (fun _ => rfl) fs
    have hp : ((((isort (·.1) fs).map (toEntry d)).map (·.bytes)).map List.length).sum
        = (fs.map (fun f => (enc d f.2).length)).sum := by
      have : (((isort (·.1) fs).map (toEntry d)).map (·.bytes)).map List.length
          = (isort (·.1) fs).map (fun f => (enc d f.2).length) := by
        simp [List.map_map, toEntry, Function.comp_def]
      rw [this]
      exact ((isort_perm (·.1) fs).map _).sum_nat
    have hlen : ((isort (·.1) fs).map (toEntry d)).length = fs.length := by simp
    have hb : fs.length + ((((isort (·.1) fs).map (toEntry d)).map (·.bytes)).map List.length).sum
        ≤ (buildObject ((isort (·.1) fs).map (toEntry d))).length := by
      simp only [buildObject, List.length_cons, List.length_append, length_flatten_eq,
        flatMap_leN_length, List.length_map, length_isort, Nat.mul_add, Nat.mul_one]
      omega
    simp only [numFields, enc, encFields_eq, hs]
    omega
theorem numFieldsList_le_sum (d : Dict) :
    ∀ es : List Value, numFieldsList es ≤ ((es.map (enc d)).map List.length).sum
  | [] => by simp [numFieldsList]
  | e :: es => by
    have h1 := numFields_le_enc d e
    have h2 := numFieldsList_le_sum d es
    simp only [numFieldsList, List.map_cons, List.sum_cons]
    omega
theorem numFieldsFields_le_sum (d : Dict) :
    ∀ fs : List (Key × Value), numFieldsFields fs ≤ fs.length + (fs.map (fun f => (enc d f.2).length)).sum
  | [] => by simp [numFieldsFields]
  | (k, v) :: fs => by
    have h1 := numFields_le_enc d v
    have h2 := numFieldsFields_le_sum d fs
    simp only [numFieldsFields, List.map_cons, List.sum_cons, List.length_cons]
    omega
end

mutual
theorem wfV_of_wf (d : Dict) : ∀ v : Value, wf v = true → (∀ k ∈ allKeys v, k ∈ d) → wfV d v = true
  | .prim p, h, _ => by simpa [wf, wfV] using h
  | .arr es, h, hk => by
    simp only [wf, wfV, allKeys] at *
    exact wfList_of_wfL d es h hk
  | .obj fs, h, hk => by
    simp only [wf, wfV, allKeys, Bool.and_eq_true] at *
    exact ⟨wfFields_of_wfF d fs h.1 hk, h.2⟩
theorem wfList_of_wfL (d : Dict) :
    ∀ es : List Value, wfL es = true → (∀ k ∈ allKeysList es, k ∈ d) → wfList d es = true
  | [], _, _ => by simp [wfList]
  | e :: es, h, hk => by
    simp only [wfL, wfList, allKeysList, Bool.and_eq_true, List.mem_append] at *
    exact ⟨wfV_of_wf d e h.1 (fun k hk' => hk k (Or.inl hk')),
      wfList_of_wfL d es h.2 (fun k hk' => hk k (Or.inr hk'))⟩
theorem wfFields_of_wfF (d : Dict) :
    ∀ fs : List (Key × Value), wfF fs = true → (∀ k ∈ allKeysFields fs, k ∈ d) → wfFields d fs = true
  | [], _, _ => by simp [wfFields]
  | (k, v) :: fs, h, hk => by
    simp only [wfF, wfFields, allKeysFields, Bool.and_eq_true, List.mem_cons, List.mem_append,
      decide_eq_true_eq] at *
    exact ⟨⟨⟨h.1.1, hk k (Or.inl rfl)⟩, wfV_of_wf d v h.1.2 (fun x hx => hk x (Or.inr (Or.inl hx)))⟩,
      wfFields_of_wfF d fs h.2 (fun x hx => hk x (Or.inr (Or.inr hx)))⟩
end


/-! ### metadata -/

theorem decodeMeta_encodeMeta' (d : Dict) (hutf : ∀ k ∈ d, utf8Valid k = true)
    (hsz : (d.map List.length).sum < 2 ^ 32) (hn : d.length < 2 ^ 32) :
    decodeMeta (encodeMeta d) = .ok ⟨d, sortedFlag d⟩ := by
  unfold encodeMeta decodeMeta
  simp only
  have hmax : max (d.map List.length).sum d.length < 2 ^ 32 := by omega
  have hc := offsetSizeCode_le (max (d.map List.length).sum d.length)
  have hfw := fits_widthOf hmax
  generalize hosc : offsetSizeCode (max (d.map List.length).sum d.length) = osc at *
  generalize hsf : (if sortedFlag d = true then 1 else 0 : Nat) = sf
  have hsf1 : sf ≤ 1 := by rw [← hsf]; split <;> omega
  have hh : (UInt8.ofNat (1 + 16 * sf + 64 * osc)).toNat = 1 + 16 * sf + 64 * osc := by
    rw [UInt8.toNat_ofNat']; omega
  rw [hh]
  have e1 : (1 + 16 * sf + 64 * osc) % 16 = 1 := by omega
  have e2 : (1 + 16 * sf + 64 * osc) / 64 + 1 = osc + 1 := by omega
  have e3 : (1 + 16 * sf + 64 * osc) / 16 % 2 = sf := by omega
  rw [if_neg (by omega), e2, e3]
  rw [readUInt_leN (osc + 1) d.length _ (fits_mono (by omega) hfw)]
  simp only
  have hfits : ∀ x ∈ offsetsOf (d.map List.length), fits (osc + 1) x := by
    intro x hx
    have := offsetsOf_le _ x hx
    exact fits_mono (by omega) hfw
  have hlen : ((offsetsOf (d.map List.length)).flatMap (leN (osc + 1)) ++ d.flatten).length
      = (d.length + 1) * (osc + 1) + d.flatten.length := by
    rw [List.length_append, flatMap_leN_length]; simp
  have hguard : ¬ (((offsetsOf (d.map List.length)).flatMap (leN (osc + 1)) ++ d.flatten).length
      / (osc + 1) ≤ d.length) := by
    rw [hlen, Nat.not_le]
    apply (Nat.le_div_iff_mul_le (by omega)).mpr
    show (d.length + 1) * (osc + 1) ≤ _
    omega
  rw [if_neg hguard]
  have hrm := readMany_flatMap (osc + 1) (offsetsOf (d.map List.length)) d.flatten hfits
  simp only [offsetsOf_length, List.length_map] at hrm
  rw [hrm]
  simp only
  have hsl := sliceAll_offsetsOf d []
  simp only [List.append_nil] at hsl
  rw [hsl]
  simp only
  rw [if_pos (by simpa [List.all_eq_true] using hutf)]
  congr 2
  rw [← hsf]
  cases sortedFlag d <;> simp


/-! ### `keyLt` is a strict total order; sorted lists -/

theorem keyLt_irrefl : ∀ a : Key, keyLt a a = false
  | [] => rfl
  | x :: xs => by
    simp only [keyLt]
    have : ¬ x < x := by simp
    simp [this, keyLt_irrefl xs]

theorem keyLt_asymm : ∀ a b : Key, keyLt a b = true → keyLt b a = false
  | [], [], h => by simp [keyLt] at h
  | [], _ :: _, _ => rfl
  | _ :: _, [], h => by simp [keyLt] at h
  | x :: xs, y :: ys, h => by
    simp only [keyLt] at h ⊢
    by_cases h1 : x < y
    · have : ¬ y < x := by rw [UInt8.lt_iff_toNat_lt] at *; omega
      simp [this, h1]
    · by_cases h2 : y < x
      · simp [h1, h2] at h
      · simp only [h1, h2, if_false] at h ⊢
        exact keyLt_asymm xs ys h

theorem keyLt_trans : ∀ a b c : Key, keyLt a b = true → keyLt b c = true → keyLt a c = true
  | [], [], _, h, _ => by simp [keyLt] at h
  | [], _ :: _, [], _, h => by simp [keyLt] at h
  | [], _ :: _, _ :: _, _, _ => rfl
  | _ :: _, [], _, h, _ => by simp [keyLt] at h
  | _ :: _, _ :: _, [], _, h => by simp [keyLt] at h
  | x :: xs, y :: ys, z :: zs, h1, h2 => by
    simp only [keyLt] at h1 h2 ⊢
    by_cases hxy : x < y
    · by_cases hyz : y < z
      · have : x < z := by rw [UInt8.lt_iff_toNat_lt] at *; omega
        simp [this]
      · by_cases hzy : z < y
        · simp [hyz, hzy] at h2
        · have : y = z := by
            apply UInt8.toNat_inj.mp; rw [UInt8.lt_iff_toNat_lt] at *; omega
          subst this; simp [hxy]
    · by_cases hyx : y < x
      · simp [hxy, hyx] at h1
      · have hxy' : x = y := by
          apply UInt8.toNat_inj.mp; rw [UInt8.lt_iff_toNat_lt] at *; omega
        subst hxy'
        simp only [hxy, if_false] at h1
        by_cases hyz : x < z
        · simp [hyz]
        · by_cases hzy : z < x
          · simp [hyz, hzy] at h2
          · simp only [hyz, hzy, if_false] at h2 ⊢
            exact keyLt_trans xs ys zs h1 h2

theorem keyLt_total : ∀ a b : Key, keyLt a b = false → keyLt b a = false → a = b
  | [], [], _, _ => rfl
  | [], _ :: _, h, _ => by simp [keyLt] at h
  | _ :: _, [], _, h => by simp [keyLt] at h
  | x :: xs, y :: ys, h1, h2 => by
    simp only [keyLt] at h1 h2
    by_cases hxy : x < y
    · simp [hxy] at h1
    · by_cases hyx : y < x
      · simp [hyx] at h2
      · simp only [hxy, hyx, if_false] at h1 h2
        have : x = y := by
          apply UInt8.toNat_inj.mp; rw [UInt8.lt_iff_toNat_lt] at *; omega
        rw [this, keyLt_total xs ys h1 h2]

section sorted
variable {α : Type}

/-- `a` may stand before `b` -/
def keyLe (key : α → Key) (a b : α) : Prop := keyLt (key b) (key a) = false

theorem keyLe_trans (key : α → Key) {a b c : α} (h1 : keyLe key a b) (h2 : keyLe key b c) :
    keyLe key a c := by
  unfold keyLe at *
  cases h : keyLt (key c) (key a) with
  | false => rfl
  | true =>
    -- c < a; then either c < b (contradiction with h2) or b ≤ c < a so b < a (contradiction with h1)
    cases h3 : keyLt (key b) (key c) with
    | true => rw [keyLt_trans _ _ _ h3 h] at h1; cases h1
    | false =>
      have : key b = key c := keyLt_total _ _ h3 h2
      rw [this, h] at h1; cases h1

theorem sorted_insertBy (key : α → Key) (a : α) (l : List α) (h : l.Pairwise (keyLe key)) :
    (insertBy key a l).Pairwise (keyLe key) := by
  induction l with
  | nil => simp [insertBy]
  | cons b bs ih =>
    simp only [insertBy]
    rw [List.pairwise_cons] at h
    split
    · rename_i hlt
      rw [List.pairwise_cons]
      refine ⟨?_, ih h.2⟩
      intro z hz
      have := (insertBy_perm key a bs).mem_iff.mp hz
      simp only [List.mem_cons] at this
      cases this with
      | inl e => subst e; exact keyLt_asymm _ _ hlt
      | inr e => exact h.1 z e
    · rename_i hnlt
      have hab : keyLe key a b := by simpa [keyLe] using hnlt
      rw [List.pairwise_cons]
      refine ⟨?_, List.pairwise_cons.mpr h⟩
      intro z hz
      simp only [List.mem_cons] at hz
      cases hz with
      | inl e => subst e; exact hab
      | inr e => exact keyLe_trans key hab (h.1 z e)

theorem sorted_isort (key : α → Key) (l : List α) : (isort key l).Pairwise (keyLe key) := by
  induction l with
  | nil => simp [isort]
  | cons a as ih => exact sorted_insertBy key a _ ih

theorem isort_of_sorted (key : α → Key) (l : List α) (h : l.Pairwise (keyLe key)) : isort key l = l := by
  induction l with
  | nil => rfl
  | cons a as ih =>
    rw [List.pairwise_cons] at h
    simp only [isort, ih h.2]
    cases as with
    | nil => rfl
    | cons b bs =>
      simp only [insertBy]
      have : keyLt (key b) (key a) = false := h.1 b (by simp)
      simp [this]

theorem isort_idem (key : α → Key) (l : List α) : isort key (isort key l) = isort key l :=
  isort_of_sorted key _ (sorted_isort key l)

theorem inj_of_nodup_map {β : Type} (f : α → β) (l : List α) (h : (l.map f).Nodup) {a b : α}
    (ha : a ∈ l) (hb : b ∈ l) (hf : f a = f b) : a = b := by
  induction l with
  | nil => cases ha
  | cons x xs ih =>
    simp only [List.map_cons, List.nodup_cons, List.mem_map, not_exists, not_and] at h
    simp only [List.mem_cons] at ha hb
    rcases ha with rfl | ha <;> rcases hb with rfl | hb
    · rfl
    · exact absurd hf.symm (h.1 b hb)
    · exact absurd hf (h.1 a ha)
    · exact ih h.2 ha hb

/-- the sorted form depends only on the set of entries when the keys are pairwise distinct -/
theorem isort_eq_of_perm (key : α → Key) (l₁ l₂ : List α) (hp : l₁.Perm l₂)
    (hnd : (l₁.map key).Nodup) : isort key l₁ = isort key l₂ := by
  apply List.Perm.eq_of_pairwise (le := keyLe key) _ (sorted_isort key l₁) (sorted_isort key l₂)
  · exact ((isort_perm key l₁).trans hp).trans (isort_perm key l₂).symm
  · intro a b ha hb h1 h2
    have ha' : a ∈ l₁ := (mem_isort key l₁ a).mp ha
    have hb' : b ∈ l₁ := hp.mem_iff.mpr ((mem_isort key l₂ b).mp hb)
    have hk : key a = key b := (keyLt_total _ _ h2 h1)
    exact inj_of_nodup_map key l₁ hnd ha' hb' hk

end sorted


/-! ### the normal form -/

mutual
theorem canon_idem' : ∀ v : Value, canon (canon v) = canon v
  | .prim _ => by simp [canon]
  | .arr es => by
    simp only [canon, canonList_eq]
    rw [canonMap_idem es]
  | .obj fs => by
    simp only [canon, canonFields_eq]
    rw [← isort_map (·.1) (·.1) canonField (fun _ => rfl), canonFieldMap_idem fs, isort_idem]
theorem canonMap_idem : ∀ es : List Value, (es.map canon).map canon = es.map canon
  | [] => rfl
  | e :: es => by simp only [List.map_cons, canon_idem' e, canonMap_idem es]
theorem canonFieldMap_idem :
    ∀ fs : List (Key × Value), (fs.map canonField).map canonField = fs.map canonField
  | [] => rfl
  | (k, v) :: fs => by
    simp only [List.map_cons, canonFieldMap_idem fs]
    simp [canonField, canon_idem' v]
end


mutual
theorem utf8_allKeys : ∀ v : Value, wf v = true → ∀ k ∈ allKeys v, utf8Valid k = true
  | .prim _, _, k, hk => by simp [allKeys] at hk
  | .arr es, h, k, hk => by
    simp only [wf, allKeys] at h hk
    exact utf8_allKeysList es h k hk
  | .obj fs, h, k, hk => by
    simp only [wf, allKeys, Bool.and_eq_true] at h hk
    exact utf8_allKeysFields fs h.1 k hk
theorem utf8_allKeysList : ∀ es : List Value, wfL es = true → ∀ k ∈ allKeysList es, utf8Valid k = true
  | [], _, k, hk => by simp [allKeysList] at hk
  | e :: es, h, k, hk => by
    simp only [wfL, allKeysList, Bool.and_eq_true, List.mem_append] at h hk
    cases hk with
    | inl hk => exact utf8_allKeys e h.1 k hk
    | inr hk => exact utf8_allKeysList es h.2 k hk
theorem utf8_allKeysFields :
    ∀ fs : List (Key × Value), wfF fs = true → ∀ k ∈ allKeysFields fs, utf8Valid k = true
  | [], _, k, hk => by simp [allKeysFields] at hk
  | (k0, v) :: fs, h, k, hk => by
    simp only [wfF, allKeysFields, Bool.and_eq_true, List.mem_cons, List.mem_append] at h hk
    rcases hk with rfl | hk | hk
    · exact h.1.1
    · exact utf8_allKeys v h.1.2 k hk
    · exact utf8_allKeysFields fs h.2 k hk
end

theorem encodeMeta_length (d : Dict) :
    (d.map List.length).sum + d.length + 2 ≤ (encodeMeta d).length := by
  simp only [encodeMeta, List.length_cons, List.length_append, leN_length, flatMap_leN_length,
    offsetsOf_length, List.length_map, length_flatten_eq]
  generalize offsetSizeCode (max (d.map List.length).sum d.length) = c
  have : d.length + 1 ≤ (d.length + 1) * (c + 1) := Nat.le_mul_of_pos_right _ (by omega)
  omega


/-! ### the one-pass encoder equals the two-pass form -/

theorem prefix_addKey (d : Dict) (k : Key) : d <+: addKey d k := by
  unfold addKey; split
  · exact List.prefix_refl _
  · exact List.prefix_append _ _

mutual
theorem prefix_collect : ∀ (v : Value) (d : Dict), d <+: collect d v
  | .prim _, d => by simp [collect]
  | .arr es, d => by simp only [collect]; exact prefix_collectList es d
  | .obj fs, d => by simp only [collect]; exact prefix_collectFields fs d
theorem prefix_collectList : ∀ (es : List Value) (d : Dict), d <+: collectList d es
  | [], d => by simp [collectList]
  | e :: es, d => by
    simp only [collectList]
    exact (prefix_collect e d).trans (prefix_collectList es _)
theorem prefix_collectFields : ∀ (fs : List (Key × Value)) (d : Dict), d <+: collectFields d fs
  | [], d => by simp [collectFields]
  | (k, v) :: fs, d => by
    simp only [collectFields]
    exact ((prefix_addKey d k).trans (prefix_collect v _)).trans (prefix_collectFields fs _)
end

theorem findIdx_append {k : Key} {d : Dict} (t : Dict) (h : k ∈ d) : findIdx k (d ++ t) = findIdx k d := by
  induction d with
  | nil => cases h
  | cons x xs ih =>
    simp only [List.cons_append, findIdx]
    split
    · rfl
    · rename_i hne
      have : k ∈ xs := by
        cases h with
        | head => exact absurd rfl hne
        | tail _ h => exact h
      rw [ih this]

theorem findIdx_prefix {k : Key} {d dfin : Dict} (h : k ∈ d) (hp : d <+: dfin) :
    findIdx k dfin = findIdx k d := by
  obtain ⟨t, rfl⟩ := hp
  exact findIdx_append t h

mutual
theorem encSt_eq : ∀ (v : Value) (d dfin : Dict), collect d v <+: dfin →
    encSt d v = (collect d v, enc dfin v)
  | .prim _, d, dfin, _ => by simp [encSt, collect, enc]
  | .arr es, d, dfin, h => by
    simp only [collect] at h
    simp only [encSt, collect, enc, encStList_eq es d dfin h]
  | .obj fs, d, dfin, h => by
    simp only [collect] at h
    simp only [encSt, collect, enc, encStFields_eq fs d dfin h]
theorem encStList_eq : ∀ (es : List Value) (d dfin : Dict), collectList d es <+: dfin →
    encStList d es = (collectList d es, encList dfin es)
  | [], d, dfin, _ => by simp [encStList, collectList, encList]
  | e :: es, d, dfin, h => by
    simp only [collectList] at h
    have h1 : collect d e <+: dfin := (prefix_collectList es _).trans h
    simp only [encStList, collectList, encList, encSt_eq e d dfin h1,
      encStList_eq es (collect d e) dfin h]
theorem encStFields_eq : ∀ (fs : List (Key × Value)) (d dfin : Dict), collectFields d fs <+: dfin →
    encStFields d fs = (collectFields d fs, encFields dfin fs)
  | [], d, dfin, _ => by simp [encStFields, collectFields, encFields]
  | (k, v) :: fs, d, dfin, h => by
    simp only [collectFields] at h
    have h1 : collect (addKey d k) v <+: dfin := (prefix_collectFields fs _).trans h
    have h0 : addKey d k <+: dfin := (prefix_collect v _).trans h1
    have hk : k ∈ addKey d k := (mem_addKey d k k).mpr (Or.inr rfl)
    simp only [encStFields, collectFields, encFields, encSt_eq v (addKey d k) dfin h1,
      encStFields_eq fs (collect (addKey d k) v) dfin h, findIdx_prefix hk h0]
end

end PqModel.Variant
