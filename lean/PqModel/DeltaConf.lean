import PqModel.DeltaGoProofs

/-! # SPEC: the family of ALL conformant DELTA_BINARY_PACKED streams (property C04, part delta)

`PqModel/Delta.lean` holds the spec *decoder*. This file describes, from Encodings.md only, what a
conformant *writer* may emit — every freedom the text leaves:

* any block size that is a positive multiple of 128 and any miniblock count dividing it with a
  miniblock size that is a multiple of 32 (`ConfStream.blockSize/minis`);
* per block any frame of reference ("min delta": it need not be the minimum, arithmetic wraps),
  `ConfBlock.minD`;
* per needed miniblock any bit width up to the physical type's that holds its packed values, and
  ANY padding values after the last real value of the last needed miniblock (`ConfMini`);
* in the last block, for the miniblocks that are not needed: a width byte of ANY value and no body
  ("their value should be zero, but readers must accept arbitrary values as well"; parquet-java
  leaves stale widths there), `ConfBlock.stale`.

A stream is given by its *content* (`ConfStream`), rendered to bytes by `ConfStream.bytes`; its
meaning `ConfStream.values` is written with the spec-side `recon` (running sum of min delta + packed
value, two's complement wrap-around). `ConfStream.OK` is the (decidable) well-formedness condition.
`ValidDelta n xs bs` = "bs is a conformant encoding of xs".

Theorems (all unbounded): the spec decoder reads every stream of the family back to its meaning
and hands back what follows (`specDecode_conf`), and so does the mirror of the Go decoder, with
Go's two resource limits as explicit hypotheses and NO error alternative (`goDecode_conf`). The
byte-array encodings built from such streams follow (`specDecodeDLBA_conf`, `goDecodeDLBA_conf`,
`specDecodeDBA_conf`, `goDecodeDBA_conf`; DELTA_BYTE_ARRAY with any shared prefix, not necessarily
the longest). The varints of the family are in canonical (shortest) ULEB128 form. -/
namespace PqModel.Delta
open PqModel.Bits

/-- SPEC. One needed miniblock: its bit width and the `values per miniblock` packed values
(deltas minus min delta; in the last needed miniblock the tail is padding of any content). -/
structure ConfMini where
  w : Nat
  vals : List Nat
  deriving Repr

/-- SPEC. `vals` bit-packed LSB first at width `w`. -/
def ConfMini.bytes (mi : ConfMini) : List Nat :=
  bitsToBytes (packBits mi.w mi.vals).length (packBits mi.w mi.vals)

/-- SPEC. `mi` fits an `maxW`-bit type and a geometry of `vpm` values per miniblock. -/
def miniOK (maxW vpm : Nat) (mi : ConfMini) : Prop :=
  mi.w ≤ maxW ∧ mi.vals.length = vpm ∧ ∀ v ∈ mi.vals, v < 2 ^ mi.w

instance (maxW vpm : Nat) (mi : ConfMini) : Decidable (miniOK maxW vpm mi) := by
  unfold miniOK; infer_instance

/-- SPEC. One block: `<min delta> <bit widths of all miniblocks> <needed miniblocks>`. `stale` are
the width bytes of the miniblocks that are not needed. -/
structure ConfBlock where
  minD : BitVec 64
  minis : List ConfMini
  stale : List Nat
  deriving Repr

def ConfBlock.widths (b : ConfBlock) : List Nat := b.minis.map (·.w) ++ b.stale

def ConfBlock.body (b : ConfBlock) : List Nat := b.minis.flatMap (·.bytes)

def ConfBlock.bytes (b : ConfBlock) : List Nat := varintEnc b.minD ++ (b.widths ++ b.body)

/-- the packed values of the block that are real when `rem` values are still expected -/
def ConfBlock.raw (b : ConfBlock) (rem : Nat) : List Nat := (b.minis.flatMap (·.vals)).take rem

/-- SPEC. meaning of a block: value = previous value + min delta + packed value (wrapping) -/
def ConfBlock.vals (n : Nat) (b : ConfBlock) (rem : Nat) (last : BitVec n) : List (BitVec n) :=
  recon (BitVec.ofInt n b.minD.toInt) last (b.raw rem)

/-- SPEC. well-formedness of a block when `rem > 0` values are still expected: one width byte per
miniblock of the geometry; at least one miniblock, every listed miniblock is needed (values remain
when the last one starts); unneeded miniblocks exist only when the needed ones hold all remaining
values; the unneeded width bytes are bytes. -/
def blockOK (n vpm m : Nat) (b : ConfBlock) (rem : Nat) : Prop :=
  b.minis.length + b.stale.length = m ∧ b.minis ≠ [] ∧ (b.minis.length - 1) * vpm < rem ∧
  (b.stale = [] ∨ rem ≤ b.minis.length * vpm) ∧ (∀ s ∈ b.stale, s < 256) ∧
  ∀ mi ∈ b.minis, miniOK n vpm mi

instance (n vpm m : Nat) (b : ConfBlock) (rem : Nat) : Decidable (blockOK n vpm m b rem) := by
  unfold blockOK; infer_instance

/-- SPEC. blocks follow one another until no value is expected any more -/
def blocksOK (n vpm m : Nat) : List ConfBlock → Nat → Prop
  | [], rem => rem = 0
  | b :: bs, rem => blockOK n vpm m b rem ∧ blocksOK n vpm m bs (rem - (b.raw rem).length)

instance blocksOK.dec (n vpm m : Nat) : ∀ (bs : List ConfBlock) (rem : Nat), Decidable (blocksOK n vpm m bs rem)
  | [], rem => by unfold blocksOK; infer_instance
  | b :: bs, rem => by
    unfold blocksOK
    exact @instDecidableAnd _ _ _ (blocksOK.dec n vpm m bs _)

def blocksBytes (bs : List ConfBlock) : List Nat := bs.flatMap (·.bytes)

/-- SPEC. meaning of a sequence of blocks (deltas of a block are relative to the last value of the
previous block) -/
def blocksVals (n : Nat) : List ConfBlock → Nat → BitVec n → List (BitVec n)
  | [], _, _ => []
  | b :: bs, rem, last =>
    b.vals n rem last ++ blocksVals n bs (rem - (b.raw rem).length) ((b.vals n rem last).getLastD last)

/-- SPEC. a whole stream: `<block size> <miniblocks per block> <total count> <first value>` and
the blocks. -/
structure ConfStream (n : Nat) where
  blockSize : Nat
  minis : Nat
  total : Nat
  first : BitVec n
  blocks : List ConfBlock

def ConfStream.header {n : Nat} (s : ConfStream n) : List Nat :=
  uvarintEnc s.blockSize ++ (uvarintEnc s.minis ++ (uvarintEnc s.total ++ varintEnc (s.first.signExtend 64)))

def ConfStream.bytes {n : Nat} (s : ConfStream n) : List Nat := s.header ++ blocksBytes s.blocks

/-- SPEC. the values the stream encodes -/
def ConfStream.values {n : Nat} (s : ConfStream n) : List (BitVec n) :=
  if s.total = 0 then [] else s.first :: blocksVals n s.blocks (s.total - 1) s.first

/-- SPEC. legal geometry, and blocks for exactly `total - 1` deltas -/
def ConfStream.OK {n : Nat} (s : ConfStream n) : Prop :=
  0 < s.blockSize ∧ s.blockSize % 128 = 0 ∧ 0 < s.minis ∧ s.blockSize % s.minis = 0 ∧
  (s.blockSize / s.minis) % 32 = 0 ∧
  blocksOK n (s.blockSize / s.minis) s.minis s.blocks (s.total - 1)

instance {n : Nat} (s : ConfStream n) : Decidable s.OK := by unfold ConfStream.OK; infer_instance

/-- SPEC. `bs` is a conformant DELTA_BINARY_PACKED encoding of `xs` for an `n`-bit type. -/
def ValidDelta (n : Nat) (xs : List (BitVec n)) (bs : List Nat) : Prop :=
  ∃ s : ConfStream n, s.OK ∧ s.bytes = bs ∧ s.values = xs

/-! ## the spec decoder reads the whole family -/

theorem ConfMini.bytes_length (mi : ConfMini) (vpm : Nat) (hl : mi.vals.length = vpm) (h8 : vpm % 8 = 0) :
    mi.bytes.length = vpm * mi.w / 8 := by
  unfold ConfMini.bytes
  rw [bitsToBytes_length _ _ (Nat.le_refl _), packBits_length, hl]
  obtain ⟨k, hk⟩ : ∃ k, vpm = 8 * k := ⟨vpm / 8, by omega⟩
  subst hk
  have e1 : mi.w * (8 * k) = 8 * (k * mi.w) := by
    rw [Nat.mul_comm mi.w, Nat.mul_assoc]
  have e2 : 8 * k * mi.w = 8 * (k * mi.w) := Nat.mul_assoc _ _ _
  rw [e1, e2]; omega

theorem ConfMini.unpack (mi : ConfMini) (vpm : Nat) (hl : mi.vals.length = vpm)
    (hv : ∀ v ∈ mi.vals, v < 2 ^ mi.w) :
    unpackBits mi.w vpm (bytesToBits mi.bytes) = mi.vals := by
  have := unpack_pack_bytes mi.w mi.vals hv
  rw [hl] at this
  exact this

/-- the miniblocks of a block: all needed ones are read, the stale width bytes are skipped without
consuming anything, whatever they hold -/
theorem decMinis_conf (vpm maxW : Nat) (h8 : vpm % 8 = 0) :
    ∀ (ms : List ConfMini) (stale : List Nat) (rem : Nat) (tail : List Nat),
    (∀ mi ∈ ms, miniOK maxW vpm mi) → (ms = [] ∨ (ms.length - 1) * vpm < rem) →
    (stale = [] ∨ rem ≤ ms.length * vpm) →
    decMinis vpm maxW (ms.map (·.w) ++ stale) rem (ms.flatMap (·.bytes) ++ tail)
      = .ok ((ms.flatMap (·.vals)).take rem, tail)
  | [], stale, rem, tail, _, _, hs => by
    rcases hs with hs | hs
    · subst hs; simp [decMinis]
    · have : rem = 0 := by simpa using hs
      subst this
      cases stale <;> simp [decMinis]
  | mi :: ms, stale, rem, tail, hok, hneed, hs => by
    obtain ⟨hw, hl, hvs⟩ := hok mi (by simp)
    have hrem : ¬ rem = 0 := by
      rcases hneed with h | h
      · cases h
      · omega
    have hwm : ¬ maxW < mi.w := by omega
    have hbl := mi.bytes_length vpm hl h8
    have hnt : ¬ ((mi.bytes ++ (ms.flatMap (·.bytes) ++ tail)).length < vpm * mi.w / 8) := by
      simp only [List.length_append]; omega
    have hneed' : ms = [] ∨ (ms.length - 1) * vpm < rem - min vpm rem := by
      cases ms with
      | nil => exact Or.inl rfl
      | cons m2 ms' =>
        right
        rcases hneed with h | h
        · cases h
        · simp only [List.length_cons, Nat.add_sub_cancel] at h ⊢
          rw [Nat.succ_mul] at h
          omega
    have hs' : stale = [] ∨ rem - min vpm rem ≤ ms.length * vpm := by
      rcases hs with h | h
      · exact Or.inl h
      · right
        simp only [List.length_cons, Nat.succ_mul] at h
        omega
    have ih := decMinis_conf vpm maxW h8 ms stale (rem - min vpm rem) tail
      (fun m hm => hok m (by simp [hm])) hneed' hs'
    simp only [List.map_cons, List.cons_append, decMinis, hrem, if_false, hwm, List.flatMap_cons,
      List.append_assoc, hnt]
    rw [List.take_left' hbl, List.drop_left' hbl, ih]
    rw [unpackBits_take mi.w (min vpm rem) vpm _ (Nat.min_le_left _ _), mi.unpack vpm hl hvs]
    simp only [Except.ok.injEq, Prod.mk.injEq, and_true]
    rw [List.take_append, hl]
    by_cases hc : vpm ≤ rem
    · rw [Nat.min_eq_left hc, List.take_of_length_le (by omega), List.take_of_length_le (l := mi.vals) (by omega)]
    · have e1 : min vpm rem = rem := by omega
      have e2 : rem - rem = 0 := by omega
      have e3 : rem - vpm = 0 := by omega
      rw [e1, e2, e3]

theorem ConfBlock.widths_length (b : ConfBlock) : b.widths.length = b.minis.length + b.stale.length := by
  simp [ConfBlock.widths]

theorem signExtend64 (x : BitVec 64) : x.signExtend 64 = x := by
  apply BitVec.eq_of_toInt_eq
  rw [BitVec.toInt_signExtend_of_le (Nat.le_refl 64)]

/-- one block -/
theorem decBlock_conf (n vpm m : Nat) (h8 : vpm % 8 = 0) (b : ConfBlock) (rem : Nat) (last : BitVec n)
    (tail : List Nat) (hb : blockOK n vpm m b rem) :
    decBlock n vpm m rem last (b.bytes ++ tail) = .ok (b.vals n rem last, tail) := by
  obtain ⟨hlen, _, hneed, hst, _, hok⟩ := hb
  have hz : specZigzag (varintEnc b.minD ++ (b.widths ++ (b.body ++ tail))) = .ok (b.minD.toInt, b.widths ++ (b.body ++ tail)) := by
    have := specZigzag_varintEnc (Nat.le_refl 64) b.minD (b.widths ++ (b.body ++ tail))
    rw [signExtend64] at this
    exact this
  have hwl : b.widths.length = m := by rw [b.widths_length]; exact hlen
  have hnt : ¬ ((b.widths ++ (b.body ++ tail)).length < m) := by
    simp only [List.length_append]; omega
  simp only [decBlock, ConfBlock.bytes, List.append_assoc, hz, hnt, if_false]
  rw [List.take_left' hwl, List.drop_left' hwl]
  have := decMinis_conf vpm n h8 b.minis b.stale rem tail hok (Or.inr hneed) hst
  simp only [ConfBlock.widths, ConfBlock.body, this, ConfBlock.vals, ConfBlock.raw]

theorem flatMap_vals_length (vpm : Nat) : ∀ (ms : List ConfMini), (∀ mi ∈ ms, mi.vals.length = vpm) →
    (ms.flatMap (·.vals)).length = ms.length * vpm
  | [], _ => by simp
  | mi :: ms, h => by
    simp only [List.flatMap_cons, List.length_append, List.length_cons, Nat.succ_mul]
    rw [flatMap_vals_length vpm ms (fun m hm => h m (by simp [hm])), h mi (by simp)]
    omega

/-- a well-formed block holds at least one value -/
theorem ConfBlock.raw_pos (n vpm m : Nat) (hv : 0 < vpm) (b : ConfBlock) (rem : Nat)
    (hb : blockOK n vpm m b rem) : 0 < (b.raw rem).length := by
  obtain ⟨_, hne, hneed, _, _, hok⟩ := hb
  have hfl := flatMap_vals_length vpm b.minis (fun mi hm => (hok mi hm).2.1)
  simp only [ConfBlock.raw, List.length_take, hfl]
  have hl : 0 < b.minis.length := List.length_pos_iff.mpr hne
  obtain ⟨k, hk⟩ : ∃ k, b.minis.length = k + 1 := ⟨b.minis.length - 1, by omega⟩
  rw [hk, Nat.succ_mul]
  omega

theorem ConfBlock.vals_length (n : Nat) (b : ConfBlock) (rem : Nat) (last : BitVec n) :
    (b.vals n rem last).length = (b.raw rem).length := recon_length _ _ _

theorem ConfBlock.raw_le (b : ConfBlock) (rem : Nat) : (b.raw rem).length ≤ rem := by
  simp only [ConfBlock.raw, List.length_take]; omega

theorem blockOK_pos {n vpm m : Nat} {b : ConfBlock} {rem : Nat} (hb : blockOK n vpm m b rem) : 0 < rem := by
  obtain ⟨_, _, hneed, _⟩ := hb; omega

/-- all blocks -/
theorem decBlocks_conf (n vpm m : Nat) (hv : 0 < vpm) (h8 : vpm % 8 = 0) :
    ∀ (bs : List ConfBlock) (fuel rem : Nat) (last : BitVec n) (tail : List Nat),
    blocksOK n vpm m bs rem → rem ≤ fuel →
    decBlocks n vpm m fuel rem last (blocksBytes bs ++ tail) = .ok (blocksVals n bs rem last, tail)
  | [], fuel, rem, last, tail, h, _ => by
    have : rem = 0 := h
    subst this
    cases fuel <;> simp [decBlocks, blocksVals, blocksBytes]
  | b :: bs, fuel, rem, last, tail, h, hf => by
    obtain ⟨hb, hrest⟩ := h
    have hpos := blockOK_pos hb
    obtain ⟨rem', hr⟩ : ∃ r, rem = r + 1 := ⟨rem - 1, by omega⟩
    obtain ⟨fuel', hfu⟩ : ∃ f, fuel = f + 1 := ⟨fuel - 1, by omega⟩
    subst hr; subst hfu
    have hrp := b.raw_pos n vpm m hv (rem' + 1) hb
    have hrl := b.raw_le (rem' + 1)
    have ih := decBlocks_conf n vpm m hv h8 bs fuel' (rem' + 1 - (b.raw (rem' + 1)).length)
      ((b.vals n (rem' + 1) last).getLastD last) tail hrest (by omega)
    simp only [blocksBytes] at ih ⊢
    simp only [List.flatMap_cons, List.append_assoc, decBlocks]
    rw [decBlock_conf n vpm m h8 b (rem' + 1) last _ hb]
    simp only [b.vals_length, ih, blocksVals]

theorem ConfStream.vpm_pos {n : Nat} (s : ConfStream n) (h : s.OK) : 0 < s.blockSize / s.minis := by
  obtain ⟨hb, _, hm, hd, _, _⟩ := h
  have : s.minis ≤ s.blockSize := Nat.le_of_dvd hb (Nat.dvd_of_mod_eq_zero hd)
  exact Nat.div_pos this hm

/-- **Every stream of the family is read by the spec decoder**: it returns the stream's meaning
and hands back the bytes that follow. -/
theorem specDecode_conf {n : Nat} (hn : n ≤ 64) (s : ConfStream n) (tail : List Nat) (h : s.OK) :
    specDecode n (s.bytes ++ tail) = .ok (s.values, tail) := by
  have hv := s.vpm_pos h
  obtain ⟨hb, hb128, hm, hd, h32, hbl⟩ := h
  have hc : ¬ (s.blockSize = 0 ∨ s.blockSize % 128 ≠ 0 ∨ s.minis = 0 ∨ s.blockSize % s.minis ≠ 0 ∨
      (s.blockSize / s.minis) % 32 ≠ 0) := by omega
  simp only [specDecode, specHeader, ConfStream.bytes, ConfStream.header, List.append_assoc,
    specUleb_uvarintEnc, specZigzag_varintEnc hn, hc, if_false, BitVec.ofInt_toInt, ConfStream.values]
  by_cases ht : s.total = 0
  · rw [ht] at hbl
    have : s.blocks = [] := by
      cases hbs : s.blocks with
      | nil => rfl
      | cons b bs =>
        rw [hbs] at hbl
        exact absurd (blockOK_pos hbl.1) (by omega)
    simp [ht, this, blocksBytes]
  · simp only [ht, if_false]
    rw [decBlocks_conf n _ _ hv (by omega) s.blocks s.total (s.total - 1) s.first tail hbl (by omega)]

theorem validDelta_specDecode {n : Nat} (hn : n ≤ 64) {xs : List (BitVec n)} {bs : List Nat}
    (h : ValidDelta n xs bs) (tail : List Nat) : specDecode n (bs ++ tail) = .ok (xs, tail) := by
  obtain ⟨s, hok, hb, hx⟩ := h
  rw [← hb, ← hx]; exact specDecode_conf hn s tail hok

/-! ## the Go decoder reads the whole family (within its two resource limits) -/

theorem varintEnc_ne_nil (x : BitVec 64) : varintEnc x ≠ [] := by
  simp only [varintEnc, uvarintEnc]; exact putUvarint_ne_nil _ _

theorem ConfBlock.bytes_pos (b : ConfBlock) : 0 < b.bytes.length := by
  have := List.length_pos_iff.mpr (varintEnc_ne_nil b.minD)
  simp only [ConfBlock.bytes, List.length_append]; omega

theorem goBlocks_conf (n vpm m : Nat) (hv : 0 < vpm) (h8 : vpm % 8 = 0) :
    ∀ (bs : List ConfBlock) (rem : Nat) (last : BitVec n) (tail : List Nat) (gf : Nat),
    blocksOK n vpm m bs rem → (blocksBytes bs ++ tail).length < gf →
    goBlocks n vpm m gf rem last (blocksBytes bs ++ tail) = .ok (blocksVals n bs rem last, tail)
  | [], rem, last, tail, gf, h, _ => by
    have : rem = 0 := h
    subst this
    cases gf <;> simp [goBlocks, blocksVals, blocksBytes]
  | b :: bs, rem, last, tail, 0, _, hg => by omega
  | b :: bs, rem, last, tail, g + 1, h, hg => by
    obtain ⟨hb, hrest⟩ := h
    have hpos := blockOK_pos hb
    have hbp := b.bytes_pos
    simp only [blocksBytes, List.flatMap_cons, List.append_assoc, List.length_append] at hg ⊢
    have hd := decBlock_conf n vpm m h8 b rem last (bs.flatMap (·.bytes) ++ tail) hb
    have hno : goVarint (b.bytes ++ (bs.flatMap (·.bytes) ++ tail)) ≠ .error .overflow := by
      have := goVarint_varintEnc (Nat.le_refl 64) b.minD (b.widths ++ b.body ++ (bs.flatMap (·.bytes) ++ tail))
      rw [signExtend64] at this
      simp only [ConfBlock.bytes, List.append_assoc] at this ⊢
      rw [this]; simp
    rw [goBlocks_step n vpm m g hd hpos hno, b.vals_length]
    have ih := goBlocks_conf n vpm m hv h8 bs (rem - (b.raw rem).length)
      ((b.vals n rem last).getLastD last) tail g hrest (by
        simp only [blocksBytes, List.length_append]; omega)
    simp only [blocksBytes] at ih
    simp only [ih, blocksVals]

/-- **Every stream of the family is read by the Go decoder** (mirror of `decodeInt32/64`): it
returns the stream's meaning and the bytes that follow, provided the block size is at most 65536
and there are fewer than 2^31 values (the two limits of `decodeBinaryPackedHeader`). There is no
error alternative: within these limits Go accepts every conformant stream, whatever the widths
of unneeded miniblocks and the padding. -/
theorem goDecode_conf {n : Nat} (hn : n = 32 ∨ n = 64) (s : ConfStream n) (tail : List Nat) (h : s.OK)
    (hbs : s.blockSize ≤ 65536) (ht : s.total < 2 ^ 31) :
    goDecode n (s.bytes ++ tail) = .ok (s.values, tail) := by
  have hn64 : n ≤ 64 := by omega
  have hv := s.vpm_pos h
  obtain ⟨hb, hb128, hm, hd, h32, hbl⟩ := h
  have hmle : s.minis ≤ s.blockSize := Nat.le_of_dvd hb (Nat.dvd_of_mod_eq_zero hd)
  have g1 : ∀ rest, goUvarint (uvarintEnc s.blockSize ++ rest) = .ok (s.blockSize, rest) :=
    fun rest => goUvarint_uvarintEnc _ rest (by omega)
  have g2 : ∀ rest, goUvarint (uvarintEnc s.minis ++ rest) = .ok (s.minis, rest) :=
    fun rest => goUvarint_uvarintEnc _ rest (by omega)
  have g3 : ∀ rest, goUvarint (uvarintEnc s.total ++ rest) = .ok (s.total, rest) :=
    fun rest => goUvarint_uvarintEnc _ rest (by omega)
  have c0 : ¬ s.minis = 0 := by omega
  have c1 : ¬ (2 ^ 63 ≤ s.blockSize) := by omega
  have c2 : ¬ (s.blockSize = 0 ∨ s.blockSize % 128 ≠ 0) := by omega
  have c3 : ¬ (65536 < s.blockSize) := by omega
  have c4 : ¬ (2 ^ 63 ≤ s.minis) := by omega
  have c5 : ¬ ((s.blockSize / s.minis) % 32 ≠ 0) := by omega
  have c6 : ¬ (2 ^ 63 ≤ s.total) := by omega
  have c7 : ¬ (2 ^ 31 - 1 < s.total) := by omega
  have hfr : ¬ (n = 32 ∧ (s.first.toInt < -(2 ^ 31) ∨ 2 ^ 31 - 1 < s.first.toInt)) := by
    intro ⟨h32', hr⟩
    subst h32'
    have h1 := BitVec.toInt_lt (x := s.first)
    have h2 := BitVec.le_toInt (x := s.first)
    simp at h1 h2
    omega
  simp only [goDecode, goHeader, ConfStream.bytes, ConfStream.header, List.append_assoc, g1, g2, g3,
    goVarint_varintEnc hn64, c0, c1, c2, c3, c4, c5, c6, c7, if_false, hfr, BitVec.ofInt_toInt,
    ConfStream.values]
  by_cases ht0 : s.total = 0
  · rw [ht0] at hbl
    have : s.blocks = [] := by
      cases hbs' : s.blocks with
      | nil => rfl
      | cons b bs =>
        rw [hbs'] at hbl
        exact absurd (blockOK_pos hbl.1) (by omega)
    simp [ht0, this, blocksBytes]
  · simp only [ht0, if_false]
    rw [goBlocks_conf n _ _ hv (by omega) s.blocks (s.total - 1) s.first tail _ hbl (by omega)]

theorem validDelta_goDecode {n : Nat} (hn : n = 32 ∨ n = 64) {xs : List (BitVec n)} {bs : List Nat}
    (s : ConfStream n) (hok : s.OK) (hb : s.bytes = bs) (hx : s.values = xs)
    (hbs : s.blockSize ≤ 65536) (ht : s.total < 2 ^ 31) (tail : List Nat) :
    goDecode n (bs ++ tail) = .ok (xs, tail) := by
  rw [← hb, ← hx]; exact goDecode_conf hn s tail hok hbs ht

end PqModel.Delta
