import PqModel.Dremel
import PqModel.Pages
import PqModel.Plain

/-! # File model for C01: a nondeterministic writer and a reader

SPEC side (written from the Dremel paper / the Parquet format documents and the property text, not
from the Go code). The writer is *nondeterministic in every heuristic choice*: how the rows are
partitioned into row groups, where each column chunk is cut into pages, how many leading pages of a
chunk are dictionary-encoded before the column falls back to its plain value encoding, and which
codecs are used, are all parameters. The codecs (level codec, value codec, dictionary page codec,
dictionary index codec, compressor) are abstract functions with explicit round-trip hypotheses
(`ColCodec.OK`); `Props/C01.lean` instantiates them with the concrete C04 functions.

    rows --shredN--> per-row column segments --concatenate--> per-column streams of triples
         --partition into row groups--> per row group, per column: cut into pages
         --page = (num_values, rep levels, def levels, non-null values)--> encoded/compressed

The reader decodes every page, concatenates per column within and across row groups, splits the
column streams back into rows at `rep = 0` and assembles every row with `asmN`. -/
namespace PqModel.FileModel
open PqModel.Dremel PqModel.Pages PqModel.Plain

/-! ## schema: per-column maximum levels -/

mutual
/-- SPEC: (max repetition level, max definition level) of every leaf column, in leaf order, below a
    node reached at repetition depth `k` and definition level `d`. -/
def levelsN : Node → (k d : Nat) → List (Nat × Nat)
  | .leaf, k, d => [(k, d)]
  | .group fs, k, d => levelsF fs k d
  | .opt n, k, d => levelsN n k (d + 1)
  | .rpt n, k, d => levelsN n (k + 1) (d + 1)
def levelsF : Fields → (k d : Nat) → List (Nat × Nat)
  | .nil, _, _ => []
  | .cons n fs, k, d => levelsN n k d ++ levelsF fs k d
end

/-- every max level of the schema is at most `B` (decidable; `B = 255` for byte-wide RLE levels) -/
def levelsBounded (B : Nat) (n : Node) : Bool :=
  (levelsN n 0 0).all fun lv => decide (lv.1 ≤ B) && decide (lv.2 ≤ B)

/-! ## codecs (parameters) -/

/-- a data page before it is packed for storage: header value count, the three encoded sections,
    and whether the value section holds dictionary indexes (RLE_DICTIONARY) or the column's value
    encoding -/
structure Page (β : Type) where
  nvals : Nat
  reps : β
  defs : β
  isDict : Bool
  vals : β

/-- The codecs of one column. `β` is the type of encoded byte sections, `γ` of stored pages.
    * `encL m` / `decL m cnt`: level codec for levels `≤ m`; the decoder is told the value count of
      the page header (as a Parquet page reader is);
    * `encV` / `decV cnt`: the column's value encoding (PLAIN, DELTA_*, …) on the non-null values;
    * `encD` / `decD cnt`: encoding of the dictionary page (PLAIN in Parquet);
    * `encI` / `decI cnt`: encoding of dictionary indexes (RLE_DICTIONARY), for indexes `< dictLimit`;
    * `comp` / `decomp`: the compressor, as applied to the dictionary page (`id`/`some` when the
      column is uncompressed);
    * `pack` / `unpack`: how a data page is laid out for storage: header, and the compressor over
      the whole body (data page v1), over the value section only (v2), or not at all;
    * `okV`: the value domain of the column's physical type (e.g. `x < 2^64` for INT64). -/
structure ColCodec (β γ : Type) where
  encL : Nat → List Nat → β
  decL : Nat → Nat → β → Option (List Nat)
  okV : Nat → Bool
  encV : List Nat → β
  decV : Nat → β → Option (List Nat)
  encD : List Nat → β
  decD : Nat → β → Option (List Nat)
  dictLimit : Nat
  encI : List Nat → β
  decI : Nat → β → Option (List Nat)
  comp : β → β
  decomp : β → Option β
  pack : Page β → γ
  unpack : γ → Option (Page β)

/-- The round-trip hypotheses on a column's codecs; `B` bounds the levels the level codec must
    handle. These are exactly the shapes of the C04 theorems. -/
structure ColCodec.OK {β γ : Type} (c : ColCodec β γ) (B : Nat) : Prop where
  lvl : ∀ m xs, m ≤ B → (∀ x ∈ xs, x ≤ m) → c.decL m xs.length (c.encL m xs) = some xs
  val : ∀ xs, (∀ x ∈ xs, c.okV x = true) → c.decV xs.length (c.encV xs) = some xs
  dct : ∀ xs, (∀ x ∈ xs, c.okV x = true) → c.decD xs.length (c.encD xs) = some xs
  idx : ∀ xs, (∀ x ∈ xs, x < c.dictLimit) → c.decI xs.length (c.encI xs) = some xs
  cmp : ∀ b, c.decomp (c.comp b) = some b
  pg : ∀ p, c.unpack (c.pack p) = some p

/-- The same hypotheses restricted to ADMISSIBLE pages, for codecs with a size limit of the format:
    `okP xs` says the value list `xs` of one page is admissible for the value encoding (e.g. the RLE
    boolean body fits the 4-byte length prefix), `okS reps defs` that the two encoded level sections
    are admissible for the storage framing (data page v1: each fits its 4-byte length prefix),
    `okN k` that a page may hold `k` levels / `k` values (the page header's `num_values` is an
    `int32`, and the Go RLE decoders refuse runs longer than `MaxInt32`).
    `ColCodec.OK` is the case where every page is admissible (`OK.toOn`). -/
structure ColCodec.OKOn {β γ : Type} (c : ColCodec β γ) (B : Nat) (okN : Nat → Bool)
    (okP : List Nat → Bool) (okS : β → β → Bool) : Prop where
  lvl : ∀ m xs, m ≤ B → (∀ x ∈ xs, x ≤ m) → okN xs.length = true → c.decL m xs.length (c.encL m xs) = some xs
  val : ∀ xs, (∀ x ∈ xs, c.okV x = true) → okP xs = true → c.decV xs.length (c.encV xs) = some xs
  dct : ∀ xs, (∀ x ∈ xs, c.okV x = true) → c.decD xs.length (c.encD xs) = some xs
  idx : ∀ xs, (∀ x ∈ xs, x < c.dictLimit) → okN xs.length = true → c.decI xs.length (c.encI xs) = some xs
  cmp : ∀ b, c.decomp (c.comp b) = some b
  pg : ∀ p : Page β, okS p.reps p.defs = true → c.unpack (c.pack p) = some p

theorem ColCodec.OK.toOn {β γ : Type} {c : ColCodec β γ} {B : Nat} (h : c.OK B) :
    c.OKOn B (fun _ => true) (fun _ => true) (fun _ _ => true) :=
  ⟨fun m xs hm hx _ => h.lvl m xs hm hx, fun xs hx _ => h.val xs hx, h.dct, fun xs hx _ => h.idx xs hx, h.cmp,
    fun p _ => h.pg p⟩

/-! ## file structure -/


/-- a column chunk: optional dictionary page (entry count, stored bytes) and the data pages -/
structure Chunk (β γ : Type) where
  dict : Option (Nat × β)
  pages : List γ

/-- the writer's free choices for one column chunk: where to cut pages (`cutAt` semantics: successive
    page lengths in triples, the remainder is the last page) and how many leading pages are
    dictionary-encoded before the column falls back to its value encoding (0 = no dictionary) -/
structure ChunkCfg where
  cuts : List Nat
  dictPages : Nat
deriving Inhabited

/-- the writer's free choices for one row group: its row count and the per-column choices -/
structure GroupCfg where
  rows : Nat
  col : Nat → ChunkCfg

/-! ## writer -/

def pageVals (p : List Triple) : List Nat := p.filterMap (·.val)

def mkPage {β γ} (c : ColCodec β γ) (lv : Nat × Nat) (p : List Triple) (isDict : Bool) (body : β) : Page β :=
  { nvals := p.length
    reps := c.encL lv.1 (p.map (·.rep))
    defs := c.encL lv.2 (p.map (·.dfn))
    isDict := isDict
    vals := body }

def plainPage {β γ} (c : ColCodec β γ) (lv : Nat × Nat) (p : List Triple) : γ :=
  c.pack (mkPage c lv p false (c.encV (pageVals p)))

/-- Encode the pages of a chunk. `d` is the dictionary built so far (it only grows, first-occurrence
    order: `insertAll`), `k` the number of pages still to be dictionary-encoded. The column falls
    back to the value encoding for the REST of the chunk when `k` runs out (any choice of the
    caller) or when the dictionary would exceed `dictLimit` entries. Returns the pages and the final
    dictionary. -/
def encPages {β γ} (c : ColCodec β γ) (lv : Nat × Nat) : List Nat → Nat → List (List Triple) → List γ × List Nat
  | d, _, [] => ([], d)
  | d, 0, p :: ps => ((p :: ps).map (plainPage c lv), d)
  | d, k + 1, p :: ps =>
    let ins := insertAll d (pageVals p)
    if ins.1.length ≤ c.dictLimit then
      let r := encPages c lv ins.1 k ps
      (c.pack (mkPage c lv p true (c.encI ins.2)) :: r.1, r.2)
    else ((p :: ps).map (plainPage c lv), d)

def writeChunk {β γ} (c : ColCodec β γ) (lv : Nat × Nat) (cfg : ChunkCfg) (s : List Triple) : Chunk β γ :=
  let r := encPages c lv [] cfg.dictPages (cutAt cfg.cuts s)
  { dict := if cfg.dictPages = 0 then none else some (r.2.length, c.comp (c.encD r.2))
    pages := r.1 }

/-- column `j` uses codec `cd j` and choices `cfg j` -/
def writeCols {β γ} (cd : Nat → ColCodec β γ) (cfg : Nat → ChunkCfg) : Nat → List (Nat × Nat) → Cols → List (Chunk β γ)
  | j, lv :: lvs, s :: ss => writeChunk (cd j) lv (cfg j) s :: writeCols cd cfg (j + 1) lvs ss
  | _, _, _ => []

/-- the column streams of a list of rows: per column, the concatenation of the rows' segments -/
def colStreams (n : Node) (rows : List Val) : Cols :=
  joinSegs (leavesN n) (rows.map (shredN n 0 0 0))

/-- ANY partition of the rows into row groups: group `i` takes `gs[i].rows` rows (fewer if the rows
    run out); rows left over when the list ends form a last group with default choices. -/
def partitionRows : List GroupCfg → List Val → List ((Nat → ChunkCfg) × List Val)
  | [], [] => []
  | [], r :: rs => [(fun _ => default, r :: rs)]
  | g :: gs, rows => (g.col, rows.take g.rows) :: partitionRows gs (rows.drop g.rows)

/-- a file = its row groups = their column chunks -/
abbrev File (β γ : Type) := List (List (Chunk β γ))

def writeFile {β γ} (n : Node) (cd : Nat → ColCodec β γ) (gs : List GroupCfg) (rows : List Val) : File β γ :=
  (partitionRows gs rows).map fun g => writeCols cd g.1 0 (levelsN n 0 0) (colStreams n g.2)

/-! ### well-formedness of the cut lists: pages start at row boundaries -/

/-- a page is empty or starts a row (`rep = 0`) -/
def pageAligned : List Triple → Bool
  | [] => true
  | t :: _ => t.rep == 0

def colsAligned (cfg : Nat → ChunkCfg) : Nat → Cols → Bool
  | _, [] => true
  | j, s :: ss => (cutAt (cfg j).cuts s).all pageAligned && colsAligned cfg (j + 1) ss

/-- every page of every chunk of every row group starts at a row boundary -/
def cutsAligned (n : Node) (gs : List GroupCfg) (rows : List Val) : Bool :=
  (partitionRows gs rows).all fun g => colsAligned g.1 0 (colStreams n g.2)

/-- every leaf value of column `j` lies in the value domain `ok j` of that column -/
def valsIn (ok : Nat → Nat → Bool) : Nat → Cols → Bool
  | _, [] => true
  | j, c :: cs =>
    c.all (fun t => match t.val with | some x => ok j x | none => true) && valsIn ok (j + 1) cs

/-! ### admissible pages (size limits of the format) -/

/-- page `p` of a column with levels `lv` is admissible: its value list for the value encoding,
    its two encoded level sections for the storage framing -/
def pageOK {β γ} (c : ColCodec β γ) (okN : Nat → Bool) (okP : List Nat → Bool) (okS : β → β → Bool)
    (lv : Nat × Nat) (p : List Triple) : Bool :=
  okP (p.filterMap (·.val)) && okS (c.encL lv.1 (p.map (·.rep))) (c.encL lv.2 (p.map (·.dfn))) &&
    (okN p.length && okN (p.filterMap (·.val)).length)

def colsPagesOK {β γ} (cd : Nat → ColCodec β γ) (nk : Nat → Bool) (pk : Nat → List Nat → Bool) (sk : Nat → β → β → Bool)
    (cfg : Nat → ChunkCfg) : Nat → List (Nat × Nat) → Cols → Bool
  | j, lv :: lvs, s :: ss =>
    (cutAt (cfg j).cuts s).all (pageOK (cd j) nk (pk j) (sk j) lv) && colsPagesOK cd nk pk sk cfg (j + 1) lvs ss
  | _, _, _ => true

/-- every page of every chunk of every row group the writer produces is admissible (decidable: it
    runs the writer's cuts) -/
def pagesOK {β γ} (n : Node) (cd : Nat → ColCodec β γ) (nk : Nat → Bool) (pk : Nat → List Nat → Bool) (sk : Nat → β → β → Bool)
    (gs : List GroupCfg) (rows : List Val) : Bool :=
  (partitionRows gs rows).all fun g => colsPagesOK cd nk pk sk g.1 0 (levelsN n 0 0) (colStreams n g.2)

theorem colsPagesOK_true {β γ} (cd : Nat → ColCodec β γ) (cfg : Nat → ChunkCfg) :
    ∀ (lvs : List (Nat × Nat)) (ss : Cols) (j : Nat),
    colsPagesOK cd (fun _ => true) (fun _ _ => true) (fun _ _ _ => true) cfg j lvs ss = true
  | [], _, _ => by simp [colsPagesOK]
  | _ :: _, [], _ => by simp [colsPagesOK]
  | lv :: lvs, s :: ss, j => by
    simp only [colsPagesOK, Bool.and_eq_true, List.all_eq_true]
    exact ⟨fun p _ => by simp [pageOK], colsPagesOK_true cd cfg lvs ss (j + 1)⟩

/-! ## reader -/

/-- rebuild the triples of a page from its levels and its non-null values: a value is present
    exactly where the definition level is the column's maximum -/
def mkTriples (md : Nat) : List Nat → List Nat → List Nat → Option (List Triple)
  | [], [], [] => some []
  | r :: rs, d :: ds, vs =>
    if d = md then
      match vs with
      | v :: vs' => (mkTriples md rs ds vs').map (⟨some v, r, d⟩ :: ·)
      | [] => none
    else (mkTriples md rs ds vs).map (⟨none, r, d⟩ :: ·)
  | _, _, _ => none

/-- look every index up in the dictionary; any index out of range is an error -/
def lookupAll (D : List Nat) : List Nat → Option (List Nat)
  | [] => some []
  | i :: is =>
    match D[i]?, lookupAll D is with
    | some v, some vs => some (v :: vs)
    | _, _ => none

/-- decode one page; with `strict` a page that does not start at a row boundary is rejected -/
def readPage {β γ} (strict : Bool) (c : ColCodec β γ) (lv : Nat × Nat) (D : List Nat) (g : γ) :
    Option (List Triple) :=
  (c.unpack g).bind fun pg =>
  (c.decL lv.1 pg.nvals pg.reps).bind fun reps =>
  (c.decL lv.2 pg.nvals pg.defs).bind fun defs =>
  (if pg.isDict then (c.decI (defs.filter (· == lv.2)).length pg.vals).bind (lookupAll D)
   else c.decV (defs.filter (· == lv.2)).length pg.vals).bind fun vals =>
  (mkTriples lv.2 reps defs vals).bind fun p =>
  if !strict || pageAligned p then some p else none

def readChunk {β γ} (strict : Bool) (c : ColCodec β γ) (lv : Nat × Nat) (ch : Chunk β γ) : Option (List Triple) :=
  (match ch.dict with
   | none => some []
   | some (cnt, b) => (c.decomp b).bind (c.decD cnt)).bind fun D =>
  readPages (readPage strict c lv D) ch.pages

def readCols {β γ} (strict : Bool) (cd : Nat → ColCodec β γ) : Nat → List (Nat × Nat) → List (Chunk β γ) → Option Cols
  | _, [], [] => some []
  | j, lv :: lvs, ch :: chs =>
    match readChunk strict (cd j) lv ch, readCols strict cd (j + 1) lvs chs with
    | some a, some b => some (a :: b)
    | _, _ => none
  | _, _, _ => none

def readGroups {β γ} (strict : Bool) (n : Node) (cd : Nat → ColCodec β γ) : File β γ → Option (List Cols)
  | [] => some []
  | g :: gs =>
    match readCols strict cd 0 (levelsN n 0 0) g, readGroups strict n cd gs with
    | some a, some b => some (a :: b)
    | _, _ => none

/-- split the file's column streams into rows: the row count is the number of `rep = 0` entries of
    the first column, each row's segment in each column runs to the next `rep = 0` -/
def splitRows (cols : Cols) : List Cols := splitAll 0 (countElems 0 cols) cols

def readFileWith {β γ} (strict : Bool) (n : Node) (cd : Nat → ColCodec β γ) (f : File β γ) : Option (List Val) :=
  (readGroups strict n cd f).map fun gcols =>
    (splitRows (joinSegs (leavesN n) gcols)).map (asmN n 0 0)

/-- the reader that insists on pages starting at row boundaries -/
def readFile {β γ} (n : Node) (cd : Nat → ColCodec β γ) (f : File β γ) : Option (List Val) :=
  readFileWith true n cd f

/-! # Lemmas -/

/-! ## one page -/

/-- what the writer knows about every triple of column with levels `lv` and codec `c` -/
def TripleOK {β γ} (c : ColCodec β γ) (lv : Nat × Nat) (t : Triple) : Prop :=
  t.rep ≤ lv.1 ∧ t.dfn ≤ lv.2 ∧ (t.val.isSome = true ↔ t.dfn = lv.2) ∧ ∀ x, t.val = some x → c.okV x = true

def StreamOK {β γ} (c : ColCodec β γ) (lv : Nat × Nat) (s : List Triple) : Prop := ∀ t ∈ s, TripleOK c lv t

theorem count_defs (md : Nat) : ∀ (p : List Triple), (∀ t ∈ p, (t.val.isSome = true ↔ t.dfn = md)) →
    ((p.map (·.dfn)).filter (· == md)).length = (pageVals p).length
  | [], _ => rfl
  | t :: p, h => by
    have ih := count_defs md p (fun u hu => h u (by simp [hu]))
    have ht := h t (by simp)
    simp only [pageVals] at ih ⊢
    cases hv : t.val with
    | none =>
      have : ¬ t.dfn = md := fun e => by have := ht.2 e; simp [hv] at this
      simp [hv, this, ih]
    | some x =>
      have : t.dfn = md := ht.1 (by simp [hv])
      simp [hv, this, ih]

theorem mkTriples_self (md : Nat) : ∀ (p : List Triple), (∀ t ∈ p, (t.val.isSome = true ↔ t.dfn = md)) →
    mkTriples md (p.map (·.rep)) (p.map (·.dfn)) (pageVals p) = some p
  | [], _ => rfl
  | t :: p, h => by
    have ih := mkTriples_self md p (fun u hu => h u (by simp [hu]))
    have ht := h t (by simp)
    obtain ⟨v, r, d⟩ := t
    cases v with
    | none =>
      have : ¬ d = md := fun e => by have := ht.2 e; simp at this
      simp only [pageVals, List.map_cons, List.filterMap_cons, mkTriples] at ih ⊢
      rw [if_neg this, ih]; rfl
    | some x =>
      have : d = md := ht.1 (by simp)
      simp only [pageVals, List.map_cons, List.filterMap_cons, mkTriples] at ih ⊢
      rw [if_pos this, ih]; rfl

/-- reading a written page: the levels round-trip, what is left is the value section -/
theorem readPage_mkPage {β γ} {c : ColCodec β γ} {B : Nat} {okN : Nat → Bool} {okP : List Nat → Bool} {okS : β → β → Bool}
    (hc : c.OKOn B okN okP okS) {lv : Nat × Nat}
    (h1 : lv.1 ≤ B) (h2 : lv.2 ≤ B) (strict : Bool) (D : List Nat) (p : List Triple)
    (hp : StreamOK c lv p) (hq : pageOK c okN okP okS lv p = true) (isD : Bool) (body : β) :
    readPage strict c lv D (c.pack (mkPage c lv p isD body)) =
      ((if isD then (c.decI (pageVals p).length body).bind (lookupAll D)
        else c.decV (pageVals p).length body).bind fun vals =>
       (mkTriples lv.2 (p.map (·.rep)) (p.map (·.dfn)) vals).bind fun q =>
       if !strict || pageAligned q then some q else none) := by
  have hq' := hq
  simp only [pageOK, Bool.and_eq_true] at hq'
  have hr : c.decL lv.1 p.length (c.encL lv.1 (p.map (·.rep))) = some (p.map (·.rep)) := by
    have := hc.lvl lv.1 (p.map (·.rep)) h1 (by
      intro x hx; obtain ⟨t, ht, rfl⟩ := List.mem_map.mp hx; exact (hp t ht).1) (by simpa using hq'.2.1)
    simpa using this
  have hd : c.decL lv.2 p.length (c.encL lv.2 (p.map (·.dfn))) = some (p.map (·.dfn)) := by
    have := hc.lvl lv.2 (p.map (·.dfn)) h2 (by
      intro x hx; obtain ⟨t, ht, rfl⟩ := List.mem_map.mp hx; exact (hp t ht).2.1) (by simpa using hq'.2.1)
    simpa using this
  have hcnt := count_defs lv.2 p (fun t ht => (hp t ht).2.2.1)
  have hpg : c.unpack (c.pack (mkPage c lv p isD body)) = some (mkPage c lv p isD body) := by
    apply hc.pg
    exact hq'.1.2
  simp only [readPage, hpg, Option.bind_some]
  simp only [mkPage, Option.bind_some, hr, hd, hcnt]

theorem pageVals_ok {β γ} {c : ColCodec β γ} {lv : Nat × Nat} {p : List Triple} (hp : StreamOK c lv p) :
    ∀ x ∈ pageVals p, c.okV x = true := by
  intro x hx
  simp only [pageVals, List.mem_filterMap] at hx
  obtain ⟨t, ht, hv⟩ := hx
  exact (hp t ht).2.2.2 x hv

theorem readPage_plain {β γ} {c : ColCodec β γ} {B : Nat} {okN : Nat → Bool} {okP : List Nat → Bool} {okS : β → β → Bool}
    (hc : c.OKOn B okN okP okS) {lv : Nat × Nat}
    (h1 : lv.1 ≤ B) (h2 : lv.2 ≤ B) (strict : Bool) (D : List Nat) (p : List Triple)
    (hp : StreamOK c lv p) (hq : pageOK c okN okP okS lv p = true) (ha : strict = true → pageAligned p = true) :
    readPage strict c lv D (plainPage c lv p) = some p := by
  rw [plainPage, readPage_mkPage hc h1 h2 strict D p hp hq]
  have hqv : okP (pageVals p) = true := by
    simp only [pageOK, Bool.and_eq_true] at hq
    exact hq.1.1
  simp only [Bool.false_eq_true, if_false, hc.val _ (pageVals_ok hp) hqv, Option.bind_some,
    mkTriples_self lv.2 p (fun t ht => (hp t ht).2.2.1)]
  cases strict with
  | false => simp
  | true => simp [ha rfl]

theorem readPage_dict {β γ} {c : ColCodec β γ} {B : Nat} {okN : Nat → Bool} {okP : List Nat → Bool} {okS : β → β → Bool}
    (hc : c.OKOn B okN okP okS) {lv : Nat × Nat}
    (h1 : lv.1 ≤ B) (h2 : lv.2 ≤ B) (strict : Bool) (D : List Nat) (p : List Triple)
    (hp : StreamOK c lv p) (hq : pageOK c okN okP okS lv p = true)
    (ha : strict = true → pageAligned p = true) (idx : List Nat)
    (hlen : idx.length = (pageVals p).length) (hlim : ∀ i ∈ idx, i < c.dictLimit)
    (hlook : lookupAll D idx = some (pageVals p)) :
    readPage strict c lv D (c.pack (mkPage c lv p true (c.encI idx))) = some p := by
  rw [readPage_mkPage hc h1 h2 strict D p hp hq]
  have hn : okN idx.length = true := by
    simp only [pageOK, Bool.and_eq_true] at hq
    rw [hlen]; exact hq.2.2
  simp only [if_true, ← hlen, hc.idx idx hlim hn, Option.bind_some, hlook,
    mkTriples_self lv.2 p (fun t ht => (hp t ht).2.2.1)]
  cases strict with
  | false => simp
  | true => simp [ha rfl]

/-! ## the growing dictionary -/

theorem getElem?_of_prefix {α} {d D : List α} (h : d <+: D) {i : Nat} {v : α} (hv : d[i]? = some v) :
    D[i]? = some v := by
  obtain ⟨e, rfl⟩ := h
  have hi : i < d.length := (List.getElem?_eq_some_iff.mp hv).1
  rw [List.getElem?_append_left hi, hv]

/-- looking indexes up: if position-wise `d[idx] = xs` then so does every extension of `d` -/
theorem lookupAll_of_map {d D : List Nat} (h : d <+: D) : ∀ (idx xs : List Nat),
    idx.map (d[·]?) = xs.map some → lookupAll D idx = some xs
  | [], [], _ => rfl
  | [], _ :: _, h' => by simp at h'
  | _ :: _, [], h' => by simp at h'
  | i :: idx, x :: xs, h' => by
    simp only [List.map_cons, List.cons.injEq] at h'
    simp only [lookupAll, getElem?_of_prefix h h'.1, lookupAll_of_map h idx xs h'.2]

theorem lt_of_map_getElem? {d : List Nat} : ∀ (idx xs : List Nat),
    idx.map (d[·]?) = xs.map some → ∀ i ∈ idx, i < d.length
  | [], _, _ => by simp
  | _ :: _, [], h' => by simp at h'
  | j :: idx, x :: xs, h' => by
    simp only [List.map_cons, List.cons.injEq] at h'
    intro i hi
    rcases List.mem_cons.mp hi with rfl | hi
    · exact (List.getElem?_eq_some_iff.mp h'.1).1
    · exact lt_of_map_getElem? idx xs h'.2 i hi

/-- `dict_lookup_index`: the indexes handed out for a batch, looked up in ANY later state `D` of the
    dictionary (it only grows), give the batch back. -/
theorem lookup_insertAll (d xs D : List Nat) (h : (insertAll d xs).1 <+: D) :
    lookupAll D (insertAll d xs).2 = some xs := by
  have hf := insertAll_find xs d
  have hm : (insertAll d xs).2.map ((insertAll d xs).1[·]?) = xs.map some := by
    apply List.ext_getElem
    · simp [insertAll_length]
    · intro i h1 h2
      simp only [List.length_map] at h1 h2
      have e : ((insertAll d xs).2.map some)[i]'(by simpa using h1) =
          (xs.map (dictFind (insertAll d xs).1))[i]'(by simpa using h2) := by simp only [hf]
      simp only [List.getElem_map] at e ⊢
      exact dictFind_some _ xs[i] _ e.symm
  exact lookupAll_of_map h _ _ hm

theorem insertAll_index_lt (d xs : List Nat) : ∀ i ∈ (insertAll d xs).2, i < (insertAll d xs).1.length := by
  have hf := insertAll_find xs d
  have hm : (insertAll d xs).2.map ((insertAll d xs).1[·]?) = xs.map some := by
    apply List.ext_getElem
    · simp [insertAll_length]
    · intro i h1 h2
      simp only [List.length_map] at h1 h2
      have e : ((insertAll d xs).2.map some)[i]'(by simpa using h1) =
          (xs.map (dictFind (insertAll d xs).1))[i]'(by simpa using h2) := by simp only [hf]
      simp only [List.getElem_map] at e ⊢
      exact dictFind_some _ xs[i] _ e.symm
  exact lt_of_map_getElem? _ _ hm

theorem dictInsert1_mem (d : List Nat) (x : Nat) : ∀ y ∈ (dictInsert1 d x).1, y ∈ d ∨ y = x := by
  intro y hy
  unfold dictInsert1 at hy
  split at hy
  · exact Or.inl hy
  · simp only [List.mem_append, List.mem_singleton] at hy; exact hy

theorem insertAll_mem : ∀ (xs d : List Nat), ∀ y ∈ (insertAll d xs).1, y ∈ d ∨ y ∈ xs
  | [], d, y, hy => Or.inl (by simpa [insertAll] using hy)
  | x :: xs, d, y, hy => by
    simp only [insertAll] at hy
    rcases insertAll_mem xs _ y hy with h | h
    · rcases dictInsert1_mem d x y h with h | rfl
      · exact Or.inl h
      · exact Or.inr (by simp)
    · exact Or.inr (by simp [h])

/-! ## the pages of a chunk -/

theorem readPages_plain {β γ} {c : ColCodec β γ} {B : Nat} {okN : Nat → Bool} {okP : List Nat → Bool} {okS : β → β → Bool}
    (hc : c.OKOn B okN okP okS) {lv : Nat × Nat}
    (h1 : lv.1 ≤ B) (h2 : lv.2 ≤ B) (strict : Bool) (D : List Nat) : ∀ (ps : List (List Triple)),
    (∀ p ∈ ps, StreamOK c lv p) → (∀ p ∈ ps, pageOK c okN okP okS lv p = true) →
    (strict = true → ∀ p ∈ ps, pageAligned p = true) →
    readPages (readPage strict c lv D) (ps.map (plainPage c lv)) = some ps.flatten
  | [], _, _, _ => rfl
  | p :: ps, hp, hk, ha => by
    simp only [List.map_cons, readPages, List.flatten_cons,
      readPage_plain hc h1 h2 strict D p (hp p (by simp)) (hk p (by simp)) (fun hs => ha hs p (by simp)),
      readPages_plain hc h1 h2 strict D ps (fun q hq => hp q (by simp [hq]))
        (fun q hq => hk q (by simp [hq])) (fun hs q hq => ha hs q (by simp [hq]))]

theorem encPages_prefix {β γ} (c : ColCodec β γ) (lv : Nat × Nat) : ∀ (ps : List (List Triple)) (d : List Nat) (k : Nat),
    d <+: (encPages c lv d k ps).2
  | [], d, k => by simp [encPages]
  | p :: ps, d, 0 => by simp [encPages]
  | p :: ps, d, k + 1 => by
    simp only [encPages]
    split
    · exact List.IsPrefix.trans (insertAll_prefix _ d) (encPages_prefix c lv ps _ k)
    · exact List.prefix_refl d

theorem encPages_mem {β γ} (c : ColCodec β γ) (lv : Nat × Nat) : ∀ (ps : List (List Triple)) (d : List Nat) (k : Nat),
    ∀ y ∈ (encPages c lv d k ps).2, y ∈ d ∨ ∃ p ∈ ps, y ∈ pageVals p
  | [], d, k, y, hy => Or.inl (by simpa [encPages] using hy)
  | p :: ps, d, 0, y, hy => Or.inl (by simpa [encPages] using hy)
  | p :: ps, d, k + 1, y, hy => by
    simp only [encPages] at hy
    split at hy
    · rcases encPages_mem c lv ps _ k y hy with h | ⟨q, hq, h⟩
      · rcases insertAll_mem _ d y h with h | h
        · exact Or.inl h
        · exact Or.inr ⟨p, by simp, h⟩
      · exact Or.inr ⟨q, by simp [hq], h⟩
    · exact Or.inl hy

/-- the mixed dictionary / plain chunk: whatever the number `k` of dictionary pages and the
    dictionary `d` the chunk started from, reading the pages with any extension `D` of the final
    dictionary returns the concatenation of the pages -/
theorem readPages_encPages {β γ} {c : ColCodec β γ} {B : Nat} {okN : Nat → Bool} {okP : List Nat → Bool} {okS : β → β → Bool}
    (hc : c.OKOn B okN okP okS) {lv : Nat × Nat}
    (h1 : lv.1 ≤ B) (h2 : lv.2 ≤ B) (strict : Bool) (D : List Nat) :
    ∀ (ps : List (List Triple)) (d : List Nat) (k : Nat),
    (∀ p ∈ ps, StreamOK c lv p) → (∀ p ∈ ps, pageOK c okN okP okS lv p = true) →
    (strict = true → ∀ p ∈ ps, pageAligned p = true) →
    (encPages c lv d k ps).2 <+: D →
    readPages (readPage strict c lv D) (encPages c lv d k ps).1 = some ps.flatten
  | [], d, k, _, _, _, _ => by simp [encPages, readPages]
  | p :: ps, d, 0, hp, hk, ha, _ => by
    simp only [encPages]
    exact readPages_plain hc h1 h2 strict D (p :: ps) hp hk ha
  | p :: ps, d, k + 1, hp, hk, ha, hD => by
    simp only [encPages] at hD ⊢
    split
    · rename_i hlim
      rw [if_pos hlim] at hD
      have hpre : (insertAll d (pageVals p)).1 <+: D :=
        List.IsPrefix.trans (encPages_prefix c lv ps _ k) hD
      have hpg := readPage_dict hc h1 h2 strict D p (hp p (by simp)) (hk p (by simp)) (fun hs => ha hs p (by simp))
        (insertAll d (pageVals p)).2 (insertAll_length _ d)
        (fun i hi => Nat.lt_of_lt_of_le (insertAll_index_lt d _ i hi) hlim)
        (lookup_insertAll d _ D hpre)
      have ih := readPages_encPages hc h1 h2 strict D ps _ k (fun q hq => hp q (by simp [hq]))
        (fun q hq => hk q (by simp [hq])) (fun hs q hq => ha hs q (by simp [hq])) hD
      simp only [readPages, hpg, ih, List.flatten_cons]
    · exact readPages_plain hc h1 h2 strict D (p :: ps) hp hk ha

theorem mem_cutAt {α} : ∀ (cuts : List Nat) (xs : List α), ∀ p ∈ cutAt cuts xs, ∀ t ∈ p, t ∈ xs
  | [], xs, p, hp, t, ht => by simp only [cutAt, List.mem_singleton] at hp; subst hp; exact ht
  | c :: cs, xs, p, hp, t, ht => by
    simp only [cutAt, List.mem_cons] at hp
    rcases hp with rfl | hp
    · exact List.mem_of_mem_take ht
    · exact List.mem_of_mem_drop (mem_cutAt cs _ p hp t ht)

/-- `chunk_roundtrip` with admissible pages: a column chunk reads back as the stream it was written
    from -/
theorem readChunk_writeChunk_on {β γ} {c : ColCodec β γ} {B : Nat} {okN : Nat → Bool} {okP : List Nat → Bool} {okS : β → β → Bool}
    (hc : c.OKOn B okN okP okS) {lv : Nat × Nat}
    (h1 : lv.1 ≤ B) (h2 : lv.2 ≤ B) (strict : Bool) (cfg : ChunkCfg) (s : List Triple)
    (hs : StreamOK c lv s) (hk : (cutAt cfg.cuts s).all (pageOK c okN okP okS lv) = true)
    (ha : strict = true → (cutAt cfg.cuts s).all pageAligned = true) :
    readChunk strict c lv (writeChunk c lv cfg s) = some s := by
  have hp : ∀ p ∈ cutAt cfg.cuts s, StreamOK c lv p :=
    fun p hp t ht => hs t (mem_cutAt cfg.cuts s p hp t ht)
  have ha' : strict = true → ∀ p ∈ cutAt cfg.cuts s, pageAligned p = true :=
    fun h => List.all_eq_true.mp (ha h)
  have hk' : ∀ p ∈ cutAt cfg.cuts s, pageOK c okN okP okS lv p = true := List.all_eq_true.mp hk
  have hrd := fun D hD => readPages_encPages hc h1 h2 strict D (cutAt cfg.cuts s) [] cfg.dictPages hp hk' ha' hD
  simp only [cutAt_flatten] at hrd
  simp only [readChunk, writeChunk]
  split
  · rename_i hd
    split at hd
    · rename_i hk
      have : (encPages c lv [] cfg.dictPages (cutAt cfg.cuts s)).2 = [] := by
        rw [hk]; cases cutAt cfg.cuts s <;> simp [encPages]
      simp only [Option.bind_some]
      exact hrd [] (by rw [this]; exact List.prefix_refl _)
    · simp at hd
  · rename_i cnt b hd
    split at hd
    · simp at hd
    · simp only [Option.some.injEq, Prod.mk.injEq] at hd
      obtain ⟨rfl, rfl⟩ := hd
      have hok : ∀ x ∈ (encPages c lv [] cfg.dictPages (cutAt cfg.cuts s)).2, c.okV x = true := by
        intro x hx
        rcases encPages_mem c lv _ [] _ x hx with h | ⟨p, hp', h⟩
        · simp at h
        · exact pageVals_ok (hp p hp') x h
      simp only [hc.cmp, Option.bind_some, hc.dct _ hok]
      exact hrd _ (List.prefix_refl _)

/-- `chunk_roundtrip`: a column chunk reads back as the stream it was written from -/
theorem readChunk_writeChunk {β γ} {c : ColCodec β γ} {B : Nat} (hc : c.OK B) {lv : Nat × Nat}
    (h1 : lv.1 ≤ B) (h2 : lv.2 ≤ B) (strict : Bool) (cfg : ChunkCfg) (s : List Triple)
    (hs : StreamOK c lv s) (ha : strict = true → (cutAt cfg.cuts s).all pageAligned = true) :
    readChunk strict c lv (writeChunk c lv cfg s) = some s :=
  readChunk_writeChunk_on hc.toOn h1 h2 strict cfg s hs
    (List.all_eq_true.mpr (fun p _ => by simp [pageOK])) ha

/-! ## levels of the shredded columns -/

/-- level facts of one column against the schema's `(max rep, max def)` -/
def LvOK (lv : Nat × Nat) (c : List Triple) : Prop :=
  ∀ t ∈ c, t.rep ≤ lv.1 ∧ t.dfn ≤ lv.2 ∧ (t.val.isSome = true ↔ t.dfn = lv.2)

theorem pairs_append {α β : Type} {R : α → β → Prop} {a1 a2 : List α} {b1 b2 : List β}
    (h1 : Pairs R a1 b1) (h2 : Pairs R a2 b2) : Pairs R (a1 ++ a2) (b1 ++ b2) := by
  induction h1 with
  | nil => simpa using h2
  | cons h _ ih => exact Pairs.cons h ih

theorem pairs_length {α β : Type} {R : α → β → Prop} {a : List α} {b : List β} (h : Pairs R a b) :
    a.length = b.length := by
  induction h with
  | nil => rfl
  | cons _ _ ih => simp [ih]

theorem pairs_zipApp {lvs : List (Nat × Nat)} {A B : Cols} (ha : Pairs LvOK lvs A) (hb : Pairs LvOK lvs B) :
    Pairs LvOK lvs (zipApp A B) := by
  induction ha generalizing B with
  | nil => cases hb; exact Pairs.nil
  | cons h _ ih =>
    cases hb with
    | cons h' hb' =>
      refine Pairs.cons ?_ (ih hb')
      intro t ht
      rcases List.mem_append.mp ht with ht | ht
      · exact h t ht
      · exact h' t ht

theorem pairs_replicate : ∀ (lvs : List (Nat × Nat)), Pairs LvOK lvs (List.replicate lvs.length [])
  | [] => Pairs.nil
  | _ :: lvs => by
    simp only [List.length_cons, List.replicate_succ]
    exact Pairs.cons (by intro t ht; simp at ht) (pairs_replicate lvs)

theorem pairs_joinSegs {lvs : List (Nat × Nat)} : ∀ (segs : List Cols), (∀ s ∈ segs, Pairs LvOK lvs s) →
    Pairs LvOK lvs (joinSegs lvs.length segs)
  | [], _ => pairs_replicate lvs
  | s :: segs, h =>
    pairs_zipApp (h s (by simp)) (pairs_joinSegs segs (fun x hx => h x (by simp [hx])))

mutual
theorem levelsN_length (n : Node) (k d : Nat) : (levelsN n k d).length = leavesN n := by
  cases n with
  | leaf => simp [levelsN, leavesN]
  | group fs => simpa [levelsN, leavesN] using levelsF_length fs k d
  | opt n => simpa [levelsN, leavesN] using levelsN_length n k (d + 1)
  | rpt n => simpa [levelsN, leavesN] using levelsN_length n (k + 1) (d + 1)
theorem levelsF_length (fs : Fields) (k d : Nat) : (levelsF fs k d).length = leavesF fs := by
  cases fs with
  | nil => simp [levelsF, leavesF]
  | cons n fs => simp [levelsF, leavesF, levelsN_length n k d, levelsF_length fs k d]
end

mutual
/-- an absent subtree recorded at definition level `d` below the level `d'` of the subtree:
    no value, levels within the column's maxima -/
theorem absentN_levels (n : Node) (r d k' d' : Nat) (hr : r ≤ k') (hd : d < d') :
    Pairs LvOK (levelsN n k' d') (absentN n r d) := by
  cases n with
  | leaf =>
    simp only [levelsN, absentN]
    refine Pairs.cons ?_ Pairs.nil
    intro t ht
    simp only [List.mem_singleton] at ht
    subst ht
    exact ⟨hr, by simp; omega, by simp; omega⟩
  | group fs => simpa [levelsN, absentN] using absentF_levels fs r d k' d' hr hd
  | opt n => simpa [levelsN, absentN] using absentN_levels n r d k' (d' + 1) hr (by omega)
  | rpt n => simpa [levelsN, absentN] using absentN_levels n r d (k' + 1) (d' + 1) (by omega) (by omega)
theorem absentF_levels (fs : Fields) (r d k' d' : Nat) (hr : r ≤ k') (hd : d < d') :
    Pairs LvOK (levelsF fs k' d') (absentF fs r d) := by
  cases fs with
  | nil => simpa [levelsF, absentF] using Pairs.nil
  | cons n fs =>
    simp only [levelsF, absentF]
    exact pairs_append (absentN_levels n r d k' d' hr hd) (absentF_levels fs r d k' d' hr hd)
end

mutual
/-- shredding a conforming value: in every column the repetition and definition levels stay within
    the column's maxima and a value is present exactly at the maximum definition level -/
theorem shredN_levels (n : Node) (r k d : Nat) (v : Val) (hr : r ≤ k) (hc : confN n v = true) :
    Pairs LvOK (levelsN n k d) (shredN n r k d v) := by
  cases n with
  | leaf =>
    cases v with
    | prim x =>
      simp only [levelsN, shredN]
      refine Pairs.cons ?_ Pairs.nil
      intro t ht
      simp only [List.mem_singleton] at ht
      subst ht
      exact ⟨hr, by simp, by simp⟩
    | struct vs => simp [confN] at hc
    | none => simp [confN] at hc
    | some w => simp [confN] at hc
    | list ws => simp [confN] at hc
  | group fs =>
    cases v with
    | struct vs =>
      simp only [confN] at hc
      simpa [levelsN, shredN] using shredF_levels fs r k d vs hr hc
    | prim x => simp [confN] at hc
    | none => simp [confN] at hc
    | some w => simp [confN] at hc
    | list ws => simp [confN] at hc
  | opt n =>
    cases v with
    | some w =>
      simp only [confN] at hc
      simpa [levelsN, shredN] using shredN_levels n r k (d + 1) w hr hc
    | none => simpa [levelsN, shredN] using absentN_levels n r d k (d + 1) hr (by omega)
    | prim x => simp [confN] at hc
    | struct vs => simp [confN] at hc
    | list ws => simp [confN] at hc
  | rpt n =>
    cases v with
    | list ws =>
      cases ws with
      | nil => simpa [levelsN, shredN] using absentN_levels n r d (k + 1) (d + 1) (by omega) (by omega)
      | cons w ws =>
        simp only [confN, List.all_cons, Bool.and_eq_true] at hc
        have hshape : shredN (.rpt n) r k d (.list (w :: ws)) =
            zipApp (shredN n r (k + 1) (d + 1) w)
              (joinSegs (leavesN n) (ws.map (shredN n (k + 1) (k + 1) (d + 1)))) := by
          simp [shredN, joinSegs, List.foldr_map]
        rw [hshape]
        simp only [levelsN]
        refine pairs_zipApp (shredN_levels n r (k + 1) (d + 1) w (by omega) hc.1) ?_
        rw [← levelsN_length n (k + 1) (d + 1)]
        apply pairs_joinSegs
        intro s hs
        obtain ⟨w', hw', rfl⟩ := List.mem_map.mp hs
        exact shredN_levels n (k + 1) (k + 1) (d + 1) w' (Nat.le_refl _) (List.all_eq_true.mp hc.2 w' hw')
    | prim x => simp [confN] at hc
    | struct vs => simp [confN] at hc
    | none => simp [confN] at hc
    | some w => simp [confN] at hc
theorem shredF_levels (fs : Fields) (r k d : Nat) (vs : List Val) (hr : r ≤ k) (hc : confF fs vs = true) :
    Pairs LvOK (levelsF fs k d) (shredF fs r k d vs) := by
  cases fs with
  | nil => simpa [levelsF, shredF] using Pairs.nil
  | cons n fs =>
    cases vs with
    | nil => simp [confF] at hc
    | cons v vs' =>
      simp only [confF, Bool.and_eq_true] at hc
      simp only [levelsF, shredF]
      exact pairs_append (shredN_levels n r k d v hr hc.1) (shredF_levels fs r k d vs' hr hc.2)
end

/-! ## value domains of the shredded columns -/

theorem valsIn_zipApp (ok : Nat → Nat → Bool) : ∀ (j : Nat) (A B : Cols),
    valsIn ok j A = true → valsIn ok j B = true → valsIn ok j (zipApp A B) = true
  | _, [], _, _, _ => by simp [zipApp, valsIn]
  | _, _ :: _, [], _, _ => by simp [zipApp, valsIn]
  | j, a :: A, b :: B, ha, hb => by
    simp only [valsIn, Bool.and_eq_true, zipApp, List.all_append] at ha hb ⊢
    exact ⟨⟨ha.1, hb.1⟩, valsIn_zipApp ok (j + 1) A B ha.2 hb.2⟩

theorem valsIn_replicate (ok : Nat → Nat → Bool) : ∀ (m j : Nat), valsIn ok j (List.replicate m []) = true
  | 0, _ => rfl
  | m + 1, j => by simp [List.replicate_succ, valsIn, valsIn_replicate ok m (j + 1)]

theorem valsIn_joinSegs (ok : Nat → Nat → Bool) (m j : Nat) : ∀ (segs : List Cols),
    (∀ s ∈ segs, valsIn ok j s = true) → valsIn ok j (joinSegs m segs) = true
  | [], _ => valsIn_replicate ok m j
  | s :: segs, h =>
    valsIn_zipApp ok j s _ (h s (by simp)) (valsIn_joinSegs ok m j segs (fun x hx => h x (by simp [hx])))

/-! ## the columns of a row group -/

theorem readCols_writeCols_on {β γ} {cd : Nat → ColCodec β γ} {B : Nat} {nk : Nat → Bool} {pk : Nat → List Nat → Bool}
    {sk : Nat → β → β → Bool} (strict : Bool) (cfg : Nat → ChunkCfg)
    {lvs : List (Nat × Nat)} {ss : Cols} (hp : Pairs LvOK lvs ss) :
    ∀ (j : Nat), (∀ i, i < lvs.length → (cd (j + i)).OKOn B nk (pk (j + i)) (sk (j + i))) →
    (∀ lv ∈ lvs, lv.1 ≤ B ∧ lv.2 ≤ B) →
    valsIn (fun j => (cd j).okV) j ss = true → colsPagesOK cd nk pk sk cfg j lvs ss = true →
    (strict = true → colsAligned cfg j ss = true) →
    readCols strict cd j lvs (writeCols cd cfg j lvs ss) = some ss := by
  induction hp with
  | nil => intros; rfl
  | @cons lv s lvs' ss' h _ ih =>
    intro j hcd hB hv hk ha
    simp only [valsIn, Bool.and_eq_true] at hv
    simp only [colsPagesOK, Bool.and_eq_true] at hk
    have hs : StreamOK (cd j) lv s := by
      intro t ht
      have hl := h t ht
      refine ⟨hl.1, hl.2.1, hl.2.2, ?_⟩
      intro x hx
      have := List.all_eq_true.mp hv.1 t ht
      simpa [hx] using this
    have hch := readChunk_writeChunk_on (hcd 0 (by simp)) (hB lv (by simp)).1 (hB lv (by simp)).2
      strict (cfg j) s hs hk.1 (fun hst => by
        have := ha hst
        simp only [colsAligned, Bool.and_eq_true] at this
        exact this.1)
    have hrest := ih (j + 1)
      (fun i hi => by
        have := hcd (i + 1) (by simp; omega)
        have e : j + (i + 1) = j + 1 + i := by omega
        rwa [e] at this)
      (fun lv' hlv' => hB lv' (by simp [hlv'])) hv.2 hk.2
      (fun hst => by
        have := ha hst
        simp only [colsAligned, Bool.and_eq_true] at this
        exact this.2)
    simp only [writeCols, readCols, Nat.add_zero] at hch ⊢
    rw [hch, hrest]

theorem readCols_writeCols {β γ} {cd : Nat → ColCodec β γ} {B : Nat} (strict : Bool) (cfg : Nat → ChunkCfg)
    {lvs : List (Nat × Nat)} {ss : Cols} (hp : Pairs LvOK lvs ss) :
    ∀ (j : Nat), (∀ i, i < lvs.length → (cd (j + i)).OK B) → (∀ lv ∈ lvs, lv.1 ≤ B ∧ lv.2 ≤ B) →
    valsIn (fun j => (cd j).okV) j ss = true → (strict = true → colsAligned cfg j ss = true) →
    readCols strict cd j lvs (writeCols cd cfg j lvs ss) = some ss :=
  fun j hcd hB hv ha =>
    readCols_writeCols_on (nk := fun _ => true) (pk := fun _ _ => true) (sk := fun _ _ _ => true) strict cfg hp j
      (fun i hi => (hcd i hi).toOn) hB hv (colsPagesOK_true cd cfg lvs ss j) ha

/-- the column streams of any list of conforming rows carry the level and value-domain invariants -/
theorem colStreams_ok (n : Node) (ok : Nat → Nat → Bool) (rs : List Val)
    (hconf : ∀ v ∈ rs, confN n v = true) (hdom : ∀ v ∈ rs, valsIn ok 0 (shredN n 0 0 0 v) = true) :
    Pairs LvOK (levelsN n 0 0) (colStreams n rs) ∧ valsIn ok 0 (colStreams n rs) = true := by
  refine ⟨?_, ?_⟩
  · unfold colStreams
    rw [← levelsN_length n 0 0]
    apply pairs_joinSegs
    intro s hs
    obtain ⟨v, hv, rfl⟩ := List.mem_map.mp hs
    exact shredN_levels n 0 0 0 v (Nat.le_refl _) (hconf v hv)
  · apply valsIn_joinSegs
    intro s hs
    obtain ⟨v, hv, rfl⟩ := List.mem_map.mp hs
    exact hdom v hv

/-! ## row groups -/

theorem partitionRows_flatten : ∀ (gs : List GroupCfg) (rows : List Val),
    ((partitionRows gs rows).map (·.2)).flatten = rows
  | [], [] => rfl
  | [], r :: rs => by simp [partitionRows]
  | g :: gs, rows => by
    simp [partitionRows, partitionRows_flatten gs (rows.drop g.rows), List.take_append_drop]

theorem partitionRows_mem (gs : List GroupCfg) (rows : List Val) :
    ∀ g ∈ partitionRows gs rows, ∀ v ∈ g.2, v ∈ rows := by
  intro g hg v hv
  rw [← partitionRows_flatten gs rows]
  exact List.mem_flatten.mpr ⟨g.2, List.mem_map.mpr ⟨g, hg, rfl⟩, hv⟩

theorem readGroups_write {β γ} {cd : Nat → ColCodec β γ} {B : Nat} {nk : Nat → Bool} {pk : Nat → List Nat → Bool}
    {sk : Nat → β → β → Bool} (strict : Bool) (n : Node)
    (hcd : ∀ j, j < leavesN n → (cd j).OKOn B nk (pk j) (sk j)) (hB : levelsBounded B n = true) :
    ∀ (gl : List ((Nat → ChunkCfg) × List Val)),
    (∀ g ∈ gl, ∀ v ∈ g.2, confN n v = true ∧ valsIn (fun j => (cd j).okV) 0 (shredN n 0 0 0 v) = true) →
    (∀ g ∈ gl, colsPagesOK cd nk pk sk g.1 0 (levelsN n 0 0) (colStreams n g.2) = true) →
    (strict = true → ∀ g ∈ gl, colsAligned g.1 0 (colStreams n g.2) = true) →
    readGroups strict n cd (gl.map fun g => writeCols cd g.1 0 (levelsN n 0 0) (colStreams n g.2)) =
      some (gl.map fun g => colStreams n g.2)
  | [], _, _, _ => rfl
  | g :: gl, h, hk, ha => by
    have hg := colStreams_ok n (fun j => (cd j).okV) g.2 (fun v hv => (h g (by simp) v hv).1)
      (fun v hv => (h g (by simp) v hv).2)
    have hB' : ∀ lv ∈ levelsN n 0 0, lv.1 ≤ B ∧ lv.2 ≤ B := by
      intro lv hlv
      have := List.all_eq_true.mp hB lv hlv
      simpa using this
    have hcols := readCols_writeCols_on strict g.1 hg.1 0
      (fun i hi => by rw [levelsN_length] at hi; simpa using hcd i hi) hB' hg.2 (hk g (by simp))
      (fun hst => ha hst g (by simp))
    have ih := readGroups_write strict n hcd hB gl (fun g' hg' => h g' (by simp [hg']))
      (fun g' hg' => hk g' (by simp [hg'])) (fun hst g' hg' => ha hst g' (by simp [hg']))
    simp only [List.map_cons, readGroups, hcols, ih]

/-! ## concatenation across row groups, splitting into rows -/

theorem zipApp_assoc : ∀ (A B C : Cols), zipApp (zipApp A B) C = zipApp A (zipApp B C)
  | [], _, _ => by simp [zipApp]
  | _ :: _, [], _ => by simp [zipApp]
  | _ :: _, _ :: _, [] => by simp [zipApp]
  | a :: A, b :: B, c :: C => by simp [zipApp, zipApp_assoc A B C]

theorem zipApp_replicate_left : ∀ (m : Nat) (X : Cols), X.length = m → zipApp (List.replicate m []) X = X
  | 0, [], _ => rfl
  | 0, _ :: _, h => by simp at h
  | m + 1, [], h => by simp at h
  | m + 1, x :: X, h => by
    simp only [List.replicate_succ, zipApp, List.nil_append]
    rw [zipApp_replicate_left m X (by simpa using h)]

theorem joinSegs_length (m : Nat) : ∀ (segs : List Cols), (∀ s ∈ segs, s.length = m) →
    (joinSegs m segs).length = m
  | [], _ => by simp [joinSegs]
  | s :: segs, h => by
    have ih := joinSegs_length m segs (fun x hx => h x (by simp [hx]))
    show (zipApp s (joinSegs m segs)).length = m
    rw [zipApp_length (by rw [ih, h s (by simp)]), h s (by simp)]

theorem joinSegs_append (m : Nat) (b : List Cols) (hb : (joinSegs m b).length = m) : ∀ (a : List Cols),
    joinSegs m (a ++ b) = zipApp (joinSegs m a) (joinSegs m b)
  | [] => by
    show joinSegs m b = zipApp (List.replicate m []) (joinSegs m b)
    rw [zipApp_replicate_left m _ hb]
  | s :: a => by
    show zipApp s (joinSegs m (a ++ b)) = zipApp (zipApp s (joinSegs m a)) (joinSegs m b)
    rw [joinSegs_append m b hb a, zipApp_assoc]

/-- `rowgroups_concat`: concatenating, per column, the streams of the row groups gives the streams of
    the concatenated rows — the partition into row groups is invisible -/
theorem joinSegs_flatten (m : Nat) : ∀ (gss : List (List Cols)), (∀ gs ∈ gss, ∀ s ∈ gs, s.length = m) →
    joinSegs m (gss.map (joinSegs m)) = joinSegs m gss.flatten
  | [], _ => rfl
  | gs :: gss, h => by
    have hlen : (joinSegs m gss.flatten).length = m :=
      joinSegs_length m _ (fun s hs => by
        obtain ⟨gs', hgs', hs'⟩ := List.mem_flatten.mp hs
        exact h gs' (by simp [hgs']) s hs')
    rw [List.flatten_cons, joinSegs_append m _ hlen, ← joinSegs_flatten m gss (fun g hg => h g (by simp [hg]))]
    rfl

/-- `splitRows_concat`: a concatenation of per-row segments (each column segment non-empty, starting
    with `rep = 0` and containing no other `rep = 0`) splits back into exactly those segments -/
theorem splitRows_joinSegs {m d : Nat} (hm : 0 < m) : ∀ (segs : List Cols), (∀ s ∈ segs, SegCols m 0 d s) →
    splitRows (joinSegs m segs) = segs
  | [], _ => by
    cases m with
    | zero => omega
    | succ m' => simp [splitRows, joinSegs, List.replicate_succ, countElems, splitAll]
  | A :: segs, h => by
    have hA := h A (by simp)
    have hg : ∀ c ∈ A, GoodSeg 0 c := fun c hc => goodCol_goodSeg (hA.2 c hc)
    have hs : ∀ s ∈ segs, SegCols m 0 d s := fun s hs => h s (by simp [hs])
    show splitAll 0 (countElems 0 (zipApp A (joinSegs m segs))) (zipApp A (joinSegs m segs)) = A :: segs
    rw [countElems_join hm hA.1 hg hs, splitAll_join hA.1 hg hs]

/-! ## the file -/

theorem readFileWith_writeFile_on {β γ} (strict : Bool) (n : Node) (cd : Nat → ColCodec β γ) (B : Nat)
    (nk : Nat → Bool) (pk : Nat → List Nat → Bool) (sk : Nat → β → β → Bool)
    (gs : List GroupCfg) (rows : List Val)
    (hwf : wfN n = true) (hconf : ∀ v ∈ rows, confN n v = true)
    (hB : levelsBounded B n = true) (hcd : ∀ j, j < leavesN n → (cd j).OKOn B nk (pk j) (sk j))
    (hdom : ∀ v ∈ rows, valsIn (fun j => (cd j).okV) 0 (shredN n 0 0 0 v) = true)
    (hpages : pagesOK n cd nk pk sk gs rows = true)
    (hcuts : strict = true → cutsAligned n gs rows = true) :
    readFileWith strict n cd (writeFile n cd gs rows) = some rows := by
  have hm := wf_leaves_posN n hwf
  have hrd := readGroups_write strict n hcd hB (partitionRows gs rows)
    (fun g hg v hv => ⟨hconf v (partitionRows_mem gs rows g hg v hv), hdom v (partitionRows_mem gs rows g hg v hv)⟩)
    (List.all_eq_true.mp hpages)
    (fun hst => List.all_eq_true.mp (hcuts hst))
  have hseg : ∀ v, SegCols (leavesN n) 0 0 (shredN n 0 0 0 v) :=
    fun v => (shredN_spec n 0 0 0 v hwf (Nat.le_refl _)).1
  have hjoin : joinSegs (leavesN n) ((partitionRows gs rows).map fun g => colStreams n g.2) =
      joinSegs (leavesN n) (rows.map (shredN n 0 0 0)) := by
    have e : ((partitionRows gs rows).map fun g => colStreams n g.2) =
        (((partitionRows gs rows).map (·.2)).map (List.map (shredN n 0 0 0))).map (joinSegs (leavesN n)) := by
      simp [colStreams, List.map_map, Function.comp_def]
    rw [e, joinSegs_flatten, ← List.map_flatten, partitionRows_flatten]
    intro ss hss s hs
    obtain ⟨rs, _, rfl⟩ := List.mem_map.mp hss
    obtain ⟨v, _, rfl⟩ := List.mem_map.mp hs
    exact (hseg v).1
  simp only [readFileWith, writeFile, hrd, Option.map_some, hjoin]
  rw [splitRows_joinSegs hm _ (fun s hs => by obtain ⟨v, _, rfl⟩ := List.mem_map.mp hs; exact hseg v)]
  rw [List.map_map]
  exact congrArg some (map_id_of (fun v hv => assemble_shred n v hwf (hconf v hv)))

theorem readFileWith_writeFile {β γ} (strict : Bool) (n : Node) (cd : Nat → ColCodec β γ) (B : Nat)
    (gs : List GroupCfg) (rows : List Val)
    (hwf : wfN n = true) (hconf : ∀ v ∈ rows, confN n v = true)
    (hB : levelsBounded B n = true) (hcd : ∀ j, j < leavesN n → (cd j).OK B)
    (hdom : ∀ v ∈ rows, valsIn (fun j => (cd j).okV) 0 (shredN n 0 0 0 v) = true)
    (hcuts : strict = true → cutsAligned n gs rows = true) :
    readFileWith strict n cd (writeFile n cd gs rows) = some rows :=
  readFileWith_writeFile_on strict n cd B (fun _ => true) (fun _ _ => true) (fun _ _ _ => true) gs rows hwf hconf hB
    (fun j hj => (hcd j hj).toOn) hdom
    (List.all_eq_true.mpr (fun g _ => colsPagesOK_true cd g.1 _ _ 0)) hcuts

end PqModel.FileModel
