import PqModel.RowsBuf

/-! Invariant of `RowsBuf`: everything a reader of a row group holds (the rest of the current page of
    every column reader, every column buffer) and everything it returns was taken from a page that
    the loader accepted. Stated for an arbitrary predicate `P` that holds of the values of the
    accepted pages. -/
namespace PqModel.RowsBuf

def PagesOk (P : Val → Prop) (pages : List Page) : Prop :=
  ∀ p ∈ pages, p.bad = false → ∀ v ∈ p.vals, P v

def ReaderOk (P : Val → Prop) (r : Reader) : Prop := ∀ vs, r.values = some vs → ∀ v ∈ vs, P v

def ColOk (P : Val → Prop) (c : Col) : Prop := ReaderOk P c.reader ∧ ∀ v ∈ c.buf, P v

variable {P : Val → Prop}

theorem readPageFrom_good (ps : List Page) (h : PagesOk P ps) (c : Cursor) (vs : List Val)
    (h' : (readPageFrom ps c).2 = .page vs) : ∀ v ∈ vs, P v := by
  induction ps generalizing c with
  | nil => simp [readPageFrom] at h'
  | cons p ps ih =>
    by_cases hb : p.bad = true
    · simp [readPageFrom, hb] at h'
    · by_cases hs : c.skip < p.numRows
      · simp [readPageFrom, hb, hs] at h'
        subst h'
        intro v hv
        exact h p (by simp) (by simpa using hb) v (List.mem_filter.mp hv).1
      · simp [readPageFrom, hb, hs] at h'
        exact ih (fun q hq => h q (by simp [hq])) _ h'

theorem readPage_good (pages : List Page) (h : PagesOk P pages) (c : Cursor) (vs : List Val)
    (h' : (readPage pages c).2 = .page vs) : ∀ v ∈ vs, P v :=
  readPageFrom_good _ (fun p hp => h p (List.mem_of_mem_drop hp)) c vs h'

theorem readValues_good (pages : List Page) (h : PagesOk P pages) (B : Nat) :
    ∀ (fuel : Nat) (r : Reader), ReaderOk P r →
      ReaderOk P (readValues pages B fuel r).1 ∧
      ∀ vs, (readValues pages B fuel r).2 = .vals vs → ∀ v ∈ vs, P v
  | 0, r, hr => by
    simp only [readValues]
    exact ⟨hr, fun vs hv => by simp at hv⟩
  | fuel + 1, r, hr => by
    unfold readValues
    split
    · rename_i hnone
      split
      · rename_i c heq
        refine ⟨fun vs hv => ?_, fun vs hv => by simp at hv⟩
        simp [hnone] at hv
      · rename_i c heq
        refine ⟨fun vs hv => ?_, fun vs hv => by simp at hv⟩
        simp [hnone] at hv
      · rename_i c vs heq
        apply readValues_good pages h B fuel
        intro ws hw v hv
        simp at hw
        subst hw
        exact readPage_good pages h r.cur _ (by rw [heq]) v hv
    · rename_i vs hsome
      split
      · apply readValues_good pages h B fuel
        intro ws hw
        simp at hw
      · refine ⟨fun ws hw v hv => ?_, fun ws hw v hv => ?_⟩
        · simp at hw
          subst hw
          exact hr vs hsome v (List.mem_of_mem_drop hv)
        · simp at hw
          subst hw
          exact hr vs hsome v (List.mem_of_mem_take hv)

def Refill.scan : Refill → Scan
  | .ok s => s
  | .eof s => s
  | .fail s => s

def RowRes.scan : RowRes → Scan
  | .next s _ => s
  | .nextCol s _ => s
  | .err s => s

def RowRes.acc : RowRes → List Val
  | .next _ a => a
  | .nextCol _ a => a
  | .err _ => []

theorem refill_good (pages : List Page) (h : PagesOk P pages) (B : Nat) (s : Scan) (hs : ColOk P s.col) :
    ColOk P (refill pages B s).scan.col := by
  unfold refill
  split
  · have hv := readValues_good pages h B (valuesFuel pages) s.col.reader hs.1
    split
    · rename_i rd vs heq
      rw [heq] at hv
      exact ⟨hv.1, hv.2 vs rfl⟩
    · rename_i rd heq
      rw [heq] at hv
      exact ⟨hv.1, fun v hv => by simp [Refill.scan] at hv⟩
    · rename_i rd heq
      rw [heq] at hv
      exact ⟨hv.1, fun v hv => by simp [Refill.scan] at hv⟩
  · exact hs

theorem rowLoop_good (pages : List Page) (h : PagesOk P pages) (B i : Nat) :
    ∀ (fuel nv : Nat) (s : Scan) (acc : List Val), ColOk P s.col → (∀ v ∈ acc, P v) →
      ColOk P (rowLoop pages B i fuel nv s acc).scan.col ∧ ∀ v ∈ (rowLoop pages B i fuel nv s acc).acc, P v
  | 0, _, s, _, hs, _ => by
    simp only [rowLoop, RowRes.scan, RowRes.acc]
    exact ⟨hs, fun v hv => by simp at hv⟩
  | fuel + 1, nv, s, acc, hs, ha => by
    have hr := refill_good pages h B s hs
    unfold rowLoop
    split
    · rename_i s' heq
      rw [heq] at hr
      exact ⟨hr, ha⟩
    · rename_i s' heq
      rw [heq] at hr
      exact ⟨hr, fun v hv => by simp [RowRes.acc] at hv⟩
    · rename_i s' heq
      rw [heq] at hr
      simp only [Refill.scan] at hr
      have hcol : ColOk P { s'.col with buf := s'.col.buf.drop (scanRow nv s'.col.buf) } :=
        ⟨hr.1, fun v hv => hr.2 v (List.mem_of_mem_drop hv)⟩
      have hacc : ∀ v ∈ acc ++ s'.col.buf.take (scanRow nv s'.col.buf), P v := by
        intro v hv
        rcases List.mem_append.mp hv with hv | hv
        · exact ha v hv
        · exact hr.2 v (List.mem_of_mem_take hv)
      simp only []
      split
      · exact ⟨hr, ha⟩
      · split
        · exact ⟨hcol, hacc⟩
        · split
          · exact ⟨hcol, hacc⟩
          · exact rowLoop_good pages h B i fuel 0 _ _ hcol hacc

inductive ColRes.Good (P : Val → Prop) : ColRes → Prop
  | ok (s : Scan) (accs : List (List Val)) : ColOk P s.col → (∀ a ∈ accs, ∀ v ∈ a, P v) → ColRes.Good P (.ok s accs)
  | err (s : Scan) : ColOk P s.col → ColRes.Good P (.err s)

theorem colLoop_good (pages : List Page) (h : PagesOk P pages) (B : Nat) :
    ∀ (n i : Nat) (s : Scan), ColOk P s.col → ColRes.Good P (colLoop pages B n i s)
  | 0, _, s, hs => by
    simp only [colLoop]
    exact .ok s [] hs (fun a ha => by simp at ha)
  | n + 1, i, s, hs => by
    have hr := rowLoop_good pages h B i (rowFuel pages) 1 s [] hs (fun v hv => by simp at hv)
    unfold colLoop
    split
    · rename_i s' heq
      rw [heq] at hr
      exact .err s' hr.1
    · rename_i s' acc heq
      rw [heq] at hr
      refine .ok s' [acc] hr.1 ?_
      intro a ha
      simp at ha
      subst ha
      exact hr.2
    · rename_i s' acc heq
      rw [heq] at hr
      have ih := colLoop_good pages h B n (i + 1) s' hr.1
      split
      · rename_i s'' heq2
        rw [heq2] at ih
        cases ih with | err _ h2 => exact .err s'' h2
      · rename_i s'' accs heq2
        rw [heq2] at ih
        cases ih with
        | ok _ _ h2 h3 =>
          refine .ok s'' (acc :: accs) h2 ?_
          intro a ha
          simp only [List.mem_cons] at ha
          rcases ha with rfl | ha
          · exact hr.2
          · exact h3 a ha

def FileOk (P : Val → Prop) (file : List (List Page)) : Prop := ∀ pages ∈ file, PagesOk P pages

def StOk (P : Val → Prop) (st : St) : Prop := ∀ c ∈ st.cols, ColOk P c

theorem colsLoop_good (B n : Nat) : ∀ (file : List (List Page)) (cs : List Col) (ec rc : Nat),
    FileOk P file → (∀ c ∈ cs, ColOk P c) →
    (∀ c ∈ (colsLoop B n file cs ec rc).cols, ColOk P c) ∧
    ∀ a ∈ (colsLoop B n file cs ec rc).accs, ∀ r ∈ a, ∀ v ∈ r, P v
  | [], cs, ec, rc, _, hcs => by
    simp only [colsLoop]
    exact ⟨hcs, fun a ha => by simp at ha⟩
  | _ :: _, [], ec, rc, _, hcs => by
    simp only [colsLoop]
    exact ⟨hcs, fun a ha => by simp at ha⟩
  | pages :: file, c :: cs, ec, rc, hf, hcs => by
    have hc := colLoop_good pages (hf pages (by simp)) B n 0
      { col := c, eof := false, eofCount := ec, rowCount := rc } (hcs c (by simp))
    unfold colsLoop
    split
    · rename_i s heq
      rw [heq] at hc
      cases hc with
      | err _ h2 =>
        refine ⟨fun x hx => ?_, fun a ha => by simp at ha⟩
        simp only [List.mem_cons] at hx
        rcases hx with rfl | hx
        · exact h2
        · exact hcs x (by simp [hx])
    · rename_i s accs heq
      rw [heq] at hc
      cases hc with
      | ok _ _ h2 h3 =>
        have ih := colsLoop_good B n file cs s.eofCount s.rowCount
          (fun q hq => hf q (by simp [hq])) (fun x hx => hcs x (by simp [hx]))
        refine ⟨fun x hx => ?_, fun a ha => ?_⟩
        · simp only [List.mem_cons] at hx
          rcases hx with rfl | hx
          · exact h2
          · exact ih.1 x hx
        · simp only [List.mem_cons] at ha
          rcases ha with rfl | ha
          · exact h3
          · exact ih.2 a ha

theorem assemble_good (rc : Nat) (accs : List (List (List Val)))
    (h : ∀ a ∈ accs, ∀ r ∈ a, ∀ v ∈ r, P v) : ∀ r ∈ assemble rc accs, ∀ v ∈ r, P v := by
  intro r hr v hv
  simp only [assemble, List.mem_map] at hr
  obtain ⟨i, _, rfl⟩ := hr
  simp only [List.mem_flatten, List.mem_map] at hv
  obtain ⟨l, ⟨a, ha, rfl⟩, hv⟩ := hv
  rw [List.getD_eq_getElem?_getD] at hv
  cases hg : a[i]? with
  | none => simp [hg] at hv
  | some r' =>
    simp [hg] at hv
    exact h a ha r' (List.mem_of_getElem? hg) v hv

theorem fresh_ok (file : List (List Page)) (f : List Page → Reader) (hf : ∀ pages, (f pages).values = none) :
    ∀ c ∈ file.map (fun pages => ({ reader := f pages, buf := [] } : Col)), ColOk P c := by
  intro c hc
  simp only [List.mem_map] at hc
  obtain ⟨pages, _, rfl⟩ := hc
  exact ⟨fun vs hv => by simp [hf] at hv, fun v hv => by simp at hv⟩

theorem init_ok (file : List (List Page)) : StOk P (init file) :=
  fresh_ok file (fun _ => { cur := { next := 0, skip := 0 }, values := none }) (fun _ => rfl)

theorem seek_ok (file : List (List Page)) (st : St) (k : Nat) (h : StOk P st) : StOk P (seek file st k) := by
  unfold seek
  split
  · exact fresh_ok file (fun pages => seekReader pages k) (fun _ => rfl)
  · exact h

theorem reset_ok (file : List (List Page)) (st : St) : StOk P (reset file st) :=
  fresh_ok file (fun pages => seekReader pages 0) (fun _ => rfl)

theorem read_good (file : List (List Page)) (hf : FileOk P file) (B : Nat) (st : St) (n : Nat) (h : StOk P st) :
    StOk P (read file B st n).1 ∧
    ∀ rs eof, (read file B st n).2 = .rows rs eof → ∀ r ∈ rs, ∀ v ∈ r, P v := by
  unfold read
  split
  · exact ⟨h, fun rs eof he => by simp at he⟩
  · have h0 : StOk P (if st.rowIndex < 0 then seek file st 0 else st) := by
      split
      · exact seek_ok file st 0 h
      · exact h
    simp only []
    generalize (if st.rowIndex < 0 then seek file st 0 else st) = st' at h0 ⊢
    have hc := colsLoop_good B n file st'.cols 0 0 hf h0
    by_cases hfl : (colsLoop B n file st'.cols 0 0).failed = true
    · simp only [hfl, if_true]
      exact ⟨hc.1, fun rs eof he => by simp at he⟩
    · simp only [hfl]
      refine ⟨hc.1, fun rs eof he => ?_⟩
      simp at he
      rw [← he.1]
      exact assemble_good _ _ hc.2

theorem step_good (file : List (List Page)) (hf : FileOk P file) (B : Nat) (st : St) (op : Op) (h : StOk P st) :
    StOk P (step file B st op).1 ∧
    ∀ rs eof, (step file B st op).2 = .rows rs eof → ∀ r ∈ rs, ∀ v ∈ r, P v := by
  cases op with
  | read n => exact read_good file hf B st n h
  | seek k => exact ⟨seek_ok file st k h, fun rs eof he => by simp [step] at he⟩
  | reset => exact ⟨reset_ok file st, fun rs eof he => by simp [step] at he⟩

theorem run_good (file : List (List Page)) (hf : FileOk P file) (B : Nat) :
    ∀ (ops : List Op) (st : St), StOk P st → ∀ x ∈ run file B st ops,
      ∀ rs eof, x.2 = .rows rs eof → ∀ r ∈ rs, ∀ v ∈ r, P v
  | [], _, _ => by simp [run]
  | op :: ops, st, h => by
    intro x hx
    simp only [run, List.mem_cons] at hx
    have hs := step_good file hf B st op h
    rcases hx with rfl | hx
    · exact hs.2
    · exact run_good file hf B ops _ hs.1 x hx

end PqModel.RowsBuf
