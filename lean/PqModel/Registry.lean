/-! # Process-wide registry: lookup-or-insert under a lock (file.go `getBufioReaderPool`)

MIRROR of `getBufioReaderPool` (file.go:1760-1771): a package-level `map[int]*Pool` guarded by a
`sync.Mutex`; `Lock` (:1761), deferred `Unlock` (:1762), map read (:1764), on a miss allocate
(:1768) and map write (:1769). k goroutines, each asking for its own key, all interleavings.

A Go map access is not atomic: a read or write that overlaps a write by another goroutine is a
`fatal error: concurrent map read and map write` (and a data race). The model therefore gives every
map access a *window* (a begin step and an end step) and asks whether two windows can overlap.
The `fast` flag of a goroutine selects the variant with an unlocked map read in front of the lock
(broken double-checked locking); the code as it is has `fast = false` everywhere. -/
namespace PqModel.Registry

inductive RPc where
  | start (fast : Bool)
  | fastRead            -- inside the UNLOCKED map read (variant only)
  | wantLock            -- blocked in Lock (file.go:1761)
  | locked              -- holds the lock, before the map read
  | lockedRead          -- inside the map read (file.go:1764)
  | miss                -- the read returned nil (file.go:1768)
  | writing (v : Nat)   -- inside the map write of the freshly allocated value (file.go:1769)
  | unlocking (r : Nat) -- result known, deferred Unlock pending (file.go:1762)
  | done (r : Nat)
deriving DecidableEq, Repr

structure Gor where
  key : Nat
  pc : RPc
deriving DecidableEq, Repr

structure St where
  lock : Bool
  table : Nat → Option Nat
  fresh : Nat
  gs : List Gor

def init (keys : List (Nat × Bool)) : St :=
  { lock := false, table := fun _ => none, fresh := 0, gs := keys.map fun kf => ⟨kf.1, .start kf.2⟩ }

inductive Step : St → St → Prop where
  | startLocked {s} {i : Nat} {k} : s.gs[i]? = some ⟨k, .start false⟩ →
      Step s { s with gs := s.gs.set i ⟨k, .wantLock⟩ }
  /-- variant: begin the unlocked read -/
  | startFast {s} {i : Nat} {k} : s.gs[i]? = some ⟨k, .start true⟩ →
      Step s { s with gs := s.gs.set i ⟨k, .fastRead⟩ }
  | fastHit {s} {i : Nat} {k v} : s.gs[i]? = some ⟨k, .fastRead⟩ → s.table k = some v →
      Step s { s with gs := s.gs.set i ⟨k, .done v⟩ }
  | fastMiss {s} {i : Nat} {k} : s.gs[i]? = some ⟨k, .fastRead⟩ → s.table k = none →
      Step s { s with gs := s.gs.set i ⟨k, .wantLock⟩ }
  /-- file.go:1761 -/
  | lock {s} {i : Nat} {k} : s.gs[i]? = some ⟨k, .wantLock⟩ → s.lock = false →
      Step s { s with gs := s.gs.set i ⟨k, .locked⟩, lock := true }
  /-- file.go:1764, begin of the map read -/
  | beginRead {s} {i : Nat} {k} : s.gs[i]? = some ⟨k, .locked⟩ →
      Step s { s with gs := s.gs.set i ⟨k, .lockedRead⟩ }
  /-- file.go:1764-1766 -/
  | readHit {s} {i : Nat} {k v} : s.gs[i]? = some ⟨k, .lockedRead⟩ → s.table k = some v →
      Step s { s with gs := s.gs.set i ⟨k, .unlocking v⟩ }
  | readMiss {s} {i : Nat} {k} : s.gs[i]? = some ⟨k, .lockedRead⟩ → s.table k = none →
      Step s { s with gs := s.gs.set i ⟨k, .miss⟩ }
  /-- file.go:1768-1769: allocate, begin of the map write -/
  | beginWrite {s} {i : Nat} {k} : s.gs[i]? = some ⟨k, .miss⟩ →
      Step s { s with gs := s.gs.set i ⟨k, .writing s.fresh⟩, fresh := s.fresh + 1 }
  /-- file.go:1769-1770: end of the map write -/
  | endWrite {s} {i : Nat} {k v} : s.gs[i]? = some ⟨k, .writing v⟩ →
      Step s { s with gs := s.gs.set i ⟨k, .unlocking v⟩,
                      table := fun x => if x = k then some v else s.table x }
  /-- file.go:1762 (deferred) -/
  | unlock {s} {i : Nat} {k r} : s.gs[i]? = some ⟨k, .unlocking r⟩ →
      Step s { s with gs := s.gs.set i ⟨k, .done r⟩, lock := false }

inductive Reach (keys : List (Nat × Bool)) : St → Prop where
  | init : Reach keys (init keys)
  | step {s s'} : Reach keys s → Step s s' → Reach keys s'

def inRead : RPc → Bool
  | .fastRead | .lockedRead => true
  | _ => false

def inWrite : RPc → Bool
  | .writing _ => true
  | _ => false

def inCrit : RPc → Bool
  | .locked | .lockedRead | .miss | .writing _ | .unlocking _ => true
  | _ => false

/-- a map write overlaps another map access -/
def Conflict (s : St) : Prop :=
  ∃ (i j : Nat) (gi gj : Gor), i ≠ j ∧ s.gs[i]? = some gi ∧ s.gs[j]? = some gj ∧
    inWrite gi.pc = true ∧ (inRead gj.pc = true ∨ inWrite gj.pc = true)

structure RInv (s : St) : Prop where
  nofast : ∀ (i : Nat) g, s.gs[i]? = some g → g.pc ≠ .start true ∧ g.pc ≠ .fastRead
  excl : ∀ (i j : Nat) gi gj, i ≠ j → s.gs[i]? = some gi → s.gs[j]? = some gj →
      inCrit gi.pc = true → inCrit gj.pc = true → False
  held : ∀ (i : Nat) g, s.gs[i]? = some g → inCrit g.pc = true → s.lock = true
  res : ∀ (i : Nat) k r, (s.gs[i]? = some ⟨k, .unlocking r⟩ ∨ s.gs[i]? = some ⟨k, .done r⟩) → s.table k = some r
  absent : ∀ (i : Nat) k, s.gs[i]? = some ⟨k, .miss⟩ → s.table k = none
  absentW : ∀ (i : Nat) k v, s.gs[i]? = some ⟨k, .writing v⟩ → s.table k = none

theorem rinv_init {keys : List (Nat × Bool)} (h : ∀ kf ∈ keys, kf.2 = false) : RInv (init keys) := by
  have hg : ∀ (i : Nat) g, (init keys).gs[i]? = some g → g.pc = .start false := by
    intro i g hi
    simp only [init, List.getElem?_map, Option.map_eq_some_iff] at hi
    obtain ⟨kf, hk, rfl⟩ := hi
    have := h kf (List.mem_of_getElem? hk)
    simp [this]
  constructor
  · intro i g hi; rw [hg i g hi]; simp
  · intro i j gi gj _ hi hj ci; rw [hg i gi hi] at ci; simp [inCrit] at ci
  · intro i g hi ci; rw [hg i g hi] at ci; simp [inCrit] at ci
  · intro i k r hi
    rcases hi with hi | hi <;> have := hg i _ hi <;> simp at this
  · intro i k hi; have := hg i _ hi; simp at this
  · intro i k v hi; have := hg i _ hi; simp at this

theorem rinv_step {s s'} (hi : RInv s) (h : Step s s') : RInv s' := by
  obtain ⟨h1, h2, h3, h4, h5, h6⟩ := hi
  cases h
  case startFast i k hs => exact absurd rfl (h1 i _ hs).1
  case fastHit i k v hs _ => exact absurd rfl (h1 i _ hs).2
  case fastMiss i k hs _ => exact absurd rfl (h1 i _ hs).2
  case lock i k hs hl =>
    have nocrit : ∀ (j : Nat) g, s.gs[j]? = some g → inCrit g.pc = true → False := by
      intro j g hg hc; have := h3 j g hg hc; rw [hl] at this; cases this
    constructor <;> simp only [List.getElem?_set] <;> grind [inCrit]
  case endWrite i k v hs =>
    have hk := h6 i k v hs
    have others : ∀ (j : Nat) g, j ≠ i → s.gs[j]? = some g → inCrit g.pc = true → False := by
      intro j g hj hg hc; exact h2 j i g _ hj hg hs hc (by simp [inCrit])
    constructor <;> simp only [List.getElem?_set] <;> grind [inCrit]
  all_goals (constructor <;> simp only [List.getElem?_set] <;> grind [inCrit])

theorem rinv_reach {keys s} (h : ∀ kf ∈ keys, kf.2 = false) (hr : Reach keys s) : RInv s := by
  induction hr with
  | init => exact rinv_init h
  | step _ hs ih => exact rinv_step ih hs

theorem rinv_no_conflict {s} (hi : RInv s) : ¬ Conflict s := by
  intro ⟨i, j, gi, gj, hij, hgi, hgj, hw, hrw⟩
  have ci : inCrit gi.pc = true := by
    cases h : gi.pc <;> simp [h, inWrite] at hw <;> simp [inCrit]
  have cj : inCrit gj.pc = true := by
    have nf := (hi.nofast j gj hgj).2
    cases h : gj.pc <;> simp [h, inRead, inWrite] at hrw <;> simp [inCrit] <;> exact absurd h nf
  exact hi.excl i j gi gj hij hgi hgj ci cj

/-- once a key has a value it keeps it -/
theorem table_stable {s s' k v} (hi : RInv s) (h : Step s s') (hk : s.table k = some v) : s'.table k = some v := by
  cases h <;> try exact hk
  case endWrite i k' v' hs =>
    have := hi.absentW i k' v' hs
    show (if k = k' then some v' else s.table k) = some v
    split
    · subst_vars; rw [hk] at this; cases this
    · exact hk

end PqModel.Registry
