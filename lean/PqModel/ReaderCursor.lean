import PqModel.ReaderSeek

/-! # The deprecated `Reader`: two row readers behind one cursor (C08)

`parquet.Reader` (reader.go) owns two `reader` values over the same rows — `file`, used by
`ReadRows`, and `read`, used by `Read(&goValue)` (possibly over a converted view of the row group) —
and one `rowIndex` they share: every read first seeks the sub-reader it is going to use to
`rowIndex`, then advances `rowIndex` by what was delivered. `GenericReader[T]` wraps the same
struct (`Read([]T)` is a loop of `ReadRows`).

* MIRROR: `Sub.seek` / `Sub.read` / `Sub.reset` (`reader.SeekToRow` / `ReadRows` / `Reset`,
  reader.go:496-554: the `Rows` are opened lazily by the first read and sought to `rowIndex` then),
  `step` (`Reader.SeekToRow` / `ReadRows` / `Read` / `Reset`, reader.go:383-470), and `stepNoSeek`,
  the same with the `r.file.SeekToRow(r.rowIndex)` of `ReadRows` taken out (refuted below).
* SPEC: `XSpec` — a row counter: the position after a seek is `k`, after Reset `0`, and it advances
  by what each read of either style delivers.

The row readers underneath are any `RowM`: a machine that refines the reference row reader `RSpec`
of `ReaderSeek.lean` and accepts every seek (`rowsM`: `rowGroupRows` over lenient page readers —
`FilePages`, `multiPages`). -/
namespace PqModel.ReaderCursor
open PqModel.SeekLayers (ROut Machine)
open PqModel.ReaderSeek (ROp RSpec)

universe u

/-- the executable part of a row reader (`Rows`) -/
structure RowR where
  σ : Type u
  step : σ → ROp → σ × ROut
  init : σ

/-- a row reader that refines the reference row reader over `total` rows and accepts every seek -/
structure RowM extends RowR.{u} where
  inv : σ → Prop
  pos : σ → Option Nat
  total : Nat
  init_inv : inv init
  init_pos : pos init = some 0
  step_inv : ∀ s op, inv s → inv (step s op).1
  step_spec : ∀ s op, inv s → RSpec total (pos s) op (pos (step s op).1) (step s op).2
  lenient : ∀ s k, inv s → (step s (.seek k)).2 = .ok

/-- rows delivered by a read -/
def count : ROut → Nat
  | .rows _ c => c
  | _ => 0

/-- Go `reader`: `rows` is nil until the first read -/
structure Sub (b : RowR.{u}) where
  rows : Option b.σ
  rowIndex : Nat

namespace Sub
variable {b : RowR.{u}}

/-- MIRROR of `reader.SeekToRow` (reader.go:541-554): nothing to do when the index is the
    current one; the open `Rows` are sought, unopened ones only remember the index -/
def seek (r : Sub b) (k : Nat) : Sub b × ROut :=
  if k ≠ r.rowIndex then
    match r.rows with
    | some st =>
      match (b.step st (.seek k)).2 with
      | .ok => ({ rows := some (b.step st (.seek k)).1, rowIndex := k }, .ok)
      | o => ({ rows := some (b.step st (.seek k)).1, rowIndex := r.rowIndex }, o)
    | none => ({ rows := none, rowIndex := k }, .ok)
  else (r, .ok)

/-- `n, err := r.rows.ReadRows(rows); r.rowIndex += n` -/
def readK (r : Sub b) (st : b.σ) (n : Nat) : Sub b × ROut :=
  ({ rows := some (b.step st (.read n)).1, rowIndex := r.rowIndex + count (b.step st (.read n)).2 },
   (b.step st (.read n)).2)

/-- MIRROR of `reader.ReadRows` (reader.go:524-539): open the `Rows` on the first read and seek
    them to the remembered index -/
def read (r : Sub b) (n : Nat) : Sub b × ROut :=
  match r.rows with
  | none =>
    if 0 < r.rowIndex then
      match (b.step b.init (.seek r.rowIndex)).2 with
      | .ok => readK r (b.step b.init (.seek r.rowIndex)).1 n
      | o => ({ rows := some (b.step b.init (.seek r.rowIndex)).1, rowIndex := r.rowIndex }, o)
    else readK r b.init n
  | some st => readK r st n

/-- MIRROR of `reader.Reset` (reader.go:502-522) for `Rows` that have a `Reset` method -/
def reset (r : Sub b) : Sub b :=
  { rows := r.rows.map fun st => (b.step st .reset).1, rowIndex := 0 }

end Sub

/-- `parquet.Reader` -/
structure St (bf br : RowR.{u}) where
  file : Sub bf
  read : Sub br
  rowIndex : Nat

inductive XOp where
  | seek (k : Nat)      -- SeekToRow(k)
  | readRows (n : Nat)  -- ReadRows(make([]Row, n))
  | read                -- Read(&v)
  | reset
deriving Repr, DecidableEq

variable {bf br : RowR.{u}}

/-- MIRROR of `Reader.SeekToRow` (reader.go:464-470) -/
def xseek (s : St bf br) (k : Nat) : St bf br × ROut :=
  match (s.file.seek k).2 with
  | .ok => ({ s with file := (s.file.seek k).1, rowIndex := k }, .ok)
  | o => ({ s with file := (s.file.seek k).1 }, o)

/-- the body of `Reader.ReadRows` behind the seek -/
def xreadRowsK (s : St bf br) (n : Nat) : St bf br × ROut :=
  ({ s with file := (s.file.read n).1, rowIndex := s.rowIndex + count (s.file.read n).2 }, (s.file.read n).2)

/-- MIRROR of `Reader.ReadRows` (reader.go:448-455): bring `file` to the shared index first -/
def xreadRows (s : St bf br) (n : Nat) : St bf br × ROut :=
  match (s.file.seek s.rowIndex).2 with
  | .ok => xreadRowsK { s with file := (s.file.seek s.rowIndex).1 } n
  | o => ({ s with file := (s.file.seek s.rowIndex).1 }, o)

/-- MIRROR of `Reader.Read` (reader.go:394-423): bring `read` to the shared index, read one row -/
def xread (s : St bf br) : St bf br × ROut :=
  match (s.read.seek s.rowIndex).2 with
  | .ok =>
    ({ s with read := (((s.read.seek s.rowIndex).1).read 1).1,
              rowIndex := s.rowIndex + count (((s.read.seek s.rowIndex).1).read 1).2 },
     (((s.read.seek s.rowIndex).1).read 1).2)
  | o => ({ s with read := (s.read.seek s.rowIndex).1 }, o)

/-- MIRROR of `Reader` -/
def step (s : St bf br) : XOp → St bf br × ROut
  | .seek k => xseek s k
  | .readRows n => xreadRows s n
  | .read => xread s
  | .reset => ({ file := s.file.reset, read := s.read.reset, rowIndex := 0 }, .ok)

/-- `Reader` with the `r.file.SeekToRow(r.rowIndex)` of `ReadRows` removed ("`SeekToRow` already
    positions `r.file`") -/
def stepNoSeek (s : St bf br) : XOp → St bf br × ROut
  | .readRows n => xreadRowsK s n
  | op => step s op

def init (bf br : RowR.{u}) : St bf br :=
  { file := { rows := none, rowIndex := 0 }, read := { rows := none, rowIndex := 0 }, rowIndex := 0 }

def outs (stp : St bf br → XOp → St bf br × ROut) : St bf br → List XOp → List ROut
  | _, [] => []
  | s, op :: ops => (stp s op).2 :: outs stp (stp s op).1 ops

/-! ### SPEC -/

/-- SPEC: the reference reader over `T` rows standing before row `p`; a failed read delivers
    nothing and leaves the position where it was -/
def XSpec (T : Nat) (p : Nat) (op : XOp) (p' : Nat) (out : ROut) : Prop :=
  match op with
  | .seek k => out = .ok ∧ p' = k
  | .reset => out = .ok ∧ p' = 0
  | .readRows n => (out = .rows p (min n (T - p)) ∧ p' = p + min n (T - p)) ∨ (out = .fail ∧ p' = p)
  | .read => (out = .rows p (min 1 (T - p)) ∧ p' = p + min 1 (T - p)) ∨ (out = .fail ∧ p' = p)

inductive XRunOK (T : Nat) : Nat → List XOp → List ROut → Prop where
  | nil (p) : XRunOK T p [] []
  | cons {p op p' out ops os} : XSpec T p op p' out → XRunOK T p' ops os → XRunOK T p (op :: ops) (out :: os)

/-! ### refinement -/

/-- an open sub-reader stands on its `rowIndex`, or has lost its position in a failed read -/
def SubInv (b : RowM.{u}) (r : Sub b.toRowR) : Prop :=
  ∀ st, r.rows = some st → b.inv st ∧ (b.pos st = none ∨ b.pos st = some r.rowIndex)

theorem sub_seek_spec (b : RowM.{u}) (r : Sub b.toRowR) (k : Nat) (h : SubInv b r) :
    (r.seek k).2 = .ok ∧ (r.seek k).1.rowIndex = k ∧ SubInv b (r.seek k).1 := by
  unfold Sub.seek
  split
  · rename_i hk
    cases hr : r.rows with
    | none =>
      refine ⟨rfl, rfl, ?_⟩
      intro st hst
      cases hst
    | some st =>
      obtain ⟨hi, _⟩ := h st hr
      have hok := b.lenient st k hi
      have hspec := b.step_spec st (.seek k) hi
      have hinv := b.step_inv st (.seek k) hi
      simp only [hok]
      refine ⟨trivial, trivial, ?_⟩
      intro st' hst'
      simp only [Option.some.injEq] at hst'
      subst hst'
      refine ⟨hinv, Or.inr ?_⟩
      rcases hspec with ⟨_, hp⟩ | ⟨hbad, _⟩
      · exact hp
      · rw [hok] at hbad; cases hbad
  · rename_i hk
    have : k = r.rowIndex := by
      rcases Nat.decEq k r.rowIndex with a | a
      · exact absurd a hk
      · exact a
    exact ⟨rfl, this.symm, h⟩

theorem readK_spec (b : RowM.{u}) (r : Sub b.toRowR) (st : b.σ) (n : Nat) (hi : b.inv st)
    (hp : b.pos st = none ∨ b.pos st = some r.rowIndex) :
    SubInv b (r.readK st n).1 ∧
    (((r.readK st n).2 = .rows r.rowIndex (min n (b.total - r.rowIndex)) ∧
      (r.readK st n).1.rowIndex = r.rowIndex + min n (b.total - r.rowIndex)) ∨
     ((r.readK st n).2 = .fail ∧ (r.readK st n).1.rowIndex = r.rowIndex)) := by
  have hspec := b.step_spec st (.read n) hi
  have hinv := b.step_inv st (.read n) hi
  unfold Sub.readK
  generalize b.step st (.read n) = x at hspec hinv
  obtain ⟨st1, o⟩ := x
  simp only [] at hspec hinv ⊢
  have lost : o = .fail → b.pos st1 = none →
      SubInv b { rows := some st1, rowIndex := r.rowIndex + count o } ∧
      ((o = .rows r.rowIndex (min n (b.total - r.rowIndex)) ∧
        r.rowIndex + count o = r.rowIndex + min n (b.total - r.rowIndex)) ∨
       (o = .fail ∧ r.rowIndex + count o = r.rowIndex)) := by
    intro ho hn
    subst ho
    refine ⟨?_, Or.inr ⟨rfl, by simp [count]⟩⟩
    intro st' hst'
    simp only [Option.some.injEq] at hst'
    subst hst'
    exact ⟨hinv, Or.inl hn⟩
  rcases hp with hp | hp
  · rw [hp] at hspec
    exact lost hspec.1 hspec.2
  · rw [hp] at hspec
    rcases hspec with ⟨ho, hn⟩ | ⟨ho, hn⟩
    · subst ho
      refine ⟨?_, Or.inl ⟨rfl, by simp [count]⟩⟩
      intro st' hst'
      simp only [Option.some.injEq] at hst'
      subst hst'
      exact ⟨hinv, Or.inr (by simpa [count] using hn)⟩
    · exact lost ho hn

theorem sub_read_spec (b : RowM.{u}) (r : Sub b.toRowR) (n : Nat) (h : SubInv b r) :
    SubInv b (r.read n).1 ∧
    (((r.read n).2 = .rows r.rowIndex (min n (b.total - r.rowIndex)) ∧
      (r.read n).1.rowIndex = r.rowIndex + min n (b.total - r.rowIndex)) ∨
     ((r.read n).2 = .fail ∧ (r.read n).1.rowIndex = r.rowIndex)) := by
  unfold Sub.read
  cases hr : r.rows with
  | some st =>
    obtain ⟨hi, hp⟩ := h st hr
    exact readK_spec b r st n hi hp
  | none =>
    simp only []
    split
    · have hok := b.lenient b.init r.rowIndex b.init_inv
      have hspec := b.step_spec b.init (.seek r.rowIndex) b.init_inv
      have hinv := b.step_inv b.init (.seek r.rowIndex) b.init_inv
      simp only [hok]
      refine readK_spec b r _ n hinv (Or.inr ?_)
      rcases hspec with ⟨_, hp⟩ | ⟨hbad, _⟩
      · exact hp
      · rw [hok] at hbad; cases hbad
    · rename_i h0
      have h0' : r.rowIndex = 0 := by omega
      exact readK_spec b r b.init n b.init_inv (Or.inr (by rw [b.init_pos, h0']))

theorem sub_reset_spec (b : RowM.{u}) (r : Sub b.toRowR) (h : SubInv b r) :
    SubInv b r.reset ∧ r.reset.rowIndex = 0 := by
  refine ⟨?_, rfl⟩
  intro st' hst'
  simp only [Sub.reset, Option.map_eq_some_iff] at hst'
  obtain ⟨st, hst, rfl⟩ := hst'
  obtain ⟨hi, _⟩ := h st hst
  refine ⟨b.step_inv st .reset hi, Or.inr ?_⟩
  exact (b.step_spec st .reset hi).2

/-- invariant of the `Reader`: nothing ties the sub-readers to the shared index — each read
    brings the one it uses there -/
def XInv (mf mr : RowM.{u}) (s : St mf.toRowR mr.toRowR) : Prop := SubInv mf s.file ∧ SubInv mr s.read

theorem step_spec (mf mr : RowM.{u}) (T : Nat) (hf : mf.total = T) (hr : mr.total = T)
    (s : St mf.toRowR mr.toRowR) (op : XOp) (h : XInv mf mr s) :
    XInv mf mr (step s op).1 ∧ XSpec T s.rowIndex op (step s op).1.rowIndex (step s op).2 := by
  obtain ⟨h1, h2⟩ := h
  cases op with
  | seek k =>
    obtain ⟨a, _, c⟩ := sub_seek_spec mf s.file k h1
    simp only [step, xseek, a]
    exact ⟨⟨c, h2⟩, rfl, rfl⟩
  | reset =>
    exact ⟨⟨(sub_reset_spec mf s.file h1).1, (sub_reset_spec mr s.read h2).1⟩, rfl, rfl⟩
  | readRows n =>
    obtain ⟨a, b, c⟩ := sub_seek_spec mf s.file s.rowIndex h1
    obtain ⟨d, e⟩ := sub_read_spec mf (s.file.seek s.rowIndex).1 n c
    simp only [step, xreadRows, a, xreadRowsK]
    refine ⟨⟨d, h2⟩, ?_⟩
    rw [b, hf] at e
    rcases e with ⟨e1, _⟩ | ⟨e1, _⟩
    · exact Or.inl ⟨e1, by rw [e1]; simp [count]⟩
    · exact Or.inr ⟨e1, by rw [e1]; simp [count]⟩
  | read =>
    obtain ⟨a, b, c⟩ := sub_seek_spec mr s.read s.rowIndex h2
    obtain ⟨d, e⟩ := sub_read_spec mr (s.read.seek s.rowIndex).1 1 c
    simp only [step, xread, a]
    refine ⟨⟨h1, d⟩, ?_⟩
    rw [b, hr] at e
    rcases e with ⟨e1, _⟩ | ⟨e1, _⟩
    · exact Or.inl ⟨e1, by rw [e1]; simp [count]⟩
    · exact Or.inr ⟨e1, by rw [e1]; simp [count]⟩

theorem init_inv (mf mr : RowM.{u}) : XInv mf mr (init mf.toRowR mr.toRowR) :=
  ⟨fun _ h => by simp [init] at h, fun _ h => by simp [init] at h⟩

theorem run_refines (mf mr : RowM.{u}) (T : Nat) (hf : mf.total = T) (hr : mr.total = T) :
    ∀ (ops : List XOp) (s : St mf.toRowR mr.toRowR), XInv mf mr s →
    XRunOK T s.rowIndex ops (outs step s ops)
  | [], _, _ => XRunOK.nil _
  | op :: ops, s, h => by
    obtain ⟨a, b⟩ := step_spec mf mr T hf hr s op h
    exact XRunOK.cons b (run_refines mf mr T hf hr ops _ a)

/-! ### instances -/

/-- the reference row reader itself (used for the witnesses below) -/
def refR (T : Nat) : RowR where
  σ := Nat
  step p
    | .seek k => (k, .ok)
    | .read n => (p + min n (T - p), .rows p (min n (T - p)))
    | .reset => (0, .ok)
  init := 0

def refM (T : Nat) : RowM where
  toRowR := refR T
  inv _ := True
  pos p := some p
  total := T
  init_inv := trivial
  init_pos := rfl
  step_inv _ _ _ := trivial
  step_spec p op _ := by
    cases op with
    | seek k => exact Or.inl ⟨rfl, rfl⟩
    | reset => exact ⟨rfl, rfl⟩
    | read n => exact Or.inl ⟨rfl, rfl⟩
  lenient _ _ _ := rfl

open PqModel.ReaderSeek in
/-- `rowGroupRows` over page readers that accept every seek (`FilePages` of chunks with pages,
    `multiPages`) is such a row reader -/
def rowsM (T : Nat) (ms : List Machine.{u}) (hne : ms ≠ []) (hT : ∀ m ∈ ms, m.total = T)
    (hl : ∀ m ∈ ms, m.Lenient) : RowM.{u+1} where
  σ := RSt.{u}
  step := rstep
  init := rinit ms
  inv := RInv T true
  pos := rpos
  total := T
  init_inv := rinit_inv T true ms hne hT hl
  init_pos := by simp [rpos, rinit]
  step_inv s op h := (rstep_spec T true s op h).1
  step_spec s op h := (rstep_spec T true s op h).2
  lenient s k h := (rseek_ok T true s k (Or.inr rfl) h).2.1

/-! ### the variant without the seek in `ReadRows` is wrong -/

/-- `Read(&v)` then `ReadRows(1)` on a fresh reader: the second read must deliver row 1 -/
def mixed : List XOp := [.read, .readRows 1]

example : outs step (init (refR 10) (refR 10)) mixed = [.rows 0 1, .rows 1 1] := by decide
example : outs stepNoSeek (init (refR 10) (refR 10)) mixed = [.rows 0 1, .rows 0 1] := by decide

/-- `SeekToRow(5)`, `Read`, `Read`, `ReadRows(2)`: rows 5, 6, then 7..8 -/
example : outs step (init (refR 10) (refR 10)) [.seek 5, .read, .read, .readRows 2]
    = [.ok, .rows 5 1, .rows 6 1, .rows 7 2] := by decide
example : outs stepNoSeek (init (refR 10) (refR 10)) [.seek 5, .read, .read, .readRows 2]
    = [.ok, .rows 5 1, .rows 6 1, .rows 5 2] := by decide

/-! ### observation: a row reader that refuses seeks beyond the end -/

/-- a reference row reader that refuses seeks beyond its last row (as the rows of a row-range view do) -/
def strictR (T : Nat) : RowR where
  σ := Nat
  step p
    | .seek k => if T < k then (p, .err) else (k, .ok)
    | .read n => (p + min n (T - p), .rows p (min n (T - p)))
    | .reset => (0, .ok)
  init := 0

/-- OBSERVATION (why `RowM.lenient` is a hypothesis; not reachable through the constructors of the
    library, whose file, multi-row-group and buffer row readers all accept such seeks): over a row
    reader that refuses seeks beyond the end, `SeekToRow(11)` on a fresh `Reader` of 10 rows is
    accepted — the `Rows` are not open yet, only the index is remembered —, the first `ReadRows`
    reports the refusal, and the second delivers row 0. -/
example : outs step (init (strictR 10) (strictR 10)) [.seek 11, .readRows 1, .readRows 1]
    = [.ok, .err, .rows 0 1] := by decide

end PqModel.ReaderCursor
