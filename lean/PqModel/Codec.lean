/-! # Compression codecs: pool / reset / retry logic of `compress/` (C20)

MIRROR parts (transliterations of the Go code as it is, with `file:line`):
`take`, `readLoop`, `decBegin`, `decEnd`, `encBegin`, `encEnd`, `step` (compress/compress.go,
internal/memory/pool.go), `zEncode`/`zDecode` (compress/zstd/zstd.go), `reserveAtLeast`,
`lz4Loop`, `lz4Decode` (compress/lz4/lz4.go).

ABSTRACT parts (third-party code, *assumed*, never verified): `WriterImpl`, `ReaderImpl`,
`ZstdImpl`, `Lz4Impl` are the klauspost/andybalholm/pierrec streams seen through the calls the
Go code makes on them; `WriterContract`, `ReaderBase`, `StrongReset`, `WeakReset`,
`ZstdContract`, `Lz4Contract` are the contracts the pool logic relies on.  State equality in
the contracts is equality up to observable behaviour (take the abstract state space to be the
quotient); "after Reset the stream is a fresh stream" is `reset s src = new src`.

SPEC-side / proposed-repair parts: `Policy.dropFailed` (do not reuse a reader whose decode
failed), `lz4LoopStrict` (retry only on "destination too short").

A sync.Pool hands out *any* idle object or none: every call carries a `pick` (the creation
number of the object the pool returns, `none` = the pool returns nil).  A call is split into
`…Begin` (Get, reset, the whole computation on the exclusively owned stream) and `…End` (the
deferred function: reset to nil/discard, Put); histories of begin/end events are exactly the
interleavings of concurrent calls on one codec value (a stream is owned by one goroutine
between Get and Put; third-party streams are assumed not to share mutable state).
-/
namespace PqModel.Codec

abbrev Bytes := List UInt8

/-- what one `Encode`/`Decode` call does as seen by the caller -/
inductive Outcome
  | ok (out : Bytes)
  | err (out : Bytes)   -- an error is returned (together with the partial output)
  | panic               -- a panic escapes the call
  | hang                -- the loop does not end (fuel exhausted in the model)
  deriving DecidableEq

inductive RStatus
  | more | eof | fail
  deriving DecidableEq

/-- calls observed on the third-party streams (what an instrumented stream can see) -/
inductive Ev
  | getNew (id : Nat)            -- constructor ran, object number `id`
  | getReuse (id : Nat)          -- pooled object `id` was Reset to the new src/dst
  | newFail                      -- constructor returned an error
  | resetFail (id : Nat)         -- Reset(src) of pooled object returned an error
  | read (n got : Nat) (st : RStatus)
  | resetNil (ok : Bool)         -- deferred Reset(nil)
  | write (n : Nat) (ok : Bool)
  | close (ok : Bool)
  | resetDiscard                 -- deferred Reset(io.Discard)
  | put (id : Nat)
  | drop (id : Nat)
  deriving DecidableEq

/-! ## memory.Pool / sync.Pool -/

structure Item (σ : Type) where
  id : Nat
  st : σ
  deriving DecidableEq

/-- MIRROR internal/memory/pool.go:11-19 `Pool.Get` (the part before newT/resetT): the pool
returns the idle object numbered `pick`, or nil. -/
def take {σ} (idle : List (Item σ)) (pick : Option Nat) : Option (Item σ) × List (Item σ) :=
  match pick with
  | none => (none, idle)
  | some i =>
    match idle.find? (fun it => it.id == i) with
    | some it => (some it, idle.filter (fun it => it.id != i))
    | none => (none, idle)

/-! ## Decompressor (compress/compress.go:90-148) -/

/-- third-party `compress.Reader` -/
structure ReaderImpl (ρ : Type) where
  /-- `newReader(&r.input)` with input = src; `none` = the constructor returns an error -/
  new   : Bytes → Option ρ
  /-- `Reset(&r.input)` (`some src`) or `Reset(nil)`; `none` = an error is returned -/
  reset : ρ → Option Bytes → Option ρ
  /-- `Read(p)` with `len(p) = n`: new state, bytes delivered, status (`eof` = io.EOF, `fail` =
  any other error; data and status may come together as Go allows) -/
  read  : ρ → Nat → ρ × Bytes × RStatus

inductive LoopEnd
  | eof | fail | hang | oob
  deriving DecidableEq

structure LoopRes (ρ : Type) where
  st : ρ
  acc : Bytes
  fin : LoopEnd
  evs : List Ev

/-- MIRROR compress/compress.go:131-147, the `for` loop of `Decompressor.Decode`.
`acc` is `dst[:len(dst)]`, `cap` is `cap(dst)`; `Read(dst[len(dst):cap(dst)])`; when the
buffer is full it is replaced by one of capacity `2*len(dst)`.  `oob`: the reader claims more
bytes than `len(p)` and `dst[:len(dst)+n]` panics. -/
def readLoop {ρ} (R : ReaderImpl ρ) : Nat → ρ → Bytes → Nat → LoopRes ρ
  | 0, s, acc, _ => ⟨s, acc, .hang, []⟩
  | fuel + 1, s, acc, cap =>
    let n := cap - acc.length
    let r := R.read s n
    let e := Ev.read n r.2.1.length r.2.2
    if n < r.2.1.length then ⟨r.1, acc, .oob, [e]⟩ else
    let acc' := acc ++ r.2.1
    match r.2.2 with
    | .eof => ⟨r.1, acc', .eof, [e]⟩
    | .fail => ⟨r.1, acc', .fail, [e]⟩
    | .more =>
      let rest := readLoop R fuel r.1 acc' (if acc'.length = cap then 2 * acc'.length else cap)
      { rest with evs := e :: rest.evs }

/-- the pool of a `Decompressor`: idle readers, readers owned by in-flight calls (with "did the
loop end without error"), creation counter -/
structure DPool (ρ : Type) where
  idle : List (Item ρ)
  busy : List (Item ρ × Bool)
  next : Nat

structure BeginRes (π : Type) where
  out : Outcome
  pool : π
  evs : List Ev
  /-- the call got past `Get` (its `defer` statement was reached): the deferred function will run -/
  armed : Bool

def loopOutcome : LoopEnd → Bytes → Outcome
  | .eof, acc => .ok acc
  | .fail, acc => .err acc
  | .hang, _ => .hang
  | .oob, _ => .panic

/-- MIRROR compress/compress.go:125-129: `cap(dst)==0 → make([]byte,0,2*len(src))`, else `dst[:0]` -/
def decCap (dstCap : Nat) (src : Bytes) : Nat := if dstCap = 0 then 2 * src.length else dstCap

/-- MIRROR compress/compress.go:99-147 without the deferred function: `readers.Get(new, reset)`
then the read loop.  A constructor/Reset error is `panic(err)`; nothing recovers it ("Will be
caught below" is not true of the code): the call panics, and a reader that had been taken from
the pool is lost.  On `hang` the call never returns: the reader stays owned forever. -/
def decBegin {ρ} (R : ReaderImpl ρ) (fuel : Nat) (d : DPool ρ) (pick : Option Nat) (dstCap : Nat)
    (src : Bytes) : BeginRes (DPool ρ) :=
  match take d.idle pick with
  | (none, _) =>
    match R.new src with
    | none => ⟨.panic, d, [.newFail], false⟩
    | some s =>
      let l := readLoop R fuel s [] (decCap dstCap src)
      ⟨loopOutcome l.fin l.acc,
       { d with busy := (⟨d.next, l.st⟩, decide (l.fin = .eof)) :: d.busy, next := d.next + 1 },
       .getNew d.next :: l.evs, true⟩
  | (some it, idle) =>
    match R.reset it.st (some src) with
    | none => ⟨.panic, { d with idle := idle }, [.resetFail it.id], false⟩
    | some s =>
      let l := readLoop R fuel s [] (decCap dstCap src)
      ⟨loopOutcome l.fin l.acc,
       { d with idle := idle, busy := (⟨it.id, l.st⟩, decide (l.fin = .eof)) :: d.busy },
       .getReuse it.id :: l.evs, true⟩

/-- the code as it is, or the proposed repair (a reader whose decode failed is not reused) -/
inductive Policy
  | asIs | dropFailed
  deriving DecidableEq

/-- MIRROR compress/compress.go:118-123, the deferred function of `Decompressor.Decode` run by
the `k`-th in-flight call: `Reset(nil)`; `Put` only if that returned no error.
(`Policy.dropFailed` is the repair: additionally requires that the decode returned no error.) -/
def decEnd {ρ} (R : ReaderImpl ρ) (pol : Policy) (d : DPool ρ) (k : Nat) : DPool ρ × List Ev :=
  match d.busy[k]? with
  | none => (d, [])
  | some (it, succeeded) =>
    let busy := d.busy.eraseIdx k
    match R.reset it.st none with
    | none => ({ d with busy := busy }, [.resetNil false, .drop it.id])
    | some s =>
      if pol = .dropFailed ∧ succeeded = false then
        ({ d with busy := busy }, [.resetNil true, .drop it.id])
      else
        ({ d with busy := busy, idle := ⟨it.id, s⟩ :: d.idle }, [.resetNil true, .put it.id])

/-! ## Compressor (compress/compress.go:49-88) -/

/-- third-party `compress.Writer`; the sink it writes to is tracked by the pool model -/
structure WriterImpl (ω : Type) where
  /-- `newWriter(&w.output)`; `none` = the constructor returns an error -/
  new   : Option ω
  /-- `Reset(io.Writer)` -/
  reset : ω → ω
  /-- `Write(src)`: new state, bytes emitted into the sink, no error -/
  write : ω → Bytes → ω × Bytes × Bool
  /-- `Close()` -/
  close : ω → ω × Bytes × Bool

/-- what `w.output` wraps / what the third-party writer is attached to -/
inductive Sink
  | callerDst   -- `bytes.NewBuffer(dst[:0])`: the caller's buffer
  | detached    -- `bytes.NewBuffer(nil)` and `Reset(io.Discard)`
  deriving DecidableEq

structure WItem (ω : Type) where
  id : Nat
  st : ω
  sink : Sink
  deriving DecidableEq

structure CPool (ω : Type) where
  idle : List (WItem ω)
  busy : List (WItem ω)
  next : Nat

def takeW {ω} (idle : List (WItem ω)) (pick : Option Nat) : Option (WItem ω) × List (WItem ω) :=
  match pick with
  | none => (none, idle)
  | some i =>
    match idle.find? (fun it => it.id == i) with
    | some it => (some it, idle.filter (fun it => it.id != i))
    | none => (none, idle)

/-- `Write(src)` then `Close()` as in compress/compress.go:81-87 -/
def writeClose {ω} (W : WriterImpl ω) (s : ω) (src : Bytes) : ω × Outcome × List Ev :=
  let w := W.write s src
  if w.2.2 = false then (w.1, .err w.2.1, [.write src.length false]) else
  let c := W.close w.1
  if c.2.2 = false then (c.1, .err (w.2.1 ++ c.2.1), [.write src.length true, .close false])
  else (c.1, .ok (w.2.1 ++ c.2.1), [.write src.length true, .close true])

/-- MIRROR compress/compress.go:58-87 without the deferred function.  `w.output =
*bytes.NewBuffer(dst[:0])`: the output is whatever the writer emits, independent of the
contents and capacity of `dst` (bytes.Buffer grows as needed); `dstCap` is kept for the trace. -/
def encBegin {ω} (W : WriterImpl ω) (c : CPool ω) (pick : Option Nat) (_dstCap : Nat) (src : Bytes) :
    BeginRes (CPool ω) :=
  match takeW c.idle pick with
  | (none, _) =>
    match W.new with
    | none => ⟨.panic, c, [.newFail], false⟩
    | some s =>
      let r := writeClose W s src
      ⟨r.2.1, { c with busy := ⟨c.next, r.1, .callerDst⟩ :: c.busy, next := c.next + 1 },
       .getNew c.next :: r.2.2, true⟩
  | (some it, idle) =>
    let r := writeClose W (W.reset it.st) src
    ⟨r.2.1, { c with idle := idle, busy := ⟨it.id, r.1, .callerDst⟩ :: c.busy },
     .getReuse it.id :: r.2.2, true⟩

/-- MIRROR compress/compress.go:75-79, the deferred function of `Compressor.Encode`:
`w.output = *bytes.NewBuffer(nil); w.writer.Reset(io.Discard); c.writers.Put(w)` -/
def encEnd {ω} (W : WriterImpl ω) (c : CPool ω) (k : Nat) : CPool ω × List Ev :=
  match c.busy[k]? with
  | none => (c, [])
  | some it =>
    ({ c with busy := c.busy.eraseIdx k, idle := ⟨it.id, W.reset it.st, .detached⟩ :: c.idle },
     [.resetDiscard, .put it.id])

/-! ## One pooled codec value (gzip.Codec, brotli.Codec: a Compressor and a Decompressor) -/

structure Codec (ω ρ : Type) where
  W : WriterImpl ω
  R : ReaderImpl ρ
  pol : Policy
  fuel : Nat

structure CState (ω ρ : Type) where
  c : CPool ω
  d : DPool ρ

def CState.init {ω ρ} : CState ω ρ := ⟨⟨[], [], 0⟩, ⟨[], [], 0⟩⟩

/-- events of a history on one codec value; `encode`/`decode` are whole sequential calls -/
inductive Call
  | encBegin (pick : Option Nat) (dstCap : Nat) (src : Bytes)
  | encEnd (k : Nat)
  | decBegin (pick : Option Nat) (dstCap : Nat) (src : Bytes)
  | decEnd (k : Nat)
  | encode (pick : Option Nat) (dstCap : Nat) (src : Bytes)
  | decode (pick : Option Nat) (dstCap : Nat) (src : Bytes)

structure StepRes (ω ρ : Type) where
  st : CState ω ρ
  out : Option Outcome    -- `…End` events return nothing
  evs : List Ev

def step {ω ρ} (C : Codec ω ρ) (s : CState ω ρ) : Call → StepRes ω ρ
  | .encBegin p dc src =>
    let r := encBegin C.W s.c p dc src
    ⟨{ s with c := r.pool }, some r.out, r.evs⟩
  | .encEnd k =>
    let r := encEnd C.W s.c k
    ⟨{ s with c := r.1 }, none, r.2⟩
  | .decBegin p dc src =>
    let r := decBegin C.R C.fuel s.d p dc src
    ⟨{ s with d := r.pool }, some r.out, r.evs⟩
  | .decEnd k =>
    let r := decEnd C.R C.pol s.d k
    ⟨{ s with d := r.1 }, none, r.2⟩
  | .encode p dc src =>
    let r := encBegin C.W s.c p dc src
    -- the deferred function runs iff `w` was assigned (no panic inside Get)
    if r.armed = false then ⟨{ s with c := r.pool }, some r.out, r.evs⟩ else
    let e := encEnd C.W r.pool 0
    ⟨{ s with c := e.1 }, some r.out, r.evs ++ e.2⟩
  | .decode p dc src =>
    let r := decBegin C.R C.fuel s.d p dc src
    -- no deferred function if Get panicked; a call that hangs never reaches it
    if r.armed = false ∨ r.out = .hang then ⟨{ s with d := r.pool }, some r.out, r.evs⟩ else
    let e := decEnd C.R C.pol r.pool 0
    ⟨{ s with d := e.1 }, some r.out, r.evs ++ e.2⟩

def run {ω ρ} (C : Codec ω ρ) (s : CState ω ρ) : List Call → CState ω ρ
  | [] => s
  | c :: cs => run C (step C s c).st cs

/-- outcomes and events of every call of a history (driver, witnesses) -/
def trace {ω ρ} (C : Codec ω ρ) (s : CState ω ρ) : List Call → List (Option Outcome × List Ev)
  | [] => []
  | c :: cs => let r := step C s c; (r.out, r.evs) :: trace C r.st cs

/-! ## Contracts of the third-party streams (ASSUMED) -/

/-- writer: the constructor succeeds; Reset gives a fresh writer; a fresh writer emits `enc x` -/
structure WriterContract {ω} (W : WriterImpl ω) (enc : Bytes → Bytes) : Prop where
  new_ok : ∃ s0, W.new = some s0
  reset_fresh : ∀ s s0, W.new = some s0 → W.reset s = s0
  fresh_encodes : ∀ s0 x, W.new = some s0 →
    (W.write s0 x).2.2 = true ∧ (W.close (W.write s0 x).1).2.2 = true ∧
    (W.write s0 x).2.1 ++ (W.close (W.write s0 x).1).2.1 = enc x

/-- reader, everything except Reset: a state determines the bytes still to deliver (`pending`)
and whether the stream then ends with io.EOF (`clean`); a Read delivers at most `len(p)` bytes,
and with `len(p) > 0` gets closer to the end (`steps`); a fresh reader on `enc x` delivers `x`
and ends cleanly; `enc x` is never empty. -/
structure ReaderBase {ρ} (R : ReaderImpl ρ) (enc : Bytes → Bytes) where
  pending : ρ → Bytes
  clean : ρ → Bool
  steps : ρ → Nat
  read_len : ∀ s n, (R.read s n).2.1.length ≤ n
  read_more : ∀ s n, (R.read s n).2.2 = .more →
    pending s = (R.read s n).2.1 ++ pending (R.read s n).1 ∧ clean (R.read s n).1 = clean s ∧
    (0 < n → steps (R.read s n).1 < steps s)
  read_eof : ∀ s n, (R.read s n).2.2 = .eof → pending s = (R.read s n).2.1 ∧ clean s = true
  read_fail : ∀ s n, (R.read s n).2.2 = .fail → clean s = false
  new_enc : ∀ x, ∃ s, R.new (enc x) = some s ∧ pending s = x ∧ clean s = true
  enc_nonempty : ∀ x, enc x ≠ []

/-- STRONG Reset contract (what compress.go relies on): after `Reset(src)` the reader is a fresh
reader on `src`, whatever it did before. -/
def StrongReset {ρ} (R : ReaderImpl ρ) : Prop := ∀ s src, R.reset s (some src) = R.new src

/-- WEAK Reset contract (what andybalholm/brotli v1.1.1 provides): Reset gives a fresh reader
only from `resettable` states; a reader that reached io.EOF is resettable, `Reset(nil)` keeps
that. Nothing is promised after a decode that ended in an error. -/
structure WeakReset {ρ} (R : ReaderImpl ρ) where
  resettable : ρ → Bool
  reset_fresh_of : ∀ s src, resettable s = true → R.reset s (some src) = R.new src
  reset_nil : ∀ s s', resettable s = true → R.reset s none = some s' → resettable s' = true
  eof_resettable : ∀ s n, (R.read s n).2.2 = .eof → resettable (R.read s n).1 = true

/-! ## The read loop collects exactly what the reader delivers -/

theorem readLoop_clean {ρ} {R : ReaderImpl ρ} {enc} (B : ReaderBase R enc) :
    ∀ (fuel : Nat) (s : ρ) (acc : Bytes) (cap : Nat),
      B.clean s = true → acc.length < cap → B.steps s < fuel →
      (readLoop R fuel s acc cap).fin = .eof ∧
      (readLoop R fuel s acc cap).acc = acc ++ B.pending s := by
  intro fuel
  induction fuel with
  | zero => intro s acc cap _ _ h; omega
  | succ fuel ih =>
    intro s acc cap hc hcap hf
    have hlen := B.read_len s (cap - acc.length)
    simp only [readLoop]
    split
    · omega
    · split
      · rename_i hst
        have := B.read_eof s _ hst
        simp [this.1]
      · rename_i hst
        have := B.read_fail s _ hst
        simp [hc] at this
      · rename_i hst
        have hm := B.read_more s _ hst
        have hpos : 0 < cap - acc.length := by omega
        have h1 := hm.2.2 hpos
        have hc' : B.clean (R.read s (cap - acc.length)).1 = true := by rw [hm.2.1]; exact hc
        have hcap' : (acc ++ (R.read s (cap - acc.length)).2.1).length <
            (if (acc ++ (R.read s (cap - acc.length)).2.1).length = cap
              then 2 * (acc ++ (R.read s (cap - acc.length)).2.1).length else cap) := by
          simp only [List.length_append] at *
          split <;> omega
        have := ih (R.read s (cap - acc.length)).1 (acc ++ (R.read s (cap - acc.length)).2.1) _
          hc' hcap' (by omega)
        simp only [this.1, this.2, hm.1, List.append_assoc, and_self]

/-- a decode loop that ends with io.EOF leaves a resettable reader (weak contract) -/
theorem readLoop_eof_resettable {ρ} {R : ReaderImpl ρ} (K : WeakReset R) :
    ∀ (fuel : Nat) (s : ρ) (acc : Bytes) (cap : Nat),
      (readLoop R fuel s acc cap).fin = .eof → K.resettable (readLoop R fuel s acc cap).st = true := by
  intro fuel
  induction fuel with
  | zero => intro s acc cap h; simp [readLoop] at h
  | succ fuel ih =>
    intro s acc cap
    simp only [readLoop]
    split
    · intro h; simp at h
    · split
      · rename_i hst; intro _; exact K.eof_resettable s _ hst
      · intro h; simp at h
      · intro h; exact ih _ _ _ h

/-! ## zstd (compress/zstd/zstd.go:56-91): pools without any reset -/

/-- third-party `zstd.Encoder.EncodeAll` / `zstd.Decoder.DecodeAll` on pooled objects -/
structure ZstdImpl (ε δ : Type) where
  newE : ε
  newD : δ
  encodeAll : ε → Bytes → ε × Bytes
  decodeAll : δ → Bytes → δ × Option Bytes   -- `none` = error

structure ZPool (ε δ : Type) where
  encs : List ε
  decs : List δ

def pickIdx {σ} (l : List σ) (pick : Option Nat) : Option σ × List σ :=
  match pick with
  | none => (none, l)
  | some i => match l[i]? with
    | some s => (some s, l.eraseIdx i)
    | none => (none, l)

/-- MIRROR compress/zstd/zstd.go:56-74: `encoders.Get(new, func(e){})`, `defer Put`,
`EncodeAll(src, dst[:0])` (append to the empty prefix of dst: content independent of dst) -/
def zEncode {ε δ} (Z : ZstdImpl ε δ) (p : ZPool ε δ) (pick : Option Nat) (src : Bytes) :
    Bytes × ZPool ε δ :=
  let g := pickIdx p.encs pick
  let e := g.1.getD Z.newE
  let r := Z.encodeAll e src
  (r.2, { p with encs := r.1 :: g.2 })

/-- MIRROR compress/zstd/zstd.go:76-91: the decoder is put back whatever `DecodeAll` returned -/
def zDecode {ε δ} (Z : ZstdImpl ε δ) (p : ZPool ε δ) (pick : Option Nat) (src : Bytes) :
    Option Bytes × ZPool ε δ :=
  let g := pickIdx p.decs pick
  let d := g.1.getD Z.newD
  let r := Z.decodeAll d src
  (r.2, { p with decs := r.1 :: g.2 })

inductive ZCall
  | enc (pick : Option Nat) (src : Bytes)
  | dec (pick : Option Nat) (src : Bytes)

def zRun {ε δ} (Z : ZstdImpl ε δ) (p : ZPool ε δ) : List ZCall → ZPool ε δ
  | [] => p
  | .enc k src :: cs => zRun Z (zEncode Z p k src).2 cs
  | .dec k src :: cs => zRun Z (zDecode Z p k src).2 cs

/-- ASSUMED: `EncodeAll`/`DecodeAll` are self-contained whatever the objects did before
(there is no Reset in zstd.go to lean on) -/
def ZstdContract {ε δ} (Z : ZstdImpl ε δ) : Prop :=
  ∀ e d x, (Z.decodeAll d (Z.encodeAll e x).2).2 = some x

/-! ## lz4 (compress/lz4/lz4.go:58-87): grow and retry -/

/-- MIRROR compress/lz4/lz4.go:80-87 `reserveAtLeast`: resulting `len(b)` -/
def reserveAtLeast (cap n : Nat) : Nat := if cap < n then n else cap

inductive BlockErr
  | short       -- destination buffer too short
  | malformed   -- the source is not a valid block
  deriving DecidableEq

/-- third-party `lz4.UncompressBlock(src, dst)` with `len(dst) = n`.  The error kind is what
the decoder could know; pierrec/lz4 v4 reports a single `ErrInvalidSourceShortBuffer`, so the
MIRROR below never looks at it. -/
structure Lz4Impl where
  ub : Bytes → Nat → Except BlockErr Bytes

/-- MIRROR compress/lz4/lz4.go:64-77 the `for` loop: any error doubles `dst`.
Result: decoded bytes and the final `len(dst)`; `none` = out of fuel. -/
def lz4Loop (L : Lz4Impl) (src : Bytes) : Nat → Nat → Option (Bytes × Nat)
  | 0, _ => none
  | fuel + 1, len =>
    match L.ub src len with
    | .ok out => some (out, len)
    | .error _ => lz4Loop L src fuel (2 * len)

/-- MIRROR compress/lz4/lz4.go:58-78 `Codec.Decode`: `dst = reserveAtLeast(dst, 3*len(src))` -/
def lz4Decode (L : Lz4Impl) (fuel dstCap : Nat) (src : Bytes) : Option (Bytes × Nat) :=
  lz4Loop L src fuel (reserveAtLeast dstCap (3 * src.length))

/-- SPEC (repair): retry only when the block decoder says the destination is too short -/
def lz4LoopStrict (L : Lz4Impl) (src : Bytes) : Nat → Nat → Option (Except BlockErr Bytes × Nat)
  | 0, _ => none
  | fuel + 1, len =>
    match L.ub src len with
    | .ok out => some (.ok out, len)
    | .error .malformed => some (.error .malformed, len)
    | .error .short => lz4LoopStrict L src fuel (2 * len)

/-- ASSUMED about the block format: `enc x` decodes to `x` exactly when the destination has at
least `need x` bytes, and is otherwise reported as too short -/
structure Lz4Contract (L : Lz4Impl) (enc : Bytes → Bytes) (need : Bytes → Nat) : Prop where
  fits : ∀ x n, need x ≤ n → L.ub (enc x) n = .ok x
  short : ∀ x n, n < need x → L.ub (enc x) n = .error .short

/-- the loop returns after exactly `k` doublings when `k` is the first exponent that fits -/
theorem lz4Loop_valid {L enc need} (h : Lz4Contract L enc need) (x : Bytes) :
    ∀ (k len : Nat), need x ≤ len * 2 ^ k → (∀ j, j < k → len * 2 ^ j < need x) →
      lz4Loop L (enc x) (k + 1) len = some (x, len * 2 ^ k) ∧
      lz4Loop L (enc x) k len = none := by
  intro k
  induction k with
  | zero =>
    intro len h1 _
    simp only [Nat.pow_zero, Nat.mul_one] at h1
    simp [lz4Loop, h.fits x len h1]
  | succ k ih =>
    intro len h1 h2
    have h0 : len < need x := by simpa using h2 0 (by omega)
    have hk : need x ≤ 2 * len * 2 ^ k := by
      have : len * 2 ^ (k + 1) = 2 * len * 2 ^ k := by rw [Nat.pow_succ]; ac_rfl
      omega
    have hj : ∀ j, j < k → 2 * len * 2 ^ j < need x := by
      intro j hj
      have := h2 (j + 1) (by omega)
      have e : len * 2 ^ (j + 1) = 2 * len * 2 ^ j := by rw [Nat.pow_succ]; ac_rfl
      omega
    have := ih (2 * len) hk hj
    have e : len * 2 ^ (k + 1) = 2 * len * 2 ^ k := by rw [Nat.pow_succ]; ac_rfl
    constructor
    · rw [lz4Loop, h.short x len h0]; simp only; rw [this.1, e]
    · rw [lz4Loop, h.short x len h0]; simp only; exact this.2

/-- the doubling loop on an input every size rejects: never returns, and the buffer it asks
for after `k` rounds is `len * 2^k` -/
theorem lz4Loop_rejecting (L : Lz4Impl) (src : Bytes) (hbad : ∀ n, ∃ e, L.ub src n = .error e) :
    ∀ fuel len, lz4Loop L src fuel len = none := by
  intro fuel
  induction fuel with
  | zero => intro len; rfl
  | succ fuel ih =>
    intro len
    obtain ⟨e, he⟩ := hbad len
    rw [lz4Loop, he]; exact ih _

/-- strict loop: at most `k+1` rounds for every source once `short` is never reported for
buffers of `bound` bytes or more -/
theorem lz4LoopStrict_terminates (L : Lz4Impl) (src : Bytes) (bound : Nat)
    (hb : ∀ n, bound ≤ n → L.ub src n ≠ .error .short) :
    ∀ (k len : Nat), bound ≤ len * 2 ^ k → (lz4LoopStrict L src (k + 1) len).isSome = true := by
  intro k
  induction k with
  | zero =>
    intro len h1
    simp only [Nat.pow_zero, Nat.mul_one] at h1
    have := hb len h1
    rw [lz4LoopStrict]
    split <;> simp_all
  | succ k ih =>
    intro len h1
    have e : len * 2 ^ (k + 1) = 2 * len * 2 ^ k := by rw [Nat.pow_succ]; ac_rfl
    rw [lz4LoopStrict]
    split
    · simp
    · simp
    · exact ih (2 * len) (by omega)

/-! ## A concrete toy stream family (witnesses, non-vacuity, and the L2 instrumented stream)

Format: magic `0xA7`, then `01 b` for every byte `b`, then `00`.  The reader can be made
gzip-like (`headerInCtor`: constructor and Reset validate the magic and return an error) and
brotli-like (`keepStale`: input left over by "excessive input" survives Reset unless the last
error was a hard one; exactly andybalholm/brotli reader.go:33-46, which clears `r.in` only when
`error_code < 0`). -/

structure ToyCfg where
  headerInCtor : Bool
  keepStale : Bool
  nilFailsAfterHard : Bool   -- `Reset(nil)` returns an error after a hard decode error
  chunk : Nat                -- a Read delivers at most `chunk + 1` bytes
  eofWithData : Bool         -- the final status comes together with the last bytes
  failWriteOn : Option UInt8 -- writer: `Write` fails on a src starting with this byte
  failCloseOn : Option UInt8 -- writer: `Close` fails after a src starting with this byte

inductive ToyEnd
  | clean | truncated | hard | excess
  deriving DecidableEq

def toyMagic : UInt8 := 0xA7

def toyEnc (x : Bytes) : Bytes := toyMagic :: (x.flatMap (fun b => [1, b]) ++ [0])

/-- decoded bytes, how the stream ends, unconsumed input -/
def toyBody : Bytes → Bytes × ToyEnd × Bytes
  | [] => ([], .truncated, [])
  | t :: rest =>
    if t = 0 then (if rest = [] then ([], .clean, []) else ([], .excess, rest))
    else if t = 1 then
      match rest with
      | [] => ([], .truncated, [])
      | b :: rest' => let r := toyBody rest'; (b :: r.1, r.2.1, r.2.2)
    else ([], .hard, [])

structure ToyR where
  todo : Bytes
  fin : ToyEnd
  stale : Bytes
  deriving DecidableEq

def toyOpen (cfg : ToyCfg) : Bytes → Option ToyR
  | [] => if cfg.headerInCtor then none else some ⟨[], .truncated, []⟩
  | m :: body =>
    if m = toyMagic then let r := toyBody body; some ⟨r.1, r.2.1, r.2.2⟩
    else if cfg.headerInCtor then none else some ⟨[], .hard, []⟩

def toyCarry (cfg : ToyCfg) (s : ToyR) : Bytes :=
  if cfg.keepStale ∧ s.fin = .excess then s.stale else []

def toyReader (cfg : ToyCfg) : ReaderImpl ToyR where
  new := toyOpen cfg
  reset := fun s src? =>
    match src? with
    | some src => toyOpen cfg (toyCarry cfg s ++ src)
    | none =>
      if cfg.nilFailsAfterHard ∧ s.fin = .hard then none
      else some ⟨[], if toyCarry cfg s = [] then .clean else .excess, toyCarry cfg s⟩
  read := fun s n =>
    let k := min n (cfg.chunk + 1)
    if s.todo.length ≤ k ∧ (cfg.eofWithData = true ∨ s.todo = []) then
      (⟨[], s.fin, s.stale⟩, s.todo, if s.fin = .clean then .eof else .fail)
    else (⟨s.todo.drop k, s.fin, s.stale⟩, s.todo.take k, .more)

/-- toy writer state: bytes of the header not yet emitted / the first byte of what was written -/
structure ToyW where
  first : Option UInt8

def toyWriter (cfg : ToyCfg) : WriterImpl ToyW where
  new := some ⟨none⟩
  reset := fun _ => ⟨none⟩
  write := fun _ src =>
    if src.head? ≠ none ∧ src.head? = cfg.failWriteOn then (⟨src.head?⟩, [toyMagic], false)
    else (⟨src.head?⟩, toyMagic :: src.flatMap (fun b => [1, b]), true)
  close := fun s =>
    if s.first ≠ none ∧ s.first = cfg.failCloseOn then (s, [], false) else (s, [0], true)

def toyCodec (cfg : ToyCfg) (pol : Policy) (fuel : Nat) : Codec ToyW ToyR :=
  ⟨toyWriter cfg, toyReader cfg, pol, fuel⟩

theorem toyBody_enc (x : Bytes) : toyBody (x.flatMap (fun b => [1, b]) ++ [0]) = (x, .clean, []) := by
  induction x with
  | nil => simp [toyBody]
  | cons b x ih =>
    simp only [List.flatMap_cons, List.cons_append, List.nil_append, toyBody]
    simp [ih]

theorem toyOpen_enc (cfg : ToyCfg) (x : Bytes) : toyOpen cfg (toyEnc x) = some ⟨x, .clean, []⟩ := by
  simp [toyOpen, toyEnc, toyBody_enc]

def toyBase (cfg : ToyCfg) : ReaderBase (toyReader cfg) toyEnc where
  pending := fun s => s.todo
  clean := fun s => decide (s.fin = .clean)
  steps := fun s => s.todo.length
  read_len := by
    intro s n
    simp only [toyReader]
    split
    · rename_i h; have := h.1; show s.todo.length ≤ n; omega
    · show (s.todo.take _).length ≤ n; simp only [List.length_take]; omega
  read_more := by
    intro s n
    simp only [toyReader]
    split
    · split <;> simp
    · rename_i h
      intro _
      refine ⟨by simp, rfl, ?_⟩
      intro hn
      simp only [List.length_drop]
      have : s.todo ≠ [] := by
        intro h0; apply h; simp [h0]
      have : 0 < s.todo.length := List.length_pos_iff.mpr this
      omega
  read_eof := by
    intro s n
    simp only [toyReader]
    split
    · split <;> simp_all
    · simp
  read_fail := by
    intro s n
    simp only [toyReader]
    split
    · split <;> simp_all
    · simp
  new_enc := by
    intro x
    exact ⟨⟨x, .clean, []⟩, toyOpen_enc cfg x, rfl, by simp⟩
  enc_nonempty := by intro x; simp [toyEnc]

theorem toyStrong (cfg : ToyCfg) (h : cfg.keepStale = false) : StrongReset (toyReader cfg) := by
  intro s src
  simp [toyReader, toyCarry, h]

theorem toyWriterContract (cfg : ToyCfg) (h1 : cfg.failWriteOn = none) (h2 : cfg.failCloseOn = none) :
    WriterContract (toyWriter cfg) toyEnc where
  new_ok := ⟨⟨none⟩, rfl⟩
  reset_fresh := by intro s s0 h; simp [toyWriter] at h; simp [toyWriter, h]
  fresh_encodes := by
    intro s0 x _
    simp [toyWriter, h1, h2, toyEnc]

/-! ## Lemmas used by Props/C20 -/

theorem take_some {σ} {idle : List (Item σ)} {pick it idle'} (h : take idle pick = (some it, idle')) :
    it ∈ idle ∧ ∀ j, j ∈ idle' → j ∈ idle := by
  unfold take at h
  split at h
  · simp at h
  · split at h
    · rename_i hf
      simp only [Prod.mk.injEq, Option.some.injEq] at h
      obtain ⟨rfl, rfl⟩ := h
      exact ⟨List.mem_of_find?_eq_some hf, fun j hj => (List.mem_filter.mp hj).1⟩
    · simp at h

theorem take_none {σ} {idle : List (Item σ)} {pick idle'} (h : take idle pick = (none, idle')) :
    idle' = idle := by
  unfold take at h
  split at h
  · simp at h; exact h.symm
  · split at h
    · simp at h
    · simp at h; exact h.symm

theorem takeW_some {ω} {idle : List (WItem ω)} {pick it idle'} (h : takeW idle pick = (some it, idle')) :
    it ∈ idle ∧ ∀ j, j ∈ idle' → j ∈ idle := by
  unfold takeW at h
  split at h
  · simp at h
  · split at h
    · rename_i hf
      simp only [Prod.mk.injEq, Option.some.injEq] at h
      obtain ⟨rfl, rfl⟩ := h
      exact ⟨List.mem_of_find?_eq_some hf, fun j hj => (List.mem_filter.mp hj).1⟩
    · simp at h

theorem writeClose_fresh {ω} {W : WriterImpl ω} {enc} (h : WriterContract W enc) (s0 : ω)
    (h0 : W.new = some s0) (x : Bytes) : (writeClose W s0 x).2.1 = .ok (enc x) := by
  have := h.fresh_encodes s0 x h0
  simp [writeClose, this.1, this.2.1, this.2.2]

/-- whatever the pool holds and hands out, `Compressor.Encode` returns the fresh encoding -/
theorem encBegin_ok {ω} {W : WriterImpl ω} {enc} (h : WriterContract W enc) (c : CPool ω)
    (pick : Option Nat) (dc : Nat) (x : Bytes) : (encBegin W c pick dc x).out = .ok (enc x) := by
  obtain ⟨s0, h0⟩ := h.new_ok
  unfold encBegin
  split
  · simp only [h0]; exact writeClose_fresh h s0 h0 x
  · rename_i it idle _
    simp only [h.reset_fresh it.st s0 h0]; exact writeClose_fresh h s0 h0 x

theorem decCap_pos {enc : Bytes → Bytes} (hne : ∀ x, enc x ≠ []) (dc : Nat) (x : Bytes) :
    0 < decCap dc (enc x) := by
  unfold decCap
  split
  · have : 0 < (enc x).length := List.length_pos_iff.mpr (hne x)
    omega
  · omega

/-- strong Reset contract: whatever the pool holds and hands out, decoding `enc x` gives `x` -/
theorem decBegin_ok_strong {ρ} {R : ReaderImpl ρ} {enc} (B : ReaderBase R enc) (hS : StrongReset R)
    (fuel : Nat) (x : Bytes) (hf : ∀ s0, R.new (enc x) = some s0 → B.steps s0 < fuel)
    (d : DPool ρ) (pick : Option Nat) (dc : Nat) :
    (decBegin R fuel d pick dc (enc x)).out = .ok x := by
  obtain ⟨s0, h0, hp, hc⟩ := B.new_enc x
  have hl := readLoop_clean B fuel s0 [] (decCap dc (enc x)) hc
    (by simpa using decCap_pos B.enc_nonempty dc x) (hf s0 h0)
  unfold decBegin
  split
  · simp only [h0, hl.1, hl.2, hp, loopOutcome, List.nil_append]
  · rename_i it idle _
    simp only [hS it.st (enc x), h0, hl.1, hl.2, hp, loopOutcome, List.nil_append]

/-- invariant of the repaired pool under the weak contract -/
def DInv {ρ} {R : ReaderImpl ρ} (K : WeakReset R) (d : DPool ρ) : Prop :=
  (∀ it, it ∈ d.idle → K.resettable it.st = true) ∧
  (∀ p, p ∈ d.busy → p.2 = true → K.resettable p.1.st = true)

theorem decBegin_ok_weak {ρ} {R : ReaderImpl ρ} {enc} (B : ReaderBase R enc) (K : WeakReset R)
    (fuel : Nat) (x : Bytes) (hf : ∀ s0, R.new (enc x) = some s0 → B.steps s0 < fuel)
    (d : DPool ρ) (hd : DInv K d) (pick : Option Nat) (dc : Nat) :
    (decBegin R fuel d pick dc (enc x)).out = .ok x := by
  obtain ⟨s0, h0, hp, hc⟩ := B.new_enc x
  have hl := readLoop_clean B fuel s0 [] (decCap dc (enc x)) hc
    (by simpa using decCap_pos B.enc_nonempty dc x) (hf s0 h0)
  unfold decBegin
  split
  · simp only [h0, hl.1, hl.2, hp, loopOutcome, List.nil_append]
  · rename_i it idle ht
    have hr := K.reset_fresh_of it.st (enc x) (hd.1 it (take_some ht).1)
    simp only [hr, h0, hl.1, hl.2, hp, loopOutcome, List.nil_append]

theorem decBegin_inv {ρ} {R : ReaderImpl ρ} (K : WeakReset R) (fuel : Nat) (d : DPool ρ)
    (hd : DInv K d) (pick : Option Nat) (dc : Nat) (src : Bytes) :
    DInv K (decBegin R fuel d pick dc src).pool := by
  unfold decBegin
  split
  · split
    · exact hd
    · refine ⟨hd.1, ?_⟩
      intro p hp ht
      simp only [List.mem_cons] at hp
      rcases hp with rfl | hp
      · simp only [decide_eq_true_eq] at ht
        exact readLoop_eof_resettable K _ _ _ _ ht
      · exact hd.2 p hp ht
  · rename_i it idle htk
    have hsub := (take_some htk).2
    split
    · exact ⟨fun j hj => hd.1 j (hsub j hj), hd.2⟩
    · refine ⟨fun j hj => hd.1 j (hsub j hj), ?_⟩
      intro p hp ht
      simp only [List.mem_cons] at hp
      rcases hp with rfl | hp
      · simp only [decide_eq_true_eq] at ht
        exact readLoop_eof_resettable K _ _ _ _ ht
      · exact hd.2 p hp ht

theorem decEnd_inv {ρ} {R : ReaderImpl ρ} (K : WeakReset R) (d : DPool ρ) (hd : DInv K d) (k : Nat) :
    DInv K (decEnd R .dropFailed d k).1 := by
  unfold decEnd
  split
  · exact hd
  · rename_i it succeeded hk
    have hmem : (it, succeeded) ∈ d.busy := List.mem_of_getElem? hk
    have hb : ∀ p, p ∈ d.busy.eraseIdx k → p ∈ d.busy := fun p hp => List.mem_of_mem_eraseIdx hp
    split
    · exact ⟨hd.1, fun p hp => hd.2 p (hb p hp)⟩
    · rename_i s hs
      split
      · exact ⟨hd.1, fun p hp => hd.2 p (hb p hp)⟩
      · rename_i hne
        have hsucc : succeeded = true := by
          cases succeeded
          · exact absurd ⟨rfl, rfl⟩ hne
          · rfl
        refine ⟨?_, fun p hp => hd.2 p (hb p hp)⟩
        intro j hj
        simp only [List.mem_cons] at hj
        rcases hj with rfl | hj
        · exact K.reset_nil it.st s (hd.2 _ hmem hsucc) hs
        · exact hd.1 j hj

theorem step_inv {ω ρ} (C : Codec ω ρ) (hp : C.pol = .dropFailed) (K : WeakReset C.R)
    (s : CState ω ρ) (hd : DInv K s.d) (c : Call) : DInv K (step C s c).st.d := by
  cases c with
  | encBegin p dc src => exact hd
  | encEnd k => exact hd
  | decBegin p dc src => exact decBegin_inv K C.fuel s.d hd p dc src
  | decEnd k => simp only [step, hp]; exact decEnd_inv K s.d hd k
  | encode p dc src => simp only [step]; split <;> exact hd
  | decode p dc src =>
    simp only [step, hp]
    split
    · exact decBegin_inv K C.fuel s.d hd p dc src
    · exact decEnd_inv K _ (decBegin_inv K C.fuel s.d hd p dc src) 0

theorem run_inv {ω ρ} (C : Codec ω ρ) (hp : C.pol = .dropFailed) (K : WeakReset C.R)
    (h : List Call) : ∀ (s : CState ω ρ), DInv K s.d → DInv K (run C s h).d := by
  induction h with
  | nil => intro s hd; exact hd
  | cons c cs ih => intro s hd; exact ih _ (step_inv C hp K s hd c)

theorem readLoop_no_oob {ρ} (R : ReaderImpl ρ) (hlen : ∀ s n, (R.read s n).2.1.length ≤ n) :
    ∀ (fuel : Nat) (s : ρ) (acc : Bytes) (cap : Nat), (readLoop R fuel s acc cap).fin ≠ .oob := by
  intro fuel
  induction fuel with
  | zero => intro s acc cap; simp [readLoop]
  | succ fuel ih =>
    intro s acc cap
    have := hlen s (cap - acc.length)
    simp only [readLoop]
    split
    · omega
    · split
      · simp
      · simp
      · exact ih _ _ _

theorem loopOutcome_ne_panic {f : LoopEnd} (h : f ≠ .oob) (acc : Bytes) :
    loopOutcome f acc ≠ .panic := by
  cases f <;> simp_all [loopOutcome]

/-- compress.go:125-147 with `cap(dst) = 0` and `len(src) = 0`: the buffer has capacity
`2*len(src) = 0`, "full" means `0 = 0`, the replacement has capacity `2*0`: a reader that still
has something to deliver is asked for 0 bytes for ever -/
theorem readLoop_stuck {ρ} (R : ReaderImpl ρ) (s : ρ) (h : R.read s 0 = (s, [], .more)) :
    ∀ fuel, (readLoop R fuel s [] 0).fin = .hang := by
  intro fuel
  induction fuel with
  | zero => rfl
  | succ fuel ih => simp [readLoop, h, ih]

/-- idle writers hold neither the caller's `dst` nor a sink other than io.Discard -/
def CInv {ω} (c : CPool ω) : Prop := ∀ it, it ∈ c.idle → it.sink = .detached

theorem encBegin_cinv {ω} (W : WriterImpl ω) (c : CPool ω) (hc : CInv c) (p : Option Nat) (dc : Nat)
    (src : Bytes) : CInv (encBegin W c p dc src).pool := by
  unfold encBegin
  split
  · split <;> exact hc
  · rename_i it idle htk
    exact fun j hj => hc j ((takeW_some htk).2 j hj)

theorem encEnd_cinv {ω} (W : WriterImpl ω) (c : CPool ω) (hc : CInv c) (k : Nat) :
    CInv (encEnd W c k).1 := by
  unfold encEnd
  split
  · exact hc
  · intro j hj
    simp only [List.mem_cons] at hj
    rcases hj with rfl | hj
    · rfl
    · exact hc j hj

theorem step_cinv {ω ρ} (C : Codec ω ρ) (s : CState ω ρ) (hc : CInv s.c) (c : Call) :
    CInv (step C s c).st.c := by
  cases c with
  | encBegin p dc src => exact encBegin_cinv C.W s.c hc p dc src
  | encEnd k => exact encEnd_cinv C.W s.c hc k
  | decBegin p dc src => exact hc
  | decEnd k => exact hc
  | encode p dc src =>
    simp only [step]
    split
    · exact encBegin_cinv C.W s.c hc p dc src
    · exact encEnd_cinv C.W _ (encBegin_cinv C.W s.c hc p dc src) 0
  | decode p dc src => simp only [step]; split <;> exact hc

theorem run_cinv {ω ρ} (C : Codec ω ρ) (h : List Call) :
    ∀ (s : CState ω ρ), CInv s.c → CInv (run C s h).c := by
  induction h with
  | nil => intro s hc; exact hc
  | cons c cs ih => intro s hc; exact ih _ (step_cinv C s hc c)

/-- enough fuel: the loop returns `x` after `j` doublings, `j` the first exponent that fits -/
theorem lz4Loop_valid_fuel {L enc need} (h : Lz4Contract L enc need) (x : Bytes) :
    ∀ (k len : Nat), need x ≤ len * 2 ^ k →
      ∃ j, j ≤ k ∧ lz4Loop L (enc x) (k + 1) len = some (x, len * 2 ^ j) ∧
        need x ≤ len * 2 ^ j ∧ (∀ i, i < j → len * 2 ^ i < need x) ∧
        lz4Loop L (enc x) j len = none := by
  intro k
  induction k with
  | zero =>
    intro len h1
    simp only [Nat.pow_zero, Nat.mul_one] at h1
    exact ⟨0, Nat.le_refl _, by simp [lz4Loop, h.fits x len h1], by simpa using h1,
      fun i hi => by omega, rfl⟩
  | succ k ih =>
    intro len h1
    by_cases hfit : need x ≤ len
    · exact ⟨0, by omega, by simp [lz4Loop, h.fits x len hfit], by simpa using hfit,
        fun i hi => by omega, rfl⟩
    · have e : len * 2 ^ (k + 1) = 2 * len * 2 ^ k := by rw [Nat.pow_succ]; ac_rfl
      obtain ⟨j, hj, hr, hn, hlt, hnone⟩ := ih (2 * len) (by omega)
      have ej : len * 2 ^ (j + 1) = 2 * len * 2 ^ j := by rw [Nat.pow_succ]; ac_rfl
      refine ⟨j + 1, by omega, ?_, by omega, ?_, ?_⟩
      · rw [lz4Loop, h.short x len (by omega)]; simp only; rw [hr, ej]
      · intro i hi
        cases i with
        | zero => simpa using Nat.lt_of_not_le hfit
        | succ i =>
          have := hlt i (by omega)
          have ei : len * 2 ^ (i + 1) = 2 * len * 2 ^ i := by rw [Nat.pow_succ]; ac_rfl
          omega
      · rw [lz4Loop, h.short x len (by omega)]; simp only; exact hnone

def toyWeak (cfg : ToyCfg) : WeakReset (toyReader cfg) where
  resettable := fun s => decide (toyCarry cfg s = [])
  reset_fresh_of := by
    intro s src h
    simp only [decide_eq_true_eq] at h
    simp [toyReader, h]
  reset_nil := by
    intro s s' h
    simp only [decide_eq_true_eq] at h
    simp only [toyReader, h]
    split
    · simp
    · intro h'
      simp only [↓reduceIte, Option.some.injEq] at h'
      subst h'
      simp [toyCarry]
  eof_resettable := by
    intro s n
    simp only [toyReader]
    split
    · split
      · rename_i hc; intro _; simp [toyCarry, hc]
      · simp
    · simp

/-- toy block format: empty for the empty input, otherwise a tag byte (0xFF = malformed) followed
by the data itself -/
def toyLz4 : Lz4Impl where
  ub := fun src n =>
    match src with
    | [] => .ok []
    | t :: p =>
      if t = 0xFF then .error .malformed
      else if p.length ≤ n then .ok p else .error .short

def toyLz4Enc (x : Bytes) : Bytes := if x = [] then [] else 0 :: x

theorem toyLz4Contract : Lz4Contract toyLz4 toyLz4Enc (fun x => x.length) where
  fits := by
    intro x n h
    cases x with
    | nil => simp [toyLz4, toyLz4Enc]
    | cons b x => simp [toyLz4, toyLz4Enc]; simpa using h
  short := by
    intro x n h
    cases x with
    | nil => simp at h
    | cons b x => simp [toyLz4, toyLz4Enc]; simpa using h

end PqModel.Codec
