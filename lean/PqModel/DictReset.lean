import PqModel.Plain

/-! # Dictionary `Reset` / reuse across row groups (property C04, part "plain", round 4)

A column writer keeps ONE dictionary object for the whole life of the writer: every row group (and,
after `Writer.Reset`, every file) ends with `writerColumn.reset` (writer.go:2102-2104), which calls
`Dictionary.Reset`, and the next row group inserts into the same object. Each dictionary type keeps
a lookup accelerator next to its page (a `hashprobe` table, a Go map, two cached indexes), and each
`Reset` has to bring BOTH back to the empty state.

* SPEC session (`specRun`): the dictionary is the list of its entries; `Reset` makes it empty;
  `Insert` is the first-occurrence insert of `Plain.insertAll`.
* MIRRORS of the Go state machines, as written, one per family:
  `ProbeDict`  int32/int64/float/double/uint32/uint64/be128 — `hashprobe` table, nil until the first
               insert, chunked `Probe` + append loop, `Reset` = `values.Reset(); table.Reset()`;
  `MapDict`    fixed-len byte array (sizes other than 16), int96 — Go map numbered by page position,
               nil until the first insert, `Reset` sets it to nil; byte array — Go map numbered by
               its own size, `Reset` deletes every key;
  `BoolDict`   boolean — two cached indexes, `Reset` sets both to -1.
* generic refinement (`run_refines`) + the invariants of each family. -/
namespace PqModel.DictReset
open PqModel.Plain

/-! ## sessions -/

/-- one call on a dictionary: `Insert` of a batch (given as the chunks the Go loop cuts it into;
    families without chunking read the concatenation) or `Reset` -/
inductive Op (α : Type) where
  | insert (chunks : List (List α))
  | reset
  deriving Repr

section Spec
variable {α : Type} [DecidableEq α]

/-- SPEC: `ensure` is what an insert guarantees to be present before looking at the batch (the
    identity, except for the boolean dictionary: `Plain.ensureBools`) -/
def specStep (ensure : List α → List α) (d : List α) : Op α → List α × List Nat
  | .insert cs => insertAll (ensure d) cs.flatten
  | .reset => ([], [])

/-- SPEC session: the final page and, per call, the indexes handed out -/
def specRun (ensure : List α → List α) (d : List α) : List (Op α) → List α × List (List Nat)
  | [] => (d, [])
  | op :: ops =>
    let r := specStep ensure d op
    let r2 := specRun ensure r.1 ops
    (r2.1, r.2 :: r2.2)

/-- a dictionary implementation: state `σ`, the two calls, and the page it would write -/
structure Machine (σ α : Type) where
  insert : σ → List (List α) → σ × List Nat
  reset : σ → σ
  values : σ → List α

def Machine.step {σ : Type} (m : Machine σ α) (s : σ) : Op α → σ × List Nat
  | .insert cs => m.insert s cs
  | .reset => (m.reset s, [])

def Machine.run {σ : Type} (m : Machine σ α) (s : σ) : List (Op α) → σ × List (List Nat)
  | [] => (s, [])
  | op :: ops =>
    let r := m.step s op
    let r2 := m.run r.1 ops
    (r2.1, r.2 :: r2.2)

/-- `m` refines the SPEC on the states satisfying `I` -/
structure Machine.Refines {σ : Type} (m : Machine σ α) (ensure : List α → List α) (I : σ → Prop) : Prop where
  insert_ok : ∀ s cs, I s →
    I (m.insert s cs).1 ∧
    m.values (m.insert s cs).1 = (insertAll (ensure (m.values s)) cs.flatten).1 ∧
    (m.insert s cs).2 = (insertAll (ensure (m.values s)) cs.flatten).2
  reset_ok : ∀ s, I s → I (m.reset s) ∧ m.values (m.reset s) = []

theorem run_refines {σ : Type} {m : Machine σ α} {ensure : List α → List α} {I : σ → Prop}
    (h : m.Refines ensure I) : ∀ (ops : List (Op α)) (s : σ), I s →
    I (m.run s ops).1 ∧
    m.values (m.run s ops).1 = (specRun ensure (m.values s) ops).1 ∧
    (m.run s ops).2 = (specRun ensure (m.values s) ops).2
  | [], s, hs => ⟨hs, rfl, rfl⟩
  | .insert cs :: ops, s, hs => by
    obtain ⟨i1, i2, i3⟩ := h.insert_ok s cs hs
    obtain ⟨r1, r2, r3⟩ := run_refines h ops (m.insert s cs).1 i1
    simp only [Machine.run, Machine.step, specRun, specStep]
    rw [← i2, ← i3]
    exact ⟨r1, r2, by rw [r3]⟩
  | .reset :: ops, s, hs => by
    obtain ⟨i1, i2⟩ := h.reset_ok s hs
    obtain ⟨r1, r2, r3⟩ := run_refines h ops (m.reset s) i1
    simp only [Machine.run, Machine.step, specRun, specStep]
    rw [i2] at r2 r3
    exact ⟨r1, r2, by rw [r3]⟩

theorem specRun_append (ensure : List α → List α) : ∀ (pre post : List (Op α)) (d : List α),
    specRun ensure d (pre ++ post) =
      ((specRun ensure (specRun ensure d pre).1 post).1,
       (specRun ensure d pre).2 ++ (specRun ensure (specRun ensure d pre).1 post).2)
  | [], _, _ => rfl
  | op :: pre, post, d => by
    simp only [List.cons_append, specRun]
    rw [specRun_append ensure pre post]

/-- the batches of a reset-free session -/
def batchesOf : List (Op α) → List α
  | [] => []
  | .insert cs :: ops => cs.flatten ++ batchesOf ops
  | .reset :: ops => batchesOf ops

def noReset : List (Op α) → Bool
  | [] => true
  | .insert _ :: ops => noReset ops
  | .reset :: _ => false

/-- a reset-free session (identity `ensure`) is one insert of the concatenated batches -/
theorem specRun_noReset : ∀ (ops : List (Op α)) (d : List α), noReset ops = true →
    (specRun id d ops).1 = (insertAll d (batchesOf ops)).1 ∧
    (specRun id d ops).2.flatten = (insertAll d (batchesOf ops)).2
  | [], d, _ => by simp [specRun, batchesOf, insertAll]
  | .insert cs :: ops, d, h => by
    simp only [noReset] at h
    obtain ⟨h1, h2⟩ := specRun_noReset ops (insertAll d cs.flatten).1 h
    simp only [specRun, specStep, batchesOf, id, List.flatten_cons]
    rw [insertAll_append cs.flatten (batchesOf ops) d, h1, h2]
    exact ⟨rfl, rfl⟩
  | .reset :: _, _, h => by simp [noReset] at h

end Spec

/-! ## family 1: hashprobe tables -/
section Probe
variable {α : Type} [DecidableEq α]

/-- the page `values` and the `table` (`none` = the nil pointer of a dictionary that has not
    inserted yet; `some keys` = the keys in the order the table numbered them) -/
structure ProbeDict (α : Type) where
  values : List α
  table : Option (List α)
  deriving Repr

/-- `newInt32Dictionary` (dictionary_int32.go:18-28): the page as read, no table -/
def probeNew (page : List α) : ProbeDict α := { values := page, table := none }

/-- MIRROR of `if d.table == nil { d.init(indexes) }` (dictionary_int32.go:42-52, :70-72): `init`
    probes the page's values in order into a fresh table -/
def probeTable (g : ProbeDict α) : List α :=
  match g.table with
  | some t => t
  | none => (insertAll ([] : List α) g.values).1

/-- MIRROR of the loop `for k, index := range indexes[i:j] { if index == int32(d.values.Len()) {
    d.values.Append(values.Index(i + k)) } }` (dictionary_int32.go:80-84) -/
def appendLoop (values : List α) : List α → List Nat → List α
  | x :: xs, i :: is => appendLoop (if i = values.length then values ++ [x] else values) xs is
  | _, _ => values

/-- MIRROR of the chunk loop of `int32Dictionary.insert` (dictionary_int32.go:76-86; the same code
    in dictionary_{int64,float,double,uint32,uint64}.go and twice in dictionary_be128.go:52-73,
    :87-105): `ProbeArray` numbers every key of the chunk (a known key keeps its number, a new one
    gets the table's size) and returns how many were new; only then the append loop runs -/
def probeChunks (values table : List α) : List (List α) → (List α × List α) × List Nat
  | [] => ((values, table), [])
  | c :: cs =>
    let p := insertAll table c
    let v := if table.length < p.1.length then appendLoop values c p.2 else values
    let r := probeChunks v p.1 cs
    (r.1, p.2 ++ r.2)

def probeInsert (g : ProbeDict α) (chunks : List (List α)) : ProbeDict α × List Nat :=
  let r := probeChunks g.values (probeTable g) chunks
  ({ values := r.1.1, table := some r.1.2 }, r.2)

/-- MIRROR of `int32Dictionary.Reset` (dictionary_int32.go:104-109): `d.values.Reset(); if d.table
    != nil { d.table.Reset() }` -/
def probeReset (g : ProbeDict α) : ProbeDict α := { values := [], table := g.table.map (fun _ => []) }

/-- a `Reset` that forgets `d.table.Reset()` (for the necessity theorem) -/
def probeResetKeepingTable (g : ProbeDict α) : ProbeDict α := { values := [], table := g.table }

def probeMachine : Machine (ProbeDict α) α :=
  { insert := probeInsert, reset := probeReset, values := ProbeDict.values }

def probeMachineKeepingTable : Machine (ProbeDict α) α :=
  { insert := probeInsert, reset := probeResetKeepingTable, values := ProbeDict.values }

/-- the table numbers exactly the page's positions -/
def ProbeInv (g : ProbeDict α) : Prop := g.values.Nodup ∧ (g.table = none ∨ g.table = some g.values)

theorem dictFind_lt (d : List α) (x : α) (i : Nat) (h : dictFind d x = some i) : i < d.length := by
  have := dictFind_some d x i h
  exact (List.getElem?_eq_some_iff.mp this).1

theorem appendLoop_insertAll : ∀ (xs : List α) (d : List α),
    appendLoop d xs (insertAll d xs).2 = (insertAll d xs).1
  | [], d => by simp [appendLoop, insertAll]
  | x :: xs, d => by
    simp only [insertAll, appendLoop]
    have : (if (dictInsert1 d x).2 = d.length then d ++ [x] else d) = (dictInsert1 d x).1 := by
      unfold dictInsert1
      split
      · rename_i i hi
        have := dictFind_lt d x i hi
        simp only
        split
        · exfalso; omega
        · rfl
      · simp
    rw [this]
    exact appendLoop_insertAll xs _

theorem insertAll_same_length (d xs : List α) (h : (insertAll d xs).1.length ≤ d.length) :
    (insertAll d xs).1 = d := by
  obtain ⟨e, he⟩ := insertAll_prefix xs d
  rw [← he] at h ⊢
  simp only [List.length_append] at h
  have : e = [] := List.eq_nil_of_length_eq_zero (by omega)
  simp [this]

theorem probeChunks_refines : ∀ (cs : List (List α)) (d : List α),
    probeChunks d d cs = (((insertAll d cs.flatten).1, (insertAll d cs.flatten).1), (insertAll d cs.flatten).2)
  | [], d => by simp [probeChunks, insertAll]
  | c :: cs, d => by
    simp only [probeChunks, List.flatten_cons]
    have hv : (if d.length < (insertAll d c).1.length then appendLoop d c (insertAll d c).2 else d)
        = (insertAll d c).1 := by
      split
      · exact appendLoop_insertAll c d
      · rename_i h
        exact (insertAll_same_length d c (by omega)).symm
    rw [hv, probeChunks_refines cs, insertAll_append c cs.flatten d]

theorem probeTable_of_inv (g : ProbeDict α) (h : ProbeInv g) : probeTable g = g.values := by
  obtain ⟨hn, ht | ht⟩ := h
  · unfold probeTable
    rw [ht]
    simp only
    rw [insertAll_eraseDups g.values [] (by simp), List.nil_append, eraseDups_of_nodup g.values hn]
  · unfold probeTable
    rw [ht]

theorem probe_refines : (probeMachine (α := α)).Refines id ProbeInv where
  insert_ok := by
    intro s cs hs
    simp only [probeMachine, probeInsert, id]
    rw [probeTable_of_inv s hs, probeChunks_refines]
    refine ⟨⟨insertAll_nodup _ _ hs.1, Or.inr rfl⟩, rfl, rfl⟩
  reset_ok := by
    intro s _
    simp only [probeMachine, probeReset]
    refine ⟨⟨by simp, ?_⟩, by simp⟩
    cases s.table <;> simp

omit [DecidableEq α] in
theorem probeNew_inv (page : List α) (h : page.Nodup) : ProbeInv (probeNew page) := ⟨h, Or.inl rfl⟩

end Probe

/-! ## family 2: Go maps -/
section GoMap
variable {α : Type} [DecidableEq α]

/-- a Go `map[K]int32`: association list with unique keys -/
def mapGet : List (α × Nat) → α → Option Nat
  | [], _ => none
  | (k, v) :: m, x => if k = x then some v else mapGet m x

/-- `m[x] = v` -/
def mapSet : List (α × Nat) → α → Nat → List (α × Nat)
  | [], x, v => [(x, v)]
  | (k, w) :: m, x, v => if k = x then (k, v) :: m else (k, w) :: mapSet m x v

structure MapDict (α : Type) where
  values : List α
  hashmap : Option (List (α × Nat))
  deriving Repr

def mapNew (page : List α) : MapDict α := { values := page, hashmap := none }

/-- MIRROR of `for i, v := range d.values { d.hashmap[v] = int32(i) }` (dictionary_int96.go:51-56;
    dictionary_fixed_len_byte_array.go:66-73) -/
def mapInitPos (m : List (α × Nat)) (j : Nat) : List α → List (α × Nat)
  | [] => m
  | v :: vs => mapInitPos (mapSet m v j) (j + 1) vs

/-- MIRROR of `byteArrayDictionary.init` (dictionary_byte_array.go:55-62):
    `d.table[string(d.index(i))] = int32(len(d.table))` -/
def mapInitLen (m : List (α × Nat)) : List α → List (α × Nat)
  | [] => m
  | v :: vs => mapInitLen (mapSet m v m.length) vs

/-- `byLen` = the byte-array dictionary (numbers by the map's size, keeps an emptied map on Reset);
    otherwise fixed-len byte array / int96 (number by the page length, drop the map on Reset) -/
def mapEnsure (byLen : Bool) (g : MapDict α) : List (α × Nat) :=
  match g.hashmap with
  | some m => m
  | none => if byLen then mapInitLen [] g.values else mapInitPos [] 0 g.values

/-- MIRROR of the loop body of `insertValues` (dictionary_fixed_len_byte_array.go:75-88,
    dictionary_int96.go:58-69) and of `byteArrayDictionary.insert` (dictionary_byte_array.go:71-91) -/
def mapInsert1 (byLen : Bool) (s : List α × List (α × Nat)) (x : α) : (List α × List (α × Nat)) × Nat :=
  match mapGet s.2 x with
  | some i => (s, i)
  | none =>
    let i := if byLen then s.2.length else s.1.length
    ((s.1 ++ [x], mapSet s.2 x i), i)

def mapInsertAll (byLen : Bool) (s : List α × List (α × Nat)) : List α → (List α × List (α × Nat)) × List Nat
  | [] => (s, [])
  | x :: xs =>
    let r := mapInsert1 byLen s x
    let r2 := mapInsertAll byLen r.1 xs
    (r2.1, r.2 :: r2.2)

def mapInsert (byLen : Bool) (g : MapDict α) (chunks : List (List α)) : MapDict α × List Nat :=
  let r := mapInsertAll byLen (g.values, mapEnsure byLen g) chunks.flatten
  ({ values := r.1.1, hashmap := some r.1.2 }, r.2)

/-- MIRROR of `fixedLenByteArrayDictionary.Reset` (dictionary_fixed_len_byte_array.go:127-130:
    `d.data.Resize(0); d.hashmap = nil`), `int96Dictionary.Reset` (dictionary_int96.go:99-102) and
    `byteArrayDictionary.Reset` (dictionary_byte_array.go:131-138: every key deleted) -/
def mapReset (byLen : Bool) (g : MapDict α) : MapDict α :=
  if byLen then { values := [], hashmap := g.hashmap.map (fun _ => []) }
  else { values := [], hashmap := none }

/-- a `Reset` that keeps the map (the mechanism of seeded change C04-4b) -/
def mapResetKeepingMap (g : MapDict α) : MapDict α := { values := [], hashmap := g.hashmap }

def mapMachine (byLen : Bool) : Machine (MapDict α) α :=
  { insert := mapInsert byLen, reset := mapReset byLen, values := MapDict.values }

def mapMachineKeepingMap (byLen : Bool) : Machine (MapDict α) α :=
  { insert := mapInsert byLen, reset := mapResetKeepingMap, values := MapDict.values }

/-- the map answers exactly the linear search of the page -/
def MapAgrees (m : List (α × Nat)) (d : List α) : Prop :=
  (∀ x, mapGet m x = dictFind d x) ∧ m.length = d.length

def MapInv (g : MapDict α) : Prop :=
  g.values.Nodup ∧ ∀ m, g.hashmap = some m → MapAgrees m g.values

theorem mapGet_mapSet : ∀ (m : List (α × Nat)) (x : α) (v : Nat) (y : α),
    mapGet (mapSet m x v) y = if x = y then some v else mapGet m y
  | [], x, v, y => by simp [mapSet, mapGet]
  | (k, w) :: m, x, v, y => by
    simp only [mapSet]
    split
    · rename_i hk
      subst hk
      simp only [mapGet]
      split <;> rfl
    · rename_i hk
      simp only [mapGet]
      split
      · rename_i hy
        subst hy
        simp [Ne.symm hk]
      · exact mapGet_mapSet m x v y

theorem mapSet_length_absent : ∀ (m : List (α × Nat)) (x : α) (v : Nat), mapGet m x = none →
    (mapSet m x v).length = m.length + 1
  | [], _, _, _ => by simp [mapSet]
  | (k, w) :: m, x, v, h => by
    simp only [mapGet] at h
    simp only [mapSet]
    split
    · rename_i hk; simp [hk] at h
    · rename_i hk
      simp only [hk, if_false] at h
      simp [mapSet_length_absent m x v h]

theorem dictFind_append_ne : ∀ (d : List α) (x y : α), x ≠ y → dictFind (d ++ [x]) y = dictFind d y
  | [], x, y, h => by simp [dictFind, h]
  | z :: zs, x, y, h => by
    simp only [List.cons_append, dictFind]
    rw [dictFind_append_ne zs x y h]

theorem mapAgrees_insert_absent (m : List (α × Nat)) (d : List α) (x : α) (i : Nat)
    (h : MapAgrees m d) (hx : dictFind d x = none) (hi : i = d.length) :
    MapAgrees (mapSet m x i) (d ++ [x]) := by
  subst hi
  refine ⟨?_, ?_⟩
  · intro y
    rw [mapGet_mapSet]
    split
    · rename_i e; subst e; exact (dictFind_append_new d x hx).symm
    · rename_i e; rw [dictFind_append_ne d x y e]; exact h.1 y
  · rw [mapSet_length_absent m x _ (by rw [h.1 x]; exact hx), h.2]; simp

theorem mapInitPos_agrees : ∀ (vs pre : List α) (m : List (α × Nat)), MapAgrees m pre →
    (pre ++ vs).Nodup → MapAgrees (mapInitPos m pre.length vs) (pre ++ vs)
  | [], pre, m, h, _ => by simpa [mapInitPos] using h
  | v :: vs, pre, m, h, hn => by
    simp only [mapInitPos]
    have hv : dictFind pre v = none := by
      rw [dictFind_none]
      intro hm
      rw [List.nodup_append] at hn
      exact hn.2.2 v hm v (by simp) rfl
    have h2 := mapAgrees_insert_absent m pre v pre.length h hv rfl
    have := mapInitPos_agrees vs (pre ++ [v]) (mapSet m v pre.length) h2 (by simpa using hn)
    simpa using this

theorem mapInitLen_agrees : ∀ (vs pre : List α) (m : List (α × Nat)), MapAgrees m pre →
    (pre ++ vs).Nodup → MapAgrees (mapInitLen m vs) (pre ++ vs)
  | [], pre, m, h, _ => by simpa [mapInitLen] using h
  | v :: vs, pre, m, h, hn => by
    simp only [mapInitLen]
    have hv : dictFind pre v = none := by
      rw [dictFind_none]
      intro hm
      rw [List.nodup_append] at hn
      exact hn.2.2 v hm v (by simp) rfl
    have h2 := mapAgrees_insert_absent m pre v m.length h hv h.2
    have := mapInitLen_agrees vs (pre ++ [v]) (mapSet m v m.length) h2 (by simpa using hn)
    simpa using this

theorem mapAgrees_nil : MapAgrees ([] : List (α × Nat)) ([] : List α) := ⟨fun _ => rfl, rfl⟩

theorem mapEnsure_agrees (byLen : Bool) (g : MapDict α) (h : MapInv g) :
    MapAgrees (mapEnsure byLen g) g.values := by
  unfold mapEnsure
  cases hm : g.hashmap with
  | some m => exact h.2 m hm
  | none =>
    simp only
    split
    · simpa using mapInitLen_agrees g.values [] [] mapAgrees_nil (by simpa using h.1)
    · simpa using mapInitPos_agrees g.values [] [] mapAgrees_nil (by simpa using h.1)

theorem mapInsertAll_refines (byLen : Bool) : ∀ (xs : List α) (d : List α) (m : List (α × Nat)),
    MapAgrees m d →
    (mapInsertAll byLen (d, m) xs).1.1 = (insertAll d xs).1 ∧
    MapAgrees (mapInsertAll byLen (d, m) xs).1.2 (insertAll d xs).1 ∧
    (mapInsertAll byLen (d, m) xs).2 = (insertAll d xs).2
  | [], d, m, h => by simp [mapInsertAll, insertAll, h]
  | x :: xs, d, m, h => by
    have key : ∃ m', mapInsert1 byLen (d, m) x = (((dictInsert1 d x).1, m'), (dictInsert1 d x).2) ∧
        MapAgrees m' (dictInsert1 d x).1 := by
      unfold mapInsert1 dictInsert1
      simp only
      rw [h.1 x]
      cases hf : dictFind d x with
      | some i => exact ⟨m, rfl, h⟩
      | none =>
        simp only
        have hi : (if byLen = true then m.length else d.length) = d.length := by
          split
          · exact h.2
          · rfl
        rw [hi]
        exact ⟨_, rfl, mapAgrees_insert_absent m d x d.length h hf rfl⟩
    obtain ⟨m', e, hm'⟩ := key
    obtain ⟨i1, i2, i3⟩ := mapInsertAll_refines byLen xs (dictInsert1 d x).1 m' hm'
    simp only [mapInsertAll, insertAll, e]
    exact ⟨i1, i2, by rw [i3]⟩

theorem map_refines (byLen : Bool) : (mapMachine (α := α) byLen).Refines id MapInv where
  insert_ok := by
    intro s cs hs
    simp only [mapMachine, mapInsert, id]
    obtain ⟨i1, i2, i3⟩ := mapInsertAll_refines byLen cs.flatten s.values (mapEnsure byLen s)
      (mapEnsure_agrees byLen s hs)
    refine ⟨⟨?_, ?_⟩, i1, i3⟩
    · simp only; rw [i1]; exact insertAll_nodup _ _ hs.1
    · intro m hm
      simp only [Option.some.injEq] at hm
      subst hm
      simp only
      rw [i1]
      exact i2
  reset_ok := by
    intro s _
    simp only [mapMachine, mapReset]
    split
    · refine ⟨⟨by simp, ?_⟩, rfl⟩
      intro m hm
      cases hh : s.hashmap with
      | none => simp [hh] at hm
      | some m0 =>
        simp only [hh, Option.map_some, Option.some.injEq] at hm
        subst hm
        exact mapAgrees_nil
    · refine ⟨⟨by simp, ?_⟩, rfl⟩
      intro m hm
      simp at hm

theorem mapNew_inv (page : List α) (h : page.Nodup) : MapInv (mapNew page) :=
  ⟨h, by intro m hm; simp [mapNew] at hm⟩

end GoMap

/-! ## family 3: the boolean dictionary -/
section BoolD

/-- the page and the cached indexes `table[0]` (of false) and `table[1]` (of true); `none` = -1 -/
structure BoolDict where
  values : List Bool
  idxFalse : Option Nat
  idxTrue : Option Nat
  deriving Repr

/-- a boolean dictionary created empty (`newBooleanDictionary` with no values: both indexes -1) -/
def boolNew : BoolDict := { values := [], idxFalse := none, idxTrue := none }

/-- MIRROR of `booleanDictionary.insert` (dictionary_boolean.go:67-92) -/
def boolInsert (g : BoolDict) (chunks : List (List Bool)) : BoolDict × List Nat :=
  let g1 : BoolDict := match g.idxFalse with
    | some _ => g
    | none => { g with values := g.values ++ [false], idxFalse := some g.values.length }
  let g2 : BoolDict := match g1.idxTrue with
    | some _ => g1
    | none => { g1 with values := g1.values ++ [true], idxTrue := some g1.values.length }
  (g2, chunks.flatten.map (fun b => if b then g2.idxTrue.getD 0 else g2.idxFalse.getD 0))

/-- MIRROR of `booleanDictionary.Reset` (dictionary_boolean.go:128-133) -/
def boolReset (_ : BoolDict) : BoolDict := boolNew

/-- a `Reset` that keeps the cached indexes -/
def boolResetKeepingTable (g : BoolDict) : BoolDict := { g with values := [] }

def boolMachine : Machine BoolDict Bool :=
  { insert := boolInsert, reset := boolReset, values := BoolDict.values }

def boolMachineKeepingTable : Machine BoolDict Bool :=
  { insert := boolInsert, reset := boolResetKeepingTable, values := BoolDict.values }

/-- the cached indexes are the linear-search positions -/
def BoolInv (g : BoolDict) : Prop :=
  g.idxFalse = dictFind g.values false ∧ g.idxTrue = dictFind g.values true

theorem insertAll_all_present : ∀ (xs d : List α') [DecidableEq α'], (∀ x ∈ xs, x ∈ d) →
    insertAll d xs = (d, xs.map (fun x => (dictFind d x).getD 0))
  | [], _, _, _ => rfl
  | x :: xs, d, _, h => by
    have hx : x ∈ d := h x (by simp)
    cases hf : dictFind d x with
    | none => exact absurd hx ((dictFind_none d x).mp hf)
    | some i =>
      have h1 : dictInsert1 d x = (d, i) := by unfold dictInsert1; rw [hf]
      simp only [insertAll, h1, List.map_cons, hf, Option.getD_some]
      rw [insertAll_all_present xs d (fun y hy => h y (by simp [hy]))]

theorem ensureBools_find (d : List Bool) :
    (dictFind (ensureBools d) false).isSome ∧ (dictFind (ensureBools d) true).isSome := by
  have hf : false ∈ ensureBools d := by
    unfold ensureBools; simp only; split <;> split <;> simp_all
  have ht : true ∈ ensureBools d := by
    unfold ensureBools; simp only; split <;> split <;> simp_all
  constructor
  · cases h : dictFind (ensureBools d) false with
    | none => exact absurd hf ((dictFind_none _ _).mp h)
    | some _ => rfl
  · cases h : dictFind (ensureBools d) true with
    | none => exact absurd ht ((dictFind_none _ _).mp h)
    | some _ => rfl

theorem mem_of_dictFind {α' : Type} [DecidableEq α'] (d : List α') (x : α') (i : Nat)
    (h : dictFind d x = some i) : x ∈ d :=
  List.mem_of_getElem? (dictFind_some d x i h)

/-- the two "ensure" steps of `booleanDictionary.insert` compute `ensureBools`, and the cached
    indexes stay the linear-search positions -/
theorem boolInsert_ensures (g : BoolDict) (cs : List (List Bool)) (h : BoolInv g) :
    (boolInsert g cs).1.values = ensureBools g.values ∧ BoolInv (boolInsert g cs).1 := by
  obtain ⟨hF, hT⟩ := h
  unfold boolInsert ensureBools BoolInv
  cases hf : dictFind g.values false with
  | some i =>
    have mf : false ∈ g.values := mem_of_dictFind _ _ _ hf
    cases ht : dictFind g.values true with
    | some j =>
      have mt : true ∈ g.values := mem_of_dictFind _ _ _ ht
      simp [hF, hT, hf, ht, mf, mt]
    | none =>
      have mt : true ∉ g.values := (dictFind_none _ _).mp ht
      simp only [hF, hT, hf, ht, mf, mt, if_true, if_false]
      refine ⟨trivial, ?_, ?_⟩
      · exact (dictFind_append_left g.values [true] false i hf).symm
      · exact (dictFind_append_new g.values true ht).symm
  | none =>
    have mf : false ∉ g.values := (dictFind_none _ _).mp hf
    cases ht : dictFind g.values true with
    | some j =>
      have mt : true ∈ g.values := mem_of_dictFind _ _ _ ht
      have mt' : true ∈ g.values ++ [false] := by simp [mt]
      simp only [hF, hT, hf, ht, mf, mt', if_true, if_false]
      refine ⟨trivial, ?_, ?_⟩
      · exact (dictFind_append_new g.values false hf).symm
      · exact (dictFind_append_left g.values [false] true j ht).symm
    | none =>
      have mt : true ∉ g.values := (dictFind_none _ _).mp ht
      have mt' : true ∉ g.values ++ [false] := by simp [mt]
      have ht' : dictFind (g.values ++ [false]) true = none := (dictFind_none _ _).mpr mt'
      simp only [hF, hT, hf, ht, mf, mt', if_false]
      refine ⟨trivial, ?_, ?_⟩
      · exact (dictFind_append_left (g.values ++ [false]) [true] false _
          (dictFind_append_new g.values false hf)).symm
      · exact (dictFind_append_new (g.values ++ [false]) true ht').symm

theorem bool_refines : boolMachine.Refines ensureBools BoolInv where
  insert_ok := by
    intro s cs hs
    obtain ⟨e1, e2⟩ := boolInsert_ensures s cs hs
    have hall : ∀ x ∈ cs.flatten, x ∈ ensureBools s.values := by
      intro x _
      obtain ⟨hf, ht⟩ := ensureBools_find s.values
      cases x
      · cases h : dictFind (ensureBools s.values) false with
        | none => simp [h] at hf
        | some i => exact mem_of_dictFind _ _ _ h
      · cases h : dictFind (ensureBools s.values) true with
        | none => simp [h] at ht
        | some i => exact mem_of_dictFind _ _ _ h
    simp only [boolMachine] at e1 e2 ⊢
    rw [insertAll_all_present cs.flatten (ensureBools s.values) hall]
    refine ⟨e2, e1, ?_⟩
    have : (boolInsert s cs).2 = cs.flatten.map (fun b =>
        if b then (boolInsert s cs).1.idxTrue.getD 0 else (boolInsert s cs).1.idxFalse.getD 0) := rfl
    rw [this, e2.1, e2.2, e1]
    apply List.map_congr_left
    intro b _
    cases b <;> simp
  reset_ok := by
    intro s _
    exact ⟨⟨rfl, rfl⟩, rfl⟩

theorem boolNew_inv : BoolInv boolNew := ⟨rfl, rfl⟩

end BoolD

end PqModel.DictReset
