import PqModel.Stats

/-! # Binary DECIMAL columns (C05): `compareDecimalByteArrays` is the order of the represented integers for
    every pair of widths, and the boundary-order scan of `decimalColumnIndexer` is sound.

MIRRORS: `cmpDecimal` (in `Stats.lean`), `skipAdj`, `adjNone`, `orderOfDecimal`, `decimalIndex*` transliterate
type_decimal.go. SPEC: `decimalValue` / `decimalBinary` (LogicalTypes.md, DECIMAL: big-endian two's complement of
any width). -/
namespace PqModel.Stats

/-! ## `cmpDecimal` = comparison of the represented integers -/

/-- three-way comparison as the Go functions return it -/
def cmp3N (x y : Nat) : Int := if x < y then -1 else if y < x then 1 else 0
def cmpInt (x y : Int) : Int := if x < y then -1 else if y < x then 1 else 0

/-- every element is a byte -/
def IsBytes (l : List Nat) : Prop := ∀ x ∈ l, x ≤ 255

theorem IsBytes.tail {b : Nat} {l : List Nat} (h : IsBytes (b :: l)) : IsBytes l :=
  fun x hx => h x (List.mem_cons_of_mem _ hx)

theorem IsBytes.head {b : Nat} {l : List Nat} (h : IsBytes (b :: l)) : b ≤ 255 := h b (by simp)

theorem pow256_succ (n : Nat) : 256 ^ (n + 1) = 256 * 256 ^ n := by
  rw [Nat.pow_succ, Nat.mul_comm]

theorem pow256_pos (n : Nat) : 0 < 256 ^ n := Nat.pow_pos (by decide)

theorem beUnsigned_lt : ∀ l : List Nat, IsBytes l → beUnsigned l < 256 ^ l.length
  | [], _ => by simp [beUnsigned]
  | b :: rest, h => by
    have ih := beUnsigned_lt rest h.tail
    have hb : b * 256 ^ rest.length ≤ 255 * 256 ^ rest.length := Nat.mul_le_mul_right _ h.head
    simp only [beUnsigned, List.length_cons, pow256_succ]
    omega

/-- the sign of the two's complement value: `len(a) > 0 && a[0]&0x80 != 0` -/
def isNeg : List Nat → Bool
  | x :: _ => decide (x ≥ 128)
  | [] => false

theorem cmpDecimal_unfold (a b : List Nat) :
    cmpDecimal a b =
      (if isNeg a && !isNeg b then -1
       else if !isNeg a && isNeg b then 1
       else if a.length < b.length then -(cmpPadded (if isNeg a then 255 else 0) b (b.length - a.length) a)
       else cmpPadded (if isNeg a then 255 else 0) a (a.length - b.length) b) := by
  cases a <;> cases b <;> rfl

theorem decimalValue_eq (a : List Nat) :
    decimalValue a = (beUnsigned a : Int) - (if isNeg a then ((256 ^ a.length : Nat) : Int) else 0) := by
  cases a with
  | nil => simp [decimalValue, beUnsigned, isNeg]
  | cons b rest =>
    simp only [decimalValue, isNeg, List.length_cons, decide_eq_true_eq]
    split <;> simp

/-- a negative representation has its first byte ≥ 128, hence at least half of the range -/
theorem beUnsigned_neg_ge (a : List Nat) (h : isNeg a = true) : 2 * beUnsigned a ≥ 256 ^ a.length := by
  cases a with
  | nil => simp [isNeg] at h
  | cons b rest =>
    simp only [isNeg, decide_eq_true_eq] at h
    have : 128 * 256 ^ rest.length ≤ b * 256 ^ rest.length := Nat.mul_le_mul_right _ h
    simp only [beUnsigned, List.length_cons, pow256_succ]
    omega

theorem beUnsigned_nonneg_lt (a : List Nat) (hb : IsBytes a) (h : isNeg a = false) : 2 * beUnsigned a < 256 ^ a.length ∨ a = [] := by
  cases a with
  | nil => exact Or.inr rfl
  | cons b rest =>
    left
    simp only [isNeg, decide_eq_false_iff_not] at h
    have hlt := beUnsigned_lt rest hb.tail
    have : b * 256 ^ rest.length ≤ 127 * 256 ^ rest.length := Nat.mul_le_mul_right _ (by omega)
    simp only [beUnsigned, List.length_cons, pow256_succ]
    omega

/-- equal widths: the unsigned lexicographic order is the order of the unsigned values -/
theorem lexLe_eq_beUnsigned : ∀ (a b : List Nat), a.length = b.length → IsBytes a → IsBytes b →
    Trunc.lexLe a b = decide (beUnsigned a ≤ beUnsigned b)
  | [], [], _, _, _ => by simp [Trunc.lexLe, beUnsigned]
  | [], _ :: _, h, _, _ => by simp at h
  | _ :: _, [], h, _, _ => by simp at h
  | a0 :: as, b0 :: bs, hlen, ha, hb => by
    have hl : as.length = bs.length := by simpa using hlen
    have ih := lexLe_eq_beUnsigned as bs hl ha.tail hb.tail
    have h1 := beUnsigned_lt as ha.tail
    have h2 := beUnsigned_lt bs hb.tail
    rw [hl] at h1
    simp only [Trunc.lexLe, beUnsigned, hl]
    by_cases hlt : a0 < b0
    · have : (a0 + 1) * 256 ^ bs.length ≤ b0 * 256 ^ bs.length := Nat.mul_le_mul_right _ hlt
      rw [Nat.add_mul] at this
      simp only [hlt, if_true]
      symm; rw [decide_eq_true_eq]; omega
    · by_cases heq : a0 = b0
      · subst heq
        simp only [Nat.lt_irrefl, if_false, if_true, ih]
        congr 1
        apply propext
        constructor <;> intro <;> omega
      · have hgt : b0 < a0 := by omega
        have : (b0 + 1) * 256 ^ bs.length ≤ a0 * 256 ^ bs.length := Nat.mul_le_mul_right _ hgt
        rw [Nat.add_mul] at this
        simp only [hlt, heq, if_false]
        symm; rw [decide_eq_false_iff_not]; omega

theorem lexLt_eq_beUnsigned (a b : List Nat) (hlen : a.length = b.length) (ha : IsBytes a) (hb : IsBytes b) :
    lexLt a b = decide (beUnsigned a < beUnsigned b) := by
  simp only [lexLt, lexLe_eq_beUnsigned b a hlen.symm hb ha]
  by_cases h : beUnsigned a < beUnsigned b
  · have : ¬ beUnsigned b ≤ beUnsigned a := by omega
    simp [h, this]
  · have : beUnsigned b ≤ beUnsigned a := by omega
    simp [h, this]

theorem isBytes_append {a b : List Nat} (ha : IsBytes a) (hb : IsBytes b) : IsBytes (a ++ b) := by
  intro x hx
  rcases List.mem_append.mp hx with h | h
  · exact ha x h
  · exact hb x h

theorem isBytes_replicate (k pad : Nat) (hp : pad ≤ 255) : IsBytes (List.replicate k pad) := by
  intro x hx
  rw [(List.mem_replicate.mp hx).2]; exact hp

/-- `compareDecimalPadded(a, b, pad)` is the unsigned comparison of `a` with `b` left-padded to the width of `a` -/
theorem cmpPadded_spec (pad : Nat) (hp : pad ≤ 255) : ∀ (k : Nat) (a b : List Nat), a.length = k + b.length →
    IsBytes a → IsBytes b →
    cmpPadded pad a k b = cmp3N (beUnsigned a) (beUnsigned (List.replicate k pad ++ b))
  | 0, a, b, hlen, ha, hb => by
    have hl : a.length = b.length := by omega
    simp only [cmpPadded, List.replicate_zero, List.nil_append, cmp3N,
      lexLt_eq_beUnsigned a b hl ha hb, lexLt_eq_beUnsigned b a hl.symm hb ha, decide_eq_true_eq]
  | k + 1, [], b, hlen, _, _ => by simp at hlen; omega
  | k + 1, c :: a, b, hlen, ha, hb => by
    have hl : a.length = k + b.length := by simp at hlen; omega
    have ih := cmpPadded_spec pad hp k a b hl ha.tail hb
    have hext : IsBytes (List.replicate k pad ++ b) := isBytes_append (isBytes_replicate k pad hp) hb
    have hlen2 : (List.replicate k pad ++ b).length = a.length := by simp [hl]
    have h1 := beUnsigned_lt a ha.tail
    have h2 := beUnsigned_lt _ hext
    rw [hlen2] at h2
    simp only [cmpPadded, List.replicate_succ, List.cons_append, beUnsigned, hlen2]
    by_cases hlt : c < pad
    · have : (c + 1) * 256 ^ a.length ≤ pad * 256 ^ a.length := Nat.mul_le_mul_right _ hlt
      rw [Nat.add_mul] at this
      simp only [hlt, if_true, cmp3N]
      rw [if_pos (by omega)]
    · by_cases hgt : c > pad
      · have : (pad + 1) * 256 ^ a.length ≤ c * 256 ^ a.length := Nat.mul_le_mul_right _ hgt
        rw [Nat.add_mul] at this
        simp only [hlt, hgt, if_false, if_true, cmp3N]
        rw [if_neg (by omega), if_pos (by omega)]
      · have heq : c = pad := by omega
        subst heq
        simp only [Nat.lt_irrefl, if_false, gt_iff_lt, ih, cmp3N]
        (repeat' split) <;> omega

theorem beUnsigned_pad_zero : ∀ (k : Nat) (b : List Nat), beUnsigned (List.replicate k 0 ++ b) = beUnsigned b
  | 0, b => by simp
  | k + 1, b => by
    simp only [List.replicate_succ, List.cons_append, beUnsigned, Nat.zero_mul, Nat.zero_add]
    exact beUnsigned_pad_zero k b

/-- sign extension of a negative value: `FF..FF ++ b` adds `256^(k+|b|) - 256^|b|` to the unsigned value -/
theorem beUnsigned_pad_ff : ∀ (k : Nat) (b : List Nat),
    beUnsigned (List.replicate k 255 ++ b) + 256 ^ b.length = beUnsigned b + 256 ^ (k + b.length)
  | 0, b => by simp
  | k + 1, b => by
    have ih := beUnsigned_pad_ff k b
    have hl : (List.replicate k 255 ++ b).length = k + b.length := by simp
    have hp : 256 ^ (k + 1 + b.length) = 256 * 256 ^ (k + b.length) := by
      rw [show k + 1 + b.length = (k + b.length) + 1 by omega, pow256_succ]
    simp only [List.replicate_succ, List.cons_append, beUnsigned, hl, hp]
    omega

/-- `compareDecimalByteArrays` (any two widths, the empty string included) is the comparison of the integers the
    two byte strings represent. -/
theorem cmpDecimal_spec (a b : List Nat) (ha : IsBytes a) (hb : IsBytes b) :
    cmpDecimal a b = cmpInt (decimalValue a) (decimalValue b) := by
  rw [cmpDecimal_unfold, decimalValue_eq a, decimalValue_eq b]
  have hua := beUnsigned_lt a ha
  have hub := beUnsigned_lt b hb
  have hpa := pow256_pos a.length
  have hpb := pow256_pos b.length
  cases hna : isNeg a <;> cases hnb : isNeg b
  · -- both non-negative, pad 0
    simp only [Bool.false_and, Bool.not_false, Bool.and_false, Bool.false_eq_true, if_false, Int.sub_zero]
    by_cases hlen : a.length < b.length
    · have hs := cmpPadded_spec 0 (by omega) (b.length - a.length) b a (by omega) hb ha
      rw [beUnsigned_pad_zero] at hs
      simp only [hlen, if_true, hs, cmp3N, cmpInt]
      (repeat' split) <;> omega
    · have hs := cmpPadded_spec 0 (by omega) (a.length - b.length) a b (by omega) ha hb
      rw [beUnsigned_pad_zero] at hs
      simp only [hlen, if_false, hs, cmp3N, cmpInt]
      (repeat' split) <;> omega
  · -- a ≥ 0 > b
    have := beUnsigned_neg_ge b hnb
    simp only [Bool.not_false, Bool.not_true, Bool.and_false, Bool.false_eq_true, if_false, Bool.and_true, if_true,
      Int.sub_zero, cmpInt]
    (repeat' split) <;> omega
  · -- a < 0 ≤ b
    have := beUnsigned_neg_ge a hna
    simp only [Bool.not_false, Bool.and_true, if_true, Bool.false_eq_true, if_false, Int.sub_zero, cmpInt]
    (repeat' split) <;> omega
  · -- both negative, pad 0xFF
    simp only [Bool.not_true, Bool.and_false, Bool.false_and, Bool.false_eq_true, if_false, if_true]
    by_cases hlen : a.length < b.length
    · have hs := cmpPadded_spec 255 (by omega) (b.length - a.length) b a (by omega) hb ha
      have he := beUnsigned_pad_ff (b.length - a.length) a
      rw [show b.length - a.length + a.length = b.length by omega] at he
      simp only [hlen, if_true, hs, cmp3N, cmpInt]
      (repeat' split) <;> omega
    · have hs := cmpPadded_spec 255 (by omega) (a.length - b.length) a b (by omega) ha hb
      have he := beUnsigned_pad_ff (a.length - b.length) b
      rw [show a.length - b.length + b.length = a.length by omega] at he
      simp only [hlen, if_false, hs, cmp3N, cmpInt]
      (repeat' split) <;> omega

/-- the mirror comparator, as used by `decimalPage.Bounds`, `decimalColumnBuffer.Less`, `Type.Compare`, IS the
    spec order `decimalBinary` -/
theorem cmpDecimal_lt (a b : List Nat) (ha : IsBytes a) (hb : IsBytes b) :
    decide (cmpDecimal a b < 0) = decimalBinary.lt a b := by
  rw [cmpDecimal_spec a b ha hb]
  simp only [cmpInt, decimalBinary, ofKey, Bool.not_false, Bool.and_self]
  by_cases h : decimalValue a < decimalValue b
  · simp [h]
  · by_cases h2 : decimalValue b < decimalValue a <;> simp [h, h2]

theorem cmpDecimal_gt (a b : List Nat) (ha : IsBytes a) (hb : IsBytes b) :
    decide (cmpDecimal a b > 0) = decimalBinary.lt b a := by
  rw [cmpDecimal_spec a b ha hb]
  simp only [cmpInt, decimalBinary, ofKey, Bool.not_false, Bool.and_self]
  by_cases h : decimalValue a < decimalValue b
  · have : ¬ decimalValue b < decimalValue a := by omega
    simp [h, this]
  · by_cases h2 : decimalValue b < decimalValue a <;> simp [h, h2]

theorem cmpDecimal_eq_zero (a b : List Nat) (ha : IsBytes a) (hb : IsBytes b) :
    cmpDecimal a b = 0 ↔ decimalValue a = decimalValue b := by
  rw [cmpDecimal_spec a b ha hb]
  simp only [cmpInt]
  constructor
  · intro h
    split at h
    · simp at h
    · split at h
      · simp at h
      · omega
  · intro h
    rw [if_neg (by omega), if_neg (by omega)]

/-! ## the boundary-order scan of the binary decimal column indexer -/

/-- MIRROR type_decimal.go:296-299: `for i < len(data) && compare(data[i-1], data[i]) == 0 { i++ }; data = data[i-1:]` -/
def skipAdj {α} (eq : α → α → Bool) : List α → List α
  | a :: b :: rest => if eq a b then skipAdj eq (b :: rest) else a :: b :: rest
  | l => l

/-- the `for j := 2; …` loops: no adjacent pair `(data[j-1], data[j])` is `bad` -/
def adjNone {α} (bad : α → α → Bool) : List α → Bool
  | a :: b :: rest => !bad a b && adjNone bad (b :: rest)
  | _ => true

/-- the scan after the streak of equal values has been skipped, for any three-way comparison `c` -/
def orderAfterSkip {α} (c : α → α → Int) : List α → Int
  | a :: b :: rest =>
    if c a b < 0 then (if adjNone (fun x y => c x y > 0) (b :: rest) then 1 else 0)
    else if c a b > 0 then (if adjNone (fun x y => c x y < 0) (b :: rest) then -1 else 0)
    else 0
  | _ => 1

/-- MIRROR type_decimal.go:289-322 `orderOfDecimalBytes`, generic in the comparison -/
def orderOfCmp {α} (c : α → α → Int) (xs : List α) : Int :=
  if xs.length < 2 then 0 else orderAfterSkip c (skipAdj (fun a b => c a b == 0) xs)

def orderOfDecimal (xs : List (List Nat)) : Int := orderOfCmp cmpDecimal xs

/-- MIRROR type_decimal.go:266-287 `decimalColumnIndexer`: a null page stores the empty string
    (`Value{}.byteArray()`), nothing is truncated (no size limit applies), the order is `orderOfDecimalBytes` -/
def decimalIndexMins (pages : List (Option (List Nat × List Nat))) : List (List Nat) := storedMins [] pages
def decimalIndexMaxs (pages : List (Option (List Nat × List Nat))) : List (List Nat) := storedMaxs [] pages
def decimalIndexOrder (pages : List (Option (List Nat × List Nat))) : Nat :=
  boundaryOrderOf (orderOfDecimal (decimalIndexMins pages)) (orderOfDecimal (decimalIndexMaxs pages))

section generic
variable {α : Type} (c : α → α → Int) (key : α → Int) (P : α → Prop)

theorem adjNone_asc (hc : ∀ a b, P a → P b → c a b = cmpInt (key a) (key b)) :
    ∀ l : List α, (∀ x ∈ l, P x) → adjNone (fun x y => c x y > 0) l = true → l.Pairwise (fun a b => key a ≤ key b)
  | [], _, _ => List.Pairwise.nil
  | [_], _, _ => by simp
  | a :: b :: rest, hP, h => by
    simp only [adjNone, Bool.and_eq_true, Bool.not_eq_true', decide_eq_false_iff_not] at h
    have ih := adjNone_asc hc (b :: rest) (fun x hx => hP x (List.mem_cons_of_mem _ hx)) h.2
    have hab : key a ≤ key b := by
      have := h.1
      rw [hc a b (hP a (by simp)) (hP b (by simp))] at this
      simp only [cmpInt] at this
      by_cases h1 : key a < key b
      · omega
      · rw [if_neg h1] at this
        by_cases h2 : key b < key a
        · rw [if_pos h2] at this; omega
        · omega
    refine List.Pairwise.cons ?_ ih
    intro x hx
    rcases List.mem_cons.mp hx with hx | hx
    · subst hx; exact hab
    · have := (List.pairwise_cons.mp ih).1 x hx
      omega

theorem adjNone_desc (hc : ∀ a b, P a → P b → c a b = cmpInt (key a) (key b)) :
    ∀ l : List α, (∀ x ∈ l, P x) → adjNone (fun x y => c x y < 0) l = true → l.Pairwise (fun a b => key b ≤ key a)
  | [], _, _ => List.Pairwise.nil
  | [_], _, _ => by simp
  | a :: b :: rest, hP, h => by
    simp only [adjNone, Bool.and_eq_true, Bool.not_eq_true', decide_eq_false_iff_not] at h
    have ih := adjNone_desc hc (b :: rest) (fun x hx => hP x (List.mem_cons_of_mem _ hx)) h.2
    have hab : key b ≤ key a := by
      have := h.1
      rw [hc a b (hP a (by simp)) (hP b (by simp))] at this
      simp only [cmpInt] at this
      by_cases h1 : key a < key b
      · rw [if_pos h1] at this; omega
      · omega
    refine List.Pairwise.cons ?_ ih
    intro x hx
    rcases List.mem_cons.mp hx with hx | hx
    · subst hx; exact hab
    · have := (List.pairwise_cons.mp ih).1 x hx
      omega

theorem skipAdj_mem : ∀ (l : List α) (x : α), x ∈ skipAdj (fun a b => c a b == 0) l → x ∈ l
  | [], x, h => by simp [skipAdj] at h
  | [_], x, h => by simpa [skipAdj] using h
  | a :: b :: rest, x, h => by
    simp only [skipAdj] at h
    split at h
    · exact List.mem_cons_of_mem _ (skipAdj_mem (b :: rest) x h)
    · exact h

/-- what the streak skip removed were values with the key of their successor: any `Pairwise` monotonicity of the
    remainder extends to the whole list -/
theorem skipAdj_pairwise (hc : ∀ a b, P a → P b → c a b = cmpInt (key a) (key b)) (R : Int → Int → Prop)
    (hR : ∀ x, R x x) :
    ∀ l : List α, (∀ x ∈ l, P x) → (skipAdj (fun a b => c a b == 0) l).Pairwise (fun a b => R (key a) (key b)) →
      l.Pairwise (fun a b => R (key a) (key b))
  | [], _, _ => List.Pairwise.nil
  | [_], _, _ => by simp
  | a :: b :: rest, hP, h => by
    simp only [skipAdj] at h
    split at h
    · rename_i heq
      have ih := skipAdj_pairwise hc R hR (b :: rest) (fun x hx => hP x (List.mem_cons_of_mem _ hx)) h
      have hk : key a = key b := by
        have h0 : c a b = 0 := by simpa using heq
        rw [hc a b (hP a (by simp)) (hP b (by simp))] at h0
        simp only [cmpInt] at h0
        by_cases h1 : key a < key b
        · rw [if_pos h1] at h0; omega
        · rw [if_neg h1] at h0
          by_cases h2 : key b < key a
          · rw [if_pos h2] at h0; omega
          · omega
      refine List.Pairwise.cons ?_ ih
      intro x hx
      rcases List.mem_cons.mp hx with hx | hx
      · subst hx; rw [hk]; exact hR _
      · rw [hk]; exact (List.pairwise_cons.mp ih).1 x hx
    · exact h

theorem orderOfCmp_asc (hc : ∀ a b, P a → P b → c a b = cmpInt (key a) (key b)) (xs : List α) (hP : ∀ x ∈ xs, P x)
    (h : orderOfCmp c xs = 1) : xs.Pairwise (fun a b => key a ≤ key b) := by
  unfold orderOfCmp at h
  split at h
  · simp at h
  · apply skipAdj_pairwise c key P hc (· ≤ ·) (fun x => Int.le_refl x) xs hP
    have hP' : ∀ x ∈ skipAdj (fun a b => c a b == 0) xs, P x := fun x hx => hP x (skipAdj_mem c xs x hx)
    generalize skipAdj (fun a b => c a b == 0) xs = l at h hP'
    match l, h, hP' with
    | [], _, _ => exact List.Pairwise.nil
    | [_], _, _ => simp
    | a :: b :: rest, h, hP' =>
      simp only [orderAfterSkip] at h
      split at h
      · rename_i hlt
        split at h
        · rename_i hasc
          have ih := adjNone_asc c key P hc (b :: rest) (fun x hx => hP' x (List.mem_cons_of_mem _ hx)) hasc
          have hab : key a ≤ key b := by
            rw [hc a b (hP' a (by simp)) (hP' b (by simp))] at hlt
            simp only [cmpInt] at hlt
            by_cases h1 : key a < key b
            · omega
            · rw [if_neg h1] at hlt
              by_cases h2 : key b < key a
              · rw [if_pos h2] at hlt; omega
              · rw [if_neg h2] at hlt; omega
          refine List.Pairwise.cons ?_ ih
          intro x hx
          rcases List.mem_cons.mp hx with hx | hx
          · subst hx; exact hab
          · have := (List.pairwise_cons.mp ih).1 x hx
            omega
        · simp at h
      · split at h
        · split at h <;> simp at h
        · simp at h

theorem orderOfCmp_desc (hc : ∀ a b, P a → P b → c a b = cmpInt (key a) (key b)) (xs : List α) (hP : ∀ x ∈ xs, P x)
    (h : orderOfCmp c xs = -1) : xs.Pairwise (fun a b => key b ≤ key a) := by
  unfold orderOfCmp at h
  split at h
  · simp at h
  · apply skipAdj_pairwise c key P hc (fun x y => y ≤ x) (fun x => Int.le_refl x) xs hP
    have hP' : ∀ x ∈ skipAdj (fun a b => c a b == 0) xs, P x := fun x hx => hP x (skipAdj_mem c xs x hx)
    generalize skipAdj (fun a b => c a b == 0) xs = l at h hP'
    match l, h, hP' with
    | [], h, _ => simp [orderAfterSkip] at h
    | [_], h, _ => simp [orderAfterSkip] at h
    | a :: b :: rest, h, hP' =>
      simp only [orderAfterSkip] at h
      split at h
      · split at h <;> simp at h
      · rename_i hnlt
        split at h
        · rename_i hgt
          split at h
          · rename_i hdesc
            have ih := adjNone_desc c key P hc (b :: rest) (fun x hx => hP' x (List.mem_cons_of_mem _ hx)) hdesc
            have hab : key b ≤ key a := by
              rw [hc a b (hP' a (by simp)) (hP' b (by simp))] at hgt
              simp only [cmpInt] at hgt
              by_cases h1 : key a < key b
              · rw [if_pos h1] at hgt; omega
              · omega
            refine List.Pairwise.cons ?_ ih
            intro x hx
            rcases List.mem_cons.mp hx with hx | hx
            · subst hx; exact hab
            · have := (List.pairwise_cons.mp ih).1 x hx
              omega
          · simp at h
        · simp at h

theorem orderOfCmp_range (xs : List α) : orderOfCmp c xs = 1 ∨ orderOfCmp c xs = -1 ∨ orderOfCmp c xs = 0 := by
  unfold orderOfCmp
  split
  · simp
  · generalize skipAdj (fun a b => c a b == 0) xs = l
    match l with
    | [] => simp [orderAfterSkip]
    | [_] => simp [orderAfterSkip]
    | a :: b :: rest =>
      simp only [orderAfterSkip]
      split
      · split <;> simp
      · split
        · split <;> simp
        · simp

end generic

theorem orderOfDecimal_asc (xs : List (List Nat)) (hb : ∀ x ∈ xs, IsBytes x) (h : orderOfDecimal xs = 1) :
    xs.Pairwise (fun a b => decimalBinary.lt b a = false) := by
  have := orderOfCmp_asc cmpDecimal decimalValue IsBytes cmpDecimal_spec xs hb h
  refine this.imp ?_
  intro a b hab
  simp only [decimalBinary, ofKey, Bool.not_false, Bool.true_and, decide_eq_false_iff_not]
  omega

theorem orderOfDecimal_desc (xs : List (List Nat)) (hb : ∀ x ∈ xs, IsBytes x) (h : orderOfDecimal xs = -1) :
    xs.Pairwise (fun a b => decimalBinary.lt a b = false) := by
  have := orderOfCmp_desc cmpDecimal decimalValue IsBytes cmpDecimal_spec xs hb h
  refine this.imp ?_
  intro a b hab
  simp only [decimalBinary, ofKey, Bool.not_false, Bool.true_and, decide_eq_false_iff_not]
  omega

/-! ## page bounds of binary decimal pages: the mirror loops compute the bounds in the spec order -/

/-- MIRROR type_decimal.go:198-220 `decimalPage.Bounds` (loop after the first value): two independent tests
    `compare(v, min) < 0` and `compare(v, max) > 0` -/
def boundsLoop2 {α} (lt gt : α → α → Bool) (mn mx : α) : List α → α × α
  | [] => (mn, mx)
  | v :: rest => boundsLoop2 lt gt (if lt v mn then v else mn) (if gt v mx then v else mx) rest

/-- MIRROR type_decimal.go:235-252 `decimalDictionary.Bounds` (dictionary-encoded pages): `switch` form -/
def boundsSwitchLoop2 {α} (lt gt : α → α → Bool) (mn mx : α) : List α → α × α
  | [] => (mn, mx)
  | v :: rest =>
    if lt v mn then boundsSwitchLoop2 lt gt v mx rest
    else if gt v mx then boundsSwitchLoop2 lt gt mn v rest
    else boundsSwitchLoop2 lt gt mn mx rest

def decLt (a b : List Nat) : Bool := decide (cmpDecimal a b < 0)
def decGt (a b : List Nat) : Bool := decide (cmpDecimal a b > 0)

def boundsDecimal : List (List Nat) → Option (List Nat × List Nat)
  | [] => none
  | x :: rest => some (boundsLoop2 decLt decGt x x rest)

def boundsDecimalDict : List (List Nat) → Option (List Nat × List Nat)
  | [] => none
  | x :: rest => some (boundsSwitchLoop2 decLt decGt x x rest)

theorem boundsLoop2_eq {α} (lt gt lt' : α → α → Bool) (S : α → Prop)
    (hagree : ∀ a b, S a → S b → lt a b = lt' a b ∧ gt a b = lt' b a) :
    ∀ (xs : List α) (mn mx : α), S mn → S mx → (∀ x ∈ xs, S x) →
      boundsLoop2 lt gt mn mx xs = boundsLoop lt' mn mx xs
  | [], _, _, _, _, _ => rfl
  | v :: rest, mn, mx, hmn, hmx, hxs => by
    have hv : S v := hxs v (by simp)
    simp only [boundsLoop2, boundsLoop, (hagree v mn hv hmn).1, (hagree v mx hv hmx).2]
    apply boundsLoop2_eq lt gt lt' S hagree rest
    · split <;> assumption
    · split <;> assumption
    · exact fun x hx => hxs x (List.mem_cons_of_mem _ hx)

theorem boundsSwitchLoop2_eq {α} (lt gt lt' : α → α → Bool) (S : α → Prop)
    (hagree : ∀ a b, S a → S b → lt a b = lt' a b ∧ gt a b = lt' b a) :
    ∀ (xs : List α) (mn mx : α), S mn → S mx → (∀ x ∈ xs, S x) →
      boundsSwitchLoop2 lt gt mn mx xs = boundsSwitchLoop lt' mn mx xs
  | [], _, _, _, _, _ => rfl
  | v :: rest, mn, mx, hmn, hmx, hxs => by
    have hv : S v := hxs v (by simp)
    have hr : ∀ x ∈ rest, S x := fun x hx => hxs x (List.mem_cons_of_mem _ hx)
    simp only [boundsSwitchLoop2, boundsSwitchLoop, (hagree v mn hv hmn).1, (hagree v mx hv hmx).2]
    split
    · exact boundsSwitchLoop2_eq lt gt lt' S hagree rest v mx hv hmx hr
    · split
      · exact boundsSwitchLoop2_eq lt gt lt' S hagree rest mn v hmn hv hr
      · exact boundsSwitchLoop2_eq lt gt lt' S hagree rest mn mx hmn hmx hr

theorem dec_agree (a b : List Nat) (ha : IsBytes a) (hb : IsBytes b) :
    decLt a b = decimalBinary.lt a b ∧ decGt a b = decimalBinary.lt b a :=
  ⟨cmpDecimal_lt a b ha hb, cmpDecimal_gt a b ha hb⟩

/-- `decimalPage.Bounds` and `decimalDictionary.Bounds` compute the bounds of the general mirror in the SPEC order
    of the represented integers (so `pageBounds_bound` applies to binary decimal pages of any mix of widths) -/
theorem boundsDecimal_eq (xs : List (List Nat)) (hb : ∀ x ∈ xs, IsBytes x) :
    boundsDecimal xs = bounds decimalBinary.lt xs ∧ boundsDecimalDict xs = bounds decimalBinary.lt xs := by
  cases xs with
  | nil => exact ⟨rfl, rfl⟩
  | cons x rest =>
    have hx := hb x (by simp)
    have hr : ∀ y ∈ rest, IsBytes y := fun y hy => hb y (List.mem_cons_of_mem _ hy)
    constructor
    · simp only [boundsDecimal, bounds]
      rw [boundsLoop2_eq decLt decGt decimalBinary.lt IsBytes dec_agree rest x x hx hx hr]
    · simp only [boundsDecimalDict, bounds]
      rw [boundsSwitchLoop2_eq decLt decGt decimalBinary.lt IsBytes dec_agree rest x x hx hx hr]
      have := boundsSwitch_eq_bounds decimalBinary_lawful (x :: rest)
      simp only [boundsSwitch, bounds] at this
      exact this

end PqModel.Stats
