import PqModel.CompareTypes
import PqModel.MergeGeneric

/-! # C09 / C10 — the row comparator over TYPED key columns (compare.go), on the mirrored `Type.Compare`

MIRROR of how `compareRowsFuncOf` (compare.go:182-212) puts the per-type comparisons of
`CompareTypes.lean` together for non-repeated sorting columns (one value per row and leaf column):

* `compareRowsFuncOfColumnIndexes` (compare.go:397-420): all sorting columns required → per column the
  positional arm `compareRowsFuncOfIndexAscending/Descending` on `row[columnIndex]`, chained by
  `compareRowsFuncOfIndexColumns` (compare.go:217-226);
* `compareRowsFuncOfColumnValues` (compare.go:425-503): `leaf.node.Type().Compare`, wrapped by
  `CompareDescending` if the sorting column is descending, then — only if `maxDefinitionLevel > 0` — by
  `CompareNullsFirst/Last`; the first non-zero column comparison decides.

Until round 6 the merge (C09) and sort (C10) theorems took the comparator of the key columns as a hypothesis
(`Compare.Lawful c`, `VOrd`, `Ranked`) and were instantiated on integer keys only. Here the comparator is the
composition of the mirrored pieces, for every leaf type. Not mirrored here: the scan that finds the values of a
column in a row with repeated columns (compare.go:452-476) and repeated sorting columns (`SortRow.cmpRowsL`). -/
namespace PqModel.CompareRows
open PqModel PqModel.Compare PqModel.CompareTypes PqModel.Stats

/-! ## be128 / UUID needs no side condition -/

/-- `compareBE128` as mirrored is the lexicographic order of the two big-endian halves -/
theorem compareBE128_eq_lex (a b : List Nat) :
    compareBE128 a b =
      cmpLex [onCol (fun v : List Nat => (beNat (v.take 8) : Int)) cmpInt,
              onCol (fun v : List Nat => (beNat (v.drop 8) : Int)) cmpInt] a b := by
  simp only [compareBE128, cmpLex, onCol, cmpInt, three, Int.ofNat_lt, gt_iff_lt, decide_eq_true_eq]
  by_cases h1 : beNat (a.take 8) < beNat (b.take 8)
  · simp [h1]
  · by_cases h2 : beNat (b.take 8) < beNat (a.take 8)
    · simp [h1, h2]
    · simp only [h1, h2, if_false]
      by_cases h3 : beNat (a.drop 8) < beNat (b.drop 8)
      · simp [h3]
      · by_cases h4 : beNat (b.drop 8) < beNat (a.drop 8)
        · simp [h3, h4]
        · simp [h3, h4]

/-- … hence a total preorder on ALL values (any length, any cell contents): the restriction `is128 = false` of
    `C05.typeCompare_lawful_leaf` is not needed for the order laws (it is needed only to call it `bytes.Compare`) -/
theorem compareBE128_lawful : Lawful compareBE128 := by
  have h : Lawful (cmpLex [onCol (fun v : List Nat => (beNat (v.take 8) : Int)) cmpInt,
      onCol (fun v : List Nat => (beNat (v.drop 8) : Int)) cmpInt]) :=
    cmpLex_lawful _ (by
      intro c hc
      simp only [List.mem_cons, List.not_mem_nil, or_false] at hc
      rcases hc with rfl | rfl <;> exact onCol_lawful _ cmpInt_lawful)
  have e : compareBE128 = cmpLex [onCol (fun v : List Nat => (beNat (v.take 8) : Int)) cmpInt,
      onCol (fun v : List Nat => (beNat (v.drop 8) : Int)) cmpInt] :=
    funext fun a => funext fun b => compareBE128_eq_lex a b
  exact e ▸ h

/-! ## floats: the order `compareFloat32/64` would be without its NaN answers -/

/-- which values of a column of type `t` are NaN -/
def valNaN (t : LeafType) (v : Val) : Bool :=
  match t with
  | .float => ieeeIsNaN 8 23 v.float
  | .double => ieeeIsNaN 11 52 v.double
  | _ => false

/-- SPEC-side auxiliary (not library code): `Type.Compare` with the float types compared by their sign-magnitude
    key `Stats.fKey` whatever the bits (NaN patterns get the rank of their bits). Lawful for every type; equal to
    `typeCompare` off NaN. It is the lawful comparator the float theorems are transported through. -/
def typeCompareT (t : LeafType) (a b : Val) : Int :=
  match t with
  | .float => cmpInt (fKey 8 23 a.float) (fKey 8 23 b.float)
  | .double => cmpInt (fKey 11 52 a.double) (fKey 11 52 b.double)
  | t => typeCompare t a b

theorem compareFloat_eq_key (e m : Nat) (a b : BitVec (1 + e + m))
    (ha : ieeeIsNaN e m a = false) (hb : ieeeIsNaN e m b = false) :
    compareFloat e m a b = cmpInt (fKey e m a) (fKey e m b) := by
  rw [ieeeIsNaN_eq] at ha hb
  simp only [compareFloat, ieeeLt_eq, float, ofKey, ha, hb, three, cmpInt, Bool.not_false, Bool.true_and,
    decide_eq_true_eq]

theorem typeCompare_eq_T (t : LeafType) (a b : Val) (ha : valNaN t a = false) (hb : valNaN t b = false) :
    typeCompare t a b = typeCompareT t a b := by
  cases t
  case float => exact compareFloat_eq_key 8 23 _ _ ha hb
  case double => exact compareFloat_eq_key 11 52 _ _ ha hb
  all_goals rfl

/-- every result of `Type.Compare` is -1, 0 or +1 and swapping the arguments negates it — for EVERY type and all
    values, NaN included (this is `VOrd.anti` / `CmpOk.anti` of the C10 theorems) -/
theorem three_anti (l g : Bool) (h : l = true → g = false) : three g l = - three l g := by
  cases l <;> cases g <;> simp [three] at h ⊢

theorem cmpInt_anti (a b : Int) : cmpInt b a = - cmpInt a b := by
  unfold cmpInt; split <;> split <;> omega

theorem compareFloat_anti (e m : Nat) (a b : BitVec (1 + e + m)) : compareFloat e m b a = - compareFloat e m a b := by
  simp only [compareFloat, ieeeLt_eq]
  apply three_anti
  intro h
  have hl := float_lawful e m
  cases h2 : (float e m).lt b a
  · rfl
  · have := hl.trans a b a h h2; rw [hl.irrefl] at this; cases this

/-! ## the row comparator -/

/-- a sorting column resolved against the schema (compare.go:183-199): the leaf's type, the `SortingColumn` flags,
    whether the leaf is nullable (`maxDefinitionLevel > 0`) and its column index -/
structure KeyCol where
  typ : LeafType
  desc : Bool
  nullsFirst : Bool
  optional : Bool
  index : Nat
deriving DecidableEq

/-- a row over non-repeated leaf columns: one value per column, `none` = the null `Value` -/
abbrev TRow := List (Option Val)

/-- the null `Value` read by an accessor: all fields zero (value.go: `Value{}`) -/
instance : Inhabited Val := ⟨⟨0, []⟩⟩

def cell (r : TRow) (i : Nat) : Option Val := r.getD i none

/-- a comparison of values applied without a null wrapper (required column: the value is read as it is) -/
def unwrapped (c : Val → Val → Int) : Option Val → Option Val → Int := onCol (fun v => v.getD default) c

/-- MIRROR compare.go:429-445, parametric in the per-type comparison `tc` (`tc = typeCompare` is the library):
    `Type.Compare`, `CompareDescending` if descending, then `CompareNullsFirst/Last` only for a nullable leaf -/
def valueCmpWith (tc : LeafType → Val → Val → Int) (k : KeyCol) : Option Val → Option Val → Int :=
  let c := if k.desc then descending (tc k.typ) else tc k.typ
  if k.optional then (if k.nullsFirst then nullsFirst c else nullsLast c) else unwrapped c

/-- MIRROR compare.go:478-503 for non-repeated columns (`values1`, `values2` have one element): the first column
    whose comparison is non-zero decides -/
def cmpRowsValuesWith (tc : LeafType → Val → Val → Int) (ks : List KeyCol) : TRow → TRow → Int :=
  cmpLex (ks.map fun k => onCol (fun r => cell r k.index) (valueCmpWith tc k))

/-- MIRROR compare.go:397-420 + 217-226: the positional arms on `row[columnIndex]`, chained -/
def cmpRowsIndexes (ks : List KeyCol) : TRow → TRow → Int :=
  cmpLex (ks.map fun k => onCol (fun r => cell r k.index)
    (unwrapped (if k.desc then armDescending k.typ else armAscending k.typ)))

abbrev cmpRowsValues := cmpRowsValuesWith typeCompare

/-- MIRROR compare.go:182-212 `compareRowsFuncOf` over a schema without repeated leaves: the positional path iff
    no sorting column is nullable -/
def compareRowsFuncOf (ks : List KeyCol) : TRow → TRow → Int :=
  if ks.all (fun k => !k.optional) then cmpRowsIndexes ks else cmpRowsValues ks

/-- compare.go:412-419: zero sorting columns → `compareRowsUnordered`, one → the arm itself -/
theorem cmpLex_nil_singleton {ρ : Type} (c : ρ → ρ → Int) (a b : ρ) : cmpLex [] a b = 0 ∧ cmpLex [c] a b = c a b := by
  simp only [cmpLex, true_and]; split <;> omega

theorem cmpLex_cons_congr {ρ : Type} {c c' : ρ → ρ → Int} {cs cs' : List (ρ → ρ → Int)} {a b : ρ}
    (h1 : c a b = c' a b) (h2 : cmpLex cs a b = cmpLex cs' a b) : cmpLex (c :: cs) a b = cmpLex (c' :: cs') a b := by
  simp only [cmpLex, h1, h2]

/-! ## the value order of the column buffers (C10) -/

/-- MIRROR of `Less(i, j)` of the base column buffer that `Type.NewColumnBuffer` creates for the leaf type, on the
    two values compared: `memory.SliceBuffer[T].Less` = Go `<` on `T` (internal/memory/slice_buffer.go:214-217) for
    int32 / int64 / uint32 / uint64 / float / double (column_buffer_int32.go:58, _int64.go:59, _uint32.go:59,
    _uint64.go:59, _float.go:58, _double.go:58), `a != b && !a` (column_buffer_boolean.go:64-68),
    `bytes.Compare(..) < 0` (column_buffer_byte_array.go:128, column_buffer_fixed_len_byte_array.go:74),
    `lessBE128` (column_buffer_be128.go:58). Which buffer a logical type gets: DATE, TIMESTAMP, non-binary DECIMAL,
    STRING, ENUM, JSON, BSON, GEOMETRY, GEOGRAPHY, UUID, INTERVAL delegate to the physical type named in their
    `NewColumnBuffer` (type_date.go:53, type_timestamp.go:194, type_decimal.go:91, type_string.go:61, type_enum.go:52,
    type_json.go:53, type_bson.go:52, type_geometry.go:57, type_geography.go:63, type_uuid.go:50, type_interval.go:74);
    TIME and INT(bitWidth, isSigned) to their `baseType()` (type_time.go:182-188, type_int_logical.go:98-112). -/
def bufferLess (t : LeafType) (a b : Val) : Bool :=
  match t with
  | .int32 | .date | .decimalInt32 => a.int32.slt b.int32
  | .uint32 => a.uint32.ult b.uint32
  | .int64 | .timestamp | .decimalInt64 => a.int64.slt b.int64
  | .uint64 => a.uint64.ult b.uint64
  | .float => ieeeLt 8 23 a.float b.float
  | .double => ieeeLt 11 52 a.double b.double
  | .boolean => a.boolean != b.boolean && !a.boolean
  | .byteArray | .string | .fixedLenByteArray | .enum | .geography | .bson | .geometry | .json | .interval =>
    decide (bytesCompare a.byteArray b.byteArray < 0)
  | .be128 | .uuid => lessBE128 a.be128 b.be128
  | .time useInt32 => if useInt32 then a.int32.slt b.int32 else a.int64.slt b.int64
  | .int bitWidth isSigned =>
    if isSigned then (if bitWidth = 64 then a.int64.slt b.int64 else a.int32.slt b.int32)
    else (if bitWidth = 64 then a.uint64.ult b.uint64 else a.uint32.ult b.uint32)

theorem lessBE128_iff (a b : List Nat) : lessBE128 a b = true ↔ compareBE128 a b < 0 := by
  simp only [lessBE128, compareBE128, three]
  by_cases h1 : beNat (a.take 8) < beNat (b.take 8)
  · simp [h1]
  · by_cases h2 : beNat (a.take 8) > beNat (b.take 8)
    · simp [h1, h2]
    · simp only [h1, h2, if_false]
      by_cases h3 : beNat (a.drop 8) < beNat (b.drop 8)
      · simp [h3]
      · by_cases h4 : beNat (a.drop 8) > beNat (b.drop 8)
        · simp [h3, h4]
        · simp [h3, h4]

/-- the column buffer's `Less` on two values is `Type.Compare(..) < 0`, for EVERY leaf type and all values (NaN
    included): the consistency `VOrd.lt_iff` that the C10 buffer theorems assumed -/
theorem bufferLess_iff (t : LeafType) (a b : Val) : bufferLess t a b = true ↔ typeCompare t a b < 0 := by
  cases t
  case boolean =>
    simp only [bufferLess, typeCompare, compareBool, three_lt]
    cases a.boolean <;> cases b.boolean <;> decide
  case be128 => exact lessBE128_iff _ _
  case uuid => exact lessBE128_iff _ _
  case time u => cases u <;> simp [bufferLess, typeCompare, compareSigned, three_lt]
  case int bw sg =>
    by_cases h64 : bw = 64 <;> cases sg <;>
      simp [bufferLess, typeCompare, intTypeCompare, compareSigned, compareUnsigned, three_lt, h64, Val.int32, Val.int64]
  all_goals simp [bufferLess, typeCompare, compareSigned, compareUnsigned, compareFloat, three_lt]

theorem compareBE128_anti (x y : List Nat) : compareBE128 y x = - compareBE128 x y := by
  rw [compareBE128_eq_lex, compareBE128_eq_lex]
  simp only [cmpLex, onCol]
  have h1 := cmpInt_anti (beNat (List.take 8 x) : Int) (beNat (List.take 8 y) : Int)
  have h2 := cmpInt_anti (beNat (List.drop 8 x) : Int) (beNat (List.drop 8 y) : Int)
  repeat' split
  all_goals omega

theorem typeCompare_anti (t : LeafType) (a b : Val) : typeCompare t b a = - typeCompare t a b := by
  have hs : ∀ {w} (x y : BitVec w), compareSigned y x = - compareSigned x y := by
    intro w x y; simp only [compareSigned]; apply three_anti
    simp only [BitVec.slt, decide_eq_true_eq, decide_eq_false_iff_not]; omega
  have hu : ∀ {w} (x y : BitVec w), compareUnsigned y x = - compareUnsigned x y := by
    intro w x y; simp only [compareUnsigned]; apply three_anti
    simp only [BitVec.ult, decide_eq_true_eq, decide_eq_false_iff_not]; omega
  have hy : ∀ x y : List Nat, bytesCompare y x = - bytesCompare x y := by
    intro x y
    rw [bytesCompare_eq, bytesCompare_eq]
    apply three_anti
    intro h
    cases h2 : lexLt y x
    · rfl
    · have := bytes_lawful.trans x y x h h2
      rw [show Stats.bytes.lt x x = false from bytes_lawful.irrefl x] at this; cases this
  cases t
  case boolean => simp only [typeCompare, compareBool]; cases a.boolean <;> cases b.boolean <;> decide
  case float => exact compareFloat_anti 8 23 _ _
  case double => exact compareFloat_anti 11 52 _ _
  case be128 => exact compareBE128_anti _ _
  case uuid => exact compareBE128_anti _ _
  case time u => cases u <;> simp only [typeCompare, if_true, if_false, Bool.false_eq_true] <;> first | exact hs _ _ | exact hu _ _
  case int bw sg =>
    simp only [typeCompare, intTypeCompare]
    by_cases h64 : bw = 64 <;> cases sg <;> simp only [h64, if_true, if_false, Bool.false_eq_true] <;>
      first | exact hs _ _ | exact hu _ _
  all_goals first | exact hs _ _ | exact hu _ _ | exact hy _ _

end PqModel.CompareRows
