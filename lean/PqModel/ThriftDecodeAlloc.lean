import PqModel.ThriftDecodeProofs

/-! Lemmas: on an ACCEPTED input the typed decoder never asked the allocator for more elements than the
    input has bytes (every list element consumes at least one byte), so the run under the allocator bounded
    by `d.length` is the run under the allocator that grants everything. -/
namespace PqModel.ThriftDecode
open PqModel.IoFault (Bytes)
open PqModel.ThriftSkip

/-- `n` skipped items consume at least `n` bytes and end inside the input -/
theorem items_len (d : Bytes) (ty : Nat) : ∀ (n f p q : Nat), skipT d f (.items ty n) p = .ok ((), q) →
    p + n ≤ q ∧ (n = 0 → q = p) ∧ (0 < n → q ≤ d.length) := by
  intro n
  induction n with
  | zero =>
    intro f p q h
    cases f with
    | zero => simp [skipT] at h
    | succ f =>
      simp only [skipT] at h
      cases h
      exact ⟨Nat.le_refl _, fun _ => rfl, fun h0 => absurd h0 (Nat.lt_irrefl 0)⟩
  | succ n ih =>
    intro f p q h
    cases f with
    | zero => simp [skipT] at h
    | succ f =>
      simp only [skipT] at h
      obtain ⟨_, p1, h1, h2⟩ := seq_ok h
      obtain ⟨hlt, hle⟩ := item_prog d f ty p _ p1 h1
      obtain ⟨i1, i2, i3⟩ := ih f p1 q h2
      refine ⟨by omega, fun h0 => by omega, fun _ => ?_⟩
      cases n with
      | zero => rw [i2 rfl]; exact hle
      | succ m => exact i3 (Nat.succ_pos m)

/-- whatever `r` accepts, `r'` accepts with the same end -/
def LeT (r r' : TR) : Prop := ∀ q, r = .ok q → r' = .ok q

theorem LeT.refl (r : TR) : LeT r r := fun _ h => h

theorem lift_le {α} (r : PR α) (fe : SkErr → SkErr) {k k' : α → Nat → TR}
    (hk : ∀ a p, LeT (k a p) (k' a p)) : LeT (lift r fe k) (lift r fe k') := by
  intro q h
  cases r with
  | error e => simp [lift] at h
  | ok ap => obtain ⟨a, p⟩ := ap; exact hk a p q h

theorem seqT_le {r r' : TR} (fe : SkErr → SkErr) {k k' : Nat → TR}
    (hr : LeT r r') (hk : ∀ p, LeT (k p) (k' p)) : LeT (seqT r fe k) (seqT r' fe k') := by
  intro q h
  cases r with
  | error e => simp [seqT] at h
  | ok p =>
    rw [hr p rfl]
    exact hk p q h

/-- the accepting runs under the allocator that grants everything are accepting runs under the
    allocator that grants at most `d.length` elements per slice -/
theorem decT_alloc (d : Bytes) : ∀ (f : Nat) (t : DTask) (pos : Nat),
    LeT (decT none d f t pos) (decT (some d.length) d f t pos) := by
  intro f
  induction f with
  | zero => intro t pos q h; simp [decT] at h
  | succ f ih =>
    intro t pos
    cases t with
    | val t =>
      cases t with
      | bool => simp only [decT]; exact LeT.refl _
      | i8 => simp only [decT]; exact LeT.refl _
      | i16 => simp only [decT]; exact LeT.refl _
      | i32 => simp only [decT]; exact LeT.refl _
      | i64 => simp only [decT]; exact LeT.refl _
      | double => simp only [decT]; exact LeT.refl _
      | binary => simp only [decT]; exact LeT.refl _
      | list e =>
        simp only [decT]
        refine lift_le _ _ fun l p => ?_
        generalize (if l.1 = 1 then 2 else l.1) = ty'
        by_cases hw : wire e ≠ ty'
        · simp only [if_pos hw]; exact LeT.refl _
        · intro q hk
          simp only [if_neg hw, over] at hk ⊢
          have hk' : decT none d f (.elems e l.2) p = .ok q := by simpa using hk
          obtain ⟨f', hw⟩ := decT_walk none d f _ p q hk'
          simp only [erase] at hw
          obtain ⟨i1, _, i3⟩ := items_len d _ _ _ _ _ hw
          have hb : ¬ (d.length < l.2) := by
            intro hc
            have := i3 (by omega)
            omega
          simp only [hb, decide_false]
          exact ih _ p q hk'
      | struct fs => simp only [decT]; exact ih _ pos
      | union ms => simp only [decT]; exact ih _ pos
    | elems t n =>
      cases n with
      | zero => simp only [decT]; exact LeT.refl _
      | succ n => simp only [decT]; exact seqT_le _ (ih _ pos) fun p => ih _ p
    | fields fs first last seen =>
      simp only [decT]
      refine lift_le _ _ fun h p => ?_
      cases h with
      | none => exact LeT.refl _
      | some x =>
        obtain ⟨ty, raw, delta⟩ := x
        simp only
        split
        · exact lift_le _ _ fun _ q => ih _ q
        · split
          · exact lift_le _ _ fun _ q => ih _ q
          · split
            · exact ih _ p
            · exact seqT_le _ (ih _ p) fun q => ih _ q

end PqModel.ThriftDecode
