import PqModel.Splice

/-! # C11 — the value-carrying metadata of a spliced chunk

Round 3 extension of `Splice.lean`: the column index, the size statistics, the chunk statistics and
the encoding statistics of a chunk copied verbatim are no longer opaque.

MIRROR: `loadCopiedV` = the value fields of `loadCopiedChunk` (writer_copy.go:457-545:
  `cloneColumnIndex` of the source's column index or the zero value when the source has none,
  `cloneSizeStatistics`, `cloneStatistics`, `slices.Clone(meta.EncodingStats)`), `writeCopiedV` =
  the `c.copied != nil` branch of `writeRowGroup` (writer.go:1585-1611: `rg.columnIndex[i] =
  cc.columnIndex`, `MetaData.SizeStatistics = cc.sizeStats`; `Statistics` / `EncodingStats` were put
  into `c.columnChunk.MetaData` by `loadCopiedChunk`) followed by `sortPageEncodingStats`
  (writer.go:1722, 2973-2980), `spliceRowGroupV` = the loop over the columns with the bloom filter
  sections placed after the last chunk (`Splice.placeBlooms`).
SPEC (parquet.thrift: ColumnIndex, OffsetIndex, SizeStatistics, Statistics, PageEncodingStats):
  `PageV` = what one page holds, `ValuesOK` / `EncOK` / `Describes` = "the metadata describes
  these pages laid out at this offset". -/
namespace PqModel.SpliceMeta
open PqModel.Layout PqModel.Splice

abbrev Bytes := List UInt8

/-- `format.ColumnIndex`; all lists empty = the zero value (no column index is written) -/
structure ColumnIndex where
  nullPages : List Bool
  minValues : List Bytes
  maxValues : List Bytes
  boundaryOrder : Nat
  nullCounts : List Nat
  repHist : List Nat      -- repetition_level_histograms, page after page
  defHist : List Nat
deriving Repr, DecidableEq

def ColumnIndex.none : ColumnIndex := ⟨[], [], [], 0, [], [], []⟩

/-- `format.SizeStatistics` -/
structure SizeStats where
  unencoded : Nat         -- unencoded_byte_array_data_bytes
  repHist : List Nat
  defHist : List Nat
deriving Repr, DecidableEq

/-- `format.Statistics` of the chunk -/
structure Statistics where
  nullCount : Nat
  distinctCount : Nat
  minValue : Option Bytes
  maxValue : Option Bytes
  min : Option Bytes      -- deprecated fields
  max : Option Bytes
deriving Repr, DecidableEq

/-- `format.PageEncodingStats` -/
structure EncStat where
  pageType : Nat
  encoding : Nat
  count : Nat
deriving Repr, DecidableEq

/-- the metadata of one column chunk: layout numbers (`Layout.ChunkMeta`, which carries the offset
    index) and the values -/
structure FullMeta where
  layout : ChunkMeta
  columnIndex : ColumnIndex
  sizeStats : SizeStats
  statistics : Statistics
  encStats : List EncStat
deriving Repr, DecidableEq

/-! ## mirror -/

/-- `sortPageEncodingStats` (writer.go:2973-2980): by page type, then encoding -/
def encLe (a b : EncStat) : Bool :=
  a.pageType < b.pageType || (a.pageType == b.pageType && a.encoding ≤ b.encoding)

def insertEnc (s : EncStat) : List EncStat → List EncStat
  | [] => [s]
  | t :: ts => if encLe s t then s :: t :: ts else t :: insertEnc s ts

def sortEnc : List EncStat → List EncStat
  | [] => []
  | s :: ss => insertEnc s (sortEnc ss)

/-- `copiedChunk` (writer_copy.go:42-59) with its value fields -/
structure CopiedV where
  c : Copied
  columnIndex : ColumnIndex
  sizeStats : SizeStats
  statistics : Statistics
  encStats : List EncStat
deriving Repr, DecidableEq

/-- writer_copy.go:457-545 `loadCopiedChunk`. The source's column index is its stored one or the
    zero value (`ErrMissingColumnIndex`): that is `src.columnIndex` of `FullMeta`. -/
def loadCopiedV (src : FullMeta) : Option CopiedV :=
  (loadCopied src.layout).map fun c =>
    { c := c, columnIndex := src.columnIndex, sizeStats := src.sizeStats,
      statistics := src.statistics, encStats := src.encStats }

/-- writer.go:1585-1611 and :1722 for a copied column written at file offset `off` -/
def writeCopiedV (off : Nat) (cv : CopiedV) : FullMeta × Nat :=
  let r := writeCopied off cv.c
  ({ layout := r.1, columnIndex := cv.columnIndex, sizeStats := cv.sizeStats,
     statistics := cv.statistics, encStats := sortEnc cv.encStats }, r.2)

def spliceChunkV (src : FullMeta) (dstStart : Nat) : Option FullMeta :=
  (loadCopiedV src).map fun cv => (writeCopiedV dstStart cv).1

/-- writer.go:1583-1712 for a row group all of whose columns are copied: the chunks back to back
    from `start`, then the bloom filter sections (`lens[i]` = length of the copied section, 0 =
    none). Returns every chunk's metadata with its (bloom_filter_offset, bloom_filter_length). -/
def spliceRowGroupV (start : Nat) : List (FullMeta × Nat) → Option (List FullMeta × Nat)
  | [] => some ([], start)
  | (src, _) :: cs =>
    match loadCopiedV src with
    | none => none
    | some cv =>
      let r := writeCopiedV start cv
      (spliceRowGroupV r.2 cs).map fun rest => (r.1 :: rest.1, rest.2)

def spliceRowGroupBlooms (start : Nat) (cs : List (FullMeta × Nat)) :
    Option (List (FullMeta × Option (Nat × Nat))) :=
  (spliceRowGroupV start cs).map fun r => r.1.zip (placeBlooms r.2 (cs.map (·.2))).1

/-! ## specification: what the pages hold -/

/-- one page with a summary of its content (dictionary pages: only `op`, `ptype`, `encoding`) -/
structure PageV where
  op : PageOp
  ptype : Nat                       -- 0 DATA_PAGE, 2 DICTIONARY_PAGE, 3 DATA_PAGE_V2
  encoding : Nat
  nulls : Nat                       -- null values of the page
  bounds : Option (Bytes × Bytes)   -- least / greatest non-null value (plain encoded); none = no non-null value
  repCounts : List Nat              -- number of values per repetition level
  defCounts : List Nat
  byteArrayBytes : Nat              -- bytes of the BYTE_ARRAY values before encoding
deriving Repr, DecidableEq

def datas (ps : List PageV) : List PageV := ps.filter fun p => !p.op.isDict
def ops (ps : List PageV) : List PageOp := ps.map (·.op)

/-- pointwise sum of per-page histograms -/
def addHist : List Nat → List Nat → List Nat
  | [], ys => ys
  | xs, [] => xs
  | x :: xs, y :: ys => (x + y) :: addHist xs ys

def sumHists (hs : List (List Nat)) : List Nat := hs.foldr addHist []

/-- parquet.thrift ColumnIndex: one entry per data page, in page order; `null_pages[i]` iff the
    page holds no non-null value; `min_values[i]` / `max_values[i]` are lower / upper bounds of the
    page's values in the column order `le` (not necessarily the exact extremes, at most `lim` bytes
    when `lim > 0`); `null_counts[i]` is the page's null count; the level histograms are the
    pages' histograms one after the other. The zero value (no column index) describes any pages. -/
def IndexOK (le : Bytes → Bytes → Bool) (lim : Nat) (ci : ColumnIndex) (ps : List PageV) : Prop :=
  ci = ColumnIndex.none ∨
  (ci.nullPages = (datas ps).map (fun p => p.bounds.isNone) ∧
   ci.minValues.length = (datas ps).length ∧ ci.maxValues.length = (datas ps).length ∧
   (ci.nullCounts = [] ∨ ci.nullCounts = (datas ps).map (·.nulls)) ∧
   (∀ i lo hi, ((datas ps)[i]?).bind (·.bounds) = some (lo, hi) →
      le (ci.minValues.getD i []) lo = true ∧ le hi (ci.maxValues.getD i []) = true ∧
      (lim > 0 → (ci.minValues.getD i []).length ≤ lim ∨ ci.minValues.getD i [] = lo) ∧
      (lim > 0 → (ci.maxValues.getD i []).length ≤ lim ∨ ci.maxValues.getD i [] = hi)) ∧
   (ci.repHist = [] ∨ ci.repHist = (datas ps).flatMap (·.repCounts)) ∧
   (ci.defHist = [] ∨ ci.defHist = (datas ps).flatMap (·.defCounts)))

/-- parquet.thrift SizeStatistics: histograms summed over the data pages; unencoded bytes summed -/
def SizeOK (ss : SizeStats) (ps : List PageV) : Prop :=
  ss.unencoded = ((datas ps).map (·.byteArrayBytes)).sum ∧
  (ss.repHist = [] ∨ ss.repHist = sumHists ((datas ps).map (·.repCounts))) ∧
  (ss.defHist = [] ∨ ss.defHist = sumHists ((datas ps).map (·.defCounts)))

/-- parquet.thrift Statistics: the null count is the sum over the pages; min/max (both spellings),
    when present, bound every page's values -/
def StatsOK (le : Bytes → Bytes → Bool) (st : Statistics) (ps : List PageV) : Prop :=
  st.nullCount = ((datas ps).map (·.nulls)).sum ∧
  (∀ b, st.minValue = some b ∨ st.min = some b → ∀ p ∈ datas ps, ∀ lo hi, p.bounds = some (lo, hi) → le b lo = true) ∧
  (∀ b, st.maxValue = some b ∨ st.max = some b → ∀ p ∈ datas ps, ∀ lo hi, p.bounds = some (lo, hi) → le hi b = true)

/-- parquet.thrift PageEncodingStats: every entry counts the pages of its (type, encoding), and
    together they count every page (same clauses as `Spec.checkChunk`) -/
def EncOK (es : List EncStat) (ps : List PageV) : Prop :=
  es = [] ∨
  ((∀ s ∈ es, (ps.filter fun p => p.ptype == s.pageType && p.encoding == s.encoding).length = s.count) ∧
   (es.map (·.count)).sum = ps.length)

/-- **the metadata describes these pages laid out at `start`**: the layout numbers (dictionary /
    data page offsets, offset index, sizes, counts) are the ones of `Layout.chunkMeta` — for which
    `Layout.layout_wf` / `offsets_wf` say that every offset is positional — and the values describe
    the pages' content. -/
def Describes (le : Bytes → Bytes → Bool) (lim : Nat) (m : FullMeta) (start : Nat) (ps : List PageV) : Prop :=
  m.layout = chunkMeta start (ops ps) ∧
  IndexOK le lim m.columnIndex ps ∧ SizeOK m.sizeStats ps ∧ StatsOK le m.statistics ps ∧ EncOK m.encStats ps

/-! ## facts about the sort -/

theorem insertEnc_perm (s : EncStat) : ∀ l : List EncStat, (insertEnc s l).Perm (s :: l)
  | [] => List.Perm.refl _
  | t :: ts => by
    simp only [insertEnc]
    split
    · exact List.Perm.refl _
    · exact ((insertEnc_perm s ts).cons t).trans (List.Perm.swap s t ts)

theorem sortEnc_perm : ∀ l : List EncStat, (sortEnc l).Perm l
  | [] => List.Perm.refl _
  | s :: ss => (insertEnc_perm s (sortEnc ss)).trans ((sortEnc_perm ss).cons s)

theorem encLe_total (a b : EncStat) : encLe a b = true ∨ encLe b a = true := by
  simp only [encLe, Bool.or_eq_true, Bool.and_eq_true, decide_eq_true_eq, beq_iff_eq]
  omega

theorem encLe_trans {a b c : EncStat} (h1 : encLe a b = true) (h2 : encLe b c = true) : encLe a c = true := by
  simp only [encLe, Bool.or_eq_true, Bool.and_eq_true, decide_eq_true_eq, beq_iff_eq] at *
  omega

theorem insertEnc_sorted (s : EncStat) : ∀ l : List EncStat, l.Pairwise (fun a b => encLe a b = true) →
    (insertEnc s l).Pairwise (fun a b => encLe a b = true)
  | [], _ => by simp [insertEnc]
  | t :: ts, h => by
    have ht := List.pairwise_cons.mp h
    simp only [insertEnc]
    split
    · rename_i hst
      refine List.pairwise_cons.mpr ⟨?_, h⟩
      intro x hx
      rcases List.mem_cons.mp hx with rfl | hx
      · exact hst
      · exact encLe_trans hst (ht.1 x hx)
    · rename_i hst
      have hts : encLe t s = true := by
        rcases encLe_total s t with h | h
        · exact absurd h hst
        · exact h
      refine List.pairwise_cons.mpr ⟨?_, insertEnc_sorted s ts ht.2⟩
      intro x hx
      rcases List.mem_cons.mp ((insertEnc_perm s ts).mem_iff.mp hx) with rfl | hx
      · exact hts
      · exact ht.1 x hx

/-- the encoding statistics of a copied chunk come out ordered by (page type, encoding) -/
theorem sortEnc_sorted : ∀ l : List EncStat, (sortEnc l).Pairwise (fun a b => encLe a b = true)
  | [] => List.Pairwise.nil
  | s :: ss => insertEnc_sorted s (sortEnc ss) (sortEnc_sorted ss)

theorem insertEnc_of_le (s : EncStat) (l : List EncStat) (h : ∀ t ∈ l, encLe s t = true) :
    insertEnc s l = s :: l := by
  cases l with
  | nil => rfl
  | cons t ts => simp [insertEnc, h t List.mem_cons_self]

/-- statistics already in order (every chunk this library wrote) are left as they are -/
theorem sortEnc_of_sorted : ∀ l : List EncStat, l.Pairwise (fun a b => encLe a b = true) → sortEnc l = l
  | [], _ => rfl
  | s :: ss, h => by
    have hs := List.pairwise_cons.mp h
    simp only [sortEnc, sortEnc_of_sorted ss hs.2]
    exact insertEnc_of_le s ss hs.1

theorem encOK_perm {es es' : List EncStat} (hp : es'.Perm es) (ps : List PageV) (h : EncOK es ps) : EncOK es' ps := by
  rcases h with h | ⟨h1, h2⟩
  · left; subst h; exact List.Perm.eq_nil hp
  · right
    refine ⟨fun s hs => h1 s (hp.mem_iff.mp hs), ?_⟩
    rw [← h2]
    exact (hp.map (·.count)).sum_nat

/-! ## the splice carries the description -/

/-- **splice_describes**: if the source's metadata describes pages `ps` at `srcStart` (layout AND
    column index AND size statistics AND chunk statistics AND encoding statistics), the layout
    error of `loadCopiedChunk` cannot occur and the metadata the splice produces at `dstStart`
    describes the same pages there — for every page sequence, column order, size limit, source
    and destination offset. The values are the source's (the encoding statistics re-ordered). -/
theorem splice_describes (le : Bytes → Bytes → Bool) (lim srcStart dstStart : Nat) (src : FullMeta) (ps : List PageV)
    (h : Describes le lim src srcStart ps) :
    ∃ m, spliceChunkV src dstStart = some m ∧ Describes le lim m dstStart ps ∧
      m.columnIndex = src.columnIndex ∧ m.sizeStats = src.sizeStats ∧ m.statistics = src.statistics ∧
      m.encStats.Perm src.encStats := by
  obtain ⟨hl, hi, hs, ht, he⟩ := h
  have hw := Splice.splice_wf srcStart dstStart (ops ps)
  rw [← hl] at hw
  simp only [spliceChunk] at hw
  cases hlc : loadCopied src.layout with
  | none => simp [hlc] at hw
  | some c =>
    simp only [hlc, Option.map_some, Option.some.injEq] at hw
    refine ⟨(writeCopiedV dstStart ⟨c, src.columnIndex, src.sizeStats, src.statistics, src.encStats⟩).1,
      by simp only [spliceChunkV, loadCopiedV, hlc, Option.map_some], ?_, rfl, rfl, rfl, sortEnc_perm _⟩
    exact ⟨hw, hi, hs, ht, encOK_perm (sortEnc_perm _) ps he⟩

/-- offset index and column index of the output stay aligned: entry `i` of the copied column index
    belongs to the page whose bytes start at the `i`-th rebased location -/
theorem splice_index_aligned (le : Bytes → Bytes → Bool) (lim srcStart dstStart : Nat) (src : FullMeta) (ps : List PageV)
    (h : Describes le lim src srcStart ps) (hci : src.columnIndex ≠ ColumnIndex.none) :
    ∃ m, spliceChunkV src dstStart = some m ∧
      m.layout.locs = specLocs dstStart 0 (ops ps) ∧
      m.columnIndex.nullPages.length = (datas ps).length ∧
      m.columnIndex.minValues.length = (datas ps).length ∧
      m.columnIndex.maxValues.length = (datas ps).length := by
  obtain ⟨m, hm, hd, hc, _⟩ := splice_describes le lim srcStart dstStart src ps h
  refine ⟨m, hm, ?_, ?_⟩
  · rw [hd.1]; exact (layout_wf dstStart (ops ps)).1
  · rcases hd.2.1 with hn | hn
    · exact absurd (hc ▸ hn) hci
    · exact ⟨by rw [hn.1, List.length_map], hn.2.1, hn.2.2.1⟩

/-- number of recorded page locations = number of data pages (so the lengths above agree with the
    offset index) -/
theorem specLocs_length (start row : Nat) : ∀ ps : List PageOp,
    (specLocs start row ps).length = (dataPages ps).length
  | [] => rfl
  | p :: ps => by
    by_cases hd : p.isDict = true
    · simp [specLocs, dataPages, hd]
      simpa [dataPages] using specLocs_length (start + p.size) row ps
    · have hd' : p.isDict = false := by simpa using hd
      simp [specLocs, dataPages, hd']
      simpa [dataPages] using specLocs_length (start + p.size) (row + p.numRows) ps

/-! ## a different size limit at the destination -/

theorem getD_length_le (l : List Bytes) (i n : Nat) (h : ∀ b ∈ l, b.length ≤ n) : (l.getD i []).length ≤ n := by
  by_cases hi : i < l.length
  · rw [List.getD_eq_getElem?_getD, List.getElem?_eq_getElem hi]
    exact h _ (List.getElem_mem hi)
  · rw [List.getD_eq_getElem?_getD, List.getElem?_eq_none (by omega)]
    simp

/-- **splice_describes_limit**: source written under `ColumnIndexSizeLimit limA`, destination
    configured with `limB`. What `statisticsSettingsMatch` checks on the source (every column index
    value at most `limB` bytes when `limB > 0`: `PageInfo.minLen/maxLen ≤ d.indexLimit` in
    `CopyPath`) is enough for the spliced metadata to describe the pages *under the destination's
    limit*: bounds stay bounds, and no entry exceeds `limB`. -/
theorem splice_describes_limit (le : Bytes → Bytes → Bool) (limA limB srcStart dstStart : Nat) (src : FullMeta) (ps : List PageV)
    (h : Describes le limA src srcStart ps)
    (hlim : limB > 0 → ∀ b ∈ src.columnIndex.minValues ++ src.columnIndex.maxValues, b.length ≤ limB) :
    ∃ m, spliceChunkV src dstStart = some m ∧ Describes le limB m dstStart ps := by
  obtain ⟨m, hm, hd, hc, -⟩ := splice_describes le limA srcStart dstStart src ps h
  refine ⟨m, hm, hd.1, ?_, hd.2.2⟩
  rcases hd.2.1 with hn | ⟨h1, h2, h3, h4, h5, h6, h7⟩
  · exact Or.inl hn
  · refine Or.inr ⟨h1, h2, h3, h4, ?_, h6, h7⟩
    intro i lo hi hb
    obtain ⟨a, b, -, -⟩ := h5 i lo hi hb
    refine ⟨a, b, fun hpos => Or.inl ?_, fun hpos => Or.inl ?_⟩
    · exact getD_length_le _ i limB (fun x hx => hlim hpos x (by rw [← hc]; exact List.mem_append_left _ hx))
    · exact getD_length_le _ i limB (fun x hx => hlim hpos x (by rw [← hc]; exact List.mem_append_right _ hx))

/-! ## the whole row group -/

/-- **splice_rowGroup_describes**: a row group all of whose columns are spliced: chunk `i` of the
    output describes the pages of source chunk `i`, laid out back to back from `start`
    (`Layout.chunkStarts`), and the file offset after the chunks is `start` plus all their bytes. -/
theorem splice_rowGroup_describes (le : Bytes → Bytes → Bool) (lim : Nat) :
    ∀ (start : Nat) (cs : List (FullMeta × Nat)) (pss : List (List PageV)) (srcStarts : List Nat),
    cs.length = pss.length → cs.length = srcStarts.length →
    (∀ i (h1 : i < cs.length) (h2 : i < pss.length) (h3 : i < srcStarts.length),
        Describes le lim cs[i].1 srcStarts[i] pss[i]) →
    ∃ ms, spliceRowGroupV start cs = some (ms, start + ((pss.map fun ps => totalSize (ops ps)).sum)) ∧
      ms.length = pss.length ∧
      ∀ i (h1 : i < ms.length) (h2 : i < pss.length) (h3 : i < (chunkStarts start (pss.map ops)).length),
        Describes le lim ms[i] (chunkStarts start (pss.map ops))[i] pss[i]
  | start, [], [], _, _, _, _ => ⟨[], by simp [spliceRowGroupV], rfl, fun i h => absurd h (Nat.not_lt_zero _)⟩
  | _, [], _ :: _, _, h, _, _ => by simp at h
  | _, _ :: _, [], _, h, _, _ => by simp at h
  | _, _ :: _, _ :: _, [], _, h, _ => by simp at h
  | start, (src, bl) :: cs, ps :: pss, s0 :: srcStarts, hl, hl2, hd => by
    have h0 : Describes le lim src s0 ps := hd 0 (by simp) (by simp) (by simp)
    obtain ⟨m, hm, hdm, -⟩ := splice_describes le lim s0 start src ps h0
    have hadv := Splice.splice_advances s0 start (ops ps)
    rw [← h0.1] at hadv
    simp only [spliceChunkV, loadCopiedV] at hm
    cases hlc : loadCopied src.layout with
    | none => simp [hlc] at hm
    | some c =>
      simp only [hlc, Option.map_some, Option.some.injEq] at hm hadv
      have ih := splice_rowGroup_describes le lim (start + totalSize (ops ps)) cs pss srcStarts
        (by simpa using hl) (by simpa using hl2)
        (fun i h1 h2 h3 => by
          have := hd (i + 1) (by simp; omega) (by simp; omega) (by simp; omega)
          simpa using this)
      obtain ⟨ms, hms, hlen, hall⟩ := ih
      refine ⟨m :: ms, ?_, by simp [hlen], ?_⟩
      · simp only [spliceRowGroupV, loadCopiedV, hlc, Option.map_some, writeCopiedV]
        simp only [writeCopiedV] at hm
        rw [hadv, hms]
        simp only [Option.map_some, List.map_cons, List.sum_cons, Nat.add_assoc]
        rw [← hm]
      · intro i h1 h2 h3
        cases i with
        | zero => simpa [chunkStarts] using hdm
        | succ j =>
          have := hall j (by simpa using h1) (by simpa using h2) (by simpa [chunkStarts] using h3)
          simpa [chunkStarts] using this

/-! ## row group totals (writer.go:1716-1725, :1866-1885) -/

/-- the fields of `format.RowGroup` computed from the chunks -/
structure RowGroupTotals where
  fileOffset : Nat
  totalByteSize : Nat
  totalCompressedSize : Nat
  numRows : Nat
deriving Repr, DecidableEq

/-- writer.go:1716-1725: sums of the chunks' `TotalUncompressedSize` / `TotalCompressedSize`;
    `fileOffset` = the writer's offset before the first chunk; `numRows` =
    `rg.columns[0].totalRowCount()` (for a copied column: the source row group's row count) -/
def rowGroupTotals (start : Nat) (ms : List FullMeta) : RowGroupTotals :=
  { fileOffset := start,
    totalByteSize := (ms.map (·.layout.totalUncompressed)).sum,
    totalCompressedSize := (ms.map (·.layout.totalCompressed)).sum,
    numRows := match ms with | m :: _ => m.layout.numRows | [] => 0 }

theorem map_eq_of_describes (le : Bytes → Bytes → Bool) (lim : Nat) (f : ChunkMeta → Nat) (g : List PageOp → Nat)
    (hfg : ∀ st ps, f (chunkMeta st ps) = g ps) :
    ∀ (ms : List FullMeta) (pss : List (List PageV)) (starts : List Nat),
    ms.length = pss.length → starts.length = pss.length →
    (∀ i (h1 : i < ms.length) (h2 : i < pss.length) (h3 : i < starts.length), Describes le lim ms[i] starts[i] pss[i]) →
    ms.map (fun m => f m.layout) = pss.map (fun ps => g (ops ps))
  | [], [], _, _, _, _ => rfl
  | [], _ :: _, _, h, _, _ => by simp at h
  | _ :: _, [], _, h, _, _ => by simp at h
  | _ :: _, _ :: _, [], _, h, _ => by simp at h
  | m :: ms, ps :: pss, st :: starts, h1, h2, hd => by
    have h0 := (hd 0 (by simp) (by simp) (by simp)).1
    simp only [List.getElem_cons_zero] at h0
    simp only [List.map_cons, h0, hfg]
    congr 1
    exact map_eq_of_describes le lim f g hfg ms pss starts (by simpa using h1) (by simpa using h2)
      (fun i a b c => by
        have := hd (i + 1) (by simp; omega) (by simp; omega) (by simp; omega)
        simpa using this)

theorem chunkStarts_length (start : Nat) : ∀ cs : List (List PageOp), (chunkStarts start cs).length = cs.length
  | [] => rfl
  | c :: cs => by simp [chunkStarts, chunkStarts_length (start + totalSize c) cs]

/-- **splice_rowGroup_totals**: for a row group all of whose columns are spliced,
    `total_compressed_size` is exactly the number of bytes between `file_offset` and the offset
    after the last chunk, and `total_byte_size` is the sum of the uncompressed page sizes -/
theorem splice_rowGroup_totals (le : Bytes → Bytes → Bool) (lim start : Nat)
    (cs : List (FullMeta × Nat)) (pss : List (List PageV)) (srcStarts : List Nat)
    (hl : cs.length = pss.length) (hl2 : cs.length = srcStarts.length)
    (hd : ∀ i (h1 : i < cs.length) (h2 : i < pss.length) (h3 : i < srcStarts.length),
        Describes le lim cs[i].1 srcStarts[i] pss[i]) :
    ∃ ms endOff, spliceRowGroupV start cs = some (ms, endOff) ∧
      (rowGroupTotals start ms).fileOffset = start ∧
      start + (rowGroupTotals start ms).totalCompressedSize = endOff ∧
      (rowGroupTotals start ms).totalByteSize =
        (pss.map fun ps => ((ops ps).map fun p => p.hdrLen + p.uncompLen).sum).sum := by
  obtain ⟨ms, hms, hlen, hall⟩ := splice_rowGroup_describes le lim start cs pss srcStarts hl hl2 hd
  have hcl : (chunkStarts start (pss.map ops)).length = pss.length := by
    rw [chunkStarts_length, List.length_map]
  refine ⟨ms, _, hms, rfl, ?_, ?_⟩
  · simp only [rowGroupTotals]
    rw [map_eq_of_describes le lim (·.totalCompressed) totalSize (fun st ps => (layout_wf st ps).2.1)
      ms pss _ hlen hcl hall]
  · simp only [rowGroupTotals]
    rw [map_eq_of_describes le lim (·.totalUncompressed) (fun ps => (ps.map fun p => p.hdrLen + p.uncompLen).sum)
      (fun st ps => (layout_wf st ps).2.2.1) ms pss _ hlen hcl hall]

/-! ## non-vacuity -/

def exPages : List PageV :=
  [⟨⟨true, 10, 20, 25, 3, 0⟩, 2, 0, 0, none, [], [], 0⟩,
   ⟨⟨false, 12, 30, 40, 5, 5⟩, 0, 8, 1, some ([1], [7]), [5], [1, 4], 4⟩,
   ⟨⟨false, 11, 7, 9, 2, 2⟩, 0, 8, 2, none, [2], [2, 0], 0⟩]

def exMeta (start : Nat) : FullMeta :=
  { layout := chunkMeta start (ops exPages),
    columnIndex := ⟨[false, true], [[1], []], [[9], []], 0, [1, 2], [5, 2], [1, 4, 2, 0]⟩,
    sizeStats := ⟨4, [7], [3, 4]⟩,
    statistics := ⟨3, 0, some [0], some [9], none, none⟩,
    encStats := [⟨2, 0, 1⟩, ⟨0, 8, 2⟩] }

def exLe (a b : Bytes) : Bool := decide (a.map UInt8.toNat ≤ b.map UInt8.toNat)

-- the spliced example: layout rebased, values carried, encoding statistics ordered
example : spliceChunkV (exMeta 4) 1000 =
    some { exMeta 1000 with encStats := [⟨0, 8, 2⟩, ⟨2, 0, 1⟩] } := by decide

-- the hypothesis of `splice_describes` is satisfiable: this metadata describes these pages at 4
theorem exMeta_describes : Describes exLe 8 (exMeta 4) 4 exPages := by
  refine ⟨rfl, Or.inr ⟨by decide, by decide, by decide, Or.inr (by decide), ?_, Or.inr (by decide), Or.inr (by decide)⟩,
    ⟨by decide, Or.inr (by decide), Or.inr (by decide)⟩, ⟨by decide, ?_, ?_⟩, Or.inr ⟨by decide, by decide⟩⟩
  · intro i lo hi h
    match i, h with
    | 0, h =>
      have : lo = [1] ∧ hi = [7] := by
        simp [datas, exPages] at h
        exact ⟨h.1.symm, h.2.symm⟩
      obtain ⟨rfl, rfl⟩ := this
      decide
    | 1, h => simp [datas, exPages] at h
    | n + 2, h => simp [datas, exPages] at h
  · intro b hb p hp lo hi hbd
    have hb' : b = [0] := by
      rcases hb with hb | hb <;> simp [exMeta] at hb
      exact hb.symm
    subst hb'
    simp [datas, exPages] at hp
    rcases hp with rfl | rfl
    · simp at hbd; obtain ⟨rfl, rfl⟩ := hbd; decide
    · simp at hbd
  · intro b hb p hp lo hi hbd
    have hb' : b = [9] := by
      rcases hb with hb | hb <;> simp [exMeta] at hb
      exact hb.symm
    subst hb'
    simp [datas, exPages] at hp
    rcases hp with rfl | rfl
    · simp at hbd; obtain ⟨rfl, rfl⟩ := hbd; decide
    · simp at hbd

end PqModel.SpliceMeta
