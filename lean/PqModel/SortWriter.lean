import PqModel.SortRow
import PqModel.MergeSpec

/-! # C10 model, part 5 — the `SortingWriter` composition

`sorting.go`: rows are buffered in a `RowBuffer`; every `sortRowCount` rows (and at `Flush`/`Close`)
the buffer is sorted, optionally deduplicated, and written as one row group of a temporary file;
`Close` merges the row groups (`MergeRowGroups`, C09) into the output, dropping duplicates if
configured. Here: `chunks` (the runs), `dedupRun`, the identification of the C09 model's tagged
rows `(key, input, seq)` with the rows of the sorted runs (`lookup`), and the composition lemmas,
stated against `Merge.IsMerge` so that every merge path proved in C09 (row readers, refined
segment plans) plugs in. -/
namespace PqModel.SortBuf
open PqModel.Merge

/-! ## the runs -/

/-- MIRROR `sorting.go:160-185` `writeRows` + `Flush` at `Close`: whatever the `Write` batching,
    the buffer is flushed each time it holds `n` rows: the runs are the consecutive chunks of `n`
    rows (explicit fuel; `n = 0` never terminates in the library and is excluded by hypothesis) -/
def chunks {R : Type} (n : Nat) : Nat → List R → List (List R)
  | 0, _ => []
  | fuel + 1, l => if l = [] then [] else l.take n :: chunks n fuel (l.drop n)

theorem chunks_flatten {R : Type} {n : Nat} (hn : 1 ≤ n) : ∀ (fuel : Nat) (l : List R), l.length ≤ fuel →
    (chunks n fuel l).flatten = l
  | 0, l, h => by
    have : l = [] := List.eq_nil_of_length_eq_zero (by omega)
    simp [chunks, this]
  | fuel + 1, l, h => by
    simp only [chunks]
    split
    · next e => simp [e]
    · next e =>
      have hl : 0 < l.length := List.length_pos_iff.mpr e
      rw [List.flatten_cons, chunks_flatten hn fuel (l.drop n) (by rw [List.length_drop]; omega), List.take_append_drop]

/-! ## duplicate dropping of one run -/

/-- MIRROR `dedupe.go:78-107` `deduplicate` as `sorting.go:199-202` uses it on a sorted run
    (`lastRow` reset per run): a row is kept iff it differs from the last row kept -/
def dedupRun {R : Type} (cmp : R → R → Int) : Option R → List R → List R
  | _, [] => []
  | none, x :: xs => x :: dedupRun cmp (some x) xs
  | some l, x :: xs => if cmp x l = 0 then dedupRun cmp (some l) xs else x :: dedupRun cmp (some x) xs

/-- the comparator is represented by an integer rank (an order embedding of its quotient; exists
    for every finite set of rows under a total preorder) -/
structure Ranked {R : Type} (cmp : R → R → Int) (rank : R → Int) : Prop where
  le_iff : ∀ a b, cmp a b ≤ 0 ↔ rank a ≤ rank b
  anti : ∀ a b, cmp b a = - cmp a b

theorem Ranked.eq_iff {R : Type} {cmp : R → R → Int} {rank : R → Int} (h : Ranked cmp rank) (a b : R) :
    cmp a b = 0 ↔ rank a = rank b := by
  have h1 := h.le_iff a b
  have h2 := h.le_iff b a
  have h3 := h.anti a b
  constructor <;> intro e <;> omega

theorem Ranked.cmpOk {R : Type} {cmp : R → R → Int} {rank : R → Int} (h : Ranked cmp rank) : CmpOk cmp :=
  ⟨h.anti, fun a b d h1 h2 => (h.le_iff a d).mpr (Int.le_trans ((h.le_iff a b).mp h1) ((h.le_iff b d).mp h2))⟩

theorem dedupRun_spec {R : Type} {cmp : R → R → Int} {rank : R → Int} (h : Ranked cmp rank) :
    ∀ (l : List R) (last : Option R), l.Pairwise (fun a b => rank a ≤ rank b) → (∀ la ∈ last, ∀ x ∈ l, rank la ≤ rank x) →
    (dedupRun cmp last l).Sublist l ∧ (dedupRun cmp last l).Pairwise (fun a b => rank a < rank b) ∧
    (∀ la ∈ last, ∀ y ∈ dedupRun cmp last l, rank la < rank y) ∧
    (∀ x ∈ l, (∃ y ∈ dedupRun cmp last l, rank y = rank x) ∨ (∃ la ∈ last, rank la = rank x))
  | [], last, _, _ => by simp [dedupRun]
  | x :: xs, none, hs, _ => by
    have hs' := List.pairwise_cons.mp hs
    obtain ⟨a, b, c, d⟩ := dedupRun_spec h xs (some x) hs'.2 (by intro la hla y hy; have e0 : x = la := (by simpa using hla); rw [← e0]; exact hs'.1 y hy)
    simp only [dedupRun]
    refine ⟨a.cons_cons x, List.pairwise_cons.mpr ⟨fun y hy => c x rfl y hy, b⟩, by intro la hla; simp at hla, ?_⟩
    intro z hz
    rcases List.mem_cons.mp hz with rfl | hz
    · exact Or.inl ⟨z, by simp, rfl⟩
    · rcases d z hz with ⟨y, hy, e⟩ | ⟨la, hla, e⟩
      · exact Or.inl ⟨y, by simp [hy], e⟩
      · have e0 : x = la := by simpa using hla
        exact Or.inl ⟨x, by simp, by rw [e0]; exact e⟩
  | x :: xs, some l, hs, hl => by
    have hs' := List.pairwise_cons.mp hs
    simp only [dedupRun]
    by_cases he : cmp x l = 0
    · have hr : rank x = rank l := (h.eq_iff x l).mp he
      obtain ⟨a, b, c, d⟩ := dedupRun_spec h xs (some l) hs'.2 (by
        intro la hla y hy; have e0 : l = la := (by simpa using hla); rw [← e0]; exact hl l rfl y (by simp [hy]))
      rw [if_pos he]
      refine ⟨a.cons x, b, c, ?_⟩
      intro z hz
      rcases List.mem_cons.mp hz with rfl | hz
      · exact Or.inr ⟨l, rfl, hr.symm⟩
      · exact d z hz
    · have hr : rank l < rank x := by
        have := hl l rfl x (by simp)
        have hne : rank x ≠ rank l := fun e => he ((h.eq_iff x l).mpr e)
        omega
      obtain ⟨a, b, c, d⟩ := dedupRun_spec h xs (some x) hs'.2 (by
        intro la hla y hy; have e0 : x = la := (by simpa using hla); rw [← e0]; exact hs'.1 y hy)
      rw [if_neg he]
      refine ⟨a.cons_cons x, List.pairwise_cons.mpr ⟨fun y hy => c x rfl y hy, b⟩, ?_, ?_⟩
      · intro la hla y hy
        have e0 : l = la := by simpa using hla
        rw [← e0]
        rcases List.mem_cons.mp hy with rfl | hy
        · exact hr
        · have := c x rfl y hy; omega
      · intro z hz
        rcases List.mem_cons.mp hz with rfl | hz
        · exact Or.inl ⟨z, by simp, rfl⟩
        · rcases d z hz with ⟨y, hy, e⟩ | ⟨la, hla, e⟩
          · exact Or.inl ⟨y, by simp [hy], e⟩
          · have e0 : x = la := by simpa using hla
            exact Or.inl ⟨x, by simp, by rw [e0]; exact e⟩

/-! ## tagged rows of the merge model ↔ rows of the runs -/

/-- the row a tagged merge row `(key, input, seq)` stands for -/
def lookup {R : Type} (ss : List (List R)) (r : Row) : Option R := (ss[r.inp]?).bind (fun s => s[r.seq]?)

/-- the keys handed to the merge model -/
def keysOf {R : Type} (rank : R → Int) (ss : List (List R)) : List (List Int) := ss.map (fun s => s.map rank)

theorem range_filterMap_getElem? {α : Type} (s : List α) : (List.range s.length).filterMap (fun j => s[j]?) = s := by
  have h1 : (List.range s.length).map (fun j => s[j]?) = s.map some := by
    apply List.ext_getElem?
    intro k
    rw [List.getElem?_map, List.getElem?_map]
    by_cases hk : k < s.length
    · rw [List.getElem?_range hk]; simp [List.getElem?_eq_getElem hk]
    · rw [List.getElem?_eq_none (by simpa using hk), List.getElem?_eq_none (by omega)]; rfl
  have h2 : (List.range s.length).filterMap (fun j => s[j]?) = ((List.range s.length).map (fun j => s[j]?)).filterMap id := by
    rw [List.filterMap_map]; rfl
  rw [h2, h1, List.filterMap_map]
  simp

theorem tagList_lookup {R : Type} (rank : R → Int) (ss : List (List R)) {i : Nat} {s : List R} (hi : ss[i]? = some s) :
    (tagList i (s.map rank)).filterMap (lookup ss) = s := by
  unfold tagList
  rw [List.filterMap_map, List.length_map]
  have : (lookup ss ∘ fun j => ({ key := (s.map rank).getD j 0, inp := i, seq := j } : Row)) = fun j => s[j]? := by
    funext j; simp [lookup, hi]
  rw [this, range_filterMap_getElem?]

theorem tagInputs_lookup {R : Type} (rank : R → Int) (ss : List (List R)) :
    (tagInputs (keysOf rank ss)).flatten.filterMap (lookup ss) = ss.flatten := by
  rw [List.filterMap_flatten]
  congr 1
  unfold tagInputs keysOf
  rw [List.map_map, List.length_map]
  apply List.ext_getElem?
  intro i
  rw [List.getElem?_map]
  by_cases hi : i < ss.length
  · rw [List.getElem?_range hi, List.getElem?_eq_getElem hi]
    simp only [Option.map_some, Function.comp]
    congr 1
    have : (List.map (fun s => List.map rank s) ss).getD i [] = (ss[i]).map rank := by
      simp [List.getD, List.getElem?_map, List.getElem?_eq_getElem hi]
    rw [this]
    exact tagList_lookup rank ss (List.getElem?_eq_getElem hi)
  · rw [List.getElem?_eq_none (by simpa using hi), List.getElem?_eq_none (by omega)]; rfl

theorem tagInputs_key {R : Type} (rank : R → Int) (ss : List (List R)) :
    ∀ r ∈ (tagInputs (keysOf rank ss)).flatten, ∃ x, lookup ss r = some x ∧ rank x = r.key := by
  intro r hr
  obtain ⟨l, hl, hrl⟩ := List.mem_flatten.mp hr
  unfold tagInputs keysOf at hl
  obtain ⟨i, hi, rfl⟩ := List.mem_map.mp hl
  rw [List.length_map] at hi
  have hi' : i < ss.length := List.mem_range.mp hi
  have hk : (List.map (fun s => List.map rank s) ss).getD i [] = (ss[i]).map rank := by
    simp [List.getD, List.getElem?_map, List.getElem?_eq_getElem hi']
  rw [hk] at hrl
  unfold tagList at hrl
  obtain ⟨j, hj, rfl⟩ := List.mem_map.mp hrl
  rw [List.length_map] at hj
  have hj' : j < ss[i].length := List.mem_range.mp hj
  refine ⟨ss[i][j], ?_, ?_⟩
  · simp [lookup, List.getElem?_eq_getElem hi', List.getElem?_eq_getElem hj']
  · simp [List.getD, List.getElem?_map, List.getElem?_eq_getElem hj']

/-- the output rows of a merge of the runs -/
def untag {R : Type} (ss : List (List R)) (out : List Row) : List R := out.filterMap (lookup ss)

/-- a correct merge (C09 `IsMerge`) of runs that are each sorted is, read back as rows, a sorted
    permutation of all the rows of the runs -/
theorem untag_isMerge {R : Type} (rank : R → Int) (ss : List (List R)) {out : List Row}
    (hm : IsMerge (tagInputs (keysOf rank ss)) out) :
    (untag ss out).Perm ss.flatten ∧ (untag ss out).Pairwise (fun a b => rank a ≤ rank b) := by
  constructor
  · have := hm.perm.filterMap (lookup ss)
    rwa [tagInputs_lookup] at this
  · unfold untag
    have hmem := List.Pairwise.and_mem.mp hm.sorted
    refine List.Pairwise.filterMap (lookup ss) ?_ hmem
    intro a a' ⟨ha, ha', hk⟩ b hb b' hb'
    obtain ⟨x, hx, ex⟩ := tagInputs_key rank ss a (hm.perm.mem_iff.mp ha)
    obtain ⟨x', hx', ex'⟩ := tagInputs_key rank ss a' (hm.perm.mem_iff.mp ha')
    rw [hx] at hb; rw [hx'] at hb'
    simp at hb hb'
    subst hb; subst hb'
    omega

theorem perm_flatten_map {R : Type} (f : List R → List R) (hf : ∀ l, (f l).Perm l) : ∀ (ls : List (List R)),
    (ls.map f).flatten.Perm ls.flatten
  | [] => List.Perm.refl _
  | l :: ls => by
    simp only [List.map_cons, List.flatten_cons]
    exact (hf l).append (perm_flatten_map f hf ls)

end PqModel.SortBuf
