import PqModel.MergeRefineProof
import PqModel.MergeGeneric

/-! # C09 — the slices computed by `refineSegment` reassemble every row group, so a key-ordered
    refined plan is a merge of the *whole* row groups -/
namespace PqModel.Refine
open PqModel.Merge PqModel.Compare

section
variable {α : Type}

/-- the rows of every row group that a region of the plan reads: `rows[i][off, off+len)` for the
    part of `i` in the region, nothing if it has none -/
def slicesOf (rows : List (List α)) (k : Nat) (R : List Part) : List (List α) :=
  (List.range k).map (fun i =>
    match R.find? (fun p => p.index == i) with
    | some p => ((rows.getD i []).drop p.off).take p.len
    | none => [])

theorem walk_mono (i : Nat) : ∀ (l : List Part) (c e : Nat), Refine.walk i c l = some e → c ≤ e
  | [], c, e, h => by simp [Refine.walk] at h; omega
  | p :: ps, c, e, h => by
    simp only [Refine.walk] at h
    split at h
    · split at h
      · have := walk_mono i ps _ e h; omega
      · cases h
    · exact walk_mono i ps c e h

/-- what a region with distinct row groups reads of row group `i` is the stretch the walk crosses -/
theorem slice_of_walk (rows : List (List α)) (k i : Nat) (hi : i < k) (R : List Part)
    (hnd : (R.map (·.index)).Nodup) (c c1 : Nat) (hw : Refine.walk i c R = some c1) :
    (slicesOf rows k R)[i]? = some (((rows.getD i []).drop c).take (c1 - c)) := by
  simp only [slicesOf, List.getElem?_map, List.getElem?_range hi, Option.map_some]
  congr 1
  cases hf : R.find? (fun p => p.index == i) with
  | none =>
    have habs : ∀ p ∈ R, p.index ≠ i := by
      intro p hp hpi
      have := List.find?_eq_none.mp hf p hp
      simp [hpi] at this
    rw [walk_absent i R c habs] at hw
    cases hw; simp
  | some p =>
    have hp := List.mem_of_find?_eq_some hf
    have hpi : p.index = i := by simpa using List.find?_some hf
    rw [walk_present i R c p hnd hp hpi] at hw
    split at hw
    · rename_i hoff
      cases hw
      simp only [hoff]
      congr 1; omega
    · cases hw

theorem zipPartsG_getElem? {A B : List (List α)} {i : Nat} {a b : List α} (ha : A[i]? = some a) (hb : B[i]? = some b) :
    (zipPartsG A B)[i]? = some (a ++ b) := by
  induction A generalizing B i with
  | nil => simp at ha
  | cons x xs ih =>
    cases B with
    | nil => simp at hb
    | cons y ys =>
      cases i with
      | zero => simp at ha hb; subst ha; subst hb; simp [zipPartsG]
      | succ i =>
        simp only [List.getElem?_cons_succ] at ha hb
        simp only [zipPartsG, List.getElem?_cons_succ]
        exact ih ha hb

theorem join_slices (rows : List (List α)) (k : Nat) : ∀ (plan : List (List Part)),
    (∀ R ∈ plan, (R.map (·.index)).Nodup) → ∀ (i : Nat), i < k → ∀ (c e : Nat),
    Refine.walk i c plan.flatten = some e →
    (joinSegmentsG k (plan.map (slicesOf rows k)))[i]? = some (((rows.getD i []).drop c).take (e - c))
  | [], _, i, hi, c, e, hw => by
    simp only [List.flatten_nil, Refine.walk, Option.some.injEq] at hw
    subst hw
    simp [joinSegmentsG, List.getElem?_replicate, hi]
  | R :: plan, hnd, i, hi, c, e, hw => by
    simp only [List.flatten_cons] at hw
    rw [walk_append] at hw
    cases h1 : Refine.walk i c R with
    | none => rw [h1] at hw; simp at hw
    | some c1 =>
      rw [h1] at hw
      simp only [Option.bind_some] at hw
      have ih := join_slices rows k plan (fun R' hR' => hnd R' (by simp [hR'])) i hi c1 e hw
      have hs := slice_of_walk rows k i hi R (hnd R (by simp)) c c1 h1
      simp only [List.map_cons, joinSegmentsG]
      rw [zipPartsG_getElem? hs ih]
      congr 1
      have m1 := walk_mono i R c c1 h1
      have m2 := walk_mono i plan.flatten c1 e hw
      have : e - c = (c1 - c) + (e - c1) := by omega
      rw [this, List.take_add, List.drop_drop]
      congr 3
      omega

/-- **the cuts partition the rows**: reading, region after region, the slices `refineSegment`
    computed gives back every row group, whole and in order -/
theorem cuts_partition_rows (strict : Bool) (specs : List ColSpec) (ts : List RG) (plan : List (List Part))
    (h : refineSegment strict specs ts = some plan) (rows : List (List α)) (hlen : rows.length = ts.length)
    (hrows : ∀ i, i < ts.length → (rows.getD i []).length = numRowsOf ts i) :
    joinSegmentsG ts.length (plan.map (slicesOf rows ts.length)) = rows := by
  obtain ⟨hw, hnd⟩ := refineSegment_partition strict specs ts plan h
  apply List.ext_getElem?
  intro i
  by_cases hi : i < ts.length
  · rw [join_slices rows ts.length plan (fun R hR => (hnd R hR).1) i hi 0 _ (hw i hi)]
    have hi' : i < rows.length := by omega
    rw [List.getElem?_eq_getElem hi']
    congr 1
    have := hrows i hi
    simp only [List.getD_eq_getElem?_getD, List.getElem?_eq_getElem hi', Option.getD_some] at this ⊢
    simp [← this]
  · have h1 : (joinSegmentsG ts.length (plan.map (slicesOf rows ts.length))).length = ts.length := by
      apply joinSegmentsG_length
      intro s hs
      obtain ⟨R, _, rfl⟩ := List.mem_map.mp hs
      simp [slicesOf]
    rw [List.getElem?_eq_none (by omega), List.getElem?_eq_none (by omega)]

/-- `cuts_form_good_plan` — PARTIAL. Proved: the slices partition every row group (no row lost,
    duplicated or reordered within its row group, at most one slice of a row group per region), and
    each cut is conservative (`cutAbove_conservative`, `cutBelow_conservative`). Hence, if the regions
    are key-ordered and each region's output is a merge of its slices (`PlanGoodBy`, which holds for a
    lone slice trivially and for merged regions by `mergeC_sorted_complete_stable`), the concatenated
    output is a sorted, complete, per-input-stable merge of the whole row groups.
    -- OPEN: `cuts_form_good_plan` at full strength would *derive* the key order of the regions
    -- (every row of a region ≤ every row of the later regions) from the sweep of `refineSegment`
    -- over the start/end events and from `PagesOk`; the sweep invariant relating `pendingLeftK`,
    -- `active` and the cursors to the keys of the rows not yet planned is not proved. -/
theorem cuts_form_good_plan_partial (strict : Bool) (specs : List ColSpec) (ts : List RG) (plan : List (List Part))
    (h : refineSegment strict specs ts = some plan) (rows : List (List α)) (hlen : rows.length = ts.length)
    (hrows : ∀ i, i < ts.length → (rows.getD i []).length = numRowsOf ts i)
    (le : α → α → Prop) (tag : α → Nat) (outs : List (List α))
    (hgood : PlanGoodBy le tag ts.length (plan.map (slicesOf rows ts.length)) outs) :
    IsMergeBy le tag rows outs.flatten := by
  have := planBy_isMerge _ _ hgood
  rwa [cuts_partition_rows strict specs ts plan h rows hlen hrows] at this

end

end PqModel.Refine
