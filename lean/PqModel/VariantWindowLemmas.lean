import PqModel.VariantWindow

/-! Lemmas for `Props/C19Window.lean`: the window loop of the columnar VariantReader against the
    row structure of the column, the slot-group index against the group structure of a window, and
    the `Next`/`SeekToRow` invariant. -/
namespace PqModel.VariantWindow

/-- the cells of the pages not read yet -/
def flat (maxDef : Nat) (rest : List Page) : List Cell :=
  (rest.map (fun p => cellsOf maxDef p.lv p.vals)).flatten

/-- every page passes `checkPageValues` -/
def restOK (maxDef : Nat) (rest : List Page) : Prop := ∀ p ∈ rest, pageOK maxDef p = true

/-- a row of a leaf column: it starts at repetition level 0 and nowhere else -/
def rowOK : List Cell → Bool
  | [] => false
  | c :: t => c.r == 0 && t.all (fun x => x.r != 0)

theorem stream_eq (maxDef : Nat) (l : Leaf) : stream maxDef l = l.cur ++ flat maxDef l.rest := rfl

theorem ensurePage_nil (maxDef : Nat) : ∀ (rest : List Page) (cur : List Cell), restOK maxDef rest →
    cur ++ flat maxDef rest = [] → ensurePage maxDef rest cur = .error .eof := by
  intro rest
  induction rest with
  | nil => intro cur _ h; cases cur with
    | nil => simp [ensurePage]
    | cons c cs => simp at h
  | cons p ps ih =>
    intro cur hok h
    cases cur with
    | cons c cs => simp at h
    | nil =>
      have hp : pageOK maxDef p = true := hok p (by simp)
      have hps : restOK maxDef ps := fun q hq => hok q (by simp [hq])
      simp only [ensurePage, hp, if_true]
      apply ih _ hps
      simpa [flat] using h

theorem ensurePage_cons (maxDef : Nat) : ∀ (rest : List Page) (cur : List Cell) (c : Cell) (s : List Cell),
    restOK maxDef rest → cur ++ flat maxDef rest = c :: s →
    ∃ cs rest', ensurePage maxDef rest cur = .ok (c :: cs, rest') ∧ cs ++ flat maxDef rest' = s ∧
      restOK maxDef rest' := by
  intro rest
  induction rest with
  | nil =>
    intro cur c s hok h
    cases cur with
    | nil => simp [flat] at h
    | cons c0 cs0 =>
      simp [flat] at h
      refine ⟨cs0, [], ?_, ?_, hok⟩
      · simp [ensurePage, h.1]
      · simp [flat, h.2]
  | cons p ps ih =>
    intro cur c s hok h
    cases cur with
    | cons c0 cs0 =>
      simp at h
      refine ⟨cs0, p :: ps, ?_, h.2, hok⟩
      simp [ensurePage, h.1]
    | nil =>
      have hp : pageOK maxDef p = true := hok p (by simp)
      have hps : restOK maxDef ps := fun q hq => hok q (by simp [hq])
      simp only [ensurePage, hp, if_true]
      apply ih _ c s hps
      simpa [flat] using h

theorem rowOK_cons {row : List Cell} (h : rowOK row = true) :
    ∃ c t, row = c :: t ∧ c.r = 0 ∧ ∀ x ∈ t, x.r ≠ 0 := by
  cases row with
  | nil => simp [rowOK] at h
  | cons c t =>
    simp [rowOK] at h
    exact ⟨c, t, rfl, h.1, h.2⟩

/-- the loop, from the middle of row `j` (`tail` = what is left of it), with `m` more rows to take -/
theorem readLoop_started (maxDef n : Nat) : ∀ (fuel : Nat) (l : Leaf) (w : List Cell) (j m : Nat)
    (tail : List Cell) (rs : List (List Cell)),
    restOK maxDef l.rest → stream maxDef l = tail ++ rs.flatten → (∀ x ∈ tail, x.r ≠ 0) →
    (∀ row ∈ rs, rowOK row = true) → n = j + 1 + m → m ≤ rs.length → (stream maxDef l).length < fuel →
    ∃ l', readLoop maxDef n fuel l w j true = .ok (w ++ tail ++ (rs.take m).flatten, l') ∧
      stream maxDef l' = (rs.drop m).flatten ∧ restOK maxDef l'.rest := by
  intro fuel
  induction fuel with
  | zero => intro l w j m tail rs _ _ _ _ _ _ hf; omega
  | succ fuel ih =>
    intro l w j m tail rs hok hs ht hrs hn hm hf
    rw [stream_eq] at hs
    cases tail with
    | cons x tail' =>
      obtain ⟨cs, rest', he, hcs, hok'⟩ := ensurePage_cons maxDef l.rest l.cur x (tail' ++ rs.flatten) hok (by simpa using hs)
      have hx : x.r ≠ 0 := ht x (by simp)
      have hlen : (stream maxDef ⟨cs, rest'⟩).length < fuel := by
        rw [stream_eq] at hf ⊢
        simp only [hcs]; rw [hs] at hf; simp at hf ⊢; omega
      obtain ⟨l', h1, h2, h3⟩ := ih ⟨cs, rest'⟩ (w ++ [x]) j m tail' rs hok' (by rw [stream_eq]; exact hcs)
        (fun y hy => ht y (by simp [hy])) hrs hn hm hlen
      refine ⟨l', ?_, h2, h3⟩
      simp only [readLoop, he, hx, if_false]
      rw [h1]; simp
    | nil =>
      cases rs with
      | nil =>
        have he := ensurePage_nil maxDef l.rest l.cur hok (by simpa using hs)
        have : m = 0 := by simpa using hm
        subst this
        refine ⟨⟨[], []⟩, ?_, by simp [stream], by intro p hp; simp at hp⟩
        simp only [readLoop, he]
        simp [hn]
      | cons row rs' =>
        obtain ⟨c, t, hrow, hc, htl⟩ := rowOK_cons (hrs row (by simp))
        subst hrow
        obtain ⟨cs, rest', he, hcs, hok'⟩ := ensurePage_cons maxDef l.rest l.cur c (t ++ rs'.flatten) hok (by simpa using hs)
        cases m with
        | zero =>
          refine ⟨⟨c :: cs, rest'⟩, ?_, ?_, hok'⟩
          · simp only [readLoop, he, hc, if_true]
            simp [hn]
          · rw [stream_eq]; simp [hcs]
        | succ m' =>
          have hlen : (stream maxDef ⟨cs, rest'⟩).length < fuel := by
            rw [stream_eq] at hf ⊢
            simp only [hcs]; rw [hs] at hf; simp at hf ⊢; omega
          obtain ⟨l', h1, h2, h3⟩ := ih ⟨cs, rest'⟩ (w ++ [c]) (j + 1) m' t rs' hok' (by rw [stream_eq]; exact hcs)
            htl (fun r hr => hrs r (by simp [hr])) (by omega) (by simpa using hm) hlen
          refine ⟨l', ?_, by simpa using h2, h3⟩
          have hne : ¬ (j + 1 = n) := by omega
          simp only [readLoop, he, hc, if_true, hne, if_false]
          rw [h1]; simp

/-- `readWindow(n)` on a leaf positioned at a row start takes exactly the next `n` rows, however the
    cells are cut into pages, and leaves the leaf at the row after them -/
theorem readWindow_take (maxDef n : Nat) (l : Leaf) (rows : List (List Cell))
    (hok : restOK maxDef l.rest) (hs : stream maxDef l = rows.flatten)
    (hrows : ∀ row ∈ rows, rowOK row = true) (hn : 0 < n) (hle : n ≤ rows.length) :
    ∃ l', readWindow maxDef n l = .ok ((rows.take n).flatten, l') ∧
      stream maxDef l' = (rows.drop n).flatten ∧ restOK maxDef l'.rest := by
  cases rows with
  | nil => simp at hle; omega
  | cons row rs =>
    obtain ⟨c, t, hrow, hc, htl⟩ := rowOK_cons (hrows row (by simp))
    subst hrow
    have hs' := hs
    rw [stream_eq] at hs'
    obtain ⟨cs, rest', he, hcs, hok'⟩ := ensurePage_cons maxDef l.rest l.cur c (t ++ rs.flatten) hok (by simpa using hs')
    obtain ⟨m, rfl⟩ : ∃ m, n = m + 1 := ⟨n - 1, by omega⟩
    have hlen : (stream maxDef ⟨cs, rest'⟩).length < (stream maxDef l).length := by
      rw [hs, stream_eq]; simp only [hcs]; simp
    obtain ⟨l', h1, h2, h3⟩ := readLoop_started maxDef (m + 1) (stream maxDef l).length ⟨cs, rest'⟩ ([] ++ [c]) 0 m t rs
      hok' (by rw [stream_eq]; exact hcs) htl (fun r hr => hrows r (by simp [hr])) (by omega)
      (by simpa using hle) hlen
    refine ⟨l', ?_, by simpa using h2, h3⟩
    simp only [readWindow, readLoop, he, hc, if_true]
    simp only [Bool.false_eq_true, if_false]
    rw [h1]; simp

/-- the loop on a column that ends too early: `m` more rows wanted, fewer there -/
theorem readLoop_short (maxDef n : Nat) : ∀ (fuel : Nat) (l : Leaf) (w : List Cell) (j m : Nat)
    (tail : List Cell) (rs : List (List Cell)),
    restOK maxDef l.rest → stream maxDef l = tail ++ rs.flatten → (∀ x ∈ tail, x.r ≠ 0) →
    (∀ row ∈ rs, rowOK row = true) → n = j + 1 + m → rs.length < m → (stream maxDef l).length < fuel →
    readLoop maxDef n fuel l w j true = .error .ended := by
  intro fuel
  induction fuel with
  | zero => intro l w j m tail rs _ _ _ _ _ _ hf; omega
  | succ fuel ih =>
    intro l w j m tail rs hok hs ht hrs hn hm hf
    rw [stream_eq] at hs
    cases tail with
    | cons x tail' =>
      obtain ⟨cs, rest', he, hcs, hok'⟩ := ensurePage_cons maxDef l.rest l.cur x (tail' ++ rs.flatten) hok (by simpa using hs)
      have hx : x.r ≠ 0 := ht x (by simp)
      have hlen : (stream maxDef ⟨cs, rest'⟩).length < fuel := by
        rw [stream_eq] at hf ⊢
        simp only [hcs]; rw [hs] at hf; simp at hf ⊢; omega
      have h1 := ih ⟨cs, rest'⟩ (w ++ [x]) j m tail' rs hok' (by rw [stream_eq]; exact hcs)
        (fun y hy => ht y (by simp [hy])) hrs hn hm hlen
      simp only [readLoop, he, hx, if_false]
      exact h1
    | nil =>
      cases rs with
      | nil =>
        have he := ensurePage_nil maxDef l.rest l.cur hok (by simpa using hs)
        have hne : ¬ (j + 1 = n) := by omega
        simp only [readLoop, he]
        simp [hne]
      | cons row rs' =>
        obtain ⟨c, t, hrow, hc, htl⟩ := rowOK_cons (hrs row (by simp))
        subst hrow
        obtain ⟨cs, rest', he, hcs, hok'⟩ := ensurePage_cons maxDef l.rest l.cur c (t ++ rs'.flatten) hok (by simpa using hs)
        obtain ⟨m', rfl⟩ : ∃ m', m = m' + 1 := ⟨m - 1, by omega⟩
        have hlen : (stream maxDef ⟨cs, rest'⟩).length < fuel := by
          rw [stream_eq] at hf ⊢
          simp only [hcs]; rw [hs] at hf; simp at hf ⊢; omega
        have h1 := ih ⟨cs, rest'⟩ (w ++ [c]) (j + 1) m' t rs' hok' (by rw [stream_eq]; exact hcs)
          htl (fun r hr => hrs r (by simp [hr])) (by omega) (by simp at hm; omega) hlen
        have hne : ¬ (j + 1 = n) := by omega
        simp only [readLoop, he, hc, if_true, hne, if_false]
        exact h1

/-- a column chunk that holds fewer rows than the window asks for is an error, never a short window -/
theorem readWindow_short (maxDef n : Nat) (l : Leaf) (rows : List (List Cell))
    (hok : restOK maxDef l.rest) (hs : stream maxDef l = rows.flatten)
    (hrows : ∀ row ∈ rows, rowOK row = true) (hlt : rows.length < n) :
    readWindow maxDef n l = .error .ended := by
  cases rows with
  | nil =>
    have he := ensurePage_nil maxDef l.rest l.cur hok (by rw [← stream_eq]; simpa using hs)
    have : ¬ (0 = n) := by simp at hlt; omega
    simp only [readWindow, readLoop, he]
    simp [this]
  | cons row rs =>
    obtain ⟨c, t, hrow, hc, htl⟩ := rowOK_cons (hrows row (by simp))
    subst hrow
    have hs' := hs
    rw [stream_eq] at hs'
    obtain ⟨cs, rest', he, hcs, hok'⟩ := ensurePage_cons maxDef l.rest l.cur c (t ++ rs.flatten) hok (by simpa using hs')
    obtain ⟨m, rfl⟩ : ∃ m, n = m + 1 := ⟨n - 1, by simp at hlt; omega⟩
    have hlen : (stream maxDef ⟨cs, rest'⟩).length < (stream maxDef l).length := by
      rw [hs, stream_eq]; simp only [hcs]; simp
    have h1 := readLoop_short maxDef (m + 1) (stream maxDef l).length ⟨cs, rest'⟩ ([] ++ [c]) 0 m t rs
      hok' (by rw [stream_eq]; exact hcs) htl (fun r hr => hrows r (by simp [hr])) (by omega)
      (by simp at hlt; omega) hlen
    simp only [readWindow, readLoop, he, hc, if_true]
    simp only [Bool.false_eq_true, if_false]
    exact h1

/-! ## slot groups -/

/-- a depth-`d` group of a window: its first slot has repetition level ≤ d, the others > d -/
def grpOK (depth : Nat) : List Nat → Bool
  | [] => false
  | r :: t => decide (r ≤ depth) && t.all (fun x => decide (depth < x))

/-- first slot of every group, counting from `i` -/
def offsets : Nat → List (List Nat) → List Nat
  | _, [] => []
  | i, g :: gs => i :: offsets (i + g.length) gs

theorem startsFrom_tail (depth : Nat) : ∀ (t : List Nat) (i : Nat) (more : List Nat),
    (∀ x ∈ t, depth < x) → startsFrom depth i (t ++ more) = startsFrom depth (i + t.length) more := by
  intro t
  induction t with
  | nil => intro i more _; simp
  | cons x t ih =>
    intro i more h
    have hx : ¬ x ≤ depth := by have := h x (by simp); omega
    simp only [List.cons_append, startsFrom, hx, if_false]
    rw [ih (i + 1) more (fun y hy => h y (by simp [hy]))]
    simp; congr 1; omega

theorem startsFrom_groups (depth : Nat) : ∀ (gs : List (List Nat)) (i : Nat),
    (∀ g ∈ gs, grpOK depth g = true) → startsFrom depth i gs.flatten = offsets i gs := by
  intro gs
  induction gs with
  | nil => intro i _; simp [startsFrom, offsets]
  | cons g gs ih =>
    intro i h
    have hg := h g (by simp)
    cases g with
    | nil => simp [grpOK] at hg
    | cons r t =>
      simp [grpOK] at hg
      simp only [List.flatten_cons, List.cons_append, startsFrom, hg.1, if_true, offsets]
      rw [startsFrom_tail depth t (i + 1) gs.flatten hg.2, ih _ (fun g' hg' => h g' (by simp [hg']))]
      simp; congr 1; omega

theorem offsets_length : ∀ (gs : List (List Nat)) (i : Nat), (offsets i gs).length = gs.length := by
  intro gs; induction gs with
  | nil => intro i; rfl
  | cons g gs ih => intro i; simp [offsets, ih]

theorem offsets_get : ∀ (gs : List (List Nat)) (i k : Nat), k < gs.length →
    (offsets i gs)[k]? = some (i + (gs.take k).flatten.length) := by
  intro gs
  induction gs with
  | nil => intro i k h; simp at h
  | cons g gs ih =>
    intro i k h
    cases k with
    | zero => simp [offsets]
    | succ k =>
      simp only [offsets, List.getElem?_cons_succ]
      rw [ih (i + g.length) k (by simpa using h)]
      simp; omega

/-! ## seeking -/

theorem dropWhile_tail (t more : List Cell) (ht : ∀ x ∈ t, x.r ≠ 0)
    (hm : more = [] ∨ ∃ c s, more = c :: s ∧ c.r = 0) :
    (t ++ more).dropWhile (fun c => c.r ≠ 0) = more := by
  induction t with
  | nil =>
    rcases hm with h | ⟨c, s, h, hc⟩
    · simp [h]
    · simp [h, hc]
  | cons x t ih =>
    have hx : x.r ≠ 0 := ht x (by simp)
    simp only [List.cons_append, List.dropWhile]
    simp only [hx, ne_eq, not_false_eq_true, decide_true]
    exact ih (fun y hy => ht y (by simp [hy]))

theorem flatten_rows_head (rs : List (List Cell)) (h : ∀ row ∈ rs, rowOK row = true) :
    rs.flatten = [] ∨ ∃ c s, rs.flatten = c :: s ∧ c.r = 0 := by
  cases rs with
  | nil => left; rfl
  | cons row rs =>
    obtain ⟨c, t, hrow, hc, _⟩ := rowOK_cons (h row (by simp))
    right; exact ⟨c, t ++ rs.flatten, by simp [hrow], hc⟩

theorem dropRows_rows : ∀ (k : Nat) (rows : List (List Cell)), (∀ row ∈ rows, rowOK row = true) →
    dropRows k rows.flatten = (rows.drop k).flatten := by
  intro k
  induction k with
  | zero => intro rows _; simp [dropRows]
  | succ k ih =>
    intro rows h
    cases rows with
    | nil => simp [dropRows]
    | cons row rs =>
      obtain ⟨c, t, hrow, hc, htl⟩ := rowOK_cons (h row (by simp))
      subst hrow
      have hrs : ∀ row ∈ rs, rowOK row = true := fun r hr => h r (by simp [hr])
      simp only [List.flatten_cons, List.cons_append, dropRows, List.drop_succ_cons]
      rw [dropWhile_tail t rs.flatten htl (flatten_rows_head rs hrs)]
      exact ih rs hrs

end PqModel.VariantWindow
