import PqModel.Merge

/-! # C09 — SPEC side: what a correct merge is, independent of how the readers work.

`Emits ins out ins'`: `out` is produced from the inputs `ins` by repeatedly removing the head of
some input that is minimal among all current heads; `ins'` is what is left. Every such schedule is
sorted (if the inputs are), loses/duplicates nothing and keeps every input's order. The mirror
proofs show that each `ReadRows` call of both readers is such a schedule. -/
namespace PqModel.Merge

abbrev SortedK (l : List Row) : Prop := l.Pairwise (fun a b => a.key ≤ b.key)

inductive Emits : List (List Row) → List Row → List (List Row) → Prop where
  | nil {ins : List (List Row)} : Emits ins [] ins
  | step {ins : List (List Row)} {i : Nat} {x : Row} {rest out : List Row} {ins' : List (List Row)} :
      ins[i]? = some (x :: rest) →
      (∀ (j : Nat) (l : List Row) (y : Row), ins[j]? = some l → l.head? = some y → x.key ≤ y.key) →
      Emits (ins.set i rest) out ins' → Emits ins (x :: out) ins'

theorem Emits.trans {a b c : List (List Row)} {o1 o2 : List Row}
    (h1 : Emits a o1 b) (h2 : Emits b o2 c) : Emits a (o1 ++ o2) c := by
  induction h1 with
  | nil => simpa using h2
  | step hi hmin _ ih => exact Emits.step hi hmin (ih h2)

theorem Emits.length {a b : List (List Row)} {o : List Row} (h : Emits a o b) : b.length = a.length := by
  induction h with
  | nil => rfl
  | step _ _ _ ih => simpa using ih

theorem lt_of_getElem?_some {α} {l : List α} {i : Nat} {x : α} (h : l[i]? = some x) : i < l.length := by
  rcases Nat.lt_or_ge i l.length with h' | h'
  · exact h'
  · simp [List.getElem?_eq_none h'] at h

/-- emitting a whole prefix of input `i` whose rows are below every other head -/
theorem emits_prefix {ins : List (List Row)} {i : Nat} (p rest : List Row)
    (hi : ins[i]? = some (p ++ rest))
    (hmin : ∀ x ∈ p, ∀ (j : Nat) (l : List Row) (y : Row), j ≠ i → ins[j]? = some l → l.head? = some y → x.key ≤ y.key) :
    Emits ins p (ins.set i rest) := by
  induction p generalizing ins with
  | nil =>
    have hlt := lt_of_getElem?_some hi
    have hget : ins[i] = rest := by
      have := List.getElem?_eq_getElem hlt
      rw [this] at hi; simpa using hi
    have : ins.set i rest = ins := by
      rw [← hget]; exact List.set_getElem_self hlt
    rw [this]; exact Emits.nil
  | cons x p ih =>
    have hlt := lt_of_getElem?_some hi
    refine Emits.step (i := i) (rest := p ++ rest) (by simpa using hi) ?_ ?_
    · intro j l y hj hy
      by_cases hji : j = i
      · subst hji
        rw [hi] at hj
        have : l = x :: (p ++ rest) := by simpa using hj.symm
        subst this
        simp at hy; subst hy; exact Int.le_refl _
      · exact hmin x (by simp) j l y hji hj hy
    · have := ih (ins := ins.set i (p ++ rest)) (by simp [hlt]) (by
        intro x' hx' j l y hji hj hy
        rw [List.getElem?_set] at hj
        have : ¬ i = j := fun h => hji h.symm
        simp [this] at hj
        exact hmin x' (by simp [hx']) j l y hji hj hy)
      simpa using this

def WellTagged (ins : List (List Row)) : Prop :=
  ∀ (i : Nat) (l : List Row), ins[i]? = some l → ∀ x ∈ l, x.inp = i

/-- rows of input `i` in an output -/
def proj (i : Nat) (out : List Row) : List Row := out.filter (fun r => r.inp == i)

theorem wellTagged_set {ins : List (List Row)} {i : Nat} {x : Row} {rest : List Row}
    (hw : WellTagged ins) (hi : ins[i]? = some (x :: rest)) : WellTagged (ins.set i rest) := by
  intro j l hj y hy
  rw [List.getElem?_set] at hj
  by_cases h : i = j
  · subst h
    simp [lt_of_getElem?_some hi] at hj
    subst hj
    exact hw i _ hi y (by simp [hy])
  · simp [h] at hj
    exact hw j l hj y hy

/-- completeness + per-input stability: what was emitted from input `i`, followed by what is left of
    it, is input `i` -/
theorem emits_proj {ins ins' : List (List Row)} {out : List Row} (h : Emits ins out ins') :
    WellTagged ins → ∀ (i : Nat) (l : List Row), ins[i]? = some l →
      ∃ l', ins'[i]? = some l' ∧ proj i out ++ l' = l := by
  induction h with
  | nil => intro _ i l hl; exact ⟨l, hl, by simp [proj]⟩
  | @step ins i0 x rest out ins' hi hmin _ ih =>
    intro hw i l hl
    have hlt := lt_of_getElem?_some hi
    have hw' := wellTagged_set hw hi
    have hx : x.inp = i0 := hw i0 _ hi x (by simp)
    by_cases he : i = i0
    · subst he
      have : l = x :: rest := by rw [hi] at hl; exact (Option.some.inj hl).symm
      subst this
      obtain ⟨l', hl', hp⟩ := ih hw' i rest (by simp [hlt])
      refine ⟨l', hl', ?_⟩
      simp only [proj, List.filter_cons, hx, beq_self_eq_true, if_true, List.cons_append]
      simp only [proj] at hp
      rw [hp]
    · obtain ⟨l', hl', hp⟩ := ih hw' i l (by
        rw [List.getElem?_set]
        have : ¬ i0 = i := fun h => he h.symm
        simp [this, hl])
      refine ⟨l', hl', ?_⟩
      have hne : (x.inp == i) = false := by
        rw [hx]; simp; exact fun h => he h.symm
      simp only [proj, List.filter_cons, hne] at hp ⊢
      simpa using hp

theorem emits_wellTagged {ins ins' : List (List Row)} {out : List Row} (h : Emits ins out ins') :
    WellTagged ins → WellTagged ins' := by
  induction h with
  | nil => exact id
  | step hi _ _ ih => intro hw; exact ih (wellTagged_set hw hi)

theorem sortedK_head_le {x y : Row} {l : List Row} (hs : SortedK l) (hh : l.head? = some x) (hy : y ∈ l) :
    x.key ≤ y.key := by
  cases l with
  | nil => simp at hh
  | cons a as =>
    simp at hh; subst hh
    rcases List.mem_cons.mp hy with rfl | hy
    · exact Int.le_refl _
    · exact (List.pairwise_cons.mp hs).1 y hy

theorem sorted_set {ins : List (List Row)} {i : Nat} {x : Row} {rest : List Row}
    (hs : ∀ l ∈ ins, SortedK l) (hi : ins[i]? = some (x :: rest)) : ∀ l ∈ ins.set i rest, SortedK l := by
  intro l hl
  rcases List.mem_or_eq_of_mem_set hl with h | h
  · exact hs l h
  · subst h; exact (List.pairwise_cons.mp (hs _ (List.mem_of_getElem? hi))).2

/-- a row emitted first is below everything that is still in some input -/
theorem step_le_all {ins : List (List Row)} {x : Row}
    (hs : ∀ l ∈ ins, SortedK l)
    (hmin : ∀ (j : Nat) (l : List Row) (y : Row), ins[j]? = some l → l.head? = some y → x.key ≤ y.key) :
    ∀ l ∈ ins, ∀ y ∈ l, x.key ≤ y.key := by
  intro l hl y hy
  obtain ⟨j, hj⟩ := List.getElem?_of_mem hl
  cases hh : l.head? with
  | none => cases l <;> simp_all
  | some z => exact Int.le_trans (hmin j l z hj hh) (sortedK_head_le (hs l hl) hh hy)

theorem emits_mem {ins ins' : List (List Row)} {out : List Row} (h : Emits ins out ins') :
    (∀ y ∈ out, ∃ l ∈ ins, y ∈ l) ∧ (∀ l' ∈ ins', ∀ y ∈ l', ∃ l ∈ ins, y ∈ l) := by
  induction h with
  | nil => exact ⟨by simp, fun l' hl' y hy => ⟨l', hl', hy⟩⟩
  | @step ins i0 x rest out ins' hi _ _ ih =>
    have back : ∀ l ∈ ins.set i0 rest, ∀ y ∈ l, ∃ l0 ∈ ins, y ∈ l0 := by
      intro l hl y hy
      rcases List.mem_or_eq_of_mem_set hl with h | h
      · exact ⟨l, h, hy⟩
      · subst h; exact ⟨_, List.mem_of_getElem? hi, by simp [hy]⟩
    refine ⟨?_, ?_⟩
    · intro y hy
      rcases List.mem_cons.mp hy with rfl | hy
      · exact ⟨_, List.mem_of_getElem? hi, by simp⟩
      · obtain ⟨l, hl, hyl⟩ := ih.1 y hy
        exact back l hl y hyl
    · intro l' hl' y hy
      obtain ⟨l, hl, hyl⟩ := ih.2 l' hl' y hy
      exact back l hl y hyl

/-- sortedness: the output is sorted, stays below everything not yet emitted, the rests stay sorted -/
theorem emits_sorted {ins ins' : List (List Row)} {out : List Row} (h : Emits ins out ins') :
    (∀ l ∈ ins, SortedK l) →
      SortedK out ∧ (∀ x ∈ out, ∀ l ∈ ins', ∀ y ∈ l, x.key ≤ y.key) ∧ (∀ l ∈ ins', SortedK l) := by
  induction h with
  | nil => intro hs; exact ⟨List.Pairwise.nil, by simp, hs⟩
  | @step ins i0 x rest out ins' hi hmin hrest ih =>
    intro hs
    have hs' := sorted_set hs hi
    obtain ⟨h1, h2, h3⟩ := ih hs'
    have hall := step_le_all hs hmin
    have hall' : ∀ l ∈ ins.set i0 rest, ∀ y ∈ l, x.key ≤ y.key := by
      intro l hl y hy
      rcases List.mem_or_eq_of_mem_set hl with h | h
      · exact hall l h y hy
      · subst h; exact hall _ (List.mem_of_getElem? hi) y (by simp [hy])
    have hm := emits_mem hrest
    refine ⟨List.pairwise_cons.mpr ⟨?_, h1⟩, ?_, h3⟩
    · intro y hy
      obtain ⟨l, hl, hyl⟩ := hm.1 y hy
      exact hall' l hl y hyl
    · intro y hy l hl z hz
      rcases List.mem_cons.mp hy with rfl | hy
      · obtain ⟨l0, hl0, hz0⟩ := hm.2 l hl z hz
        exact hall' l0 hl0 z hz0
      · exact h2 y hy l hl z hz

theorem flatten_set_perm {ins : List (List Row)} {i : Nat} {x : Row} {rest : List Row}
    (hi : ins[i]? = some (x :: rest)) : (x :: (ins.set i rest).flatten).Perm ins.flatten := by
  induction ins generalizing i with
  | nil => simp at hi
  | cons a as ih =>
    cases i with
    | zero =>
      simp at hi; subst hi
      simp
    | succ i =>
      simp only [List.getElem?_cons_succ] at hi
      simp only [List.set_cons_succ, List.flatten_cons]
      have := ih hi
      exact (List.perm_middle.symm).trans (List.Perm.append_left a this)

/-- nothing lost, nothing duplicated -/
theorem emits_perm {ins ins' : List (List Row)} {out : List Row} (h : Emits ins out ins') :
    (out ++ ins'.flatten).Perm ins.flatten := by
  induction h with
  | nil => simp
  | step hi _ _ ih =>
    exact (List.Perm.cons _ ih).trans (flatten_set_perm hi)

/-! ## What the property demands of a complete merge -/

/-- `out` is a sorted, complete, per-input-stable merge of `ins` -/
structure IsMerge (ins : List (List Row)) (out : List Row) : Prop where
  sorted : SortedK out
  perm : out.Perm ins.flatten
  stable : ∀ (i : Nat) (l : List Row), ins[i]? = some l → proj i out = l

theorem isMerge_of_emits {ins ins' : List (List Row)} {out : List Row}
    (h : Emits ins out ins') (hdone : ∀ l ∈ ins', l = [])
    (hs : ∀ l ∈ ins, SortedK l) (hw : WellTagged ins) : IsMerge ins out := by
  have hfl : ins'.flatten = [] := by
    simp only [List.flatten_eq_nil_iff]; exact hdone
  refine ⟨(emits_sorted h hs).1, ?_, ?_⟩
  · have := emits_perm h
    rwa [hfl, List.append_nil] at this
  · intro i l hl
    obtain ⟨l', hl', hp⟩ := emits_proj h hw i l hl
    have : l' = [] := hdone l' (List.mem_of_getElem? hl')
    subst this
    simpa using hp

/-! ## Segment refinement (merge_refine.go), abstractly

The planner cuts every input into consecutive parts, groups the parts into segments that are
ordered in key space (every row of a segment is at most equal to every row of the following
ones), merges each segment on its own (a single part, or a loser-tree merge of several) and
concatenates. Whatever the cuts are, the concatenation is a merge of the whole inputs. -/

/-- input-wise concatenation of the parts of two consecutive segments -/
def zipParts : List (List Row) → List (List Row) → List (List Row)
  | a :: as, b :: bs => (a ++ b) :: zipParts as bs
  | _, _ => []

theorem zipParts_get {A B : List (List Row)} (hlen : A.length = B.length) (i : Nat) (l : List Row)
    (h : (zipParts A B)[i]? = some l) : ∃ a b, A[i]? = some a ∧ B[i]? = some b ∧ l = a ++ b := by
  induction A generalizing B i with
  | nil => cases B <;> simp [zipParts] at h
  | cons a as ih =>
    cases B with
    | nil => simp at hlen
    | cons b bs =>
      cases i with
      | zero => simp [zipParts] at h; exact ⟨a, b, by simp, by simp, h.symm⟩
      | succ i =>
        simp only [zipParts, List.getElem?_cons_succ] at h ⊢
        exact ih (by simpa using hlen) i h

theorem zipParts_flatten_perm {A B : List (List Row)} (hlen : A.length = B.length) :
    (zipParts A B).flatten.Perm (A.flatten ++ B.flatten) := by
  induction A generalizing B with
  | nil => cases B <;> simp [zipParts] at hlen ⊢
  | cons a as ih =>
    cases B with
    | nil => simp at hlen
    | cons b bs =>
      simp only [zipParts, List.flatten_cons]
      have h := ih (B := bs) (by simpa using hlen)
      -- a ++ b ++ Z  ~  (a ++ A) ++ (b ++ B)
      have h1 : (a ++ b ++ (zipParts as bs).flatten).Perm (a ++ b ++ (as.flatten ++ bs.flatten)) :=
        List.Perm.append_left _ h
      refine h1.trans ?_
      simp only [List.append_assoc]
      refine List.Perm.append_left a ?_
      -- b ++ (A ++ (B)) ~ A ++ (b ++ B)
      rw [← List.append_assoc, ← List.append_assoc]
      exact List.Perm.append_right _ List.perm_append_comm

/-- two consecutive segments -/
theorem isMerge_append {A B : List (List Row)} {oa ob : List Row} (hlen : A.length = B.length)
    (ha : IsMerge A oa) (hb : IsMerge B ob) (hord : ∀ x ∈ oa, ∀ y ∈ ob, x.key ≤ y.key) :
    IsMerge (zipParts A B) (oa ++ ob) := by
  refine ⟨?_, ?_, ?_⟩
  · exact List.pairwise_append.mpr ⟨ha.sorted, hb.sorted, hord⟩
  · exact (List.Perm.append ha.perm hb.perm).trans (zipParts_flatten_perm hlen).symm
  · intro i l hl
    obtain ⟨a, b, h1, h2, h3⟩ := zipParts_get hlen i l hl
    subst h3
    simp only [proj, List.filter_append]
    have e1 := ha.stable i a h1
    have e2 := hb.stable i b h2
    simp only [proj] at e1 e2
    rw [e1, e2]

/-- the parts of all segments, input-wise concatenated (`k` inputs) -/
def joinSegments (k : Nat) : List (List (List Row)) → List (List Row)
  | [] => List.replicate k []
  | s :: ss => zipParts s (joinSegments k ss)

theorem zipParts_length (A B : List (List Row)) : (zipParts A B).length = min A.length B.length := by
  induction A generalizing B with
  | nil => simp [zipParts]
  | cons a as ih =>
    cases B with
    | nil => simp [zipParts]
    | cons b bs => simp only [zipParts, List.length_cons, ih bs]; omega

theorem joinSegments_length (k : Nat) (segs : List (List (List Row))) (h : ∀ s ∈ segs, s.length = k) :
    (joinSegments k segs).length = k := by
  induction segs with
  | nil => simp [joinSegments]
  | cons s ss ih =>
    have hs : s.length = k := h s (by simp)
    have ih := ih (fun s' hs' => h s' (by simp [hs']))
    simp only [joinSegments, zipParts_length, hs, ih]; omega

/-- a refinement plan: per segment its parts (one per input, possibly empty) and its output -/
structure Plan (k : Nat) where
  parts : List (List (List Row))
  outs : List (List Row)

/-- every segment is merged correctly on its own, and segments are ordered in key space -/
def Plan.Good {k : Nat} : List (List (List Row)) → List (List Row) → Prop
  | [], [] => True
  | s :: ss, o :: os => s.length = k ∧ IsMerge s o ∧ (∀ x ∈ o, ∀ o' ∈ os, ∀ y ∈ o', x.key ≤ y.key) ∧ Plan.Good (k := k) ss os
  | _, _ => False

theorem isMerge_empty (k : Nat) : IsMerge (List.replicate k []) [] := by
  refine ⟨List.Pairwise.nil, ?_, ?_⟩
  · have : (List.replicate k ([] : List Row)).flatten = [] := by
      simp only [List.flatten_eq_nil_iff]; intro l hl; exact (List.mem_replicate.mp hl).2
    rw [this]
  · intro i l hl
    have := List.mem_of_getElem? hl
    rw [(List.mem_replicate.mp this).2]; rfl

/-- C09 / segment refinement: any plan whose segments are individually correct merges of their parts
    and are ordered in key space concatenates to a correct merge of the whole inputs. -/
theorem plan_isMerge {k : Nat} : ∀ (segs : List (List (List Row))) (outs : List (List Row)),
    Plan.Good (k := k) segs outs → IsMerge (joinSegments k segs) outs.flatten
  | [], [], _ => by simpa [joinSegments] using isMerge_empty k
  | [], _ :: _, h => by simp [Plan.Good] at h
  | _ :: _, [], h => by simp [Plan.Good] at h
  | s :: ss, o :: os, h => by
    obtain ⟨hlen, hm, hord, hrest⟩ := h
    have ih := plan_isMerge ss os hrest
    have hl : ∀ s' ∈ ss, s'.length = k := by
      clear ih hord hm
      induction ss generalizing os with
      | nil => simp
      | cons a as iha =>
        cases os with
        | nil => simp [Plan.Good] at hrest
        | cons b bs =>
          obtain ⟨h1, _, _, h4⟩ := hrest
          intro s' hs'
          rcases List.mem_cons.mp hs' with rfl | hs'
          · exact h1
          · exact iha bs h4 s' hs'
    simp only [joinSegments, List.flatten_cons]
    refine isMerge_append (by rw [hlen, joinSegments_length k ss hl]) hm ih ?_
    intro x hx y hy
    obtain ⟨o', ho', hy'⟩ := List.mem_flatten.mp hy
    exact hord x hx o' ho' y hy'

end PqModel.Merge
