import PqModel.PageLoad

/-! # What the callers of the page readers do with a page-load error (C13)

`PageLoad.lean` says which loader rejects a corrupted body. Between that loader and the program there
are layers that call a page reader and hand its result on: `FilePages.ReadPage`, the lazy dictionary
load inside `readDataPageV1/V2`, `columnPages` (whole column over all row groups, column.go),
`multiPages` (multi_row_group.go), `rangePages`, `convertedPages`, `columnChunkValueReader`,
`CopyPages`, `PrintColumnChunk`, the async reader's goroutine … A corruption that is detected by the
loader is still *returned as data / as a short read without error* when one of them drops or
swallows the error (seeded/C13-3a: `f.readDictionary()` as a bare statement; seeded/C13-3b:
`if p != nil { return p, err }` in `columnPages.ReadPage`).

Two things are modelled here.

1. **The decision list of a call site** (`Step`, `verdict`, `propagates`). `tools/factgen` (family
   `pagereaders`) extracts, for every call to a page reader in the root package, the conditions the
   following statements test on the error / page variables and what each branch does
   (`Generated.Facts.pageReaderCalls`). `verdict` evaluates such a list, in three-valued (Kleene)
   logic because conditions about other things are unknown, in the situation `Sit` the caller is in;
   `propagates` demands that in the situation "error that is neither nil nor io.EOF" (page nil or
   not) the first branch taken hands the error on. This is a SPEC-side evaluator of an extracted
   control-flow summary, not a mirror of one function.

2. **The concatenating readers** `columnPages.ReadPage` (column.go:121-133) and `multiPages.ReadPage`
   (multi_row_group.go:548-568): MIRROR `concatReadPage`, parametric in the guard of their returning
   branch (`if err == nil || err != io.EOF { return p, err }`), with the SPEC `specRead` (the pages
   of the chunks in order up to the first failure, which is reported). `concat_refines` proves them
   equal for every guard that holds for a page and for a failure and not for io.EOF;
   `Props/FactsCheckC13.lean` shows the guards extracted from the source are of that kind.

The same evaluator judges the second table, the callers of value / row readers (`ReadValues`,
`ReadRows`, `readRows`: `rowGroupRows.ReadRows`, `Reader`, `GenericReader`, `CopyRows`, the merge /
dedupe / filter / transform readers …): `FactsCheckC13.row_reader_callers_hand_the_error_on`; the
error that `rowGroupRows.ReadRows` keeps in a field is `RowsState.lean`.

Not modelled: `SeekToRow` of the wrappers (C08), `Close` errors. -/
namespace PqModel.PageReaders
open PqModel.PageLoad

/-! ## situations and decision lists -/

/-- what the caller's tests can see of `(page, err)` -/
structure Sit where
  errNil : Bool
  errEOF : Bool    -- `err == io.EOF` (then also `errors.Is(err, io.EOF)`)
  pageNil : Bool
  /-- value / row readers: the count that came with the error is zero -/
  countZero : Bool := true
  deriving DecidableEq, Repr

/-- atoms of the extracted conditions; anything else is a condition about something else: unknown -/
def atom (s : Sit) (t : String) : Option Bool :=
  if t = "true" then some true
  else if t = "err==nil" then some s.errNil
  else if t = "err!=nil" then some (!s.errNil)
  else if t = "err==EOF" then some s.errEOF
  else if t = "err!=EOF" then some (!s.errEOF)
  else if t = "isEOF" then some s.errEOF
  else if t = "page==nil" then some s.pageNil
  else if t = "page!=nil" then some (!s.pageNil)
  else if t = "n==0" then some s.countZero
  else if t = "n!=0" then some (!s.countZero)
  else if t = "n>0" then some (!s.countZero)
  else none

def kand : Option Bool → Option Bool → Option Bool
  | some false, _ => some false
  | _, some false => some false
  | some true, some true => some true
  | _, _ => none

def kor : Option Bool → Option Bool → Option Bool
  | some true, _ => some true
  | _, some true => some true
  | some false, some false => some false
  | _, _ => none

def knot : Option Bool → Option Bool
  | some b => some (!b)
  | none => none

/-- stack evaluation of a condition in reverse Polish notation; outer `none` = malformed -/
def evalRPN (s : Sit) : List String → List (Option Bool) → Option (Option Bool)
  | [], [v] => some v
  | [], _ => none
  | t :: rest, st =>
    if t = "and" then
      match st with
      | b :: a :: st' => evalRPN s rest (kand a b :: st')
      | _ => none
    else if t = "or" then
      match st with
      | b :: a :: st' => evalRPN s rest (kor a b :: st')
      | _ => none
    else if t = "not" then
      match st with
      | a :: st' => evalRPN s rest (knot a :: st')
      | _ => none
    else evalRPN s rest (atom s t :: st)

def holds (s : Sit) (guard : List String) : Option Bool := (evalRPN s guard []).join

abbrev Step := List String × String

inductive Verdict where
  | handsOn      -- the error reaches the caller's caller (returned, wrapped, or sent to the consumer)
  | swallows     -- a branch that does not carry the error is taken, or nothing happens with it
  | leaves       -- `continue` / end of a loop body / a labelled jump: the next iteration overwrites it
  | unresolved   -- a condition about something else decides
  | failsOther   -- the caller returns ANOTHER error its guard says is non-nil (`return werr`)
  deriving DecidableEq, Repr

/-- outcomes that carry the error variable to the caller -/
def carries (o : String) : Bool := o = "return-err" || o = "return-wrapped" || o = "send"

/-- what an outcome means for the error when its step is taken. Since round 4 the extractor follows
    an unlabeled `break` and the exit of a conditional loop into the statements behind the loop, so
    `break` no longer appears for them; `iterate` = the loop goes round again, `falls-off` = the end of a
    function is reached (the error is dropped). -/
def outcomeVerdict (o : String) : Verdict :=
  if carries o then .handsOn
  else if o = "return-other-err" then .failsOther
  else if o = "break" || o = "continue" || o = "end" || o = "iterate" then .leaves
  else .swallows

/-- the first step whose guard holds decides; `store` (`x.f = err`: the error is kept in a field and
    execution goes on) does not decide -/
def verdict (s : Sit) : List Step → Verdict
  | [] => .swallows
  | (g, o) :: rest =>
    if o = "store" then verdict s rest else
    match holds s g with
    | some true => outcomeVerdict o
    | some false => verdict s rest
    | none => .unresolved

/-- every way the list can go when a condition about something else may turn out either way (an
    over-approximation: later guards are not correlated with the choice) -/
def verdicts (s : Sit) : List Step → List Verdict
  | [] => [.swallows]
  | (g, o) :: rest =>
    if o = "store" then verdicts s rest else
    match holds s g with
    | some true => [outcomeVerdict o]
    | some false => verdicts s rest
    | none => outcomeVerdict o :: verdicts s rest

/-! ### correlated enumeration (round 6)

`verdicts` treats every unknown guard independently, so a list like
`[A ∧ B → return werr, A ∧ ¬B → return err, ¬A → return err]` (an `if A { if B {…}; return }; return`
shape, fix 2c2062a in `convertedValueReader.ReadValues`) gets a spurious "no step taken" way. The
conditions about other things are evaluated once on a path, so the same text has the same truth value
in every guard of the list: `verdictsC` enumerates the assignments of the unknown atoms and takes the
first matching step under each. -/

def isOp (t : String) : Bool := t = "and" || t = "or" || t = "not"

/-- the conditions about something else that occur in the list -/
def unknownAtoms (s : Sit) (steps : List Step) : List String :=
  (steps.flatMap (fun st => st.1.filter (fun t => !isOp t && (atom s t).isNone))).eraseDups

def atomA (s : Sit) (asg : List (String × Bool)) (t : String) : Option Bool :=
  match atom s t with
  | some b => some b
  | none => asg.lookup t

def evalRPNA (s : Sit) (asg : List (String × Bool)) : List String → List (Option Bool) → Option (Option Bool)
  | [], [v] => some v
  | [], _ => none
  | t :: rest, st =>
    if t = "and" then
      match st with
      | b :: a :: st' => evalRPNA s asg rest (kand a b :: st')
      | _ => none
    else if t = "or" then
      match st with
      | b :: a :: st' => evalRPNA s asg rest (kor a b :: st')
      | _ => none
    else if t = "not" then
      match st with
      | a :: st' => evalRPNA s asg rest (knot a :: st')
      | _ => none
    else evalRPNA s asg rest (atomA s asg t :: st)

/-- the first step whose guard holds under the assignment decides -/
def verdictA (s : Sit) (asg : List (String × Bool)) : List Step → Verdict
  | [] => .swallows
  | (g, o) :: rest =>
    if o = "store" then verdictA s asg rest else
    match (evalRPNA s asg g []).join with
    | some true => outcomeVerdict o
    | some false => verdictA s asg rest
    | none => .unresolved

def assignments : List String → List (List (String × Bool))
  | [] => [[]]
  | a :: rest => (assignments rest).flatMap (fun asg => [(a, true) :: asg, (a, false) :: asg])

/-- every way the list can go, one per truth assignment of the conditions about other things -/
def verdictsC (s : Sit) (steps : List Step) : List Verdict :=
  ((assignments (unknownAtoms s steps)).map (fun asg => verdictA s asg steps)).eraseDups

/-- `verdict` is one of the `verdicts` unless it is unresolved, in which case `verdicts` went on -/
theorem verdict_mem_verdicts (s : Sit) : ∀ (steps : List Step), verdict s steps ≠ .unresolved →
    verdict s steps ∈ verdicts s steps
  | [], _ => by simp [verdict, verdicts]
  | (g, o) :: rest, h => by
    unfold verdict verdicts at *
    by_cases ho : o = "store"
    · simp only [ho, if_true] at h ⊢
      exact verdict_mem_verdicts s rest h
    · simp only [ho, if_false] at h ⊢
      cases hg : holds s g with
      | none => simp [hg] at h
      | some b =>
        cases b with
        | true => simp
        | false =>
          simp only [hg] at h
          exact verdict_mem_verdicts s rest h

/-- the caller got a failure: non-nil, not io.EOF -/
def failed (pageNil : Bool) : Sit := { errNil := false, errEOF := false, pageNil }

abbrev Site := String × String × String × List Step

/-- a call site hands a page-load failure on: a tail call, or a decision list whose first branch
    taken in the situation `failed` (whether or not a page came with the error) carries the error -/
def propagates (site : Site) : Bool :=
  let form := site.2.2.1
  let steps := site.2.2.2
  if form = "tail" then true
  else if form = "assign" || form = "if-init" then
    verdict (failed true) steps == .handsOn && verdict (failed false) steps == .handsOn
  else false

/-! ## the concatenating readers -/

/-- one result of an inner `ReadPage` -/
inductive Res where
  | page (p : Page)
  | eof
  | fail (e : Err)
  deriving DecidableEq, Repr

def sitOf : Res → Sit
  | .page _ => { errNil := true, errEOF := false, pageNil := false }
  | .eof => { errNil := false, errEOF := true, pageNil := true }
  | .fail _ => failed true

/-- a chunk's page reader as the script of its successive results; exhausted = io.EOF for ever -/
abbrev Script := List Res

def next : Script → Res × Script
  | [] => (.eof, [])
  | r :: rest => (r, rest)

/-- MIRROR `columnPages.ReadPage` column.go:121-133 (`c.pages[c.index:]` = the list) and
    `multiPages.ReadPage` multi_row_group.go:548-568 (chunks opened one after the other), parametric
    in the guard of `if <guard> { return p, err }`; otherwise `index++` and the loop goes on. -/
def concatReadPage (guard : Sit → Bool) : List Script → Res × List Script
  | [] => (.eof, [])                                   -- if c.index >= len(c.pages) { return nil, io.EOF }
  | s :: rest =>
    if guard (sitOf (next s).1) then ((next s).1, (next s).2 :: rest)   -- return p, err
    else concatReadPage guard rest                     -- c.index++

/-- call `ReadPage` until it answers io.EOF or fails (the loop of every consumer), at most `fuel` times -/
def drain (guard : Sit → Bool) : Nat → List Script → List Page × Option Err
  | 0, _ => ([], none)
  | fuel + 1, cs =>
    match concatReadPage guard cs with
    | (.page p, cs') => let (ps, e) := drain guard fuel cs'; (p :: ps, e)
    | (.eof, _) => ([], none)
    | (.fail e, _) => ([], some e)

/-- SPEC: the pages of one chunk up to its end (`some none`… = ended cleanly) or first failure -/
def specChunk : Script → List Page × Option Err
  | [] => ([], none)
  | .page p :: rest => let (ps, e) := specChunk rest; (p :: ps, e)
  | .eof :: _ => ([], none)
  | .fail e :: _ => ([], some e)

/-- SPEC: reading a whole column = the chunks' pages in order; the first failure ends the read and is
    reported -/
def specRead : List Script → List Page × Option Err
  | [] => ([], none)
  | s :: rest =>
    match specChunk s with
    | (ps, some e) => (ps, some e)
    | (ps, none) => let (qs, e) := specRead rest; (ps ++ qs, e)

/-- number of `ReadPage` calls that certainly suffice -/
def fuelFor (cs : List Script) : Nat := (cs.map List.length).sum + 1

/-- the three facts about a guard the refinement needs -/
structure GoodGuard (guard : Sit → Bool) : Prop where
  page : ∀ p, guard (sitOf (.page p)) = true
  fail : ∀ e, guard (sitOf (.fail e)) = true
  eof : guard (sitOf .eof) = false

theorem drain_refines (guard : Sit → Bool) (hg : GoodGuard guard) :
    ∀ (cs : List Script) (fuel : Nat), fuelFor cs ≤ fuel → drain guard fuel cs = specRead cs := by
  intro cs
  induction cs with
  | nil =>
    intro fuel hf
    cases fuel with
    | zero => simp [fuelFor] at hf
    | succ n => simp [drain, concatReadPage, specRead]
  | cons s rest ih =>
    induction s with
    | nil =>
      intro fuel hf
      cases fuel with
      | zero => simp [fuelFor] at hf
      | succ n =>
        have hrest : drain guard (n + 1) rest = specRead rest := ih (n + 1) (by simp [fuelFor] at hf ⊢; omega)
        have : concatReadPage guard ([] :: rest) = concatReadPage guard rest := by
          simp [concatReadPage, next, hg.eof]
        simp only [drain, this, specRead, specChunk, List.nil_append]
        simp only [drain] at hrest
        rw [hrest]
    | cons r s' ihs =>
      intro fuel hf
      cases fuel with
      | zero => simp [fuelFor] at hf
      | succ n =>
        cases r with
        | page p =>
          have hstep : concatReadPage guard ((.page p :: s') :: rest) = (.page p, s' :: rest) := by
            simp [concatReadPage, next, hg.page]
          have hrec := ihs n (by simp [fuelFor] at hf ⊢; omega)
          simp only [drain, hstep, hrec, specRead, specChunk]
          cases hc : specChunk s' with
          | mk ps e =>
            cases e with
            | none => simp
            | some e => simp
        | eof =>
          have hstep : concatReadPage guard ((.eof :: s') :: rest) = concatReadPage guard rest := by
            simp [concatReadPage, next, hg.eof]
          have hrest : drain guard (n + 1) rest = specRead rest := ih (n + 1) (by simp [fuelFor] at hf ⊢; omega)
          simp only [drain, hstep, specRead, specChunk, List.nil_append]
          simp only [drain] at hrest
          rw [hrest]
        | fail e =>
          have hstep : concatReadPage guard ((.fail e :: s') :: rest) = (.fail e, s' :: rest) := by
            simp [concatReadPage, next, hg.fail]
          simp [drain, hstep, specRead, specChunk]

/-- a chunk whose reader delivers `ps` and then ends -/
def cleanChunk (ps : List Page) : Script := ps.map .page

theorem specChunk_clean (ps : List Page) : specChunk (cleanChunk ps) = (ps, none) := by
  induction ps with
  | nil => rfl
  | cons p ps ih => simp [cleanChunk, specChunk] at ih ⊢; rw [ih]; exact ⟨rfl, rfl⟩

theorem specChunk_failing (ps : List Page) (e : Err) (rest : Script) :
    specChunk (cleanChunk ps ++ .fail e :: rest) = (ps, some e) := by
  induction ps with
  | nil => rfl
  | cons p ps ih => simp [cleanChunk, specChunk] at ih ⊢; rw [ih]; exact ⟨rfl, rfl⟩

theorem specRead_reports (pre : List (List Page)) (ps : List Page) (e : Err) (rest : Script)
    (post : List Script) :
    specRead (pre.map cleanChunk ++ (cleanChunk ps ++ .fail e :: rest) :: post) = (pre.flatten ++ ps, some e) := by
  induction pre with
  | nil => simp [specRead, specChunk_failing]
  | cons q pre ih => simp [specRead, specChunk_clean, ih]

/-! ## the script of a stored chunk: `FilePages.ReadPage` call after call through the loader -/

def toPage (s : Stored) : Page := { kind := s.hdr.kind, body := s.body }

/-- MIRROR successive `FilePages.ReadPage` calls over the data pages of a chunk (each goes through
    `PageLoad.load .sequential`); after a failure the position is undefined and the script ends -/
def pagesScript (impl : Impl) : List Stored → Script
  | [] => []
  | s :: rest =>
    match loadStored impl .sequential s with
    | .ok pg => .page pg :: pagesScript impl rest
    | .error e => [.fail e]

/-- … of a whole chunk: the dictionary page is met and loaded first; when it is rejected the first
    `ReadPage` fails -/
def chunkScript (impl : Impl) (c : Chunk) : Script :=
  match c.dict with
  | none => pagesScript impl c.pages
  | some d =>
    match loadStored impl .sequential d with
    | .ok _ => pagesScript impl c.pages
    | .error e => [.fail e]

theorem loadStored_intact (impl : Impl) (s : Stored) (hs : Intact s) :
    loadStored impl .sequential s = .ok (toPage s) := by
  simp [loadStored, load, readPage_intact s.hdr s.body hs.1 hs.2, toPage]

theorem pagesScript_intact (impl : Impl) : ∀ (ps : List Stored), (∀ s ∈ ps, Intact s) →
    pagesScript impl ps = cleanChunk (ps.map toPage)
  | [], _ => rfl
  | s :: rest, h => by
    have hr := pagesScript_intact impl rest (fun x hx => h x (by simp [hx]))
    simp [pagesScript, loadStored_intact impl s (h s (by simp)), hr, cleanChunk]

theorem pagesScript_corrupted (impl : Impl) (bad : Stored) (post : List Stored) (hc : Corrupted bad) :
    ∀ (pre : List Stored), (∀ s ∈ pre, Intact s) →
    pagesScript impl (pre ++ bad :: post) = cleanChunk (pre.map toPage) ++ [.fail .corrupted]
  | [], _ => by
    simp [pagesScript, loadStored_corrupted impl .sequential rfl bad hc, cleanChunk]
  | s :: pre, h => by
    have hr := pagesScript_corrupted impl bad post hc pre (fun x hx => h x (by simp [hx]))
    simp [pagesScript, loadStored_intact impl s (h s (by simp)), hr, cleanChunk]

/-- SPEC: a stored chunk exactly as written -/
def IntactChunk (c : Chunk) : Prop := (∀ d, c.dict = some d → Intact d) ∧ ∀ s ∈ c.pages, Intact s

theorem chunkScript_intact (impl : Impl) (c : Chunk) (hc : IntactChunk c) :
    chunkScript impl c = cleanChunk (c.pages.map toPage) := by
  unfold chunkScript
  cases hd : c.dict with
  | none => exact pagesScript_intact impl c.pages hc.2
  | some d => simp [loadStored_intact impl d (hc.1 d hd), pagesScript_intact impl c.pages hc.2]

end PqModel.PageReaders
