import PqModel.MergeRefine

/-! # C09 — the page-granular cuts of merge_refine.go are conservative, and `refineSegment`
    partitions every row group -/
namespace PqModel.Refine
open PqModel.Compare

/-! ## sort.Search contract -/

theorem searchFirst_le {β : Type} (f : β → Bool) : ∀ (l : List β), searchFirst f l ≤ l.length
  | [] => Nat.le_refl _
  | x :: xs => by
    simp only [searchFirst]; split
    · omega
    · have := searchFirst_le f xs; simp only [List.length_cons]; omega

theorem searchFirst_hit {β : Type} [Inhabited β] (f : β → Bool) : ∀ (l : List β), searchFirst f l < l.length →
    f (l.getD (searchFirst f l) default) = true
  | [], h => by simp [searchFirst] at h
  | x :: xs, h => by
    simp only [searchFirst] at h ⊢
    split
    · rename_i hx; simpa using hx
    · rename_i hx
      rw [if_neg hx] at h
      have := searchFirst_hit f xs (by simp only [List.length_cons] at h; omega)
      simpa [List.getD_eq_getElem?_getD] using this

theorem searchFirst_miss {β : Type} [Inhabited β] (f : β → Bool) : ∀ (l : List β) (q : Nat), q < searchFirst f l →
    f (l.getD q default) = false
  | [], q, h => by simp [searchFirst] at h
  | x :: xs, q, h => by
    simp only [searchFirst] at h
    split at h
    · omega
    · rename_i hx
      cases q with
      | zero => simpa using hx
      | succ q =>
        have := searchFirst_miss f xs q (by omega)
        simpa [List.getD_eq_getElem?_getD] using this

/-! ## the cuts -/

/-- what the page index of the first sorting column says about the rows of a row group
    (`vals`: first-column keys in sort order, i.e. negated for a descending column) -/
structure PagesOk (desc : Bool) (t : Target) (vals : List Int) : Prop where
  rows : vals.length = t.numRows
  sorted : vals.Pairwise (· ≤ ·)
  cuts : hasCuts false t = true
  first0 : t.firstRows.getD 0 0 = 0
  nonempty : ∀ p, p < t.firstRows.length → t.firstRows.getD p 0 < pageEnd t p
  bounds : ∀ p r, p < t.firstRows.length → t.firstRows.getD p 0 ≤ r → r < pageEnd t p →
    (pageBounds desc ((t.cols.getD 0 []).getD p default)).1 ≤ vals.getD r 0 ∧
    vals.getD r 0 ≤ (pageBounds desc ((t.cols.getD 0 []).getD p default)).2

theorem vals_mono {vals : List Int} (hs : vals.Pairwise (· ≤ ·)) {a b : Nat} (hab : a ≤ b) (hb : b < vals.length) :
    vals.getD a 0 ≤ vals.getD b 0 := by
  have ha : a < vals.length := by omega
  simp only [List.getD_eq_getElem?_getD, List.getElem?_eq_getElem ha, List.getElem?_eq_getElem hb, Option.getD_some]
  rcases Nat.lt_or_ge a b with h | h
  · exact List.pairwise_iff_getElem.mp hs a b ha hb h
  · have : a = b := by omega
    subst this; exact Int.le_refl _

theorem hasCuts_len {t : Target} (h : hasCuts false t = true) :
    (t.cols.getD 0 []).length = t.firstRows.length ∧ 0 < t.firstRows.length := by
  unfold hasCuts at h
  split at h
  · cases h
  · rename_i pages rest hc
    simp only [Bool.and_eq_true, Bool.not_eq_true', beq_iff_eq] at h
    have hp : t.cols.getD 0 [] = pages := by simp [hc]
    rw [hp]
    refine ⟨h.1.1.1.1.2, ?_⟩
    rw [← h.1.1.1.1.2]
    have := h.1.1.1.1.1
    cases pages with
    | nil => simp at this
    | cons _ _ => simp

theorem pageEnd_le {desc : Bool} {t : Target} {vals : List Int} (h : PagesOk desc t vals) (p : Nat)
    (hp : p < t.firstRows.length) : pageEnd t p ≤ t.numRows := by
  unfold pageEnd
  split
  · rename_i h1
    have h2 := h.nonempty (p + 1) h1
    have : pageEnd t (p + 1) ≤ t.numRows := pageEnd_le h (p + 1) h1
    omega
  · exact Nat.le_refl _
termination_by t.firstRows.length - p
decreasing_by omega

/-- `cutAbove` (merge_refine.go:161): every row at or after the cut has a first-column key strictly
    after the key's (the rows of the page containing the key stay below the cut) -/
theorem cutAbove_conservative {desc : Bool} {t : Target} {vals : List Int} (h : PagesOk desc t vals)
    (key : KeyRow) (kv : Int) (hk : key.getD 0 none = some kv) :
    ∀ r, cutAbove desc t key ≤ r → r < t.numRows → ord desc kv < vals.getD r 0 := by
  intro r hr hlt
  obtain ⟨hlen, hpos⟩ := hasCuts_len h.cuts
  simp only [cutAbove, hk] at hr
  generalize hp : searchFirst (fun pg : PageStat => decide ((pageBounds desc pg).1 > ord desc kv)) (t.cols.getD 0 []) = p at hr
  have hple := searchFirst_le (fun pg : PageStat => decide ((pageBounds desc pg).1 > ord desc kv)) (t.cols.getD 0 [])
  rw [hp, hlen] at hple
  -- the cut is the first row of page p (or the end of the row group)
  have hcut : p < t.firstRows.length → t.firstRows.getD p 0 ≤ r := by
    intro hpl
    split at hr
    · rename_i h0; subst h0; rw [h.first0]; omega
    · rename_i h0
      have : pageEnd t (p - 1) = t.firstRows.getD p 0 := by
        unfold pageEnd
        have : p - 1 + 1 = p := by omega
        rw [this, if_pos hpl]
      omega
  by_cases hpl : p < t.firstRows.length
  · have hhit := searchFirst_hit (fun pg : PageStat => decide ((pageBounds desc pg).1 > ord desc kv)) (t.cols.getD 0 [])
      (by rw [hp, hlen]; exact hpl)
    rw [hp] at hhit
    simp only [decide_eq_true_eq] at hhit
    have hb := (h.bounds p (t.firstRows.getD p 0) hpl (Nat.le_refl _) (h.nonempty p hpl)).1
    have hm := vals_mono h.sorted (hcut hpl) (by rw [h.rows]; exact hlt)
    omega
  · -- p = number of pages: the cut is the end of the row group
    have hpe : p = t.firstRows.length := by omega
    split at hr
    · omega
    · have : pageEnd t (p - 1) = t.numRows := by
        unfold pageEnd
        rw [if_neg (by omega)]
      omega

/-- `cutBelow` (merge_refine.go:178): every row before the cut has a first-column key strictly
    before the key's -/
theorem cutBelow_conservative {desc : Bool} {t : Target} {vals : List Int} (h : PagesOk desc t vals)
    (key : KeyRow) (kv : Int) (hk : key.getD 0 none = some kv) :
    ∀ r, r < cutBelow desc t key → vals.getD r 0 < ord desc kv := by
  intro r hr
  obtain ⟨hlen, hpos⟩ := hasCuts_len h.cuts
  simp only [cutBelow, hk] at hr
  generalize hp : searchFirst (fun pg : PageStat => decide ((pageBounds desc pg).2 ≥ ord desc kv)) (t.cols.getD 0 []) = p at hr
  have hple := searchFirst_le (fun pg : PageStat => decide ((pageBounds desc pg).2 ≥ ord desc kv)) (t.cols.getD 0 [])
  rw [hp, hlen] at hple
  rw [hlen] at hr
  -- the cut is the end of page p-1, whose latest key is before the key
  have hcutend : 1 ≤ p ∧ r < pageEnd t (p - 1) := by
    split at hr
    · rename_i he
      refine ⟨by omega, ?_⟩
      unfold pageEnd; rw [if_neg (by omega)]; exact hr
    · rename_i he
      have hp0 : p ≠ 0 := by
        intro h0; subst h0; rw [h.first0] at hr; omega
      refine ⟨by omega, ?_⟩
      unfold pageEnd
      have : p - 1 + 1 = p := by omega
      rw [this, if_pos (by omega)]; exact hr
  obtain ⟨hp1, hrend⟩ := hcutend
  have hq : p - 1 < t.firstRows.length := by omega
  have hmiss := searchFirst_miss (fun pg : PageStat => decide ((pageBounds desc pg).2 ≥ ord desc kv)) (t.cols.getD 0 [])
    (p - 1) (by rw [hp]; omega)
  simp only [decide_eq_false_iff_not, ge_iff_le, Int.not_le] at hmiss
  -- the last row of page p-1
  have hne := h.nonempty (p - 1) hq
  have hlast := (h.bounds (p - 1) (pageEnd t (p - 1) - 1) hq (by omega) (by omega)).2
  have hend := pageEnd_le h (p - 1) hq
  have hm := vals_mono h.sorted (show r ≤ pageEnd t (p - 1) - 1 by omega) (by rw [h.rows]; omega)
  omega


/-! ## refineSegment partitions every row group -/

/-- follow the parts of row group `i` through a list of parts: each must start where the previous
    one ended; the result is the row reached -/
def walk (i : Nat) : Nat → List Part → Option Nat
  | c, [] => some c
  | c, p :: ps => if p.index = i then (if p.off = c then walk i (c + p.len) ps else none) else walk i c ps

def numRowsOf (ts : List RG) (i : Nat) : Nat := (ts.getD i default).t.numRows

theorem walk_append (i : Nat) : ∀ (a b : List Part) (c : Nat),
    walk i c (a ++ b) = (walk i c a).bind (fun c' => walk i c' b)
  | [], b, c => by simp [walk]
  | p :: ps, b, c => by
    simp only [List.cons_append, walk]
    split
    · split
      · exact walk_append i ps b _
      · rfl
    · exact walk_append i ps b c

theorem walk_absent (i : Nat) : ∀ (l : List Part) (c : Nat), (∀ p ∈ l, p.index ≠ i) → walk i c l = some c
  | [], c, _ => rfl
  | p :: ps, c, h => by
    simp only [walk, if_neg (h p (by simp))]
    exact walk_absent i ps c (fun q hq => h q (by simp [hq]))

theorem walk_present (i : Nat) : ∀ (l : List Part) (c : Nat) (p : Part), (l.map (·.index)).Nodup → p ∈ l → p.index = i →
    walk i c l = if p.off = c then some (c + p.len) else none
  | [], _, p, _, hp, _ => by simp at hp
  | q :: qs, c, p, hnd, hp, hi => by
    simp only [List.map_cons, List.nodup_cons] at hnd
    rcases List.mem_cons.mp hp with rfl | hp'
    · simp only [walk, if_pos hi]
      split
      · exact walk_absent i qs _ (fun r hr hri => hnd.1 (by rw [hi, ← hri]; exact List.mem_map.mpr ⟨r, hr, rfl⟩))
      · rfl
    · have hq : q.index ≠ i := by
        intro hqi
        exact hnd.1 (by rw [hqi, ← hi]; exact List.mem_map.mpr ⟨p, hp', rfl⟩)
      simp only [walk, if_neg hq]
      exact walk_present i qs c p hnd.2 hp' hi

theorem walk_perm (i c : Nat) {l l' : List Part} (hp : l.Perm l') (hnd : (l.map (·.index)).Nodup) :
    walk i c l = walk i c l' := by
  have hnd' : (l'.map (·.index)).Nodup := (hp.map _).nodup_iff.mp hnd
  by_cases h : ∃ p ∈ l, p.index = i
  · obtain ⟨p, hpl, hpi⟩ := h
    rw [walk_present i l c p hnd hpl hpi, walk_present i l' c p hnd' (hp.mem_iff.mp hpl) hpi]
  · have h1 : ∀ p ∈ l, p.index ≠ i := fun p hp' hpi => h ⟨p, hp', hpi⟩
    have h2 : ∀ p ∈ l', p.index ≠ i := fun p hp' hpi => h ⟨p, hp.mem_iff.mpr hp', hpi⟩
    rw [walk_absent i l c h1, walk_absent i l' c h2]

theorem insertBy_perm {β : Type} (lt : β → β → Bool) (x : β) : ∀ (l : List β), (insertBy lt x l).Perm (x :: l)
  | [] => List.Perm.refl _
  | y :: ys => by
    simp only [insertBy]; split
    · exact List.Perm.refl _
    · exact ((insertBy_perm lt x ys).cons y).trans (List.Perm.swap x y ys)

theorem sortBy_perm {β : Type} (lt : β → β → Bool) (l : List β) : (sortBy lt l).Perm l := by
  have : ∀ (l acc : List β), (l.foldl (fun acc x => insertBy lt x acc) acc).Perm (l.reverse ++ acc) := by
    intro l
    induction l with
    | nil => intro acc; exact List.Perm.refl _
    | cons x xs ih =>
      intro acc
      simp only [List.foldl_cons, List.reverse_cons, List.append_assoc, List.singleton_append]
      exact (ih _).trans (List.Perm.append_left _ (insertBy_perm lt x acc))
  have h := this l []
  simp only [List.append_nil] at h
  exact h.trans (List.reverse_perm l)

/-- the invariant of the sweep of `refineSegment` -/
structure SInv (ts : List RG) (s : St) : Prop where
  len : s.cursors.length = ts.length
  le : ∀ i, i < ts.length → s.cursors.getD i 0 ≤ numRowsOf ts i
  walk : ∀ i, i < ts.length → walk i 0 (s.plan.flatten ++ s.region) = some (s.cursors.getD i 0)
  fin : ∀ p ∈ s.region, s.cursors.getD p.index 0 = numRowsOf ts p.index
  distinct : (s.region.map (·.index)).Nodup
  planDistinct : ∀ R ∈ s.plan, (R.map (·.index)).Nodup
  bound : (∀ p ∈ s.region, p.index < ts.length) ∧ (∀ R ∈ s.plan, ∀ p ∈ R, p.index < ts.length)
  act : (∀ a ∈ s.active, a < ts.length) ∧ (∀ i, s.pendingLone = some i → i < ts.length)

theorem getD_set_eq {l : List Nat} {i : Nat} (v : Nat) (h : i < l.length) : (l.set i v).getD i 0 = v := by
  simp [List.getD_eq_getElem?_getD, h]

theorem getD_set_ne {l : List Nat} {i j : Nat} (v : Nat) (h : j ≠ i) : (l.set i v).getD j 0 = l.getD j 0 := by
  simp [List.getD_eq_getElem?_getD, List.getElem?_set, Ne.symm h]

theorem closeRegion_eq (s : St) : ∃ R, R.Perm s.region ∧
    closeRegion s = (if s.region = [] then s else { s with plan := s.plan ++ [R], region := [] }) := by
  unfold closeRegion
  split
  · rename_i h; exact ⟨[], by simp [h], by simp [h]⟩
  · rename_i p h; exact ⟨[p], by simp [h], by simp [h]⟩
  · rename_i ps h1 h2
    refine ⟨sortBy (fun a b => decide (a.index < b.index)) s.region, sortBy_perm _ _, ?_⟩
    have : s.region ≠ [] := h1
    simp [this]

theorem SInv.closeRegion {ts : List RG} {s : St} (h : SInv ts s) : SInv ts (closeRegion s) ∧
    (closeRegion s).cursors = s.cursors ∧ (closeRegion s).region = [] ∧
    (closeRegion s).active = s.active ∧ (closeRegion s).pendingLone = s.pendingLone := by
  obtain ⟨R, hperm, he⟩ := closeRegion_eq s
  rw [he]
  split
  · rename_i h0; exact ⟨h, rfl, h0, rfl, rfl⟩
  · refine ⟨⟨h.len, h.le, ?_, by simp, by simp, ?_, ⟨by simp, ?_⟩, h.act⟩, rfl, rfl, rfl, rfl⟩
    · intro i hi
      have := h.walk i hi
      simp only [List.flatten_append, List.flatten_cons, List.flatten_nil, List.append_nil] at this ⊢
      rw [walk_append] at this ⊢
      cases hw : Refine.walk i 0 s.plan.flatten with
      | none => rw [hw] at this; simp at this
      | some c =>
        rw [hw] at this
        simp only [Option.bind_some] at this ⊢
        rw [walk_perm i c hperm ((hperm.map _).nodup_iff.mpr h.distinct)]; exact this
    · intro R' hR'
      simp only [List.mem_append, List.mem_singleton] at hR'
      rcases hR' with hR' | rfl
      · exact h.planDistinct R' hR'
      · exact (hperm.map _).nodup_iff.mpr h.distinct
    · intro R' hR' p hp
      simp only [List.mem_append, List.mem_singleton] at hR'
      rcases hR' with hR' | rfl
      · exact h.bound.2 R' hR' p hp
      · exact h.bound.1 p (hperm.mem_iff.mp hp)

/-- appending a part of row group `i` that starts at its cursor -/
theorem SInv.push {ts : List RG} {s : St} (h : SInv ts s) (i : Nat) (hi : i < ts.length) (e : Nat)
    (h1 : s.cursors.getD i 0 ≤ e) (h2 : e ≤ numRowsOf ts i) (hfresh : s.cursors.getD i 0 < numRowsOf ts i)
    (hfin : e = numRowsOf ts i) :
    SInv ts { s with region := s.region ++ [{ index := i, off := s.cursors.getD i 0, len := e - s.cursors.getD i 0 }],
                     cursors := s.cursors.set i e } := by
  have hnotin : ∀ p ∈ s.region, p.index ≠ i := by
    intro p hp hpi
    have := h.fin p hp
    rw [hpi] at this; omega
  refine ⟨by simp [h.len], ?_, ?_, ?_, ?_, h.planDistinct, ⟨?_, h.bound.2⟩, h.act⟩
  · intro j hj
    by_cases hji : j = i
    · subst hji; rw [getD_set_eq _ (by rw [h.len]; exact hj)]; exact h2
    · rw [getD_set_ne _ hji]; exact h.le j hj
  · intro j hj
    have := h.walk j hj
    simp only [← List.append_assoc]
    rw [walk_append, this]
    simp only [Option.bind_some, Refine.walk]
    by_cases hji : j = i
    · subst hji
      simp only [if_true]
      rw [getD_set_eq _ (by rw [h.len]; exact hj)]
      congr 1; omega
    · have : ¬ i = j := fun hh => hji hh.symm
      simp only [if_neg this]
      rw [getD_set_ne _ hji]
  · intro p hp
    simp only [List.mem_append, List.mem_singleton] at hp
    rcases hp with hp | rfl
    · rw [getD_set_ne _ (hnotin p hp)]; exact h.fin p hp
    · simp only; rw [getD_set_eq _ (by rw [h.len]; exact hi)]; exact hfin
  · simp only [List.map_append, List.map_cons, List.map_nil]
    rw [List.nodup_append]
    refine ⟨h.distinct, by simp, ?_⟩
    intro a ha b hb
    simp only [List.mem_singleton] at hb
    subst hb
    obtain ⟨p, hp, rfl⟩ := List.mem_map.mp ha
    exact hnotin p hp
  · intro p hp
    simp only [List.mem_append, List.mem_singleton] at hp
    rcases hp with hp | rfl
    · exact h.bound.1 p hp
    · exact hi

theorem SInv.remainder {ts : List RG} {s : St} (h : SInv ts s) (i : Nat) (hi : i < ts.length) :
    SInv ts (remainder ts s i) ∧ (remainder ts s i).cursors.getD i 0 = numRowsOf ts i ∧
    (∀ j, j ≠ i → (remainder ts s i).cursors.getD j 0 = s.cursors.getD j 0) ∧
    (remainder ts s i).active = s.active ∧ (remainder ts s i).pendingLone = s.pendingLone := by
  unfold Refine.remainder
  simp only
  split
  · rename_i hge
    have := h.le i hi
    simp only [numRowsOf] at this
    exact ⟨h, by simp only [numRowsOf]; omega, fun _ _ => rfl, rfl, rfl⟩
  · rename_i hlt
    have hlt' : s.cursors.getD i 0 < numRowsOf ts i := by simp only [numRowsOf]; omega
    refine ⟨h.push i hi (numRowsOf ts i) (by omega) (Nat.le_refl _) hlt' rfl, ?_, ?_, rfl, rfl⟩
    · exact getD_set_eq _ (by rw [h.len]; exact hi)
    · intro j hj; exact getD_set_ne _ hj


theorem SInv.clearPending {ts : List RG} {s : St} (h : SInv ts s) : SInv ts { s with pendingLone := none } :=
  ⟨h.len, h.le, h.walk, h.fin, h.distinct, h.planDistinct, h.bound, ⟨h.act.1, fun _ hh => by cases hh⟩⟩

theorem walk_snoc (j c : Nat) (l : List Part) (q : Part) :
    Refine.walk j c (l ++ [q]) = (Refine.walk j c l).bind (fun c' =>
      if q.index = j then (if q.off = c' then some (c' + q.len) else none) else some c') := by
  rw [walk_append]
  congr 1

/-- the slicing step of `resolveLone`: the rows of `i` before the slice join the region, the region is
    closed, the slice `[off, e)` becomes a region of its own -/
theorem SInv.slice {ts : List RG} {s : St} (h : SInv ts s) (i : Nat) (hi : i < ts.length) (off e : Nat)
    (h1 : s.cursors.getD i 0 ≤ off) (h2 : off < e) (h3 : e ≤ numRowsOf ts i) :
    SInv ts (sliceLone s i off e) ∧ (sliceLone s i off e).active = s.active ∧
    (sliceLone s i off e).pendingLone = s.pendingLone ∧
    (∀ j, j ≠ i → (sliceLone s i off e).cursors.getD j 0 = s.cursors.getD j 0) := by
  unfold sliceLone
  generalize hs2 : (if off > s.cursors.getD i 0 then
        ({ s with region := s.region ++ [{ index := i, off := s.cursors.getD i 0, len := off - s.cursors.getD i 0 }] } : St)
      else s) = s2
  simp only
  have hcur : s.cursors.getD i 0 < numRowsOf ts i := by omega
  have hnotin : ∀ p ∈ s.region, p.index ≠ i := by
    intro p hp hpi
    have := h.fin p hp
    rw [hpi] at this; omega
  -- facts about s2
  have hs2c : s2.cursors = s.cursors := by rw [← hs2]; split <;> rfl
  have hs2p : s2.plan = s.plan := by rw [← hs2]; split <;> rfl
  have hs2a : s2.active = s.active ∧ s2.pendingLone = s.pendingLone := by rw [← hs2]; split <;> exact ⟨rfl, rfl⟩
  have hs2nd : (s2.region.map (·.index)).Nodup := by
    rw [← hs2]; split
    · simp only [List.map_append, List.map_cons, List.map_nil]
      rw [List.nodup_append]
      refine ⟨h.distinct, by simp, ?_⟩
      intro a ha b hb
      simp only [List.mem_singleton] at hb
      subst hb
      obtain ⟨p, hp, rfl⟩ := List.mem_map.mp ha
      exact hnotin p hp
    · exact h.distinct
  have hs2b : ∀ p ∈ s2.region, p.index < ts.length := by
    rw [← hs2]; split
    · intro p hp
      simp only [List.mem_append, List.mem_singleton] at hp
      rcases hp with hp | rfl
      · exact h.bound.1 p hp
      · exact hi
    · exact h.bound.1
  have hs2w : ∀ j, j < ts.length → Refine.walk j 0 (s.plan.flatten ++ s2.region) =
      some (if j = i then off else s.cursors.getD j 0) := by
    intro j hj
    have hw := h.walk j hj
    rw [← hs2]; split
    · rename_i hgt
      rw [← List.append_assoc, walk_snoc, hw]
      simp only [Option.bind_some]
      by_cases hji : j = i
      · subst hji; simp only [if_true]; congr 1; omega
      · have : ¬ i = j := fun hh => hji hh.symm
        simp only [if_neg this, if_neg hji]
    · rename_i hgt
      rw [hw]
      by_cases hji : j = i
      · subst hji; simp only [if_true]; congr 1; omega
      · simp only [if_neg hji]
  obtain ⟨R, hperm, he⟩ := closeRegion_eq s2
  -- the flattened plan after closing
  have hflat : ∀ j c, Refine.walk j c ((Refine.closeRegion s2).plan.flatten) =
      Refine.walk j c (s.plan.flatten ++ s2.region) := by
    intro j c
    rw [he]
    split
    · rename_i h0; rw [hs2p, h0]; simp
    · simp only [List.flatten_append, List.flatten_cons, List.flatten_nil, List.append_nil, hs2p]
      rw [walk_append, walk_append]
      congr 1
      funext c'
      exact walk_perm j c' hperm ((hperm.map _).nodup_iff.mpr hs2nd)
  have hcl_c : (Refine.closeRegion s2).cursors = s.cursors := by
    rw [he]; split <;> simp [hs2c]
  have hcl_r : (Refine.closeRegion s2).region = [] := by
    rw [he]; split
    · assumption
    · rfl
  have hcl_a : (Refine.closeRegion s2).active = s.active ∧ (Refine.closeRegion s2).pendingLone = s.pendingLone := by
    rw [he]; split <;> exact hs2a
  have hcl_pd : ∀ R' ∈ (Refine.closeRegion s2).plan, (R'.map (·.index)).Nodup ∧ ∀ p ∈ R', p.index < ts.length := by
    rw [he]; split
    · intro R' hR'; rw [hs2p] at hR'; exact ⟨h.planDistinct R' hR', h.bound.2 R' hR'⟩
    · intro R' hR'
      simp only [List.mem_append, List.mem_singleton, hs2p] at hR'
      rcases hR' with hR' | rfl
      · exact ⟨h.planDistinct R' hR', h.bound.2 R' hR'⟩
      · exact ⟨(hperm.map _).nodup_iff.mpr hs2nd, fun p hp => hs2b p (hperm.mem_iff.mp hp)⟩
  refine ⟨⟨by simp [hcl_c, h.len], ?_, ?_, ?_, ?_, ?_, ⟨?_, ?_⟩, ?_⟩, hcl_a.1, hcl_a.2, ?_⟩
  rotate_left 8
  · intro j hji
    simp only [hcl_c]; exact getD_set_ne _ hji
  · intro j hj
    simp only [hcl_c]
    by_cases hji : j = i
    · subst hji; rw [getD_set_eq _ (by rw [h.len]; exact hj)]; exact h3
    · rw [getD_set_ne _ hji]; exact h.le j hj
  · intro j hj
    simp only [hcl_r, List.append_nil, List.flatten_append, List.flatten_cons, List.flatten_nil, hcl_c]
    rw [walk_snoc, hflat, hs2w j hj]
    simp only [Option.bind_some]
    by_cases hji : j = i
    · subst hji
      simp only [if_true]
      rw [getD_set_eq _ (by rw [h.len]; exact hj)]
      congr 1; omega
    · have : ¬ i = j := fun hh => hji hh.symm
      simp only [if_neg this, if_neg hji]
      rw [getD_set_ne _ hji]
  · intro p hp; simp only [hcl_r] at hp; cases hp
  · simp [hcl_r]
  · intro R' hR'
    simp only [List.mem_append, List.mem_singleton] at hR'
    rcases hR' with hR' | rfl
    · exact (hcl_pd R' hR').1
    · simp
  · intro p hp; simp only [hcl_r] at hp; cases hp
  · intro R' hR' p hp
    simp only [List.mem_append, List.mem_singleton] at hR'
    rcases hR' with hR' | rfl
    · exact (hcl_pd R' hR').2 p hp
    · simp only [List.mem_singleton] at hp; subst hp; exact hi
  · simp only [hcl_a]; exact h.act

theorem SInv.resolveLone {ts : List RG} {s : St} (h : SInv ts s) (strict desc : Bool) (rk : Option KeyRow) :
    SInv ts (Refine.resolveLone strict desc ts s rk) ∧ (Refine.resolveLone strict desc ts s rk).active = s.active ∧
    (Refine.resolveLone strict desc ts s rk).pendingLone = none ∧
    (∀ j, s.cursors.getD j 0 = numRowsOf ts j → (Refine.resolveLone strict desc ts s rk).cursors.getD j 0 = numRowsOf ts j) := by
  unfold Refine.resolveLone
  cases hp : s.pendingLone with
  | none => exact ⟨h, rfl, hp, fun _ hj => hj⟩
  | some i =>
    have hi : i < ts.length := h.act.2 i hp
    have h1 := h.clearPending
    simp only
    split
    · exact ⟨h1, rfl, rfl, fun _ hj => hj⟩
    · split
      · exact ⟨h1, rfl, rfl, fun _ hj => hj⟩
      · rename_i hbig
        have hoc : s.cursors.getD i 0 ≤ loneOff desc (ts.getD i default).t s i := Nat.le_max_right _ _
        have hen : loneEnd desc (ts.getD i default).t rk ≤ numRowsOf ts i := Nat.min_le_right _ _
        have hlt : loneOff desc (ts.getD i default).t s i < loneEnd desc (ts.getD i default).t rk := by
          simp only [minStreamedRegionRows] at hbig; omega
        obtain ⟨a1, a2, a3, a4⟩ := h1.slice i hi _ _ hoc hlt hen
        refine ⟨a1, a2, a3, ?_⟩
        intro j hj
        have hji : j ≠ i := by
          intro hh; subst hh
          omega
        rw [a4 j hji]; exact hj


theorem SInv.withAct {ts : List RG} {s : St} (h : SInv ts s) (a : List Nat) (p : Option Nat) (k : Option KeyRow)
    (ha : ∀ x ∈ a, x < ts.length) (hp : ∀ i, p = some i → i < ts.length) :
    SInv ts { s with active := a, pendingLone := p, pendingLeftK := k } :=
  ⟨h.len, h.le, h.walk, h.fin, h.distinct, h.planDistinct, h.bound, ⟨ha, hp⟩⟩

/-- one event of the sweep keeps the invariant; finished row groups stay finished; an end event
    finishes its row group -/
theorem SInv.stepEvent {ts : List RG} {s : St} (h : SInv ts s) (strict desc : Bool) (ev : Event) (hev : ev.index < ts.length) :
    SInv ts (Refine.stepEvent strict desc ts s ev) ∧
    (∀ j, s.cursors.getD j 0 = numRowsOf ts j → (Refine.stepEvent strict desc ts s ev).cursors.getD j 0 = numRowsOf ts j) ∧
    (ev.start = false → (Refine.stepEvent strict desc ts s ev).cursors.getD ev.index 0 = numRowsOf ts ev.index) := by
  unfold Refine.stepEvent
  by_cases hst : ev.start = true
  · simp only [hst, if_true]
    -- resolve a pending lone stretch
    obtain ⟨s1, hs1, h1, hk1⟩ : ∃ s1, s1 = (if s.pendingLone.isSome = true then Refine.resolveLone strict desc ts s (some ev.key) else s) ∧
        SInv ts s1 ∧ (∀ j, s.cursors.getD j 0 = numRowsOf ts j → s1.cursors.getD j 0 = numRowsOf ts j) := by
      refine ⟨_, rfl, ?_, ?_⟩
      · split
        · exact (h.resolveLone strict desc _).1
        · exact h
      · split
        · exact (h.resolveLone strict desc _).2.2.2
        · exact fun _ hj => hj
    rw [← hs1]
    have hact : ∀ x ∈ s1.active ++ [ev.index], x < ts.length := by
      intro x hx
      simp only [List.mem_append, List.mem_singleton] at hx
      rcases hx with hx | rfl
      · exact h1.act.1 x hx
      · exact hev
    refine ⟨?_, ?_, fun hh => by cases hh⟩
    · split
      · exact h1.withAct _ _ _ hact (fun i hi => by cases hi; exact hev)
      · exact h1.withAct _ _ _ hact h1.act.2
    · intro j hj
      split <;> exact hk1 j hj
  · have hst' : ev.start = false := by simpa using hst
    simp only [hst', Bool.false_eq_true, if_false]
    obtain ⟨s1, hs1, h1, hk1⟩ : ∃ s1, s1 = (if s.pendingLone = some ev.index then Refine.resolveLone strict desc ts s none else s) ∧
        SInv ts s1 ∧ (∀ j, s.cursors.getD j 0 = numRowsOf ts j → s1.cursors.getD j 0 = numRowsOf ts j) := by
      refine ⟨_, rfl, ?_, ?_⟩
      · split
        · exact (h.resolveLone strict desc _).1
        · exact h
      · split
        · exact (h.resolveLone strict desc _).2.2.2
        · exact fun _ hj => hj
    rw [← hs1]
    have hact : ∀ x ∈ s1.active.erase ev.index, x < ts.length :=
      fun x hx => h1.act.1 x (List.mem_of_mem_erase hx)
    have h2 : SInv ts { s1 with active := s1.active.erase ev.index } := by
      have := h1.withAct (s1.active.erase ev.index) s1.pendingLone s1.pendingLeftK hact h1.act.2
      exact this
    obtain ⟨h3, hc3, hk3, ha3, hp3⟩ := h2.remainder ev.index hev
    have hkeep : ∀ j, s.cursors.getD j 0 = numRowsOf ts j →
        (Refine.remainder ts { s1 with active := s1.active.erase ev.index } ev.index).cursors.getD j 0 = numRowsOf ts j := by
      intro j hj
      by_cases hji : j = ev.index
      · subst hji; exact hc3
      · rw [hk3 j hji]; exact hk1 j hj
    split
    · refine ⟨h3.withAct _ _ _ h3.act.1 ?_, hkeep, fun _ => hc3⟩
      intro i hi
      have : i ∈ (Refine.remainder ts { s1 with active := s1.active.erase ev.index } ev.index).active :=
        List.mem_of_mem_head? hi
      exact h3.act.1 i this
    · exact ⟨h3, hkeep, fun _ => hc3⟩

theorem SInv.fold {ts : List RG} (strict desc : Bool) : ∀ (evs : List Event) (s : St), SInv ts s →
    (∀ ev ∈ evs, ev.index < ts.length) →
    SInv ts (evs.foldl (Refine.stepEvent strict desc ts) s) ∧
    (∀ j, (s.cursors.getD j 0 = numRowsOf ts j ∨ ∃ ev ∈ evs, ev.start = false ∧ ev.index = j) →
      (evs.foldl (Refine.stepEvent strict desc ts) s).cursors.getD j 0 = numRowsOf ts j)
  | [], s, h, _ => ⟨h, fun j hj => by
      rcases hj with hj | ⟨ev, hev, _⟩
      · exact hj
      · cases hev⟩
  | ev :: evs, s, h, hall => by
    obtain ⟨h1, hk1, he1⟩ := h.stepEvent strict desc ev (hall ev (by simp))
    obtain ⟨h2, hk2⟩ := SInv.fold strict desc evs _ h1 (fun e he => hall e (by simp [he]))
    simp only [List.foldl_cons]
    refine ⟨h2, ?_⟩
    intro j hj
    apply hk2
    rcases hj with hj | ⟨e, he, hes, hej⟩
    · exact Or.inl (hk1 j hj)
    · rcases List.mem_cons.mp he with rfl | he'
      · subst hej; exact Or.inl (he1 hes)
      · exact Or.inr ⟨e, he', hes, hej⟩

/-- **`refineSegment` partitions every row group**: whatever the page statistics and the keys, the
    parts of row group `i` in the plan are consecutive, start at row 0 and end at its last row; a region
    holds at most one part of a row group -/
theorem refineSegment_partition (strict : Bool) (specs : List ColSpec) (ts : List RG) (plan : List (List Part))
    (h : refineSegment strict specs ts = some plan) :
    (∀ i, i < ts.length → Refine.walk i 0 plan.flatten = some (numRowsOf ts i)) ∧
    (∀ R ∈ plan, (R.map (·.index)).Nodup ∧ ∀ p ∈ R, p.index < ts.length) := by
  unfold refineSegment at h
  split at h
  · cases h
  simp only at h
  split at h
  · rename_i hsl
    simp only [Option.some.injEq] at h
    have h0 : SInv ts (St.init ts.length) := by
      refine ⟨by simp [St.init], ?_, ?_, by simp [St.init], by simp [St.init], by simp [St.init],
        ⟨by simp [St.init], by simp [St.init]⟩, ⟨by simp [St.init], by simp [St.init]⟩⟩
      · intro i hi; simp [St.init, List.getD_eq_getElem?_getD, hi]
      · intro i hi; simp [St.init, Refine.walk, List.getD_eq_getElem?_getD, hi]
    have hevs : ∀ ev ∈ sortBy (eventLt (cmpRows specs)) (eventsOf ts), ev.index < ts.length ∧
        True := by
      intro ev hev
      have := (sortBy_perm _ _).mem_iff.mp hev
      simp only [eventsOf, List.mem_flatMap, List.mem_range] at this
      obtain ⟨i, hi, hm⟩ := this
      simp only [List.mem_cons, List.mem_singleton, List.not_mem_nil, or_false] at hm
      rcases hm with rfl | rfl <;> exact ⟨hi, trivial⟩
    obtain ⟨hf, hdone⟩ := SInv.fold (ts := ts) strict ((specs.getD 0 { desc := false, nullsFirst := false }).desc)
      _ _ h0 (fun ev hev => (hevs ev hev).1)
    obtain ⟨hc, hcc, hcr, _, _⟩ := hf.closeRegion
    rw [← h]
    refine ⟨?_, fun R hR => ⟨hc.planDistinct R hR, hc.bound.2 R hR⟩⟩
    intro i hi
    have hw := hc.walk i hi
    rw [hcr, List.append_nil, hcc] at hw
    rw [hw]
    congr 1
    apply hdone
    right
    refine ⟨{ key := (ts.getD i default).hi, start := false, index := i }, ?_, rfl, rfl⟩
    apply (sortBy_perm _ _).mem_iff.mpr
    simp only [eventsOf, List.mem_flatMap, List.mem_range]
    exact ⟨i, hi, by simp⟩
  · cases h

end PqModel.Refine
