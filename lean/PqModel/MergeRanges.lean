import PqModel.Merge

/-! # C09 — MIRROR of the segment detection of `MergeRowGroups` (merge.go:143-301)

Level: one sorting column, every row group has a single page (as `parquet.Buffer`s have), keys are
ranks *in sort order* (a descending column enters with negated values), `none` = null.
`rowGroupRangeOfSortedColumns` takes the bounds of a row group from the min/max of the **non-null**
values of its pages; `overlappingRowGroups` sorts the row groups by their lower bound and sweeps
them into segments; a segment with one row group is read as it is, segments are concatenated. -/
namespace PqModel.Merge

abbrev NKey := Option Int

/-- a bound of a row group in sort order: a rank, or the position of the nulls -/
inductive Bound where
  | nullsFirst
  | val (v : Int)
  | nullsLast
deriving DecidableEq

/-- `compare(a, b) < 0` of two bounds (nulls compare equal to each other) -/
def Bound.lt : Bound → Bound → Bool
  | .nullsFirst, .nullsFirst => false
  | .nullsFirst, _ => true
  | .val _, .nullsFirst => false
  | .val a, .val b => decide (a < b)
  | .val _, .nullsLast => true
  | .nullsLast, _ => false

/-- merge.go:256-291 with a single page: page min/max cover non-null values only; `none` = the
    "no valid pages" error -/
def minMax : List NKey → Option (Int × Int)
  | [] => none
  | none :: t => minMax t
  | some v :: t =>
    match minMax t with
    | none => some (v, v)
    | some (a, b) => some (min v a, max v b)

/-- merge.go:216-315 `rowGroupRangeOfSortedColumns` for one sorting column and a single page.
    `nullAware = false` is the code before the repair of F12 (bounds from non-null values only);
    `nullAware = true` is the code as it is: when the column holds nulls the bound on the side of
    the nulls is null. -/
def rangeOfRows (nullAware nullsFirst : Bool) (rows : List NKey) : Option (Bound × Bound) :=
  match minMax rows with
  | none => none
  | some (a, b) =>
    if nullAware && rows.any Option.isNone then
      if nullsFirst then some (.nullsFirst, .val b) else some (.val a, .nullsLast)
    else some (.val a, .val b)

structure RG where
  idx : Nat
  lo : Bound
  hi : Bound
  rows : Nat

/-- insertion step of `slices.SortFunc` (insertion sort below 12 elements): `x` moves left past the
    elements that are strictly greater -/
def insertRG (x : RG) : List RG → List RG
  | [] => [x]
  | y :: ys => if x.lo.lt y.lo then x :: y :: ys else y :: insertRG x ys

def sortRG (l : List RG) : List RG := l.foldl (fun acc x => insertRG x acc) []

/-- merge.go:192-212 -/
def sweep : List RG → List RG → Bound → List (List RG)
  | [], cur, _ => [cur.reverse]
  | r :: rs, cur, mx =>
    if !(mx.lt r.lo) then sweep rs (r :: cur) (if mx.lt r.hi then r.hi else mx)
    else cur.reverse :: sweep rs [r] r.hi

/-- ranges of the non-empty row groups, `none` if some range is unavailable -/
def rangesOf (nullAware nullsFirst : Bool) : List (List NKey) → Nat → Option (List RG)
  | [], _ => some []
  | rows :: rest, i =>
    if rows.isEmpty then rangesOf nullAware nullsFirst rest (i + 1)
    else
      match rangeOfRows nullAware nullsFirst rows, rangesOf nullAware nullsFirst rest (i + 1) with
      | some (a, b), some rs => some ({ idx := i, lo := a, hi := b, rows := rows.length } :: rs)
      | _, _ => none

/-- merge.go:155-214: the segments, each a list of (input index, rows) -/
def segmentsOf (nullAware nullsFirst : Bool) (inputs : List (List NKey)) : List (List (Nat × Nat)) :=
  match rangesOf nullAware nullsFirst inputs 0 with
  | none => [(List.range inputs.length).map (fun i => (i, (inputs.getD i []).length))]
  | some [] => []
  | some [r] => [[(r.idx, r.rows)]]
  | some rs =>
    match sortRG rs with
    | [] => []
    | r :: rest => (sweep rest [r] r.hi).map (fun seg => seg.map (fun g => (g.idx, g.rows)))

/-- rows of the merged row group when every segment holds a single row group (then
    `sortedSegmentRowGroup.Rows` simply concatenates them) -/
def concatSingles (inputs : List (List NKey)) : List (List (Nat × Nat)) → Option (List NKey)
  | [] => some []
  | [(i, _)] :: rest => (concatSingles inputs rest).map (fun t => inputs.getD i [] ++ t)
  | _ :: _ => none

/-- sort order of a nullable ascending column, nulls last -/
def leNullsLast : NKey → NKey → Bool
  | _, none => true
  | none, some _ => false
  | some a, some b => decide (a ≤ b)

def sortedNullsLast : List NKey → Bool
  | a :: b :: t => leNullsLast a b && sortedNullsLast (b :: t)
  | _ => true

end PqModel.Merge
