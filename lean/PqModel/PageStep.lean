import PqModel.PageLoad
import PqModel.Seek

/-! # One page of `FilePages.readPageInSequence`, with the reader state around the loader (C13)

MIRROR (file.go, unencrypted column): one iteration of the `for` loop of `readPageInSequence`
(file.go:1228-1352) together with the `desync` bookkeeping of `ReadPage` (file.go:1176-1188):

    header decoded → [dictionary page and f.dictionary != nil → Discard, continue]
    data, err = f.readPage(header, f.rbuf)            -- load + checksum comparison, `PageLoad.readPage`
    err != nil → return nil, err                       -- ReadPage: f.desync = true
    readDataPageV1/V2(header, data) | readDictionaryPage(header, data)   -- decode exactly `data`
    f.index++ ; f.skip == 0 → return page
    numRows <= f.skip → Release(page); f.skip -= numRows; continue       -- page only counted
    otherwise → return page.Slice(f.skip, numRows); f.skip = 0

`RState` holds the fields of `FilePages` this code reads or writes. The point of the mirror: the
loader call does not look at any of them (`verify_independent_of_seek_state`), a page that is only
decoded to be skipped is verified like any other (`skipped_page_is_verified`), and the bytes given
to the decoder are the bytes that were compared (`decode_sees_verified_bytes`). `skipGuardedStep` is
the seeded variant "compare only when `f.skip == 0`", kept as a negation witness.

BRIDGE to the page-granularity seek machine of C08 (`PqModel/Seek.lean`): `badOf` computes the set
`Seek.Chunk.bad` ("pages whose checksum does not match") from the stored bytes with the loader of
this file, so the C08 theorems about retries after a failed read speak about CRC-level corruption.

Not modelled here: the lazy dictionary load inside readDataPageV1/V2 (it is `PageLoad.readAt`), the
cached-page preamble and stream positions (they are `Seek.readPage`/`seekFixed`), v1 pages that do
not start on a row boundary, encrypted columns. -/
namespace PqModel.PageStep
open PqModel.Crc PqModel.PageLoad

/-- the fields of `FilePages` the page step reads or writes -/
structure RState where
  skip : Nat                   -- f.skip: rows still to drop before the row sought
  desync : Bool                -- f.desync: a ReadPage failed since the last seek
  index : Nat                  -- f.index
  dictionary : Option Bytes    -- f.dictionary (the verified body it was decoded from)
  deriving DecidableEq, Repr

/-- what became of the page under the stream -/
inductive Handed where
  | returned (data : Bytes) (fromRow : Nat)  -- decoded from `data`, returned (from row `fromRow` of the page)
  | dropped (data : Bytes)                   -- decoded from `data` only to count its rows (`numRows <= skip`)
  | dictionary (data : Bytes)                -- dictionary decoded from `data`, kept in f.dictionary
  | discarded                                -- a dictionary page met again: bytes skipped, nothing decoded
  | failed (e : Err)
  deriving DecidableEq, Repr

/-- the bytes the decoder / decompressor was given -/
def Handed.decoded : Handed → Option Bytes
  | .returned d _ | .dropped d | .dictionary d => some d
  | .discarded | .failed _ => none

/-- the part of one loop iteration that follows a successful load (file.go:1277-1351) -/
def afterLoad (st : RState) (h : Header) (numRows : Nat) (data : Bytes) : RState × Handed :=
  match h.kind with
  | .dictionary => ({ st with dictionary := some data }, .dictionary data)
  | _ =>
    let st := { st with index := st.index + 1 }
    if st.skip = 0 then (st, .returned data 0)
    else if numRows ≤ st.skip then ({ st with skip := st.skip - numRows }, .dropped data)
    else ({ st with skip := 0 }, .returned data st.skip)

/-- MIRROR one iteration of `readPageInSequence` + the `desync` flag of `ReadPage`.
    `numRows` is what the decoder reports for the page (`page.NumRows()`). -/
def pageStep (st : RState) (h : Header) (numRows : Nat) (stream : Bytes) : RState × Handed :=
  if h.kind = .dictionary ∧ st.dictionary.isSome then (st, .discarded)   -- f.rbuf.Discard(CompressedPageSize)
  else
    match readPage h stream with                  -- data, err = f.readPage(header, f.rbuf)
    | .error e => ({ st with desync := true }, .failed e)
    | .ok data => afterLoad st h numRows data

/-- the seeded slip (seeded/C13-a): `if header.CRC != 0 && f.skip == 0` in readPage -/
def readPageSkipGuarded (skip : Nat) (h : Header) (stream : Bytes) : Except Err Bytes :=
  match readFull h.compressedSize stream with
  | .error e => .error e
  | .ok page =>
    if h.crc != 0#32 && skip == 0 then
      if h.crc != crc32 page then .error .corrupted else .ok page
    else .ok page

def skipGuardedStep (st : RState) (h : Header) (numRows : Nat) (stream : Bytes) : RState × Handed :=
  if h.kind = .dictionary ∧ st.dictionary.isSome then (st, .discarded)
  else
    match readPageSkipGuarded st.skip h stream with
    | .error e => ({ st with desync := true }, .failed e)
    | .ok data => afterLoad st h numRows data

/-! ## facts about the step -/

theorem readPage_ok_bytes (h : Header) (stream b : Bytes) (hr : readPage h stream = .ok b) :
    b = stream.take h.compressedSize ∧ (h.crc ≠ 0#32 → crc32 b = h.crc) := by
  unfold readPage readFull at hr
  by_cases hl : stream.length < h.compressedSize
  · simp [hl] at hr
  · simp only [hl, if_false] at hr
    by_cases h0 : h.crc = 0#32
    · simp [h0] at hr
      exact ⟨hr.symm, fun hne => absurd h0 hne⟩
    · by_cases hc : h.crc = crc32 (stream.take h.compressedSize)
      · simp [h0, ← hc] at hr
        exact ⟨hr.symm, fun _ => by rw [← hr]; exact hc.symm⟩
      · simp [h0, hc] at hr

theorem afterLoad_decoded (st : RState) (h : Header) (n : Nat) (data b : Bytes)
    (hd : (afterLoad st h n data).2.decoded = some b) : b = data := by
  unfold afterLoad at hd
  split at hd
  · simpa [Handed.decoded] using hd.symm
  · dsimp only at hd
    split at hd
    · simpa [Handed.decoded] using hd.symm
    · split at hd <;> simpa [Handed.decoded] using hd.symm

theorem afterLoad_not_failed (st : RState) (h : Header) (n : Nat) (data : Bytes) (e : Err) :
    (afterLoad st h n data).2 ≠ .failed e := by
  unfold afterLoad
  split
  · simp
  · dsimp only
    split
    · simp
    · split <;> simp

/-- the step fails with "corrupted" exactly when the loader does (unless the page is a dictionary
    page that is skipped because the dictionary is already in memory) -/
theorem pageStep_corrupted_iff (st : RState) (h : Header) (n : Nat) (s : Bytes) :
    (pageStep st h n s).2 = .failed .corrupted ↔
      ¬ (h.kind = .dictionary ∧ st.dictionary.isSome) ∧ readPage h s = .error .corrupted := by
  unfold pageStep
  by_cases hd : h.kind = .dictionary ∧ st.dictionary.isSome
  · simp [hd]
  · simp only [hd, if_false, not_false_eq_true, true_and]
    cases hr : readPage h s with
    | error e => cases e <;> simp
    | ok data =>
      simp only [reduceCtorEq, iff_false]
      exact afterLoad_not_failed st h n data .corrupted

/-! ## bridge to the C08 seek machine -/

/-- indexes (from `i`) of the stored data pages that the loader rejects as corrupted -/
def badFrom : Nat → List Stored → List Nat
  | _, [] => []
  | i, s :: rest =>
    if readPage s.hdr s.body = .error .corrupted then i :: badFrom (i + 1) rest else badFrom (i + 1) rest

/-- `Seek.Chunk.bad` of a stored chunk -/
def badOf (pages : List Stored) : List Nat := badFrom 0 pages

theorem mem_badFrom : ∀ (pages : List Stored) (i q : Nat),
    q ∈ badFrom i pages ↔ ∃ j s, pages[j]? = some s ∧ q = i + j ∧ readPage s.hdr s.body = .error .corrupted
  | [], i, q => by simp [badFrom]
  | s :: rest, i, q => by
    have ih := mem_badFrom rest (i + 1) q
    constructor
    · intro h
      unfold badFrom at h
      by_cases hc : readPage s.hdr s.body = .error .corrupted
      · simp only [hc, if_true, List.mem_cons] at h
        rcases h with rfl | h
        · exact ⟨0, s, rfl, rfl, hc⟩
        · obtain ⟨j, t, h1, h2, h3⟩ := ih.mp h
          exact ⟨j + 1, t, by simpa using h1, by omega, h3⟩
      · simp only [hc, if_false] at h
        obtain ⟨j, t, h1, h2, h3⟩ := ih.mp h
        exact ⟨j + 1, t, by simpa using h1, by omega, h3⟩
    · rintro ⟨j, t, h1, h2, h3⟩
      unfold badFrom
      cases j with
      | zero =>
        simp at h1
        subst h1
        simp [h3, h2]
      | succ j =>
        have : q ∈ badFrom (i + 1) rest := ih.mpr ⟨j, t, by simpa using h1, by omega, h3⟩
        by_cases hc : readPage s.hdr s.body = .error .corrupted
        · simp [hc, this]
        · simp [hc, this]

theorem mem_badOf (pages : List Stored) (q : Nat) :
    q ∈ badOf pages ↔ ∃ s, pages[q]? = some s ∧ readPage s.hdr s.body = .error .corrupted := by
  unfold badOf
  rw [mem_badFrom]
  constructor
  · rintro ⟨j, s, h1, h2, h3⟩
    exact ⟨s, by rw [h2]; simpa using h1, h3⟩
  · rintro ⟨s, h1, h2⟩
    exact ⟨q, s, h1, by omega, h2⟩

theorem corrupted_readPage (s : Stored) (hc : Corrupted s) : readPage s.hdr s.body = .error .corrupted := by
  obtain ⟨body, err, hsize, hlen, h0, hcrc, hb, hbody⟩ := hc
  rw [hbody]
  exact readPage_detects s.hdr body err hsize hlen h0 hcrc hb

/-- the page-granularity view of a stored chunk for the seek machine: row counts come from the
    decoder (`rows`), the corrupted set from the loader of this model -/
def seekChunk (c : PageLoad.Chunk) (rows : List Nat) : Seek.Chunk :=
  { rows := rows, dict := c.dict.isSome, bad := badOf c.pages }

/-- the state of the repaired reader after a history of operations, from a fresh reader -/
def reach (c : Seek.Chunk) (hasIndex : Bool) (ops : List Seek.Op) : Seek.St :=
  ops.foldl (fun s op => (Seek.stepFixed c s op).1) (Seek.init hasIndex)

theorem reach_inv (c : Seek.Chunk) (hpos : ∀ r ∈ c.rows, 0 < r) (hi : Bool) (ops : List Seek.Op) :
    Seek.SInv c (reach c hi ops) := by
  unfold reach
  suffices h : ∀ (ops : List Seek.Op) (s : Seek.St), Seek.SInv c s →
      Seek.SInv c (ops.foldl (fun s op => (Seek.stepFixed c s op).1) s) from h ops _ (Seek.init_inv c hi)
  intro ops
  induction ops with
  | nil => intro s h; exact h
  | cons op ops ih => intro s h; exact ih _ (Seek.stepFixed_inv c hpos s op h)

end PqModel.PageStep
