import PqModel.MergeKFault

/-! # C14 — the k-way merge reader after an error: nothing more is handed out

A consumer may call `ReadRows` again after an error. The SPEC source `Rd.Src` is sticky (once the
fault is reached every call answers the error). `Stuck`: the buffer of the winner is empty and its
source sits on the fault; `readRows_err_dead`: that is the state after every call that answered an
error from the loop (an error of `initialize` leaves `count = 0`); `dead_readRows`: from such a
state every call hands out no rows. Needs no invariant: it holds from ANY state of the mirror. -/
namespace PqModel.IoFault.RdK
open PqModel.IoFault.Rd

def Stuck (b : Buf) : Prop := b.win = [] ∧ b.src.failIn = some 0

theorem nextSize_pos (b : Buf) : 0 < b.nextSize := by
  simp only [Buf.nextSize]
  split
  · omega
  · split <;> omega

theorem stuck_read {b : Buf} (h : Stuck b) : b.read.1 = .err ∧ Stuck b.read.2 := by
  obtain ⟨hw, hf⟩ := h
  simp [Buf.read, Buf.readWith, Src.read, Src.res, Src.after, Src.avail, hf, Stuck]
  exact hw

theorem take_nil_zero (s : Src) (cap : Nat) (h : s.rows.take (min cap s.avail) = []) :
    min cap s.avail = 0 := by
  rcases List.take_eq_nil_iff.mp h with a | a
  · exact a
  · have : s.avail = 0 := by
      simp only [Src.avail]; split <;> simp [a]
    omega

/-- a source that answers no rows into a buffer with room answers io.EOF, or the error it is stuck
on — never `(0, nil)` -/
theorem Src.read_empty (s : Src) (cap : Nat) (hc : 0 < cap) (he : (s.read cap).1.1 = []) :
    ((s.read cap).1.2 = .eof ∧ (s.read cap).2.failIn ≠ some 0) ∨
    ((s.read cap).1.2 = .err ∧ (s.read cap).2.failIn = some 0) := by
  have hn0 := take_nil_zero s cap (by simpa [Src.read] using he)
  have hav : s.avail = 0 := by omega
  simp only [Src.read, Src.res, hn0]
  by_cases hz : (s.after 0).failIn = some 0
  · right; simp [hz]
  · left
    have hrows : (s.after 0).rows = [] := by
      simp only [Src.after, List.drop_zero]
      simp only [Src.after] at hz
      cases hfi : s.failIn with
      | none => simp only [Src.avail, hfi] at hav; exact List.length_eq_zero_iff.mp hav
      | some k =>
        simp only [Src.avail, hfi] at hav
        rw [hfi] at hz
        simp only [Option.map_some] at hz
        have : k ≠ 0 := by intro e; subst e; simp at hz
        exact List.length_eq_zero_iff.mp (by omega)
    simp [hz, hrows]

theorem read_err_stuck {b : Buf} (hw : b.win = []) (h : b.read.1 = .err) : Stuck b.read.2 := by
  have hp := nextSize_pos b
  simp only [Buf.read, Buf.readWith, hw, List.length_nil, Nat.sub_zero] at h ⊢
  split
  · rename_i hnil
    simp only [hnil, if_true] at h
    rcases Src.read_empty b.src b.nextSize hp hnil with ⟨a, _⟩ | ⟨_, a⟩
    · simp [a] at h
    · exact ⟨rfl, a⟩
  · rename_i hnil
    simp [hnil] at h

/-- the winner is in range, the merge is not over, and the winner's buffer is stuck on the fault -/
def StuckSt (st : MK) : Prop :=
  st.count ≠ 0 ∧ 0 ≤ st.winner ∧ st.winner.toNat < st.bufs.length ∧ Stuck st.cur

theorem cur_setBuf {st : MK} (hw : st.winner.toNat < st.bufs.length) (c : Buf) : (st.setBuf c).cur = c := by
  simp only [MK.cur, MK.setBuf]; exact getD_set_eq c hw

/-- from a stuck state a call hands out nothing, answers the error again (nil for an empty `rows`),
and stays stuck -/
theorem loop_stuck {st : MK} (h : StuckSt st) (f m : Nat) :
    (MK.loop f m st).1.1 = [] ∧ ((MK.loop f m st).1.2 = .nil ∨ (MK.loop f m st).1.2 = .err) ∧
    StuckSt (MK.loop f m st).2 ∧ (MK.loop f m st).2.initialized = st.initialized := by
  obtain ⟨hc, hw0, hw, hs⟩ := h
  cases f with
  | zero => simp [MK.loop, StuckSt, hc, hw0, hw, hs]
  | succ f =>
    rw [MK.loop]
    split
    · rename_i hm
      have : m = 0 := by rcases hm with a | a; exact a; exact absurd a hc
      simp [hc, StuckSt, hw0, hw, hs]
    · split
      · rename_i hp; exfalso; omega
      · obtain ⟨hr1, hr2⟩ := stuck_read hs
        split
        · split
          · rename_i c' hr; rw [hr] at hr1; cases hr1
          · rename_i c' hr; rw [hr] at hr1; cases hr1
          · rename_i c' hr
            rw [hr] at hr2
            refine ⟨rfl, Or.inr rfl, ⟨hc, hw0, by simpa [MK.setBuf] using hw, ?_⟩, rfl⟩
            rw [cur_setBuf hw]; exact hr2
        · rename_i x w' hwin; rw [hs.1] at hwin; cases hwin

/-- a call of the loop that answers an error leaves a stuck state -/
theorem loop_err : ∀ (f m : Nat) (st : MK),
    (MK.loop f m st).2.initialized = st.initialized ∧
    ((MK.loop f m st).1.2 = .err → StuckSt (MK.loop f m st).2)
  | 0, m, st => by simp [MK.loop]
  | f + 1, m, st => by
    rw [MK.loop]
    split
    · refine ⟨rfl, ?_⟩
      intro h; simp only at h; split at h <;> cases h
    · rename_i hc
      split
      · exact ⟨rfl, by simp⟩
      · rename_i hwin
        have hw : st.winner.toNat < st.bufs.length := by omega
        split
        · rename_i hempty
          split
          · exact loop_err f m _
          · exact loop_err f m _
          · rename_i c' hr
            refine ⟨rfl, fun _ => ⟨fun e => hc (Or.inr e), by simp only [MK.setBuf]; omega,
              by simpa [MK.setBuf] using hw, ?_⟩⟩
            rw [cur_setBuf hw]
            have := read_err_stuck hempty (by rw [hr])
            rw [hr] at this; exact this
        · split
          · exact ⟨rfl, by simp⟩
          · split
            · dsimp only
              split
              · exact ⟨rfl, by simp⟩
              · exact ⟨(loop_err f _ _).1, fun h => (loop_err f _ _).2 h⟩
            · dsimp only
              exact ⟨(loop_err f (m - 1) _).1, fun h => (loop_err f (m - 1) _).2 h⟩

/-- nothing more will be handed out: the merge is over (`count = 0`) or stuck on a fault -/
def Dead (st : MK) : Prop := st.initialized = true ∧ (st.count = 0 ∨ StuckSt st)

theorem init_initialized (st : MK) : st.init.2.initialized = true := by
  simp only [MK.init]; split
  · rfl
  · split <;> rfl

theorem init_err_count (st : MK) (h : st.init.1 ≠ .nil) : st.init.2.count = 0 := by
  simp only [MK.init] at h ⊢; split
  · rfl
  · rename_i he; simp only [he, if_false] at h; split at h <;> simp at h

/-- **after an error** (from any state): the state is dead -/
theorem readRows_err_dead (st : MK) (cap : Nat) (h : (st.readRows cap).1.2 = .err) :
    Dead (st.readRows cap).2 := by
  simp only [MK.readRows] at h ⊢
  split
  · rename_i hi
    simp only [hi, if_true] at h
    have := loop_err (st.fuel cap) cap st
    exact ⟨by rw [this.1, hi], Or.inr (this.2 h)⟩
  · split
    · rename_i hi hn
      simp only [hi, hn, if_true, Bool.false_eq_true, if_false] at h
      have := loop_err (st.fuel cap) cap st.init.2
      exact ⟨by rw [this.1, init_initialized], Or.inr (this.2 (by simpa using h))⟩
    · rename_i hi hn
      exact ⟨init_initialized st, Or.inl (init_err_count st hn)⟩

/-- a dead state hands out nothing and stays dead; io.EOF only with `count = 0` -/
theorem dead_readRows {st : MK} (h : Dead st) (cap : Nat) :
    (st.readRows cap).1.1 = [] ∧ Dead (st.readRows cap).2 ∧
    (st.count ≠ 0 → (st.readRows cap).1.2 = .nil ∨ (st.readRows cap).1.2 = .err) ∧
    (st.count ≠ 0 → (st.readRows cap).2.count ≠ 0) := by
  obtain ⟨hi, hd⟩ := h
  simp only [MK.readRows, hi, if_true]
  rcases hd with h0 | hs
  · have e : MK.loop (st.fuel cap) cap st = (([], .eof), st) := by
      simp only [MK.fuel]; rw [MK.loop]; simp [h0]
    rw [e]
    exact ⟨rfl, ⟨hi, Or.inl h0⟩, fun hc => absurd h0 hc, fun hc => absurd h0 hc⟩
  · obtain ⟨a, b, c, d⟩ := loop_stuck hs (st.fuel cap) cap
    exact ⟨a, ⟨by rw [d, hi], Or.inr c⟩, fun _ => b, fun _ => c.1⟩

theorem sessionAll_dead : ∀ (caps : List Nat) (st : MK), Dead st →
    ∀ x ∈ sessionAll caps st, x.1 = [] ∧ (st.count ≠ 0 → x.2 = .nil ∨ x.2 = .err)
  | [], _, _, x, hx => by simp [sessionAll] at hx
  | c :: cs, st, h, x, hx => by
    obtain ⟨a, b, d, e⟩ := dead_readRows h c
    simp only [sessionAll, List.mem_cons] at hx
    rcases hx with rfl | hx
    · exact ⟨a, d⟩
    · have := sessionAll_dead cs _ b x hx
      exact ⟨this.1, fun hc => this.2 (e hc)⟩

end PqModel.IoFault.RdK
