namespace PqModel.Bits

/-! Spike: LSB-first bit packing and ULEB128 round trips (encoding/rle, encoding/delta, bitpack). -/

def toBits : Nat → Nat → List Bool
  | 0, _ => []
  | w + 1, x => (x % 2 == 1) :: toBits w (x / 2)

def fromBits : List Bool → Nat
  | [] => 0
  | b :: bs => (if b then 1 else 0) + 2 * fromBits bs

theorem toBits_length : ∀ w x, (toBits w x).length = w
  | 0, _ => rfl
  | w + 1, x => by simp [toBits, toBits_length w]

theorem fromBits_toBits : ∀ (w x : Nat), x < 2 ^ w → fromBits (toBits w x) = x
  | 0, x, h => by simp at h; simp [toBits, fromBits, h]
  | w + 1, x, h => by
    have h2 : x / 2 < 2 ^ w := by
      rw [Nat.pow_succ] at h; omega
    simp only [toBits, fromBits, fromBits_toBits w (x / 2) h2]
    by_cases hx : x % 2 = 1 <;> simp [hx] <;> omega

theorem toBits_fromBits : ∀ (w : Nat) (bs : List Bool), bs.length ≤ w →
    toBits w (fromBits bs) = bs ++ List.replicate (w - bs.length) false
  | 0, bs, h => by
    have : bs = [] := by cases bs <;> simp_all
    subst this; rfl
  | w + 1, [], _ => by
    have := toBits_fromBits w [] (by simp)
    simp only [fromBits, List.length_nil, Nat.sub_zero, List.nil_append] at this ⊢
    simp [toBits, List.replicate_succ, this]
  | w + 1, b :: bs, h => by
    have hl : bs.length ≤ w := by simpa using h
    have ih := toBits_fromBits w bs hl
    have hdiv : ((if b then 1 else 0) + 2 * fromBits bs) / 2 = fromBits bs := by cases b <;> simp <;> omega
    have hmod : (((if b then 1 else 0) + 2 * fromBits bs) % 2 == 1) = b := by cases b <;> simp <;> omega
    simp only [fromBits, toBits, hdiv, hmod, ih, List.cons_append, List.length_cons, Nat.add_sub_add_right]

def packBits (w : Nat) (xs : List Nat) : List Bool := (xs.map (toBits w)).flatten

def unpackBits (w : Nat) : Nat → List Bool → List Nat
  | 0, _ => []
  | n + 1, bits => fromBits (bits.take w) :: unpackBits w n (bits.drop w)

theorem unpack_pack (w : Nat) : ∀ (xs : List Nat) (pad : List Bool), (∀ x ∈ xs, x < 2 ^ w) →
    unpackBits w xs.length (packBits w xs ++ pad) = xs
  | [], _, _ => rfl
  | x :: xs, pad, h => by
    have hx := h x (by simp)
    have ih := unpack_pack w xs pad (fun y hy => h y (by simp [hy]))
    simp only [packBits, List.map_cons, List.flatten_cons, List.length_cons, unpackBits, List.append_assoc]
    rw [List.take_left' (toBits_length w x), List.drop_left' (toBits_length w x), fromBits_toBits w x hx]
    simp only [packBits] at ih
    rw [ih]

/-- group bits into bytes, zero padded -/
def bitsToBytes : Nat → List Bool → List Nat
  | 0, _ => []
  | f + 1, bs => if bs.isEmpty then [] else fromBits (bs.take 8) :: bitsToBytes f (bs.drop 8)

def bytesToBits (bytes : List Nat) : List Bool := (bytes.map (toBits 8)).flatten

theorem bytes_bits : ∀ (f : Nat) (bs : List Bool), bs.length ≤ f →
    ∃ pad, bytesToBits (bitsToBytes f bs) = bs ++ pad
  | 0, bs, h => by
    have : bs = [] := by cases bs <;> simp_all
    subst this; exact ⟨[], rfl⟩
  | f + 1, bs, h => by
    simp only [bitsToBytes]
    by_cases he : bs.isEmpty
    · have : bs = [] := by simpa using he
      subst this; exact ⟨[], by simp [bytesToBits]⟩
    · have he' : bs.isEmpty = false := by simpa using he
      simp only [he', Bool.false_eq_true, if_false]
      have hne : bs ≠ [] := by simpa using he
      have hlen : 0 < bs.length := List.length_pos_iff.mpr hne
      by_cases h8 : 8 ≤ bs.length
      · obtain ⟨pad, hp⟩ := bytes_bits f (bs.drop 8) (by simp; omega)
        refine ⟨pad, ?_⟩
        simp only [bytesToBits, List.map_cons, List.flatten_cons] at hp ⊢
        rw [hp, toBits_fromBits 8 (bs.take 8) (by simp; omega)]
        have : (bs.take 8).length = 8 := by simp; omega
        simp [this, ← List.append_assoc, List.take_append_drop]
      · have hd : bs.drop 8 = [] := by simp; omega
        have ht : bs.take 8 = bs := List.take_of_length_le (by omega)
        refine ⟨List.replicate (8 - bs.length) false, ?_⟩
        rw [hd, ht]
        cases f with
        | zero => simp [bitsToBytes, bytesToBits, toBits_fromBits 8 bs (by omega)]
        | succ f' => simp [bitsToBytes, bytesToBits, toBits_fromBits 8 bs (by omega)]

/-- bit-packing round trip through bytes, for every width and every value list in range -/
theorem unpack_pack_bytes (w : Nat) (xs : List Nat) (h : ∀ x ∈ xs, x < 2 ^ w) :
    unpackBits w xs.length (bytesToBits (bitsToBytes (packBits w xs).length (packBits w xs))) = xs := by
  obtain ⟨pad, hp⟩ := bytes_bits _ (packBits w xs) (Nat.le_refl _)
  rw [hp]
  exact unpack_pack w xs pad h

/-! ### ULEB128 -/

def uvarint (n : Nat) : List Nat :=
  if h : n < 128 then [n] else (n % 128 + 128) :: uvarint (n / 128)
termination_by n
decreasing_by omega

def decUvarint : List Nat → Option (Nat × List Nat)
  | [] => none
  | b :: bs =>
    if b < 128 then some (b, bs)
    else match decUvarint bs with
      | some (v, r) => some (b - 128 + 128 * v, r)
      | none => none

theorem uvarint_roundtrip (n : Nat) (rest : List Nat) : decUvarint (uvarint n ++ rest) = some (n, rest) := by
  induction n using Nat.strongRecOn with
  | _ n ih =>
    rw [uvarint]
    by_cases h : n < 128
    · simp [h, decUvarint]
    · simp only [h, dite_false, List.cons_append, decUvarint]
      have : ¬ (n % 128 + 128 < 128) := by omega
      simp only [this, if_false]
      rw [ih (n / 128) (by omega)]
      simp; omega

#print axioms unpack_pack_bytes
#print axioms uvarint_roundtrip

end PqModel.Bits
