import PqModel.PoolAsync
import PqModel.Pool

/-! The storage operations of `PqModel.PoolAsync` are the buffer operations of `PqModel.Pool`
(MIRROR of buffer.go `ref` / `unref` / `bufferPool.get`, the ones the L2 replay `pool.trace` runs
against the library's recorded get/ref/unref events): a simulation. So what `Pool` proves about its
heap (`get_never_returns_aliased`: a later `get` returns only pooled buffers) applies to the storages
of the asynchronous reader: a storage that is not `pooled` here is not `inPool` there. -/
namespace PqModel.PoolAsync
open PqModel

/-- the two heaps show the same reference counts, pool membership and panics -/
structure Agree (h : Hp) (H : Pool.Heap) : Prop where
  bug : h.bug = true ↔ H.bug ≠ none
  n : H.nbufs = h.nbuf
  refc : ∀ b, (H.bufs b).refc = h.refc b
  pool : ∀ b, b < h.nbuf → (H.bufs b).inPool = h.pooled b

theorem agree_init : Agree init.h Pool.Heap.init := by
  constructor <;> simp [init, Pool.Heap.init]

/-- `bufferUnref` -/
theorem agree_unref {h H b} (a : Agree h H) (hw : Pool.HW H) (hb : b < h.nbuf) :
    Agree (h.unref (some b)) (H.unref b) := by
  obtain ⟨a1, a2, a3, a4⟩ := a
  have hr := a3 b
  have hp := hw.pool b
  have hq := a4 b hb
  simp only [Hp.unref, Pool.Heap.unref]
  by_cases h0 : h.refc b = 0
  · have h0' : (H.bufs b).refc = 0 := by omega
    simp only [h0, h0', if_true]
    exact ⟨by simp, a2, a3, a4⟩
  · have h0' : ¬ (H.bufs b).refc = 0 := by omega
    simp only [h0, h0', if_false]
    by_cases h1 : h.refc b = 1
    · have h1' : (H.bufs b).refc = 1 := by omega
      simp only [h1', if_true]
      refine ⟨a1, a2, ?_, ?_⟩
      · intro j; by_cases hj : j = b
        · subst hj; simp [Pool.upd, h1]
        · simp [Pool.upd, hj]; exact a3 j
      · intro j hjl; by_cases hj : j = b
        · subst hj; simp [Pool.upd, h1]
        · simp [Pool.upd, hj]; exact a4 j hjl
    · have h1' : ¬ (H.bufs b).refc = 1 := by omega
      simp only [h1', if_false]
      refine ⟨a1, a2, ?_, ?_⟩
      · intro j; by_cases hj : j = b
        · subst hj; simp [Pool.upd]; omega
        · simp [Pool.upd, hj]; exact a3 j
      · intro j hjl; by_cases hj : j = b
        · subst hj
          have : (H.bufs j).inPool = false := by
            cases hpb : (H.bufs j).inPool with
            | false => rfl
            | true => exact absurd (hp.mp hpb) h0'
          simp [Pool.upd, h1, this]
        · simp [Pool.upd, hj]; exact a4 j hjl

/-- `bufferRef` -/
theorem agree_ref {h H b} (a : Agree h H) : Agree (h.ref b) (H.ref b) := by
  obtain ⟨a1, a2, a3, a4⟩ := a
  have hr := a3 b
  simp only [Hp.ref, Pool.Heap.ref]
  by_cases h0 : h.refc b = 0
  · have h0' : (H.bufs b).refc = 0 := by omega
    simp only [h0, h0', if_true]
    exact ⟨by simp, a2, a3, a4⟩
  · have h0' : ¬ (H.bufs b).refc = 0 := by omega
    simp only [h0, h0', if_false]
    refine ⟨a1, a2, ?_, ?_⟩
    · intro j; by_cases hj : j = b
      · subst hj; simp [Pool.upd]; omega
      · simp [Pool.upd, hj]; exact a3 j
    · intro j hjl; by_cases hj : j = b
      · subst hj; simp [Pool.upd]; exact a4 j hjl
      · simp [Pool.upd, hj]; exact a4 j hjl

/-- decoding a page into a buffer nobody has seen (`bufferPool.get` answered by `newT`: the pick is
    not pooled), then `Retain` for the cache: `Hp.alloc`; without the Retain: `Hp.alloc1` -/
theorem agree_alloc {h H d} (a : Agree h H) (hw : Pool.HW H) :
    Agree h.alloc1 (H.get H.nbufs d).1 ∧ Agree h.alloc ((H.get H.nbufs d).1.ref H.nbufs) := by
  obtain ⟨a1, a2, a3, a4⟩ := a
  have hf := hw.fresh H.nbufs (Nat.le_refl _)
  have hpl : (H.bufs H.nbufs).inPool = true := (hw.pool _).mpr hf
  have hmax : max H.nbufs (H.nbufs + 1) = H.nbufs + 1 := by omega
  have A1 : Agree h.alloc1 (H.get H.nbufs d).1 := by
    simp only [Pool.Heap.get, hpl, if_true, Hp.alloc1, hmax]
    refine ⟨a1, by simp [a2], ?_, ?_⟩
    · intro j; by_cases hj : j = h.nbuf
      · subst hj; simp [Pool.upd, a2]
      · simp [Pool.upd, hj, a2]; exact a3 j
    · intro j hjl; by_cases hj : j = h.nbuf
      · subst hj; simp [Pool.upd, a2]
      · have : j < h.nbuf := by simp at hjl; omega
        simp [Pool.upd, hj, a2]; exact a4 j this
  refine ⟨A1, ?_⟩
  have A2 := agree_ref (b := H.nbufs) A1
  have e : (h.alloc1.ref H.nbufs) = h.alloc := by
    simp [Hp.ref, Hp.alloc1, Hp.alloc, a2]
    funext j; by_cases hj : j = h.nbuf <;> simp [hj]
  rw [e] at A2; exact A2

end PqModel.PoolAsync
