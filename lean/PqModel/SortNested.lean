import PqModel.SortRep

/-! # C10 model, part 6 — how `Buffer.configure` sets up a sorting column (nested leaves)

`buffer.go:243-291`: for every leaf of the schema the buffer picks the column buffer kind (plain /
optional / repeated) from the leaf's *inherited* levels, the null ordering function handed to the
optional/repeated wrapper, and whether the sorted column is wrapped in `reversedColumnBuffer`.
A required leaf below an optional (or repeated) group has `maxDefinitionLevel > 0`
(`maxRepetitionLevel > 0`) although its own repetition is `required`: it is stored in an optional
(repeated) column buffer and holds a null in every row where the group is absent.

MIRROR: `Leaf`, `Conf`, `configureWith`, `configure`, `ordTable`, `Col.lessRaw`, `Col.lessConf`,
`RepCol.lessConf`. The variant that derives `nullable` from the leaf's own repetition only
(`configureOwn`) is kept for the negation witness. SPEC side: `cmpCell` / `cmpList` of `SortCmp`,
`SortRep` (the comparator applies the null wrapper iff `maxDefinitionLevel > 0`,
`compare.go:436-442`). -/
namespace PqModel.SortBuf

/-- what `forEachLeafColumnOf` reports about a leaf: the levels accumulated over all ancestors and
    the leaf node's own repetition type -/
structure Leaf where
  maxRep : Nat
  maxDef : Nat
  ownOptional : Bool := false
  ownRepeated : Bool := false
deriving DecidableEq, Repr

/-- the column buffer kind chosen at `buffer.go:276-281` -/
inductive Wrap where
  | plain | optional | repeated
deriving DecidableEq, Repr

/-- the outcome of `configure` for one leaf: buffer kind; the null ordering function as its two
    degrees of freedom (`nullsGoFirst*` vs `nullsGoLast*`, `*Descending` or not); the
    `reversedColumnBuffer` wrapper around the sorted column -/
structure Conf where
  wrap : Wrap
  nullsFirst : Bool
  descValues : Bool
  reversed : Bool
deriving DecidableEq, Repr

/-- MIRROR `buffer.go:243-291` with the `nullable` flag as a parameter. `sc = none`: the leaf is
    not a sorting column (`sortingIndex == len(sortingColumns)`). -/
def configureWith (nullable : Bool) (l : Leaf) (sc : Option SortCol) : Conf :=
  let nf := match sc with | some s => s.nullsFirst | none => false
  let desc := match sc with | some s => s.desc | none => false
  { wrap := if 0 < l.maxRep then .repeated else if 0 < l.maxDef then .optional else .plain,
    nullsFirst := nf,
    descValues := nullable && desc,
    reversed := desc && !nullable }

/-- MIRROR `buffer.go:268`: `nullable := leaf.maxRepetitionLevel > 0 || leaf.maxDefinitionLevel > 0` -/
def configure (l : Leaf) (sc : Option SortCol) : Conf :=
  configureWith (decide (0 < l.maxRep) || decide (0 < l.maxDef)) l sc

/-- the variant that looks at the leaf's own repetition type only (`leaf.node.Optional() ||
    leaf.node.Repeated()`): wrong for required leaves inside optional/repeated groups -/
def configureOwn (l : Leaf) (sc : Option SortCol) : Conf :=
  configureWith (l.ownOptional || l.ownRepeated) l sc

/-- MIRROR `column_buffer.go:113-143`: the four null ordering functions, selected by two flags;
    `less` is the base column's `Less` on base indexes -/
def nullOrdFn (nullsFirst descValues : Bool) (less : Int → Int → Bool) (m d1 d2 : Nat) (i j : Int) : Bool :=
  let l := fun x y => if descValues then less y x else less x y
  if nullsFirst then nullsGoFirst l m d1 d2 i j else nullsGoLast l m d1 d2 i j

/-- the truth table the correspondence check probes a null ordering function with: maximum level 1,
    levels `(0,0) (0,1) (1,0) (1,1)`, base indexes `0, 1`, and a base column on which `Less(0,1)`
    holds and `Less(1,0)` does not -/
def ordTable (nullsFirst descValues : Bool) : List Bool :=
  [(0, 0), (0, 1), (1, 0), (1, 1)].map fun (d : Nat × Nat) =>
    nullOrdFn nullsFirst descValues (fun x y => decide (x = 0 ∧ y = 1)) 1 d.1 d.2 0 1

/-- the four null orderings are told apart by the probe -/
theorem ordTable_injective (a b c d : Bool) : ordTable a b = ordTable c d → a = c ∧ b = d := by
  revert a b c d; decide

/-- `Less` of the column buffer itself (before any `reversedColumnBuffer`): a plain buffer compares
    values; an optional buffer goes through its null ordering function
    (`column_buffer_optional.go:134-145`) -/
def Col.lessRaw {V : Type} (lt : V → V → Bool) (nullsFirst descValues : Bool) : Col V → Nat → Nat → Bool
  | .req vals, i, j =>
    match vals[i]?, vals[j]? with
    | some a, some b => lt a b
    | _, _ => false
  | .opt m c, i, j =>
    match c.rows[i]?, c.rows[j]?, c.defs[i]?, c.defs[j]? with
    | some ri, some rj, some di, some dj => nullOrdFn nullsFirst descValues (baseLess lt c.base) m di dj ri rj
    | _, _, _, _ => false

/-- `buf.sorted[k].Less(i, j)`: the configured column, behind `reversedColumnBuffer` if chosen -/
def Col.lessConf {V : Type} (lt : V → V → Bool) (cf : Conf) (c : Col V) (i j : Nat) : Bool :=
  if cf.reversed then Col.lessRaw lt cf.nullsFirst cf.descValues c j i
  else Col.lessRaw lt cf.nullsFirst cf.descValues c i j

/-- the same for a repeated column buffer -/
def RepCol.lessConf {V : Type} (lt : V → V → Bool) (cf : Conf) (m : Nat) (c : RepCol V) (i j : Nat) : Bool :=
  if cf.reversed then c.less lt cf.descValues cf.nullsFirst m j i
  else c.less lt cf.descValues cf.nullsFirst m i j

/-- the column buffer has the kind `configure` creates for the leaf -/
def Col.KindOf {V : Type} (l : Leaf) : Col V → Prop
  | .req _ => l.maxRep = 0 ∧ l.maxDef = 0
  | .opt m _ => l.maxRep = 0 ∧ m = l.maxDef ∧ 0 < l.maxDef

theorem Col.lessRaw_opt {V : Type} (lt : V → V → Bool) (nf desc : Bool) (m : Nat) (c : OptCol V) (i j : Nat) :
    Col.lessRaw lt nf desc (.opt m c) i j = Col.less lt desc nf (.opt m c) i j := by
  simp only [Col.lessRaw, Col.less, nullOrdFn]
  cases c.rows[i]? <;> cases c.rows[j]? <;> cases c.defs[i]? <;> cases c.defs[j]? <;> rfl

/-- with the levels-based `nullable`, the configured `Less` is the `Less` of `SortCmp` (which
    `less_agrees` ties to the comparator), whatever the leaf's own repetition type -/
theorem Col.lessConf_configure {V : Type} (lt : V → V → Bool) (l : Leaf) (sc : SortCol) {c : Col V}
    (hk : c.KindOf l) (i j : Nat) :
    Col.lessConf lt (configure l (some sc)) c i j = Col.less lt sc.desc sc.nullsFirst c i j := by
  cases c with
  | req vals =>
    obtain ⟨h1, h2⟩ := hk
    simp only [Col.lessConf, configure, configureWith, h1, h2, Col.lessRaw, Col.less]
    cases sc.desc <;> simp <;> cases vals[i]? <;> cases vals[j]? <;> rfl
  | opt m c =>
    obtain ⟨h1, h2, h3⟩ := hk
    have hn : (decide (0 < l.maxRep) || decide (0 < l.maxDef)) = true := by simp [h3]
    simp only [Col.lessConf, configure, configureWith, hn, Bool.true_and, Bool.not_true, Bool.and_false,
      Bool.false_eq_true, if_false]
    exact Col.lessRaw_opt lt sc.nullsFirst sc.desc m c i j

/-- a repeated leaf (own or inherited repetition) is never reversed: the direction goes into the
    null ordering function -/
theorem RepCol.lessConf_configure {V : Type} (lt : V → V → Bool) (l : Leaf) (sc : SortCol) (hr : 0 < l.maxRep)
    (m : Nat) (c : RepCol V) (i j : Nat) :
    RepCol.lessConf lt (configure l (some sc)) m c i j = c.less lt sc.desc sc.nullsFirst m i j := by
  have hn : (decide (0 < l.maxRep) || decide (0 < l.maxDef)) = true := by simp [hr]
  simp only [RepCol.lessConf, configure, configureWith, hn, Bool.true_and, Bool.not_true, Bool.and_false,
    Bool.false_eq_true, if_false]

/-- the kind of buffer `configure` creates follows the inherited levels -/
theorem configure_wrap (l : Leaf) (sc : Option SortCol) :
    ((configure l sc).wrap = .plain ↔ l.maxRep = 0 ∧ l.maxDef = 0) ∧
    ((configure l sc).wrap = .optional ↔ l.maxRep = 0 ∧ 0 < l.maxDef) ∧
    ((configure l sc).wrap = .repeated ↔ 0 < l.maxRep) := by
  simp only [configure, configureWith]
  refine ⟨?_, ?_, ?_⟩ <;> split <;> (try split) <;> simp <;> omega

/-- `reversedColumnBuffer` is used exactly for descending columns that can hold no null -/
theorem configure_reversed (l : Leaf) (sc : SortCol) :
    (configure l (some sc)).reversed = true ↔ sc.desc = true ∧ l.maxRep = 0 ∧ l.maxDef = 0 := by
  simp only [configure, configureWith]
  cases sc.desc <;> simp <;> omega

/-! ## the whole `Buffer` as configured from a schema -/

theorem lessChain_congr {V : Type} (cl1 cl2 : SortCol → Col V → Nat → Nat → Bool) (cols : List (Col V)) (i j : Nat) :
    ∀ (s : List SortCol), (∀ sc ∈ s, ∀ c, cols[sc.col]? = some c → ∀ x y, cl1 sc c x y = cl2 sc c x y) →
    lessChain cl1 cols s i j = lessChain cl2 cols s i j
  | [], _ => rfl
  | sc :: rest, h => by
    have ih := lessChain_congr cl1 cl2 cols i j rest (fun x hx => h x (by simp [hx]))
    simp only [lessChain]
    cases hc : cols[sc.col]? with
    | none => exact ih
    | some c =>
      simp only
      rw [h sc (by simp) c hc i j, h sc (by simp) c hc j i, ih]

/-- MIRROR `buffer.go:352-363` `Buffer.Less` over the sorted columns as `configure` set them up;
    `leaves k` describes the leaf of column `k` -/
def Buffer.lessConfigured {V : Type} (lt : V → V → Bool) (leaves : Nat → Leaf) (b : Buffer V) (i j : Nat) : Bool :=
  lessChain (fun sc c => Col.lessConf lt (configure (leaves sc.col) (some sc)) c) b.cols b.sorting i j

/-- for every schema (any nesting of the sorting leaves under optional groups): the `Less` of the
    buffer as configured is the `Less` chain of `SortCmp`, provided every column buffer has the
    kind its leaf's levels ask for -/
theorem Buffer.lessConfigured_eq {V : Type} (lt : V → V → Bool) (leaves : Nat → Leaf) (b : Buffer V)
    (hk : ∀ (k : Nat) (c : Col V), b.cols[k]? = some c → c.KindOf (leaves k)) (i j : Nat) :
    b.lessConfigured lt leaves i j = b.less lt i j :=
  lessChain_congr _ _ b.cols i j b.sorting (fun sc _ c hc x y => Col.lessConf_configure lt (leaves sc.col) sc (hk sc.col c hc) x y)

end PqModel.SortBuf
