import PqModel.Bits

/-! # RLE / bit-packed hybrid (C04, part rle)

Bytes are `Nat`s below 256, values are `Nat`s (an `int32` enters as its `uint32` bit pattern),
booleans are 0/1.

* **SPEC** (written from parquet-format `Encodings.md` only): `decodeRuns`, `specDecode`,
  `specDecodeBoolean`, `specDecodeLevelsV1`, `specDecodeDict`, the grammar `ValidRle`.
* **MIRROR** (transliteration of `encoding/rle/rle.go`, portable code): `encodeLevels`
  (`encodeBytes`), `encodeInt32`, `encodeBits`/`encodeBoolean`, `encodeDict`. The Go loops append
  to `dst` run by run; the mirror returns the list of runs (`Run`) in the same order and
  `serialize` writes each run the way `appendRunLength*` / `appendBitPacked*` do.
  Bit-packed payloads are written as `packBytes` (LSB-first packing of the values masked to the bit
  width). That this is what the portable kernels compute is proved about their transliterations in
  `RleDecode.lean`: `encodeBytesBitpackDefault` (`levels_pack_kernel`) and the third-party
  `bitpack.Pack` / `packInt32Default` (`int32_pack_kernel`); likewise for the decoding kernels
  (`levels_unpack_kernel`, `int32_unpack_kernel`). The assembly kernels (BMI2 / AVX2 / bitpack amd64)
  are tied by L2 only. The Go DECODERS are mirrored in `RleDecode.lean`.
-/
namespace PqModel.Rle
open PqModel.Bits

inductive Err where
  | truncHeader | truncBitPacked | truncRleValue | truncPrefix | fuel | width | invalidBitWidth
  | runTooLong
  deriving DecidableEq

def Err.name : Err → String
  | .truncHeader => "trunc-header" | .truncBitPacked => "trunc-bitpacked"
  | .truncRleValue => "trunc-rle-value" | .truncPrefix => "trunc-prefix" | .fuel => "fuel"
  | .width => "width" | .invalidBitWidth => "invalid-bit-width" | .runTooLong => "run-too-long"

/-- little-endian number of a byte string -/
def leNat : List Nat → Nat
  | [] => 0
  | b :: bs => b + 256 * leNat bs

/-- the `k` low bytes of `v`, little-endian -/
def leBytes : Nat → Nat → List Nat
  | 0, _ => []
  | k + 1, v => v % 256 :: leBytes k (v / 256)

def b2n (b : Bool) : Nat := if b then 1 else 0

/-! ## SPEC decoder -/

/-- SPEC. `rle-bit-packed-hybrid := <run>*`, `run := varint-header (bit-packed-run | rle-run)`.
`header & 1 = 1`: bit-packed run of `(header >> 1) * 8` values at width `w`, LSB first, in
`(header >> 1) * w` bytes. Otherwise an RLE run of `header >> 1` copies of the value stored in
`ceil(w/8)` bytes little-endian (masked to `w` bits, note N1). Decoding stops as soon as `need`
values have been produced (a reader knows the value count from the page header), trailing bytes
and the padding values of the last bit-packed run are ignored. `fuel` bounds the number of runs. -/
def decodeRuns (w : Nat) : Nat → Nat → List Nat → Except Err (List Nat)
  | 0, need, _ => if need = 0 then .ok [] else .error .fuel
  | f + 1, need, bs =>
    if need = 0 then .ok [] else
    match decUvarint bs with
    | none => .error .truncHeader
    | some (h, rest) =>
      if h % 2 = 1 then
        let nb := (h / 2) * w
        if rest.length < nb then .error .truncBitPacked else
        let k := min need (8 * (h / 2))
        (decodeRuns w f (need - k) (rest.drop nb)).map
          (unpackBits w k (bytesToBits (rest.take nb)) ++ ·)
      else
        let vb := (w + 7) / 8
        if rest.length < vb then .error .truncRleValue else
        let k := min need (h / 2)
        (decodeRuns w f (need - k) (rest.drop vb)).map
          (List.replicate k (leNat (rest.take vb) % 2 ^ w) ++ ·)

/-- SPEC: `n` values of width `w` from a hybrid stream (no length prefix: data page v2 levels,
the body of the other variants). -/
def specDecode (w n : Nat) (bs : List Nat) : Except Err (List Nat) :=
  decodeRuns w (bs.length + 1) n bs

/-- SPEC: `<length: 4 bytes little endian> <hybrid stream of length bytes>` at width `w`
(data page v1 levels). -/
def specDecodeLevelsV1 (w n : Nat) (bs : List Nat) : Except Err (List Nat) :=
  if bs.length < 4 then .error .truncPrefix else
  let len := leNat (bs.take 4)
  if (bs.drop 4).length < len then .error .truncPrefix else
  specDecode w n ((bs.drop 4).take len)

/-- SPEC: RLE-encoded BOOLEAN values: width 1, 4-byte little-endian length prefix. -/
def specDecodeBoolean (n : Nat) (bs : List Nat) : Except Err (List Nat) :=
  specDecodeLevelsV1 1 n bs

/-- SPEC: RLE_DICTIONARY index page: `<bit width: 1 byte> <hybrid stream>`; width at most 32. -/
def specDecodeDict (n : Nat) (bs : List Nat) : Except Err (List Nat) :=
  match bs with
  | [] => if n = 0 then .ok [] else .error .truncHeader
  | w :: rest => if w > 32 then .error .width else specDecode w n rest

/-! ## Runs: the grammar of conformant streams, and the output unit of the mirror encoders -/

inductive Run where
  /-- `count` copies of the value whose stored bytes are `value` -/
  | rle (count : Nat) (value : List Nat)
  /-- `groups * 8` values, already packed -/
  | bp (groups : Nat) (packed : List Nat)

/-- what `appendRunLength*` / `appendBitPacked*` write (rle.go:450-492): uvarint header, payload -/
def Run.bytes : Run → List Nat
  | .rle c v => uvarint (2 * c) ++ v
  | .bp g p => uvarint (2 * g + 1) ++ p

/-- SPEC reading of one run at width `w` -/
def Run.values (w : Nat) : Run → List Nat
  | .rle c v => List.replicate c (leNat v % 2 ^ w)
  | .bp g p => unpackBits w (8 * g) (bytesToBits p)

def Run.WF (w : Nat) : Run → Prop
  | .rle _ v => v.length = (w + 7) / 8
  | .bp g p => p.length = g * w

def serialize (rs : List Run) : List Nat := (rs.map Run.bytes).flatten

def runsValues (w : Nat) (rs : List Run) : List Nat := (rs.map (Run.values w)).flatten

/-- SPEC grammar: `bytes` is a conformant hybrid encoding of `xs` at width `w`, for any
segmentation into runs (zero-length runs and non-canonical high bits in RLE values allowed). -/
def ValidRle (w : Nat) (xs bytes : List Nat) : Prop :=
  ∃ rs : List Run, (∀ r ∈ rs, r.WF w) ∧ runsValues w rs = xs ∧ serialize rs = bytes

/-! ## MIRROR encoders -/

/-- Model of the bit-packing kernels (`encodeBytesBitpackDefault` rle.go:530-548, `bitpack.Pack`):
every value masked to `w` bits, packed LSB first, zero padded to a byte. -/
def packBytes (w : Nat) (vals : List Nat) : List Nat :=
  bitsToBytes (packBits w (vals.map (· % 2 ^ w))).length (packBits w (vals.map (· % 2 ^ w)))

/-- `unsafecast.Slice[uint64](src)` / `[][8]int32`: `n` groups of 8 values -/
def groups8 : Nat → List Nat → List (List Nat)
  | 0, _ => []
  | n + 1, xs => xs.take 8 :: groups8 n (xs.drop 8)

/-- MIRROR rle.go:189-198 and 237-246: the tail (`len(src) % 8` values) becomes RLE runs of equal
neighbours; `enc v` are the stored bytes of the value. -/
def tailLoop (enc : Nat → List Nat) : Nat → List Nat → List Run
  | 0, _ => []
  | _ + 1, [] => []
  | f + 1, a :: rest =>
    let k := (rest.takeWhile (· == a)).length
    .rle (k + 1) (enc a) :: tailLoop enc f (rest.drop k)

/-- MIRROR rle.go:178: `for j < len(words) && words[j] != broadcast8x1(words[j-1])` -/
def scanLevels : List Nat → List (List Nat) → Nat
  | _, [] => 0
  | prev, g :: gs => if g != List.replicate 8 (prev.headD 0) then 1 + scanLevels g gs else 0

/-- MIRROR of the loop shared by `encodeBytes` (rle.go:165-186, 8-byte words) and `encodeInt32`
(rle.go:217-234, `[8]int32` words). `g :: gs` is `words[i:]`.
`pattern := broadcast(words[i][0])`; `for j < len(words) && words[j] == pattern { j++ }`;
if the run is not empty it is emitted as an RLE run of `8*(j-i)` values with stored bytes `enc v`,
otherwise `j++`, `scan` advances `j` over the words to bit-pack and `words[i:j]` is bit-packed. -/
def groupLoop (enc : Nat → List Nat) (scan : List Nat → List (List Nat) → Nat) (w : Nat) :
    Nat → List (List Nat) → List Run
  | 0, _ => []
  | _ + 1, [] => []
  | f + 1, g :: gs =>
    let v := g.headD 0
    let k := ((g :: gs).takeWhile (· == List.replicate 8 v)).length
    if 0 < k then .rle (8 * k) (enc v) :: groupLoop enc scan w f ((g :: gs).drop k)
    else
      let m := 1 + scan g gs
      .bp m (packBytes w ((g :: gs).take m).flatten) :: groupLoop enc scan w f ((g :: gs).drop m)

/-- MIRROR rle.go:165-186: RLE value is `byte(pattern)` (one byte), the bit-packed scan is
`scanLevels`. -/
def levelsLoop (w : Nat) : Nat → List (List Nat) → List Run :=
  groupLoop (fun v => [v]) scanLevels w

/-- MIRROR rle.go:141-201 `encodeBytes` (levels; `src` are bytes). Values that do not fit `w` bits
are NOT rejected when `w > 0`. -/
def encodeLevels (w : Nat) (src : List Nat) : Except Err (List Nat) :=
  if w > 8 then .error .invalidBitWidth else
  if w = 0 then
    if src.all (· == 0) then .ok (uvarint (2 * src.length)) else .error .invalidBitWidth
  else
    let n := src.length / 8
    .ok (serialize (levelsLoop w n (groups8 n src) ++ tailLoop (fun v => [v]) (src.length % 8) (src.drop (8 * n))))

/-- `words[n] == broadcast8x4(words[n][0])` (rle_purego.go:17) -/
def constGroup (g : List Nat) : Bool := g == List.replicate 8 (g.headD 0)

/-- what `encodeInt32IndexEqual8ContiguousAVX2` tests (rle_amd64.s:62-84): `VPSHUFD $0` broadcasts
within each 128-bit lane, so elements 0-3 are compared with element 0 and 4-7 with element 4. -/
def constGroupAVX2 (g : List Nat) : Bool :=
  g == List.replicate 4 (g.headD 0) ++ List.replicate 4 (g.getD 4 0)

/-- MIRROR rle.go:217-234 (`encodeInt32`): the RLE value is the low `ByteCount(w)` bytes of the
little-endian `uint32`; the scan is `j += encodeInt32IndexEqual8Contiguous(words[j:])`, the number
of leading words failing the group test `stop` (`constGroup` portable, `constGroupAVX2` assembly). -/
def int32Loop (stop : List Nat → Bool) (w : Nat) : Nat → List (List Nat) → List Run :=
  groupLoop (leBytes ((w + 7) / 8)) (fun _ gs => (gs.takeWhile (fun g => !stop g)).length) w

/-- MIRROR rle.go:203-249 `encodeInt32` (`src` as uint32 patterns). -/
def encodeInt32With (stop : List Nat → Bool) (w : Nat) (src : List Nat) : Except Err (List Nat) :=
  if w > 32 then .error .invalidBitWidth else
  if w = 0 then
    if src.all (· == 0) then .ok (uvarint (2 * src.length)) else .error .invalidBitWidth
  else
    let n := src.length / 8
    .ok (serialize (int32Loop stop w n (groups8 n src) ++
      tailLoop (leBytes ((w + 7) / 8)) (src.length % 8) (src.drop (8 * n))))

def encodeInt32 := encodeInt32With constGroup
def encodeInt32AVX2 := encodeInt32With constGroupAVX2

/-- MIRROR rle.go:127: `for j < len(src) && (src[j-1] != src[j] || (src[j] != 0 && src[j] == 0xFF))` -/
def scanBits : Nat → List Nat → Nat
  | _, [] => 0
  | prev, b :: bs => if prev != b || (b != 0 && b == 0xFF) then 1 + scanBits b bs else 0

/-- MIRROR rle.go:106-137 (`encodeBits`, main loop); `a :: rest` is `src[i:]`. -/
def bitsLoop : Nat → List Nat → List Run
  | 0, _ => []
  | _ + 1, [] => []
  | f + 1, a :: rest =>
    let n := 1 + (rest.takeWhile (· == a)).length
    if (a == 0 || a == 0xFF) && n > 1 then .rle (8 * n) [a] :: bitsLoop f ((a :: rest).drop n)
    else
      let j := 1 + scanBits a rest
      let j' := if j > 1 && j < (a :: rest).length then j - 1 else j
      .bp j' ((a :: rest).take j') :: bitsLoop f ((a :: rest).drop j')

/-- MIRROR rle.go:97-139 `encodeBits` (`src` = booleans packed 8 per byte, LSB first). -/
def encodeBits (src : List Nat) : List Nat :=
  match src with
  | [] => uvarint 0
  | a :: _ =>
    if src.all (· == 0) || src.all (· == 0xFF) then uvarint (2 * (8 * src.length)) ++ [a]
    else serialize (bitsLoop src.length src)

/-- MIRROR rle.go:48-56 `EncodeBoolean`: 4-byte little-endian length (`uint32`), then `encodeBits`. -/
def encodeBoolean (src : List Nat) : List Nat :=
  leBytes 4 (encodeBits src).length ++ encodeBits src

/-- `bits.Len32` -/
def bitLen (x : Nat) : Nat := if x = 0 then 0 else x.log2 + 1

/-- MIRROR dictionary.go:51-59 `maxLenInt32` -/
def maxLen (xs : List Nat) : Nat := xs.foldl (fun m x => max m (bitLen x)) 0

/-- MIRROR dictionary.go:23-28 `DictionaryEncoding.EncodeInt32` -/
def encodeDict (src : List Nat) : Except Err (List Nat) :=
  (encodeInt32 (maxLen src) src).map (maxLen src :: ·)

/-! ## MIRROR of the (repaired) boolean decoder `decodeBits` -/

/-- MIRROR `encoding/binary.Uvarint`: at most 10 bytes, the 10th at most 1; `none` = the Go
function returned `n <= 0` (input exhausted or overflow). The accumulated `x | b<<s` is written
arithmetically (the shifted groups do not overlap). `i` is the byte index. -/
def goUvarint : Nat → List Nat → Option (Nat × List Nat)
  | _, [] => none
  | i, b :: bs =>
    if i = 10 then none
    else if b < 0x80 then (if i = 9 ∧ b > 1 then none else some (b, bs))
    else match goUvarint (i + 1) bs with
      | some (v, r) => some (b - 128 + 128 * v, r)
      | none => none

/-- MIRROR rle.go `decodeBits` after the repair (RLE runs expanded per value, bit offset carried
across runs). ABSTRACTION: `dst` is modelled as the list of the `nbits` bits it holds;
`appendBitsAt` (shifting a bit-packed run in at a non-aligned offset) and `appendBitRun` are list
appends. The byte-level shifting itself is tied by L2 (`rle.godecbits`), not proved. A zero-length
run is skipped without reading a value, a missing RLE value byte reads as 0, as in the Go code. -/
def goDecodeBitsLoop : Nat → List Bool → List Nat → Except Err (List Bool)
  | 0, bits, src => if src.isEmpty then .ok bits else .error .fuel
  | f + 1, bits, src =>
    if src.isEmpty then .ok bits else
    match goUvarint 0 src with
    | none => .error .truncHeader
    | some (u, rest) =>
      if u / 2 = 0 then goDecodeBitsLoop f bits rest
      else if u / 2 > 2 ^ 31 - 1 then .error .runTooLong
      else if u % 2 = 1 then
        if rest.length < u / 2 then .error .truncBitPacked
        else goDecodeBitsLoop f (bits ++ bytesToBits (rest.take (u / 2))) (rest.drop (u / 2))
      else
        goDecodeBitsLoop f (bits ++ List.replicate (u / 2) (rest.headD 0 % 2 == 1)) (rest.drop 1)

/-- the values `decodeBits` produces (one per bit of its output, padding excluded) -/
def goDecodeBitValues (src : List Nat) : Except Err (List Nat) :=
  (goDecodeBitsLoop (src.length + 1) [] src).map (·.map b2n)

/-- the bytes `decodeBits` returns: the bits packed 8 per byte, LSB first, zero padded -/
def goDecodeBits (src : List Nat) : Except Err (List Nat) :=
  (goDecodeBitsLoop (src.length + 1) [] src).map (fun bits => bitsToBytes bits.length bits)

/-- MIRROR rle.go:68-82 `DecodeBoolean` -/
def goDecodeBoolean (src : List Nat) : Except Err (List Nat) :=
  if src.length = 4 then .ok [] else
  if src.length < 4 then .error .truncPrefix else
  if (src.drop 4).length < leNat (src.take 4) then .error .truncPrefix else
  goDecodeBits ((src.drop 4).take (leNat (src.take 4)))

/-- what the Go boolean decoder additionally requires of a run: RLE runs are not empty (it does not
consume the value of an empty run) and no run announces more than `math.MaxInt32` values/bytes -/
def Run.GoOK : Run → Prop
  | .rle c _ => 1 ≤ c ∧ c ≤ 2 ^ 31 - 1
  | .bp g _ => g ≤ 2 ^ 31 - 1

/-! ## Legacy BIT_PACKED levels (encoding/bitpacked) -/

/-- the `w` low bits of `x`, most significant first -/
def toBitsMsb (w x : Nat) : List Bool := (toBits w x).reverse

/-- bytes from bits, first bit = most significant bit of the byte, zero padded -/
def bitsToBytesMsb : Nat → List Bool → List Nat
  | 0, _ => []
  | f + 1, bs =>
    if bs.isEmpty then [] else
    fromBits ((bs.take 8 ++ List.replicate (8 - (bs.take 8).length) false).reverse) :: bitsToBytesMsb f (bs.drop 8)

def bytesToBitsMsb (bytes : List Nat) : List Bool := (bytes.map (toBitsMsb 8)).flatten

def unpackMsb (w : Nat) : Nat → List Bool → List Nat
  | 0, _ => []
  | n + 1, bits => fromBits (bits.take w).reverse :: unpackMsb w n (bits.drop w)

/-- SPEC (Encodings.md, "Bit-packed (Deprecated)"): values packed back to back, each from its most
significant bit, bytes filled from the most significant bit. -/
def specDecodeBitPacked (w n : Nat) (bs : List Nat) : Except Err (List Nat) :=
  if 8 * bs.length < n * w then .error .truncBitPacked
  else .ok (unpackMsb w n (bytesToBitsMsb bs))

/-- MODEL of bitpacked.go:42-78 `encodeLevels` for in-range values (`w > 0`, non-empty input; the
Go code does not mask, so out-of-range values are outside this model). -/
def encodeBitPacked (w : Nat) (src : List Nat) : List Nat :=
  if w = 0 ∨ src = [] then [0] else
  let bits := (src.map (toBitsMsb w)).flatten
  bitsToBytesMsb bits.length bits

end PqModel.Rle
