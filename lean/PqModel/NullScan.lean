/-! # Null bitmap of optional non-pointer fields: construction and word-at-a-time scan

MIRROR of the typed write path for a Go field carrying the `optional` tag on a non-pointer type
(`int32`, `float64`, `string`, `[16]byte`, …):

* `nullIndex`  — `null.go:22-33` (`nullIndex[T comparable]`, the portable generic kernel:
  bit `i` of the bitmap is set iff `rows[i] != zero`; floating point kinds are instantiated at the
  unsigned integer of the same width, `null_purego.go:59-69`, so the test is on the bit pattern);
* `scan`, `optionalRuns` — `column_buffer_write.go:306-396`, the closure returned by
  `writeRowsFuncOfOptional`: the `for i := 0; i < rows.Len();` loop with `x := i/64`, `y := i%64`,
  the labels `writeNulls` / `writeNonNulls`, `bits.TrailingZeros64` and the all-ones test.

Everything from `bitAt` on is SPEC side: what "the scan writes exactly the null pattern" means. -/
namespace PqModel.NullScan

deriving instance DecidableEq for Except

/-! ## mirror -/

/-- One call `writeRows(columns, nullLevels | levels, rows.Slice(i, j))`. -/
structure Run where
  isNull : Bool
  i : Nat
  j : Nat
deriving DecidableEq, Repr

/-- Why a run of the mirror did not produce a result: a Go index expression out of range (run-time
panic) or the fuel of the outer loop exhausted. `nullRuns_spec` shows neither happens. -/
inductive Err where
  | index
  | fuel
deriving DecidableEq, Repr

def tzAux (w : BitVec 64) : Nat → Nat → Nat
  | 0, i => i
  | f + 1, i => if w.getLsbD i then i else tzAux w f (i + 1)

/-- `bits.TrailingZeros64` (64 for 0). -/
def tz (w : BitVec 64) : Nat := tzAux w 64 0

/-- `for x < len(bits) && bits[x] == c { x++ }`; the list is `bits[x:]`. -/
def skipEq (c : BitVec 64) : List (BitVec 64) → Nat → Nat
  | [], x => x
  | w :: ws, x => if w = c then skipEq c ws (x + 1) else x

/-- `column_buffer_write.go:349-355`: skip the all-zero words, then
`if x < len(nulls.bits) { y = bits.TrailingZeros64(nulls.bits[x]) % 64 }` (`y` is 0 on entry). -/
def afterSkip0 (ws : List (BitVec 64)) (x : Nat) : Nat × Nat :=
  let x' := skipEq 0#64 (ws.drop x) x
  match ws[x']? with
  | some w => (x', tz w % 64)
  | none => (x', 0)

/-- `column_buffer_write.go:336-355`: from `i` to the label `writeNulls`; result `(x, y)`.
`nulls.bits[x]` out of range is the Go run-time panic. -/
def findSet (ws : List (BitVec 64)) (i : Nat) : Except Err (Nat × Nat) :=
  let x := i / 64
  let y := i % 64
  if y ≠ 0 then
    match ws[x]? with
    | none => .error .index
    | some w =>
      let b := w >>> y
      if b = 0#64 then .ok (afterSkip0 ws (x + 1))
      else .ok (x, y + tz b)
  else .ok (afterSkip0 ws x)

/-- `column_buffer_write.go:377-383`. -/
def afterSkip1 (ws : List (BitVec 64)) (x : Nat) : Nat × Nat :=
  let x' := skipEq (BitVec.allOnes 64) (ws.drop x) x
  match ws[x']? with
  | some w => (x', tz (~~~w) % 64)
  | none => (x', 0)

/-- The all-ones test of line 368. `fixed = true`: `(1<<uint(64-y))-1` (as repaired);
`fixed = false`: `(1<<uint(y))-1` (before the repair). -/
def onesMask (fixed : Bool) (y : Nat) : BitVec 64 :=
  (1#64 <<< (if fixed then 64 - y else y)) - 1#64

/-- `column_buffer_write.go:367-383`: from the label `writeNulls` (after the write) to the label
`writeNonNulls`; `(x, y)` are the values the null phase left behind. -/
def findClear (fixed : Bool) (ws : List (BitVec 64)) (x y : Nat) : Except Err (Nat × Nat) :=
  if y ≠ 0 then
    match ws[x]? with
    | none => .error .index
    | some w =>
      let b := w >>> y
      if b = onesMask fixed y then .ok (afterSkip1 ws (x + 1))
      else .ok (x, y + tz (~~~b))
  else .ok (afterSkip1 ws x)

/-- `if j = x*64 + y; j > rows.Len() { j = rows.Len() }` -/
def clampJ (x y n : Nat) : Nat := if x * 64 + y > n then n else x * 64 + y

/-- One iteration of the outer loop (`column_buffer_write.go:334-394`): the runs written and the
new `i`. -/
def step (fixed : Bool) (ws : List (BitVec 64)) (n i : Nat) : Except Err (List Run × Nat) :=
  match findSet ws i with
  | .error e => .error e
  | .ok (x, y) =>
    -- writeNulls:
    let j := clampJ x y n
    let out1 := if i < j then [Run.mk true i j] else []
    let i1 := if i < j then j else i
    match findClear fixed ws x y with
    | .error e => .error e
    | .ok (x2, y2) =>
      -- writeNonNulls:
      let j2 := clampJ x2 y2 n
      let out2 := if i1 < j2 then [Run.mk false i1 j2] else []
      let i2 := if i1 < j2 then j2 else i1
      .ok (out1 ++ out2, i2)

/-- `for i := 0; i < rows.Len(); { … }` with an explicit fuel for the number of iterations. -/
def scan (fixed : Bool) (ws : List (BitVec 64)) (n : Nat) : Nat → Nat → Except Err (List Run)
  | 0, i => if i < n then .error .fuel else .ok []
  | fuel + 1, i =>
    if i < n then
      match step fixed ws n i with
      | .error e => .error e
      | .ok (out, i') =>
        match scan fixed ws n fuel i' with
        | .error e => .error e
        | .ok rest => .ok (out ++ rest)
    else .ok []

/-- The scan as repaired, fuel `n` (one iteration per row is always enough). -/
def nullRuns (ws : List (BitVec 64)) (n : Nat) : Except Err (List Run) := scan true ws n n 0

/-- The scan before the repair (mask `(1<<y)-1`). -/
def scanBeforeFix (ws : List (BitVec 64)) (n : Nat) : Except Err (List Run) := scan false ws n n 0

/-- The whole closure (`column_buffer_write.go:306-396`): with no rows there is one call of
`writeRows` at the parent's definition level with the empty array. -/
def optionalRuns (ws : List (BitVec 64)) (n : Nat) : Except Err (List Run) :=
  if n = 0 then .ok [⟨true, 0, 0⟩] else nullRuns ws n

/-- `bits[uint(i)/64] |= 1 << (uint(i)%64)` -/
def setBit (ws : List (BitVec 64)) (i : Nat) : List (BitVec 64) :=
  ws.modify (i / 64) (fun w => w ||| (1#64 <<< (i % 64)))

/-- `null.go:22-33`, loop of `nullIndex[T]` from row `i` on; `nonzero v` is `v != zero`. -/
def nullIndexFrom {α : Type} (nonzero : α → Bool) : List α → Nat → List (BitVec 64) → List (BitVec 64)
  | [], _, bits => bits
  | v :: vs, i, bits => nullIndexFrom nonzero vs (i + 1) (if nonzero v then setBit bits i else bits)

/-- `bitmap.reset(n)` (`bitmap.go:9-17`, `(n+63)/64` zero words) followed by `nullIndex[T]`. -/
def nullIndex {α : Type} (nonzero : α → Bool) (vs : List α) : List (BitVec 64) :=
  nullIndexFrom nonzero vs 0 (List.replicate ((vs.length + 63) / 64) 0#64)

/-! ## spec side -/

/-- Bit `p` of the bitmap (set = the row is not null); words beyond the end read as zero. -/
def bitAt (ws : List (BitVec 64)) (p : Nat) : Bool := (ws.getD (p / 64) 0#64).getLsbD (p % 64)

/-- `runs` are contiguous from `s` to `e`, each non-empty, and every position of a run is null
(bit clear) exactly when the run is a null run. -/
def Chain (ws : List (BitVec 64)) : Nat → Nat → List Run → Prop
  | s, e, [] => s = e
  | s, e, r :: rs =>
    r.i = s ∧ r.i < r.j ∧ (∀ p, r.i ≤ p → p < r.j → bitAt ws p = !r.isNull) ∧ Chain ws r.j e rs

/-- Consecutive runs differ in kind (so every run is maximal). -/
def Alternates : List Run → Prop
  | r1 :: r2 :: rs => r1.isNull ≠ r2.isNull ∧ Alternates (r2 :: rs)
  | _ => True

/-! ## bit-level lemmas (`BitVec 64` through `getLsbD`/`testBit`) -/

theorem tzAux_spec (w : BitVec 64) : ∀ (f i : Nat),
    i ≤ tzAux w f i ∧ tzAux w f i ≤ i + f ∧
    (∀ k, i ≤ k → k < tzAux w f i → w.getLsbD k = false) ∧
    (tzAux w f i < i + f → w.getLsbD (tzAux w f i) = true)
  | 0, i => by simp [tzAux]; intro k h1 h2; omega
  | f + 1, i => by
    simp only [tzAux]
    split
    · rename_i h
      refine ⟨Nat.le_refl _, by omega, ?_, fun _ => h⟩
      intro k h1 h2; omega
    · rename_i h
      have ih := tzAux_spec w f (i + 1)
      refine ⟨by omega, by omega, ?_, ?_⟩
      · intro k h1 h2
        by_cases hk : k = i
        · subst hk; simpa using h
        · exact ih.2.2.1 k (by omega) h2
      · intro h1; exact ih.2.2.2 (by omega)

theorem tz_le (w : BitVec 64) : tz w ≤ 64 := by
  have := (tzAux_spec w 64 0).2.1; simpa [tz] using this

theorem tz_below (w : BitVec 64) (k : Nat) (h : k < tz w) : w.getLsbD k = false :=
  (tzAux_spec w 64 0).2.2.1 k (Nat.zero_le _) h

theorem tz_set (w : BitVec 64) (h : tz w < 64) : w.getLsbD (tz w) = true :=
  (tzAux_spec w 64 0).2.2.2 (by simpa [tz] using h)

/-- `tz w` is below every set bit. -/
theorem tz_le_of_set (w : BitVec 64) (k : Nat) (h : w.getLsbD k = true) : tz w ≤ k := by
  rcases Nat.lt_or_ge k (tz w) with h' | h'
  · have := tz_below w k h'; simp [this] at h
  · exact h'

/-- `(w >>> y) = 0` iff no bit in `[y, 64)` is set. -/
theorem ushr_eq_zero_iff (w : BitVec 64) (y : Nat) :
    w >>> y = 0#64 ↔ ∀ k, y ≤ k → k < 64 → w.getLsbD k = false := by
  constructor
  · intro h k h1 _
    have : (w >>> y).getLsbD (k - y) = false := by rw [h]; simp
    rw [BitVec.getLsbD_ushiftRight] at this
    rwa [show y + (k - y) = k by omega] at this
  · intro h
    apply BitVec.eq_of_getLsbD_eq
    intro i hi
    rw [BitVec.getLsbD_ushiftRight, BitVec.getLsbD_zero]
    by_cases h' : y + i < 64
    · exact h _ (by omega) h'
    · exact BitVec.getLsbD_of_ge _ _ (by omega)

/-- `tz (w >>> y) + y` is the first set bit at or after `y` (when there is one). -/
theorem tz_ushr (w : BitVec 64) (y : Nat) (h : w >>> y ≠ 0#64) :
    y + tz (w >>> y) < 64 ∧ w.getLsbD (y + tz (w >>> y)) = true ∧
      ∀ k, y ≤ k → k < y + tz (w >>> y) → w.getLsbD k = false := by
  have hex : ∃ k, y ≤ k ∧ k < 64 ∧ w.getLsbD k = true := by
    apply Classical.byContradiction
    intro hn
    apply h
    rw [ushr_eq_zero_iff]
    intro k h1 h2
    cases hb : w.getLsbD k with
    | false => rfl
    | true => exact absurd ⟨k, h1, h2, hb⟩ hn
  rcases hex with ⟨k0, hk1, hk2, hk3⟩
  have hle : tz (w >>> y) ≤ k0 - y := by
    apply tz_le_of_set
    rw [BitVec.getLsbD_ushiftRight, show y + (k0 - y) = k0 by omega]; exact hk3
  have hlt : tz (w >>> y) < 64 := by omega
  have hs := tz_set _ hlt
  rw [BitVec.getLsbD_ushiftRight] at hs
  refine ⟨by omega, hs, ?_⟩
  intro k h1 h2
  have := tz_below (w >>> y) (k - y) (by omega)
  rw [BitVec.getLsbD_ushiftRight, show y + (k - y) = k by omega] at this
  exact this

theorem getLsbD_onesMask (m i : Nat) (hm : m < 64) :
    ((1#64 <<< m) - 1#64).getLsbD i = decide (i < m) := by
  rw [← BitVec.testBit_toNat]
  have h1 : ((1#64 <<< m) - 1#64).toNat = 2 ^ m - 1 := by
    rw [BitVec.toNat_sub, BitVec.toNat_shiftLeft]
    have hp : 2 ^ m < 2 ^ 64 := Nat.pow_lt_pow_right (by omega) hm
    have hpos : 0 < 2 ^ m := Nat.two_pow_pos m
    simp only [BitVec.toNat_ofNat, Nat.shiftLeft_eq]
    have e1 : 1 % 2 ^ 64 = 1 := by decide
    rw [e1, Nat.one_mul, Nat.mod_eq_of_lt hp]
    omega
  rw [h1, Nat.testBit_two_pow_sub_one]

/-- `(w >>> y) = 2^(64-y) - 1` iff every bit in `[y, 64)` is set (`0 < y < 64`). -/
theorem ushr_eq_mask_iff (w : BitVec 64) (y : Nat) (h0 : 0 < y) (h64 : y < 64) :
    w >>> y = onesMask true y ↔ ∀ k, y ≤ k → k < 64 → w.getLsbD k = true := by
  simp only [onesMask, if_true]
  constructor
  · intro h k h1 h2
    have : (w >>> y).getLsbD (k - y) = true := by
      rw [h, getLsbD_onesMask _ _ (by omega)]; simp; omega
    rw [BitVec.getLsbD_ushiftRight] at this
    rwa [show y + (k - y) = k by omega] at this
  · intro h
    apply BitVec.eq_of_getLsbD_eq
    intro i hi
    rw [BitVec.getLsbD_ushiftRight, getLsbD_onesMask _ _ (by omega)]
    by_cases h' : y + i < 64
    · rw [h _ (by omega) h']; simp; omega
    · rw [BitVec.getLsbD_of_ge _ _ (by omega)]; simp; omega

/-- `tz (^(w >>> y)) + y` is the first clear bit at or after `y` (when there is one below 64). -/
theorem tz_not_ushr (w : BitVec 64) (y : Nat) (hex : ∃ k, y ≤ k ∧ k < 64 ∧ w.getLsbD k = false) :
    y + tz (~~~(w >>> y)) < 64 ∧ w.getLsbD (y + tz (~~~(w >>> y))) = false ∧
      ∀ k, y ≤ k → k < y + tz (~~~(w >>> y)) → w.getLsbD k = true := by
  rcases hex with ⟨k0, hk1, hk2, hk3⟩
  have hb : ∀ i, i < 64 → (~~~(w >>> y)).getLsbD i = !w.getLsbD (y + i) := by
    intro i hi
    rw [BitVec.getLsbD_not, BitVec.getLsbD_ushiftRight]; simp [hi]
  have hle : tz (~~~(w >>> y)) ≤ k0 - y := by
    apply tz_le_of_set
    rw [hb _ (by omega), show y + (k0 - y) = k0 by omega, hk3]; rfl
  have hlt : tz (~~~(w >>> y)) < 64 := by omega
  have hs := tz_set _ hlt
  rw [hb _ hlt] at hs
  refine ⟨by omega, by simpa using hs, ?_⟩
  intro k h1 h2
  have := tz_below (~~~(w >>> y)) (k - y) (by omega)
  rw [hb _ (by omega), show y + (k - y) = k by omega] at this
  simpa using this

/-! ## word-level facts lifted to bit positions -/

theorem bitAt_of_word {ws : List (BitVec 64)} {p t : Nat} {w : BitVec 64}
    (ht : p / 64 = t) (hw : ws[t]? = some w) : bitAt ws p = w.getLsbD (p % 64) := by
  simp [bitAt, ht, hw]

theorem skipEq_spec (c : BitVec 64) : ∀ (l : List (BitVec 64)) (x : Nat),
    x ≤ skipEq c l x ∧ skipEq c l x ≤ x + l.length ∧
    (∀ t, t < skipEq c l x - x → l[t]? = some c) ∧
    (skipEq c l x < x + l.length → ∃ w, l[skipEq c l x - x]? = some w ∧ w ≠ c)
  | [], x => by simp [skipEq]
  | w :: l, x => by
    simp only [skipEq]
    split
    · rename_i h
      have ih := skipEq_spec c l (x + 1)
      refine ⟨by omega, by simp only [List.length_cons]; omega, ?_, ?_⟩
      · intro t ht
        cases t with
        | zero => simp [h]
        | succ t => simpa using ih.2.2.1 t (by omega)
      · intro hlt
        rcases ih.2.2.2 (by simp only [List.length_cons] at hlt; omega) with ⟨w', h1, h2⟩
        refine ⟨w', ?_, h2⟩
        rw [show skipEq c l (x + 1) - x = (skipEq c l (x + 1) - (x + 1)) + 1 by omega]
        simpa using h1
    · rename_i h
      refine ⟨Nat.le_refl _, by omega, by intro t ht; omega, ?_⟩
      intro _
      exact ⟨w, by simp, h⟩

/-- The skip loop over `ws` from word `x`. -/
theorem skip_ws (c : BitVec 64) (ws : List (BitVec 64)) (x : Nat) (hx : x ≤ ws.length) :
    x ≤ skipEq c (ws.drop x) x ∧ skipEq c (ws.drop x) x ≤ ws.length ∧
    (∀ t, x ≤ t → t < skipEq c (ws.drop x) x → ws[t]? = some c) ∧
    (skipEq c (ws.drop x) x < ws.length → ∃ w, ws[skipEq c (ws.drop x) x]? = some w ∧ w ≠ c) := by
  have h := skipEq_spec c (ws.drop x) x
  have hl : (ws.drop x).length = ws.length - x := by simp
  refine ⟨h.1, by omega, ?_, ?_⟩
  · intro t h1 h2
    have := h.2.2.1 (t - x) (by omega)
    rw [List.getElem?_drop, show x + (t - x) = t by omega] at this
    exact this
  · intro hlt
    rcases h.2.2.2 (by omega) with ⟨w, h1, h2⟩
    rw [List.getElem?_drop, show x + (skipEq c (ws.drop x) x - x) = skipEq c (ws.drop x) x by omega] at h1
    exact ⟨w, h1, h2⟩

theorem afterSkip0_spec (ws : List (BitVec 64)) (x : Nat) (hx : x ≤ ws.length) :
    ∃ x' y', afterSkip0 ws x = (x', y') ∧ x ≤ x' ∧
      (∀ p, 64 * x ≤ p → p < 64 * x' + y' → bitAt ws p = false) ∧
      ((x' < ws.length ∧ y' < 64 ∧ bitAt ws (64 * x' + y') = true) ∨ (x' = ws.length ∧ y' = 0)) := by
  have hs := skip_ws 0#64 ws x hx
  generalize hx' : skipEq 0#64 (ws.drop x) x = x' at hs
  have hzero : ∀ p, 64 * x ≤ p → p < 64 * x' → bitAt ws p = false := by
    intro p h1 h2
    rw [bitAt_of_word rfl (hs.2.2.1 (p / 64) (by omega) (by omega))]; simp
  cases hw : ws[x']? with
  | none =>
    have hge : ws.length ≤ x' := by simpa using hw
    refine ⟨x', 0, by simp only [afterSkip0, hx', hw], hs.1, ?_, Or.inr ⟨by omega, rfl⟩⟩
    intro p h1 h2; exact hzero p h1 (by omega)
  | some w =>
    have hlt : x' < ws.length := by
      rcases Nat.lt_or_ge x' ws.length with h | h
      · exact h
      · have : ws[x']? = none := by simp [h]
        rw [this] at hw; cases hw
    rcases hs.2.2.2 hlt with ⟨w', hw', hne⟩
    rw [hw] at hw'; cases hw'
    have ht := tz_ushr w 0 (by rw [BitVec.ushiftRight_zero]; exact hne)
    rw [BitVec.ushiftRight_zero] at ht
    simp only [Nat.zero_add] at ht
    have hmod : tz w % 64 = tz w := Nat.mod_eq_of_lt ht.1
    refine ⟨x', tz w, by simp only [afterSkip0, hx', hw, hmod], hs.1, ?_, Or.inl ⟨hlt, ht.1, ?_⟩⟩
    · intro p h1 h2
      by_cases hp : p < 64 * x'
      · exact hzero p h1 hp
      · rw [bitAt_of_word (t := x') (by omega) hw]
        exact ht.2.2 _ (Nat.zero_le _) (by omega)
    · rw [bitAt_of_word (t := x') (by omega) hw, show (64 * x' + tz w) % 64 = tz w by omega]
      exact ht.2.1

theorem findSet_spec (ws : List (BitVec 64)) (i : Nat) (hi : i < 64 * ws.length) :
    ∃ x y, findSet ws i = .ok (x, y) ∧ i ≤ 64 * x + y ∧
      (∀ p, i ≤ p → p < 64 * x + y → bitAt ws p = false) ∧
      ((x < ws.length ∧ y < 64 ∧ bitAt ws (64 * x + y) = true) ∨ (x = ws.length ∧ y = 0)) := by
  simp only [findSet]
  by_cases hy : i % 64 = 0
  · rw [if_neg (by omega)]
    rcases afterSkip0_spec ws (i / 64) (by omega) with ⟨x', y', he, h1, h2, h3⟩
    refine ⟨x', y', by rw [he], by omega, ?_, h3⟩
    intro p hp1 hp2; exact h2 p (by omega) hp2
  · rw [if_pos hy]
    have hx : i / 64 < ws.length := by omega
    have hw : ws[i / 64]? = some ws[i / 64] := List.getElem?_eq_getElem hx
    rw [hw]
    simp only []
    generalize ws[i / 64] = w at hw
    by_cases hb : w >>> (i % 64) = 0#64
    · rw [if_pos hb]
      rcases afterSkip0_spec ws (i / 64 + 1) (by omega) with ⟨x', y', he, h1, h2, h3⟩
      refine ⟨x', y', by rw [he], by omega, ?_, h3⟩
      intro p hp1 hp2
      by_cases hp : p < 64 * (i / 64 + 1)
      · rw [bitAt_of_word (t := i / 64) (by omega) hw]
        exact (ushr_eq_zero_iff w (i % 64)).mp hb _ (by omega) (by omega)
      · exact h2 p (by omega) hp2
    · rw [if_neg hb]
      have ht := tz_ushr w (i % 64) hb
      refine ⟨i / 64, i % 64 + tz (w >>> (i % 64)), rfl, by omega, ?_, Or.inl ⟨hx, ht.1, ?_⟩⟩
      · intro p hp1 hp2
        rw [bitAt_of_word (t := i / 64) (by omega) hw]
        exact ht.2.2 _ (by omega) (by omega)
      · rw [bitAt_of_word (t := i / 64) (by omega) hw,
          show (64 * (i / 64) + (i % 64 + tz (w >>> (i % 64)))) % 64 = i % 64 + tz (w >>> (i % 64)) by omega]
        exact ht.2.1

theorem not_eq_allOnes_iff (w : BitVec 64) :
    w ≠ BitVec.allOnes 64 ↔ ∃ k, k < 64 ∧ w.getLsbD k = false := by
  constructor
  · intro h
    apply Classical.byContradiction
    intro hn
    apply h
    apply BitVec.eq_of_getLsbD_eq
    intro i hi
    rw [BitVec.getLsbD_allOnes]
    cases hb : w.getLsbD i with
    | true => simp [hi]
    | false => exact absurd ⟨i, hi, hb⟩ hn
  · rintro ⟨k, hk, hb⟩ h
    rw [h, BitVec.getLsbD_allOnes] at hb
    simp [hk] at hb

theorem afterSkip1_spec (ws : List (BitVec 64)) (x : Nat) (hx : x ≤ ws.length) :
    ∃ x' y', afterSkip1 ws x = (x', y') ∧ x ≤ x' ∧
      (∀ p, 64 * x ≤ p → p < 64 * x' + y' → bitAt ws p = true) ∧
      ((x' < ws.length ∧ y' < 64 ∧ bitAt ws (64 * x' + y') = false) ∨ (x' = ws.length ∧ y' = 0)) := by
  have hs := skip_ws (BitVec.allOnes 64) ws x hx
  generalize hx' : skipEq (BitVec.allOnes 64) (ws.drop x) x = x' at hs
  have hone : ∀ p, 64 * x ≤ p → p < 64 * x' → bitAt ws p = true := by
    intro p h1 h2
    rw [bitAt_of_word rfl (hs.2.2.1 (p / 64) (by omega) (by omega)), BitVec.getLsbD_allOnes]
    simp; omega
  cases hw : ws[x']? with
  | none =>
    have hge : ws.length ≤ x' := by simpa using hw
    refine ⟨x', 0, by simp only [afterSkip1, hx', hw], hs.1, ?_, Or.inr ⟨by omega, rfl⟩⟩
    intro p h1 h2; exact hone p h1 (by omega)
  | some w =>
    have hlt : x' < ws.length := by
      rcases Nat.lt_or_ge x' ws.length with h | h
      · exact h
      · have : ws[x']? = none := by simp [h]
        rw [this] at hw; cases hw
    rcases hs.2.2.2 hlt with ⟨w', hw', hne⟩
    rw [hw] at hw'; cases hw'
    rcases (not_eq_allOnes_iff w).mp hne with ⟨k, hk, hkb⟩
    have ht := tz_not_ushr w 0 ⟨k, Nat.zero_le _, hk, hkb⟩
    rw [BitVec.ushiftRight_zero] at ht
    simp only [Nat.zero_add] at ht
    have hmod : tz (~~~w) % 64 = tz (~~~w) := Nat.mod_eq_of_lt ht.1
    refine ⟨x', tz (~~~w), by simp only [afterSkip1, hx', hw, hmod], hs.1, ?_, Or.inl ⟨hlt, ht.1, ?_⟩⟩
    · intro p h1 h2
      by_cases hp : p < 64 * x'
      · exact hone p h1 hp
      · rw [bitAt_of_word (t := x') (by omega) hw]
        exact ht.2.2 _ (Nat.zero_le _) (by omega)
    · rw [bitAt_of_word (t := x') (by omega) hw, show (64 * x' + tz (~~~w)) % 64 = tz (~~~w) by omega]
      exact ht.2.1

theorem findClear_spec (ws : List (BitVec 64)) (x y : Nat) (hy : y < 64)
    (hx : x ≤ ws.length) (hxy : y ≠ 0 → x < ws.length) :
    ∃ x' y', findClear true ws x y = .ok (x', y') ∧ 64 * x + y ≤ 64 * x' + y' ∧
      (∀ p, 64 * x + y ≤ p → p < 64 * x' + y' → bitAt ws p = true) ∧
      ((x' < ws.length ∧ y' < 64 ∧ bitAt ws (64 * x' + y') = false) ∨ (x' = ws.length ∧ y' = 0)) := by
  simp only [findClear]
  by_cases hy0 : y = 0
  · rw [if_neg (by omega)]
    rcases afterSkip1_spec ws x hx with ⟨x', y', he, h1, h2, h3⟩
    refine ⟨x', y', by rw [he], by omega, ?_, h3⟩
    intro p hp1 hp2; exact h2 p (by omega) hp2
  · rw [if_pos hy0]
    have hxl : x < ws.length := hxy hy0
    have hw : ws[x]? = some ws[x] := List.getElem?_eq_getElem hxl
    rw [hw]
    simp only []
    generalize ws[x] = w at hw
    by_cases hb : w >>> y = onesMask true y
    · rw [if_pos hb]
      rcases afterSkip1_spec ws (x + 1) (by omega) with ⟨x', y', he, h1, h2, h3⟩
      refine ⟨x', y', by rw [he], by omega, ?_, h3⟩
      intro p hp1 hp2
      by_cases hp : p < 64 * (x + 1)
      · rw [bitAt_of_word (t := x) (by omega) hw]
        exact (ushr_eq_mask_iff w y (by omega) hy).mp hb _ (by omega) (by omega)
      · exact h2 p (by omega) hp2
    · rw [if_neg hb]
      have hex : ∃ k, y ≤ k ∧ k < 64 ∧ w.getLsbD k = false := by
        apply Classical.byContradiction
        intro hn
        apply hb
        rw [ushr_eq_mask_iff w y (by omega) hy]
        intro k h1 h2
        cases hbk : w.getLsbD k with
        | true => rfl
        | false => exact absurd ⟨k, h1, h2, hbk⟩ hn
      have ht := tz_not_ushr w y hex
      refine ⟨x, y + tz (~~~(w >>> y)), rfl, by omega, ?_, Or.inl ⟨hxl, ht.1, ?_⟩⟩
      · intro p hp1 hp2
        rw [bitAt_of_word (t := x) (by omega) hw]
        exact ht.2.2 _ (by omega) (by omega)
      · rw [bitAt_of_word (t := x) (by omega) hw,
          show (64 * x + (y + tz (~~~(w >>> y)))) % 64 = y + tz (~~~(w >>> y)) by omega]
        exact ht.2.1

/-! ## the outer loop -/

theorem clampJ_eq (x y n : Nat) : clampJ x y n = min (64 * x + y) n := by
  unfold clampJ; split <;> omega

/-- One iteration from `i < n`: a (possibly empty) null run `[i, j1)` followed by a (possibly empty)
non-null run `[j1, j2)`, with progress, and — unless the loop ends — a non-empty non-null run that
stops at a clear bit. -/
theorem step_spec (ws : List (BitVec 64)) (n i : Nat) (hn : n ≤ 64 * ws.length) (hi : i < n) :
    ∃ j1 j2, i ≤ j1 ∧ j1 ≤ j2 ∧ j2 ≤ n ∧ i < j2 ∧
      step true ws n i = .ok ((if i < j1 then [Run.mk true i j1] else []) ++
        (if j1 < j2 then [Run.mk false j1 j2] else []), j2) ∧
      (∀ p, i ≤ p → p < j1 → bitAt ws p = false) ∧
      (∀ p, j1 ≤ p → p < j2 → bitAt ws p = true) ∧
      (j2 < n → j1 < j2 ∧ bitAt ws j2 = false) := by
  rcases findSet_spec ws i (by omega) with ⟨x, y, hf, h1, h2, h3⟩
  have hpre : y < 64 ∧ x ≤ ws.length ∧ (y ≠ 0 → x < ws.length) := by
    rcases h3 with ⟨a, b, _⟩ | ⟨a, b⟩
    · exact ⟨b, by omega, fun _ => a⟩
    · exact ⟨by omega, by omega, fun h => absurd b h⟩
  rcases findClear_spec ws x y hpre.1 hpre.2.1 hpre.2.2 with ⟨x2, y2, hc, g1, g2, g3⟩
  have hj1 : i ≤ min (64 * x + y) n := by omega
  have hj12 : min (64 * x + y) n ≤ min (64 * x2 + y2) n := by omega
  have hprog : i < min (64 * x2 + y2) n := by
    by_cases hq : i < 64 * x + y
    · omega
    · have e1 : 64 * x + y = i := by omega
      rcases h3 with ⟨a, b, c⟩ | ⟨a, b⟩
      · rcases g3 with ⟨a', b', c'⟩ | ⟨a', b'⟩
        · by_cases e2 : 64 * x2 + y2 = 64 * x + y
          · rw [e2, c] at c'; cases c'
          · omega
        · omega
      · omega
  refine ⟨min (64 * x + y) n, min (64 * x2 + y2) n, hj1, hj12, by omega, hprog, ?_, ?_, ?_, ?_⟩
  · simp only [step, hf, hc, clampJ_eq]
    have e1 : (if i < min (64 * x + y) n then min (64 * x + y) n else i) = min (64 * x + y) n := by
      split <;> omega
    rw [e1]
    have e2 : (if min (64 * x + y) n < min (64 * x2 + y2) n then min (64 * x2 + y2) n
        else min (64 * x + y) n) = min (64 * x2 + y2) n := by
      split <;> omega
    rw [e2]
  · intro p hp1 hp2; exact h2 p hp1 (by omega)
  · intro p hp1 hp2; exact g2 p (by omega) (by omega)
  · intro hlt
    have hq2 : 64 * x2 + y2 < n := by omega
    have hclear : bitAt ws (64 * x2 + y2) = false := by
      rcases g3 with ⟨_, _, c'⟩ | ⟨a', b'⟩
      · exact c'
      · omega
    refine ⟨?_, by rw [show min (64 * x2 + y2) n = 64 * x2 + y2 by omega]; exact hclear⟩
    apply Classical.byContradiction
    intro hnot
    have e : 64 * x + y = 64 * x2 + y2 := by omega
    rcases h3 with ⟨_, _, c⟩ | ⟨a, b⟩
    · rw [e, hclear] at c; cases c
    · omega

theorem chain_nil (ws : List (BitVec 64)) (s : Nat) : Chain ws s s [] := by simp [Chain]

theorem chain_cons {ws : List (BitVec 64)} {r : Run} {rs : List Run} {s e : Nat}
    (h1 : r.i = s) (h2 : r.i < r.j) (h3 : ∀ p, r.i ≤ p → p < r.j → bitAt ws p = !r.isNull)
    (h4 : Chain ws r.j e rs) : Chain ws s e (r :: rs) := by
  simp only [Chain]; exact ⟨h1, h2, h3, h4⟩

theorem chain_le {ws : List (BitVec 64)} : ∀ {runs : List Run} {s e : Nat}, Chain ws s e runs → s ≤ e
  | [], s, e, h => by simp only [Chain] at h; omega
  | r :: rs, s, e, h => by
    simp only [Chain] at h
    have := chain_le h.2.2.2
    omega

theorem chain_append {ws : List (BitVec 64)} : ∀ {a b : List Run} {s m e : Nat},
    Chain ws s m a → Chain ws m e b → Chain ws s e (a ++ b)
  | [], b, s, m, e, ha, hb => by simp only [Chain] at ha; subst ha; simpa using hb
  | r :: rs, b, s, m, e, ha, hb => by
    simp only [Chain, List.cons_append] at ha ⊢
    exact ⟨ha.1, ha.2.1, ha.2.2.1, chain_append ha.2.2.2 hb⟩

/-- The first run of a chain is a null run iff the bit it starts at is clear. -/
theorem chain_head {ws : List (BitVec 64)} {r : Run} {rs : List Run} {s e : Nat}
    (h : Chain ws s e (r :: rs)) : s < e ∧ bitAt ws s = !r.isNull := by
  simp only [Chain] at h
  have := chain_le h.2.2.2
  refine ⟨by omega, ?_⟩
  rw [← h.1]; exact h.2.2.1 r.i (Nat.le_refl _) h.2.1

theorem scan_spec (ws : List (BitVec 64)) (n : Nat) (hn : n ≤ 64 * ws.length) :
    ∀ (fuel i : Nat), i ≤ n → n - i ≤ fuel →
      ∃ runs, scan true ws n fuel i = .ok runs ∧ Chain ws i n runs ∧ Alternates runs
  | 0, i, h1, h2 => by
    refine ⟨[], by simp only [scan]; rw [if_neg (by omega)], by simp only [Chain]; omega, by simp [Alternates]⟩
  | fuel + 1, i, h1, h2 => by
    by_cases hi : i < n
    · rcases step_spec ws n i hn hi with ⟨j1, j2, a1, a2, a3, a4, hstep, b1, b2, b3⟩
      rcases scan_spec ws n hn fuel j2 a3 (by omega) with ⟨rest, hrest, hchain, halt⟩
      refine ⟨((if i < j1 then [Run.mk true i j1] else []) ++
        (if j1 < j2 then [Run.mk false j1 j2] else [])) ++ rest,
        by simp only [scan]; rw [if_pos hi, hstep]; simp only [hrest], ?_, ?_⟩
      · apply chain_append (m := j2) _ hchain
        by_cases c1 : i < j1 <;> by_cases c2 : j1 < j2
        · rw [if_pos c1, if_pos c2]
          exact chain_cons rfl c1 (by simpa using b1)
            (chain_cons rfl c2 (by simpa using b2) (chain_nil _ _))
        · rw [if_pos c1, if_neg c2, List.append_nil]
          have e : j1 = j2 := by omega
          subst e
          exact chain_cons rfl c1 (by simpa using b1) (chain_nil _ _)
        · rw [if_neg c1, if_pos c2, List.nil_append]
          have e : i = j1 := by omega
          subst e
          exact chain_cons rfl c2 (by simpa using b2) (chain_nil _ _)
        · omega
      · cases rest with
        | nil =>
          by_cases c1 : i < j1 <;> by_cases c2 : j1 < j2 <;> simp [c1, c2, Alternates]
        | cons r rs =>
          have hh := chain_head hchain
          have hb := b3 hh.1
          have hr : r.isNull = true := by
            have := hh.2; rw [hb.2] at this
            cases hr : r.isNull with
            | true => rfl
            | false => rw [hr] at this; cases this
          by_cases c1 : i < j1 <;> simp [c1, hb.1, Alternates, hr, halt]
    · refine ⟨[], by simp only [scan]; rw [if_neg hi], by simp only [Chain]; omega, by simp [Alternates]⟩

/-- What the chain says, flattened: the kinds of the runs, repeated over their lengths, are the
null pattern of the rows `[s, e)`. -/
theorem chain_flatten {ws : List (BitVec 64)} : ∀ {runs : List Run} {s e : Nat}, Chain ws s e runs →
    runs.flatMap (fun r => List.replicate (r.j - r.i) r.isNull) =
      (List.range' s (e - s)).map (fun p => !bitAt ws p)
  | [], s, e, h => by simp only [Chain] at h; subst h; simp
  | r :: rs, s, e, h => by
    have hle := chain_le h
    simp only [Chain] at h
    have hle2 := chain_le h.2.2.2
    have ih := chain_flatten h.2.2.2
    rw [List.flatMap_cons, ih]
    have hsplit : List.range' s (e - s) = List.range' s (r.j - s) ++ List.range' r.j (e - r.j) := by
      have e1 : e - s = (r.j - s) + (e - r.j) := by omega
      have e2 : List.range' r.j (e - r.j) = List.range' (s + (r.j - s)) (e - r.j) := by
        congr 1; omega
      rw [e1, e2, List.range'_append_1]
    rw [hsplit, List.map_append]
    congr 1
    apply List.ext_getElem
    · simp [h.1]
    · intro k hk1 hk2
      simp only [List.length_replicate] at hk1
      simp only [List.getElem_replicate, List.getElem_map, List.getElem_range', Nat.one_mul]
      rw [h.2.2.1 (s + k) (by omega) (by omega)]; simp

/-! ## the bitmap construction -/

theorem getLsbD_oneShl (k q : Nat) (hq : q < 64) : (1#64 <<< k).getLsbD q = decide (q = k) := by
  rw [BitVec.getLsbD_shiftLeft, BitVec.getLsbD_one]
  by_cases h : q = k
  · subst h; simp [hq]
  · by_cases h2 : q < k
    · simp [h, h2]
    · have : q - k ≠ 0 := by omega
      simp [h, this]

theorem length_setBit (ws : List (BitVec 64)) (i : Nat) : (setBit ws i).length = ws.length := by
  simp [setBit]

theorem bitAt_setBit (ws : List (BitVec 64)) (i p : Nat) (hi : i / 64 < ws.length) :
    bitAt (setBit ws i) p = (decide (p = i) || bitAt ws p) := by
  simp only [bitAt, setBit, List.getD_eq_getElem?_getD, List.getElem?_modify]
  by_cases hw : p / 64 = i / 64
  · have hlt : p / 64 < ws.length := by omega
    rw [List.getElem?_eq_getElem hlt]
    simp only [hw, if_true, Option.map_eq_map, Option.map_some, Option.getD_some,
      BitVec.getLsbD_or, getLsbD_oneShl _ _ (Nat.mod_lt p (by omega))]
    by_cases hp : p = i
    · subst hp; simp
    · have : p % 64 ≠ i % 64 := by omega
      simp [hp, this]
  · have hp : p ≠ i := by intro h; subst h; exact hw rfl
    have hne : ¬ (i / 64 = p / 64) := fun h => hw h.symm
    cases h : ws[p / 64]? <;> simp [hne, hp]

theorem nullIndexFrom_spec {α : Type} (nonzero : α → Bool) :
    ∀ (vs : List α) (i : Nat) (bits : List (BitVec 64)), i + vs.length ≤ 64 * bits.length →
      (nullIndexFrom nonzero vs i bits).length = bits.length ∧
      ∀ p, bitAt (nullIndexFrom nonzero vs i bits) p =
        (bitAt bits p || (decide (i ≤ p) && ((vs[p - i]?.map nonzero).getD false)))
  | [], i, bits, _ => by simp [nullIndexFrom]
  | v :: vs, i, bits, h => by
    simp only [List.length_cons] at h
    simp only [nullIndexFrom]
    have hb : (if nonzero v = true then setBit bits i else bits).length = bits.length := by
      split
      · exact length_setBit _ _
      · rfl
    have ih := nullIndexFrom_spec nonzero vs (i + 1) (if nonzero v = true then setBit bits i else bits)
      (by rw [hb]; omega)
    refine ⟨by rw [ih.1, hb], ?_⟩
    intro p
    rw [ih.2 p]
    have hset : bitAt (if nonzero v = true then setBit bits i else bits) p =
        (bitAt bits p || (decide (p = i) && nonzero v)) := by
      split
      · rename_i hv
        rw [bitAt_setBit _ _ _ (by omega), hv]; simp [Bool.or_comm]
      · rename_i hv
        have : nonzero v = false := by simpa using hv
        simp [this]
    rw [hset]
    by_cases hp : p = i
    · subst hp
      have h1 : ¬ (p + 1 ≤ p) := by omega
      simp [h1]
    · by_cases hlt : i ≤ p
      · have e : p - i = (p - (i + 1)) + 1 := by omega
        have h1 : i + 1 ≤ p := by omega
        rw [e]; simp [hp, hlt, h1]
      · have h1 : ¬ (i + 1 ≤ p) := by omega
        simp [hp, hlt, h1]

/-- The bitmap has `(n+63)/64` words, bit `p` is set exactly for the rows whose value is not the
zero value, and every bit at or beyond `n` is clear. -/
theorem nullIndex_spec {α : Type} (nonzero : α → Bool) (vs : List α) :
    (nullIndex nonzero vs).length = (vs.length + 63) / 64 ∧
    vs.length ≤ 64 * (nullIndex nonzero vs).length ∧
    ∀ p, bitAt (nullIndex nonzero vs) p = (vs[p]?.map nonzero).getD false := by
  have h := nullIndexFrom_spec nonzero vs 0 (List.replicate ((vs.length + 63) / 64) 0#64)
    (by simp only [List.length_replicate]; omega)
  simp only [List.length_replicate] at h
  refine ⟨h.1, by rw [nullIndex, h.1]; omega, ?_⟩
  intro p
  rw [nullIndex, h.2 p]
  have hz : bitAt (List.replicate ((vs.length + 63) / 64) 0#64) p = false := by
    simp only [bitAt, List.getD_eq_getElem?_getD, List.getElem?_replicate]
    split <;> simp
  rw [hz]; simp

end PqModel.NullScan
