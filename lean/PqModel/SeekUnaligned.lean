import PqModel.SliceRepeated

/-! # Seeking over pages that do not start on a row boundary, and pages without rows (C08)

Data page v1 files of a repeated column may cut a row across pages: a page then begins with the
tail of the previous row (repetition levels > 0) and may hold no row start at all. `Seek.lean`
excludes both; this file models the path of `FilePages` on which they are legal — no offset
index — at the level of values: a page is the list of its repetition levels, the chunk's stream
is their concatenation, a row starts at every level 0, `NumRows` of a page is its number of zeros.

* MIRROR: `readLoop` / `readPage` (the loop of `FilePages.ReadPage` with `seekToRowStart`, the
  `NumRows() == 0` page, the `repLvls[0] == 0` test, `Slice(0, NumRows)` and `Slice(skip, NumRows)`
  — the slices are the mirror `sliceIdx` of `page_repeated.go`), `seek` (no-index `SeekToRow`).
* SPEC: `nthZero S k` — the value index at which row `k` starts; a reader is a value counter. -/
namespace PqModel.SeekUnaligned
open PqModel.Seek (scanZero sliceIdx drop_flatten_take)

/-- `NumRows` of a repeated page: `countLevelsEqual(repetitionLevels, 0)` -/
def zeros : List Nat → Nat
  | [] => 0
  | x :: xs => (if x = 0 then 1 else 0) + zeros xs

/-- SPEC: index of the `n`-th level 0 (the start of row `n`), the length when there is none -/
def nthZero : List Nat → Nat → Nat
  | [], _ => 0
  | x :: xs, n => if x = 0 then (if n = 0 then 0 else 1 + nthZero xs (n - 1)) else 1 + nthZero xs n

structure St where
  pos : Nat    -- the data page under the stream
  skip : Nat   -- f.skip
deriving Repr, DecidableEq

inductive Out where
  | page (levels : List Nat)
  | eof
deriving Repr, DecidableEq

/-- MIRROR of `repeatedPage.Slice(i, j)` on the repetition levels -/
def slice (page : List Nat) (i j : Nat) : List Nat :=
  (page.drop (sliceIdx page i j).1).take ((sliceIdx page i j).2 - (sliceIdx page i j).1)

/-- MIRROR of the loop of `FilePages.ReadPage` for v1 pages without offset index -/
def readLoop (chunk : List (List Nat)) (seekToRowStart : Bool) : Nat → St → St × Out
  | 0, s => (s, .eof)
  | fuel + 1, s =>
    match chunk[s.pos]? with
    | none => (s, .eof)
    | some page =>
      if s.skip = 0 then
        if seekToRowStart = false then ({ s with pos := s.pos + 1 }, .page page)
        else if zeros page = 0 then readLoop chunk seekToRowStart fuel { s with pos := s.pos + 1 }
        else if page.head? = some 0 then ({ s with pos := s.pos + 1 }, .page page)
        else ({ s with pos := s.pos + 1 }, .page (slice page 0 (zeros page)))
      else if zeros page ≤ s.skip then
        readLoop chunk seekToRowStart fuel { pos := s.pos + 1, skip := s.skip - zeros page }
      else ({ pos := s.pos + 1, skip := 0 }, .page (slice page s.skip (zeros page)))

def readPage (chunk : List (List Nat)) (s : St) : St × Out :=
  readLoop chunk (decide (0 < s.skip)) (chunk.length + 1) s

/-- MIRROR of `SeekToRow` without offset index: rewind, `skip = rowIndex` -/
def seek (k : Nat) : St := { pos := 0, skip := k }

/-! ### list arithmetic -/

theorem nthZero_le (l : List Nat) (n : Nat) : nthZero l n ≤ l.length := by
  induction l generalizing n with
  | nil => simp [nthZero]
  | cons x xs ih =>
    simp only [nthZero, List.length_cons]
    split
    · split
      · omega
      · have := ih (n - 1); omega
    · have := ih n; omega

theorem nthZero_ge (l : List Nat) (n : Nat) (h : zeros l ≤ n) : nthZero l n = l.length := by
  induction l generalizing n with
  | nil => simp [nthZero]
  | cons x xs ih =>
    simp only [nthZero, zeros, List.length_cons] at h ⊢
    split
    · rename_i hx
      simp only [hx, if_true] at h
      have hn : n ≠ 0 := by omega
      rw [if_neg hn, ih (n - 1) (by omega)]; omega
    · rename_i hx
      simp only [hx, if_false] at h
      rw [ih n (by omega)]; omega

theorem nthZero_lt (l : List Nat) (n : Nat) (h : n < zeros l) : nthZero l n < l.length := by
  induction l generalizing n with
  | nil => simp [zeros] at h
  | cons x xs ih =>
    simp only [nthZero, zeros, List.length_cons] at h ⊢
    split
    · rename_i hx
      simp only [hx, if_true] at h
      split
      · omega
      · have := ih (n - 1) (by omega); omega
    · rename_i hx
      simp only [hx, if_false] at h
      have := ih n (by omega); omega

theorem zeros_append (a b : List Nat) : zeros (a ++ b) = zeros a + zeros b := by
  induction a with
  | nil => simp [zeros]
  | cons x xs ih => simp only [List.cons_append, zeros, ih]; omega

theorem nthZero_append (a b : List Nat) (n : Nat) :
    nthZero (a ++ b) n = if n < zeros a then nthZero a n else a.length + nthZero b (n - zeros a) := by
  induction a generalizing n with
  | nil => simp [zeros, nthZero]
  | cons x xs ih =>
    simp only [List.cons_append, nthZero, zeros, List.length_cons]
    by_cases hx : x = 0
    · simp only [hx, if_true]
      by_cases hn : n = 0
      · simp [hn]
      · rw [if_neg hn, if_neg hn, ih (n - 1)]
        by_cases h1 : n - 1 < zeros xs
        · rw [if_pos h1, if_pos (by omega)]
        · rw [if_neg h1, if_neg (by omega)]
          have : n - 1 - zeros xs = n - (1 + zeros xs) := by omega
          rw [this]; omega
    · simp only [hx, if_false, Nat.zero_add]
      rw [ih n]
      split <;> omega

theorem zeros_drop_nthZero (l : List Nat) (n : Nat) (h : n < zeros l) :
    zeros (l.drop (nthZero l n)) = zeros l - n := by
  induction l generalizing n with
  | nil => simp [zeros] at h
  | cons x xs ih =>
    simp only [nthZero, zeros] at h ⊢
    by_cases hx : x = 0
    · simp only [hx, if_true] at h ⊢
      by_cases hn : n = 0
      · simp [hn, zeros]
      · rw [if_neg hn]
        rw [show 1 + nthZero xs (n - 1) = nthZero xs (n - 1) + 1 by omega, List.drop_succ_cons,
          ih (n - 1) (by omega)]
        omega
    · simp only [hx, if_false, Nat.zero_add] at h ⊢
      rw [show 1 + nthZero xs n = nthZero xs n + 1 by omega, List.drop_succ_cons, ih n h]

/-- the scan loop of `Slice` finds the `t`-th row start -/
theorem scanZero_nth (t : Nat) : ∀ (l : List Nat) (k cnt d : Nat), cnt ≤ t →
    scanZero t l k cnt d =
      if t - cnt < zeros l then (k + nthZero l (t - cnt), t) else (d, cnt + zeros l)
  | [], k, cnt, d, _ => by simp [scanZero, zeros]
  | x :: xs, k, cnt, d, h => by
    simp only [scanZero, zeros, nthZero]
    by_cases hx : x = 0
    · simp only [hx, if_true]
      by_cases hc : cnt = t
      · subst hc
        simp
      · rw [if_neg hc, scanZero_nth t xs (k + 1) (cnt + 1) d (by omega)]
        have hne : t - cnt ≠ 0 := by omega
        rw [if_neg hne]
        by_cases h1 : t - (cnt + 1) < zeros xs
        · rw [if_pos h1, if_pos (by omega)]
          have : t - cnt - 1 = t - (cnt + 1) := by omega
          rw [this]; congr 1; omega
        · rw [if_neg h1, if_neg (by omega)]
          congr 1; omega
    · simp only [hx, if_false, Nat.zero_add]
      rw [scanZero_nth t xs (k + 1) cnt d h]
      split
      · congr 1; omega
      · rfl

/-- `Slice(n, NumRows)` is the page from its `n`-th row start on -/
theorem slice_tail (page : List Nat) (n : Nat) (h : n < zeros page) :
    slice page n (zeros page) = page.drop (nthZero page n) := by
  have h1 := scanZero_nth n page 0 0 page.length (Nat.zero_le _)
  simp only [Nat.sub_zero, if_pos h, Nat.zero_add] at h1
  have h2 := scanZero_nth (zeros page) (page.drop (nthZero page n)) (nthZero page n) n page.length (by omega)
  rw [zeros_drop_nthZero page n h, if_neg (by omega)] at h2
  simp only [slice, sliceIdx, h1, h2]
  rw [List.take_of_length_le (by simp)]

theorem nthZero_zero_of_head (page : List Nat) (h : page.head? = some 0) : nthZero page 0 = 0 := by
  cases page with
  | nil => simp at h
  | cons x xs => simp at h; simp [nthZero, h]

/-! ### the reader as a value counter -/

/-- value offset of page `i` -/
def off (chunk : List (List Nat)) (i : Nat) : Nat := (chunk.take i).flatten.length

/-- where a pending seek (`seekToRowStart`) will land: the `skip`-th row start at or behind the
    page under the stream -/
def vtarget (chunk : List (List Nat)) (s : St) : Nat :=
  off chunk s.pos + nthZero (chunk.flatten.drop (off chunk s.pos)) s.skip

/-- abstraction between two calls: the index of the next value delivered -/
def vpos (chunk : List (List Nat)) (s : St) : Nat :=
  if s.skip = 0 then off chunk s.pos else vtarget chunk s

theorem rest_eq (chunk : List (List Nat)) (i : Nat) (page : List Nat) (h : chunk[i]? = some page) :
    chunk.flatten.drop (off chunk i) = page ++ chunk.flatten.drop (off chunk (i + 1)) ∧
    off chunk (i + 1) = off chunk i + page.length := by
  have hlt : i < chunk.length := by
    rcases Nat.lt_or_ge i chunk.length with a | a
    · exact a
    · simp [List.getElem?_eq_none a] at h
  have hd : chunk.drop i = page :: chunk.drop (i + 1) := by
    rw [List.drop_eq_getElem_cons hlt]
    have : chunk[i] = page := by
      have := List.getElem?_eq_getElem hlt
      rw [this] at h; exact Option.some.inj h
    rw [this]
  simp only [off]
  rw [drop_flatten_take, drop_flatten_take, hd]
  refine ⟨by simp, ?_⟩
  rw [List.take_succ, h]
  simp

/-- outcome of a read by a reader whose next value is `v` -/
def ReadOK (chunk : List (List Nat)) (v : Nat) (r : St × Out) : Prop :=
  r.1.pos ≤ chunk.length ∧
  match r.2 with
  | .page vals => 0 < vals.length ∧ vals = (chunk.flatten.drop v).take vals.length ∧
      r.1.skip = 0 ∧ off chunk r.1.pos = v + vals.length
  | .eof => chunk.flatten.length ≤ v

theorem readLoop_seeking (chunk : List (List Nat)) (hne : ∀ p ∈ chunk, p ≠ []) :
    ∀ (fuel : Nat) (s : St), s.pos ≤ chunk.length → chunk.length - s.pos < fuel →
      ReadOK chunk (vtarget chunk s) (readLoop chunk true fuel s)
  | 0, s, _, hf => by omega
  | fuel + 1, s, hp, hf => by
    simp only [readLoop]
    cases hc : chunk[s.pos]? with
    | none =>
      have hge : chunk.length ≤ s.pos := by
        rcases Nat.lt_or_ge s.pos chunk.length with a | a
        · simp [List.getElem?_eq_getElem a] at hc
        · exact a
      refine ⟨hp, ?_⟩
      simp only [vtarget, off, List.take_of_length_le hge]
      omega
    | some page =>
      obtain ⟨hrest, hoff⟩ := rest_eq chunk s.pos page hc
      have hlt : s.pos < chunk.length := by
        rcases Nat.lt_or_ge s.pos chunk.length with a | a
        · exact a
        · simp [List.getElem?_eq_none a] at hc
      have hpne : page ≠ [] := hne page (List.mem_of_getElem? hc)
      have hplen : 0 < page.length := List.length_pos_iff.mpr hpne
      -- the target seen from this page
      have htgt : vtarget chunk s = off chunk s.pos +
          (if s.skip < zeros page then nthZero page s.skip
           else page.length + nthZero (chunk.flatten.drop (off chunk (s.pos + 1))) (s.skip - zeros page)) := by
        simp only [vtarget, hrest, nthZero_append]
      -- returning the page from value offset `a` on
      have ret : ∀ a, a < page.length → vtarget chunk s = off chunk s.pos + a →
          ReadOK chunk (vtarget chunk s) ({ pos := s.pos + 1, skip := 0 }, Out.page (page.drop a)) := by
        intro a ha hv
        refine ⟨by simp; omega, by simp; omega, ?_, rfl, ?_⟩
        · rw [hv, ← List.drop_drop, hrest, List.drop_append_of_le_length (by omega),
            List.take_left' (by simp)]
        · simp only [List.length_drop]; omega
      simp only []
      split
      · rename_i h0
        simp only [Bool.true_eq_false, if_false]
        split
        · rename_i hz
          -- a page without row start: skipped
          have := readLoop_seeking chunk hne fuel { s with pos := s.pos + 1 } (by simp; omega) (by simp; omega)
          have hv : vtarget chunk { s with pos := s.pos + 1 } = vtarget chunk s := by
            rw [htgt]
            simp only [vtarget, h0, hz, Nat.lt_irrefl, if_false, Nat.sub_zero, hoff]
            omega
          rw [hv] at this
          exact this
        · rename_i hz
          have hz' : 0 < zeros page := by omega
          split
          · rename_i hh
            have := ret 0 hplen (by rw [htgt, h0, if_pos hz', nthZero_zero_of_head page hh])
            simpa [h0] using this
          · have ha := nthZero_lt page 0 hz'
            have := ret (nthZero page 0) ha (by rw [htgt, h0, if_pos hz'])
            rw [slice_tail page 0 hz']
            simpa [h0] using this
      · rename_i h0
        split
        · rename_i hle
          have := readLoop_seeking chunk hne fuel { pos := s.pos + 1, skip := s.skip - zeros page }
            (by simp; omega) (by simp; omega)
          have hv : vtarget chunk { pos := s.pos + 1, skip := s.skip - zeros page } = vtarget chunk s := by
            rw [htgt, if_neg (by omega)]
            simp only [vtarget, hoff]
            omega
          rw [hv] at this
          exact this
        · rename_i hgt
          have hlt' : s.skip < zeros page := by omega
          have ha := nthZero_lt page s.skip hlt'
          have := ret (nthZero page s.skip) ha (by rw [htgt, if_pos hlt'])
          rw [slice_tail page s.skip hlt']
          exact this

/-- **Reads deliver the stream from the reader's position on**, page by page; pages that begin
    with the tail of a row are cut at the first row start when they are the landing page of a seek
    and returned whole when reading on; pages without any row start are skipped by a seek. -/
theorem readPage_spec (chunk : List (List Nat)) (hne : ∀ p ∈ chunk, p ≠ []) (s : St) (hp : s.pos ≤ chunk.length) :
    ReadOK chunk (vpos chunk s) (readPage chunk s) := by
  unfold readPage
  by_cases h0 : s.skip = 0
  · -- reading on
    have hd : decide (0 < s.skip) = false := by simp [h0]
    rw [hd]
    simp only [readLoop, vpos, h0, if_true]
    cases hc : chunk[s.pos]? with
    | none =>
      have hge : chunk.length ≤ s.pos := by
        rcases Nat.lt_or_ge s.pos chunk.length with a | a
        · simp [List.getElem?_eq_getElem a] at hc
        · exact a
      refine ⟨hp, ?_⟩
      simp [off, List.take_of_length_le hge]
    | some page =>
      obtain ⟨hrest, hoff⟩ := rest_eq chunk s.pos page hc
      have hlt : s.pos < chunk.length := by
        rcases Nat.lt_or_ge s.pos chunk.length with a | a
        · exact a
        · simp [List.getElem?_eq_none a] at hc
      have hpne : page ≠ [] := hne page (List.mem_of_getElem? hc)
      simp only [if_true]
      refine ⟨by simp; omega, List.length_pos_iff.mpr hpne, ?_, by simp [h0], by simp [hoff]⟩
      rw [hrest, List.take_left' rfl]
  · have hd : decide (0 < s.skip) = true := by simp; omega
    rw [hd]
    have := readLoop_seeking chunk hne (chunk.length + 1) s hp (by omega)
    simpa [vpos, h0] using this

/-- **After `SeekToRow(k)` the reader stands on the first value of row `k`** (`nthZero`: the index
    of the `k`-th level 0 of the stream), provided the stream starts with a row. -/
theorem seek_spec (chunk : List (List Nat)) (k : Nat) (hwf : chunk.flatten.head? = some 0 ∨ chunk.flatten = []) :
    vpos chunk (seek k) = nthZero chunk.flatten k := by
  simp only [vpos, seek, vtarget, off, List.take_zero, List.flatten_nil, List.length_nil, List.drop_zero, Nat.zero_add]
  split
  · rename_i h0
    subst h0
    rcases hwf with h | h
    · exact (nthZero_zero_of_head _ h).symm
    · simp [h, nthZero]
  · rfl

/-- three pages: rows `[0,1]`, `[0,1,1 | 1,1 | 1]` (one row over three pages, the middle page has
    no row start) `[0]`; seeking to row 2 skips the page without rows and cuts the landing page -/
def demo : List (List Nat) := [[0, 1, 0, 1, 1], [1, 1], [1, 0]]
example : (readPage demo (seek 2)).2 = .page [0] := by decide
example : (readPage demo (seek 1)).2 = .page [0, 1, 1] := by decide
example : (readPage demo (readPage demo (seek 1)).1).2 = .page [1, 1] := by decide
example : (readPage demo (seek 3)).2 = .eof := by decide

end PqModel.SeekUnaligned
