import PqModel.MergeProgress
import PqModel.Compare

/-! # C09 — the merge theorems over an arbitrary lawful comparator

The readers consult the rows only through `compare(a, b)`. For a lawful comparator `c` on any row
type the rows of a merge enter the mirror with their rank `rankIn c inputs.flatten` as key
(`rankRows`); `rank_sign` shows that on these rows the sign of `c` is the sign of the rank
difference, i.e. the mirror takes exactly the decisions the code takes with `c`. The theorems below
only assume `Lawful c`. -/
namespace PqModel.Merge
open PqModel.Compare

section generic
variable {α : Type} [Inhabited α]

def rankList (c : α → α → Int) (all : List α) (i : Nat) (src : List α) : List Row :=
  (List.range src.length).map (fun j => { key := (rankIn c all (src.getD j default) : Nat), inp := i, seq := j })

/-- the inputs as the mirror sees them: key = rank, payload = (input, seq) -/
def rankRows (c : α → α → Int) (inputs : List (List α)) : List (List Row) :=
  (List.range inputs.length).map (fun i => rankList c inputs.flatten i (inputs.getD i []))

/-- the row a mirror row stands for -/
def orig (inputs : List (List α)) (r : Row) : α := (inputs.getD r.inp []).getD r.seq default

theorem rankRows_get {c : α → α → Int} {inputs : List (List α)} {i : Nat} {l : List Row}
    (h : (rankRows c inputs)[i]? = some l) :
    ∃ src, inputs[i]? = some src ∧ l = rankList c inputs.flatten i src := by
  simp only [rankRows, List.getElem?_map, Option.map_eq_some_iff] at h
  obtain ⟨j, hj, rfl⟩ := h
  have hlt := lt_of_getElem?_some hj
  simp only [List.length_range] at hlt
  have : j = i := by
    have : i = j := by simpa [List.getElem?_range hlt] using hj
    exact this.symm
  subst this
  exact ⟨inputs[j], List.getElem?_eq_getElem hlt, by simp [List.getD_eq_getElem?_getD, List.getElem?_eq_getElem hlt]⟩

theorem rankList_map_orig {c : α → α → Int} {inputs : List (List α)} {i : Nat} {src : List α}
    (h : inputs[i]? = some src) : (rankList c inputs.flatten i src).map (orig inputs) = src := by
  apply List.ext_getElem
  · simp [rankList]
  · intro j h1 h2
    simp [rankList, orig, List.getD_eq_getElem?_getD, h, List.getElem?_eq_getElem h2]

theorem rankRows_map_orig (c : α → α → Int) (inputs : List (List α)) :
    (rankRows c inputs).map (List.map (orig inputs)) = inputs := by
  apply List.ext_getElem
  · simp [rankRows]
  · intro i h1 h2
    have h1' : i < (rankRows c inputs).length := by simpa using h1
    have hget : (rankRows c inputs)[i]? = some ((rankRows c inputs)[i]'h1') := List.getElem?_eq_getElem h1'
    obtain ⟨src, hsrc, hl⟩ := rankRows_get hget
    simp only [List.getElem_map]
    rw [hl, rankList_map_orig hsrc]
    rw [List.getElem?_eq_getElem h2] at hsrc
    exact (Option.some.inj hsrc).symm

theorem rankRows_flatten_orig (c : α → α → Int) (inputs : List (List α)) :
    (rankRows c inputs).flatten.map (orig inputs) = inputs.flatten := by
  rw [List.map_flatten, rankRows_map_orig]

theorem rankRows_wellTagged (c : α → α → Int) (inputs : List (List α)) : WellTagged (rankRows c inputs) := by
  intro i l hl x hx
  obtain ⟨src, _, rfl⟩ := rankRows_get hl
  simp only [rankList, List.mem_map] at hx
  obtain ⟨j, _, rfl⟩ := hx
  rfl

/-- a mirror row carries the rank of the row it stands for, which is one of the input rows -/
theorem rankRows_mem {c : α → α → Int} {inputs : List (List α)} {r : Row} (h : r ∈ (rankRows c inputs).flatten) :
    r.key = (rankIn c inputs.flatten (orig inputs r) : Nat) ∧ orig inputs r ∈ inputs.flatten := by
  obtain ⟨l, hl, hr⟩ := List.mem_flatten.mp h
  obtain ⟨i, hi⟩ := List.getElem?_of_mem hl
  obtain ⟨src, hsrc, rfl⟩ := rankRows_get hi
  simp only [rankList, List.mem_map, List.mem_range] at hr
  obtain ⟨j, hj, rfl⟩ := hr
  have e : orig inputs { key := (rankIn c inputs.flatten (src.getD j default) : Nat), inp := i, seq := j } = src[j] := by
    simp [orig, List.getD_eq_getElem?_getD, hsrc, List.getElem?_eq_getElem hj]
  rw [e]
  refine ⟨by simp [List.getD_eq_getElem?_getD, List.getElem?_eq_getElem hj], ?_⟩
  exact List.mem_flatten.mpr ⟨src, List.mem_of_getElem? hsrc, List.getElem_mem hj⟩

theorem rankRows_sorted {c : α → α → Int} (h : Lawful c) {inputs : List (List α)}
    (hs : ∀ l ∈ inputs, l.Pairwise (fun a b => c a b ≤ 0)) : ∀ l ∈ rankRows c inputs, SortedK l := by
  intro l hl
  obtain ⟨i, hi⟩ := List.getElem?_of_mem hl
  obtain ⟨src, hsrc, rfl⟩ := rankRows_get hi
  have hsrcs := hs src (List.mem_of_getElem? hsrc)
  rw [SortedK, List.pairwise_iff_getElem]
  intro a b ha hb hab
  simp only [rankList, List.length_map, List.length_range] at ha hb
  simp only [rankList, List.getElem_map, List.getElem_range, List.getD_eq_getElem?_getD,
    List.getElem?_eq_getElem ha, List.getElem?_eq_getElem hb, Option.getD_some]
  have := rank_le h inputs.flatten (List.pairwise_iff_getElem.mp hsrcs a b ha hb hab)
  omega

omit [Inhabited α] in
/-- rank order on input rows gives back the comparator -/
theorem le_of_rank_le {c : α → α → Int} (h : Lawful c) {L : List α} {a b : α} (hb : b ∈ L)
    (hr : rankIn c L a ≤ rankIn c L b) : c a b ≤ 0 := by
  by_cases hh : c a b ≤ 0
  · exact hh
  · have := rank_lt h hb ((h.flip b a).mpr (by omega))
    omega

/-- a complete session over any correctly tagged, sorted mirror inputs -/
theorem session_isMerge (ins : List (List Row)) (refills : List (List Nat)) (batches : List Nat)
    (hs : ∀ l ∈ ins, SortedK l) (hw : WellTagged ins) (hpos : ∀ b ∈ batches, 1 ≤ b)
    (hlen : ins.flatten.length < batches.length) :
    IsMerge ins ((Reader.new ins refills).session batches).1.flatten := by
  have hs' : ∀ l ∈ (Reader.new ins refills).rem, SortedK l := by rw [Reader.new_rem]; exact hs
  obtain ⟨hE, hdone⟩ := Reader.session_emits batches (Reader.new ins refills) (Reader.new_ok _ _) hs'
  have heof := Reader.session_eof batches _ (Reader.new_ok ins refills) hs' hpos (by
    simp only [Reader.size, Reader.new_rem]; exact hlen)
  rw [Reader.new_rem] at hE
  exact isMerge_of_emits hE (hdone heof) hs hw

/-- the rows `MergeRowReaders(readers, c)` returns over a whole session -/
def mergeC (c : α → α → Int) (inputs : List (List α)) (refills : List (List Nat)) (batches : List Nat) : List Row :=
  ((Reader.new (rankRows c inputs) refills).session batches).1.flatten

/-- **C09 over an arbitrary lawful comparator**: sorted by `c`, a permutation of the union of the
    inputs, every input's rows in their original order -/
theorem mergeC_sorted_complete_stable {c : α → α → Int} (h : Lawful c) (inputs : List (List α))
    (refills : List (List Nat)) (batches : List Nat)
    (hs : ∀ l ∈ inputs, l.Pairwise (fun a b => c a b ≤ 0)) (hpos : ∀ b ∈ batches, 1 ≤ b)
    (hlen : inputs.flatten.length < batches.length) :
    let out := mergeC c inputs refills batches
    (out.map (orig inputs)).Pairwise (fun a b => c a b ≤ 0) ∧
    (out.map (orig inputs)).Perm inputs.flatten ∧
    ∀ (i : Nat) (l : List α), inputs[i]? = some l → ((out.filter (fun r => r.inp == i)).map (orig inputs)) = l := by
  intro out
  have hlen' : (rankRows c inputs).flatten.length < batches.length := by
    have := congrArg List.length (rankRows_flatten_orig c inputs)
    simp only [List.length_map] at this
    omega
  have hm : IsMerge (rankRows c inputs) out :=
    session_isMerge _ refills batches (rankRows_sorted h hs) (rankRows_wellTagged c inputs) hpos hlen'
  refine ⟨?_, ?_, ?_⟩
  · rw [List.pairwise_map]
    refine List.Pairwise.imp_of_mem ?_ hm.sorted
    intro a b ha hb hab
    obtain ⟨ka, _⟩ := rankRows_mem (hm.perm.mem_iff.mp ha)
    obtain ⟨kb, mb⟩ := rankRows_mem (hm.perm.mem_iff.mp hb)
    exact le_of_rank_le h mb (by omega)
  · have := hm.perm.map (orig inputs)
    rwa [rankRows_flatten_orig] at this
  · intro i l hl
    have hi : i < (rankRows c inputs).length := by
      simp only [rankRows, List.length_map, List.length_range]; exact lt_of_getElem?_some hl
    have hget := List.getElem?_eq_getElem hi
    obtain ⟨src, hsrc, e⟩ := rankRows_get hget
    have := hm.stable i _ hget
    simp only [proj] at this
    rw [this, e, rankList_map_orig hsrc]
    rw [hl] at hsrc; exact (Option.some.inj hsrc).symm

/-- **dedupe over an arbitrary lawful comparator**: any batching of a sequence sorted by `c` is
    reduced to a subsequence with strictly increasing keys in which every key of the input occurs -/
theorem dedupeC_one_row_per_key {c : α → α → Int} (h : Lawful c) (L : List α)
    (hs : L.Pairwise (fun a b => c a b ≤ 0)) (batches : List (List Row))
    (hb : batches.flatten = rankList c L 0 L) :
    let out := (dedupeReader none batches).map (orig [L])
    out.Sublist L ∧ out.Pairwise (fun a b => c a b < 0) ∧ ∀ x ∈ L, ∃ y ∈ out, c y x = 0 := by
  intro out
  have hflat : [L].flatten = L := by simp
  have hrows : rankRows c [L] = [rankList c L 0 L] := by simp [rankRows, hflat]
  have hsorted : SortedK batches.flatten := by
    rw [hb]
    have := rankRows_sorted h (inputs := [L]) (by intro l hl; simp at hl; subst hl; exact hs)
    exact this _ (by rw [hrows]; simp)
  have hmem : ∀ r ∈ batches.flatten, r.key = (rankIn c L (orig [L] r) : Nat) ∧ orig [L] r ∈ L := by
    intro r hr
    have := rankRows_mem (c := c) (inputs := [L]) (r := r) (by rw [hrows]; simpa [hb] using hr)
    simpa [hflat] using this
  have e : dedupeReader none batches = (dedupeBatch none batches.flatten).1 := dedupeReader_flatten batches none
  obtain ⟨d1, d2, _, d4⟩ := dedupeBatch_sorted batches.flatten none hsorted (by intro l hl; cases hl)
  rw [← e] at d1 d2 d4
  have horig : batches.flatten.map (orig [L]) = L := by
    rw [hb]
    have := rankList_map_orig (c := c) (inputs := [L]) (i := 0) (src := L) (by simp)
    rwa [hflat] at this
  refine ⟨?_, ?_, ?_⟩
  · have := d1.map (orig [L])
    rwa [horig] at this
  · rw [List.pairwise_map]
    refine List.Pairwise.imp_of_mem ?_ d2
    intro a b ha hb' hab
    obtain ⟨ka, ma⟩ := hmem a (d1.subset ha)
    obtain ⟨kb, mb⟩ := hmem b (d1.subset hb')
    exact ((rank_sign h ma mb).1).mpr (by omega)
  · intro x hx
    rw [← horig] at hx
    obtain ⟨r, hr, rfl⟩ := List.mem_map.mp hx
    rcases d4 r hr with ⟨y, hy, hk⟩ | ⟨l, hl, _⟩
    · obtain ⟨ky, my⟩ := hmem y (d1.subset hy)
      obtain ⟨kr, mr⟩ := hmem r hr
      exact ⟨orig [L] y, List.mem_map.mpr ⟨y, hy, rfl⟩, ((rank_sign h my mr).2.1).mpr (by omega)⟩
    · cases hl

end generic

/-! ## segment plans over an arbitrary order and tagging -/

section plans
variable {α : Type}

structure IsMergeBy (le : α → α → Prop) (tag : α → Nat) (ins : List (List α)) (out : List α) : Prop where
  sorted : out.Pairwise le
  perm : out.Perm ins.flatten
  stable : ∀ (i : Nat) (l : List α), ins[i]? = some l → out.filter (fun r => tag r == i) = l

def zipPartsG : List (List α) → List (List α) → List (List α)
  | a :: as, b :: bs => (a ++ b) :: zipPartsG as bs
  | _, _ => []

def joinSegmentsG (k : Nat) : List (List (List α)) → List (List α)
  | [] => List.replicate k []
  | s :: ss => zipPartsG s (joinSegmentsG k ss)

def PlanGoodBy (le : α → α → Prop) (tag : α → Nat) (k : Nat) : List (List (List α)) → List (List α) → Prop
  | [], [] => True
  | s :: ss, o :: os => s.length = k ∧ IsMergeBy le tag s o ∧ (∀ x ∈ o, ∀ o' ∈ os, ∀ y ∈ o', le x y) ∧
      PlanGoodBy le tag k ss os
  | _, _ => False

theorem zipPartsG_length (A B : List (List α)) : (zipPartsG A B).length = min A.length B.length := by
  induction A generalizing B with
  | nil => simp [zipPartsG]
  | cons a as ih =>
    cases B with
    | nil => simp [zipPartsG]
    | cons b bs => simp only [zipPartsG, List.length_cons, ih bs]; omega

theorem zipPartsG_get {A B : List (List α)} (hlen : A.length = B.length) (i : Nat) (l : List α)
    (h : (zipPartsG A B)[i]? = some l) : ∃ a b, A[i]? = some a ∧ B[i]? = some b ∧ l = a ++ b := by
  induction A generalizing B i with
  | nil => cases B <;> simp [zipPartsG] at h
  | cons a as ih =>
    cases B with
    | nil => simp at hlen
    | cons b bs =>
      cases i with
      | zero => simp [zipPartsG] at h; exact ⟨a, b, by simp, by simp, h.symm⟩
      | succ i =>
        simp only [zipPartsG, List.getElem?_cons_succ] at h ⊢
        exact ih (by simpa using hlen) i h

theorem zipPartsG_flatten_perm {A B : List (List α)} (hlen : A.length = B.length) :
    (zipPartsG A B).flatten.Perm (A.flatten ++ B.flatten) := by
  induction A generalizing B with
  | nil => cases B <;> simp [zipPartsG] at hlen ⊢
  | cons a as ih =>
    cases B with
    | nil => simp at hlen
    | cons b bs =>
      simp only [zipPartsG, List.flatten_cons]
      have h := ih (B := bs) (by simpa using hlen)
      have h1 : (a ++ b ++ (zipPartsG as bs).flatten).Perm (a ++ b ++ (as.flatten ++ bs.flatten)) :=
        List.Perm.append_left _ h
      refine h1.trans ?_
      simp only [List.append_assoc]
      refine List.Perm.append_left a ?_
      rw [← List.append_assoc, ← List.append_assoc]
      exact List.Perm.append_right _ List.perm_append_comm

theorem joinSegmentsG_length (k : Nat) (segs : List (List (List α))) (h : ∀ s ∈ segs, s.length = k) :
    (joinSegmentsG k segs).length = k := by
  induction segs with
  | nil => simp [joinSegmentsG]
  | cons s ss ih =>
    have hs : s.length = k := h s (by simp)
    have ih := ih (fun s' hs' => h s' (by simp [hs']))
    simp only [joinSegmentsG, zipPartsG_length, hs, ih]; omega

theorem isMergeBy_append {le : α → α → Prop} {tag : α → Nat} {A B : List (List α)} {oa ob : List α}
    (hlen : A.length = B.length) (ha : IsMergeBy le tag A oa) (hb : IsMergeBy le tag B ob)
    (hord : ∀ x ∈ oa, ∀ y ∈ ob, le x y) : IsMergeBy le tag (zipPartsG A B) (oa ++ ob) := by
  refine ⟨List.pairwise_append.mpr ⟨ha.sorted, hb.sorted, hord⟩,
    (List.Perm.append ha.perm hb.perm).trans (zipPartsG_flatten_perm hlen).symm, ?_⟩
  intro i l hl
  obtain ⟨a, b, h1, h2, h3⟩ := zipPartsG_get hlen i l hl
  subst h3
  rw [List.filter_append, ha.stable i a h1, hb.stable i b h2]

/-- `refined_plan_is_merge` for any order relation and any tagging of rows by their input -/
theorem planBy_isMerge {le : α → α → Prop} {tag : α → Nat} {k : Nat} :
    ∀ (segs : List (List (List α))) (outs : List (List α)),
    PlanGoodBy le tag k segs outs → IsMergeBy le tag (joinSegmentsG k segs) outs.flatten
  | [], [], _ => by
    refine ⟨List.Pairwise.nil, ?_, ?_⟩
    · have : (List.replicate k ([] : List α)).flatten = [] := by
        simp only [List.flatten_eq_nil_iff]; intro l hl; exact (List.mem_replicate.mp hl).2
      simp [joinSegmentsG, this]
    · intro i l hl
      have := List.mem_of_getElem? hl
      simp only [joinSegmentsG] at this
      rw [(List.mem_replicate.mp this).2]; rfl
  | [], _ :: _, h => by simp [PlanGoodBy] at h
  | _ :: _, [], h => by simp [PlanGoodBy] at h
  | s :: ss, o :: os, h => by
    obtain ⟨hlen, hm, hord, hrest⟩ := h
    have ih := planBy_isMerge ss os hrest
    have hl : ∀ s' ∈ ss, s'.length = k := by
      clear ih hord hm
      induction ss generalizing os with
      | nil => simp
      | cons a as iha =>
        cases os with
        | nil => simp [PlanGoodBy] at hrest
        | cons b bs =>
          obtain ⟨h1, _, _, h4⟩ := hrest
          intro s' hs'
          rcases List.mem_cons.mp hs' with rfl | hs'
          · exact h1
          · exact iha bs h4 s' hs'
    simp only [joinSegmentsG, List.flatten_cons]
    refine isMergeBy_append (by rw [hlen, joinSegmentsG_length k ss hl]) hm ih ?_
    intro x hx y hy
    obtain ⟨o', ho', hy'⟩ := List.mem_flatten.mp hy
    exact hord x hx o' ho' y hy'

end plans

end PqModel.Merge
