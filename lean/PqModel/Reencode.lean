import PqModel.FileModel

/-! # C11 — the column-oriented re-encode path at the level of column streams

`copyColumnValues` (writer_reencode.go:214-233) reads every value of a source column chunk in
order — with its repetition and definition levels — and hands the values to the destination column
writer, which cuts pages, builds its dictionary and encodes under the DESTINATION's codecs.
`writeRowGroupByColumn` (writer_reencode.go:197-206) does so for every column of one source row
group, `packSegmentsByColumn` (writer_reencode.go:154-170) for every column across several segments
in order. At the level of column streams this is `decode` (source codecs) followed by `encode`
(destination codecs, destination's own page cuts / dictionary fallback), i.e. the SPEC reader and
the nondeterministic SPEC writer of `PqModel.FileModel`; the lemmas below compose their round trips.
The codecs stay abstract with the hypotheses `ColCodec.OK` (the shapes of the C04 theorems). -/
namespace PqModel.Reencode
open PqModel.Dremel PqModel.Pages PqModel.FileModel

variable {β γ β' γ' : Type}

/-- one column: decode the source chunk, encode the stream under the destination's choices -/
def reencodeChunk (cA : ColCodec β γ) (cB : ColCodec β' γ') (lv : Nat × Nat) (cfgB : ChunkCfg)
    (src : Chunk β γ) : Option (Chunk β' γ') :=
  (readChunk false cA lv src).map (writeChunk cB lv cfgB)

/-- `writeRowGroupByColumn`: column `j` is decoded with `cdA j` and written with `cdB j` / `cfgB j` -/
def reencodeCols (cdA : Nat → ColCodec β γ) (cdB : Nat → ColCodec β' γ') (cfgB : Nat → ChunkCfg) :
    Nat → List (Nat × Nat) → List (Chunk β γ) → Option (List (Chunk β' γ'))
  | _, [], [] => some []
  | j, lv :: lvs, ch :: chs =>
    match reencodeChunk (cdA j) (cdB j) lv (cfgB j) ch, reencodeCols cdA cdB cfgB (j + 1) lvs chs with
    | some a, some b => some (a :: b)
    | _, _ => none
  | _, _, _ => none

/-- `packSegmentsByColumn`: every column is decoded across all segments in order and the
    concatenated stream written as one chunk -/
def packCols (cdA : Nat → ColCodec β γ) (cdB : Nat → ColCodec β' γ') (cfgB : Nat → ChunkCfg)
    (lvs : List (Nat × Nat)) (segs : List (List (Chunk β γ))) : Option (List (Chunk β' γ')) :=
  (segs.mapM (readCols false cdA 0 lvs)).map fun streams =>
    writeCols cdB cfgB 0 lvs (joinSegs lvs.length streams)

/-- re-encoding is: decode all columns, then write all columns -/
theorem reencodeCols_eq (cdA : Nat → ColCodec β γ) (cdB : Nat → ColCodec β' γ') (cfgB : Nat → ChunkCfg) :
    ∀ (j : Nat) (lvs : List (Nat × Nat)) (chs : List (Chunk β γ)),
      reencodeCols cdA cdB cfgB j lvs chs = (readCols false cdA j lvs chs).map (writeCols cdB cfgB j lvs)
  | _, [], [] => rfl
  | _, [], _ :: _ => rfl
  | _, _ :: _, [] => rfl
  | j, lv :: lvs, ch :: chs => by
    simp only [reencodeCols, readCols, reencodeChunk, reencodeCols_eq cdA cdB cfgB (j + 1) lvs chs]
    cases readChunk false (cdA j) lv ch <;> cases readCols false cdA (j + 1) lvs chs <;> simp [writeCols]

/-- one chunk: whatever the source encoding, page cuts and dictionary use were, the destination
    chunk decodes (under the destination's codecs) to the stream the source chunk decodes to -/
theorem reencodeChunk_preserves {cA : ColCodec β γ} {cB : ColCodec β' γ'} {B : Nat} (hB : cB.OK B)
    {lv : Nat × Nat} (h1 : lv.1 ≤ B) (h2 : lv.2 ≤ B) (strict : Bool) (cfgB : ChunkCfg)
    (src : Chunk β γ) (s : List Triple) (hsrc : readChunk false cA lv src = some s)
    (hs : StreamOK cB lv s) (ha : strict = true → (cutAt cfgB.cuts s).all pageAligned = true) :
    (reencodeChunk cA cB lv cfgB src).bind (readChunk strict cB lv) = some s := by
  simp only [reencodeChunk, hsrc, Option.map_some, Option.bind_some]
  exact readChunk_writeChunk hB h1 h2 strict cfgB s hs ha

/-- **reencode_preserves_streams** (one source row group, `writeRowGroupByColumn`): if the source
    chunks decode to the column streams `ss` — levels within the schema's maxima, values within the
    destination columns' value domains — then the re-encoded chunks decode to `ss` under the
    destination's codecs, for every choice of destination page cuts and dictionary fallback. -/
theorem reencode_preserves_streams {cdA : Nat → ColCodec β γ} {cdB : Nat → ColCodec β' γ'} {B : Nat}
    (strict : Bool) (cfgB : Nat → ChunkCfg) {lvs : List (Nat × Nat)} {ss : Cols}
    (src : List (Chunk β γ)) (hsrc : readCols false cdA 0 lvs src = some ss)
    (hp : Pairs LvOK lvs ss) (hcd : ∀ i, i < lvs.length → (cdB i).OK B)
    (hB : ∀ lv ∈ lvs, lv.1 ≤ B ∧ lv.2 ≤ B)
    (hv : valsIn (fun j => (cdB j).okV) 0 ss = true)
    (ha : strict = true → colsAligned cfgB 0 ss = true) :
    (reencodeCols cdA cdB cfgB 0 lvs src).bind (readCols strict cdB 0 lvs) = some ss := by
  rw [reencodeCols_eq, hsrc, Option.map_some, Option.bind_some]
  exact readCols_writeCols strict cfgB hp 0 (fun i hi => by simpa using hcd i hi) hB hv ha

/-- the source side of the hypothesis is what a conforming writer produces: chunks written from
    `ss` under ANY source codecs / cuts decode to `ss`; so re-encoding a written row group under
    other codecs and cuts preserves every column stream (decode ∘ encode ∘ decode ∘ encode) -/
theorem reencode_of_written {cdA : Nat → ColCodec β γ} {cdB : Nat → ColCodec β' γ'} {B : Nat}
    (strict : Bool) (cfgA cfgB : Nat → ChunkCfg) {lvs : List (Nat × Nat)} {ss : Cols}
    (hp : Pairs LvOK lvs ss) (hA : ∀ i, i < lvs.length → (cdA i).OK B) (hcd : ∀ i, i < lvs.length → (cdB i).OK B)
    (hB : ∀ lv ∈ lvs, lv.1 ≤ B ∧ lv.2 ≤ B)
    (hvA : valsIn (fun j => (cdA j).okV) 0 ss = true) (hvB : valsIn (fun j => (cdB j).okV) 0 ss = true)
    (ha : strict = true → colsAligned cfgB 0 ss = true) :
    (reencodeCols cdA cdB cfgB 0 lvs (writeCols cdA cfgA 0 lvs ss)).bind (readCols strict cdB 0 lvs) = some ss :=
  reencode_preserves_streams strict cfgB _
    (readCols_writeCols false cfgA hp 0 (fun i hi => by simpa using hA i hi) hB hvA (fun h => by cases h))
    hp hcd hB hvB ha

/-- **pack_preserves_streams** (`packSegmentsByColumn`): several segments packed into one output row
    group decode to the per-column concatenation of the segments' streams, in segment order -/
theorem pack_preserves_streams {cdA : Nat → ColCodec β γ} {cdB : Nat → ColCodec β' γ'} {B : Nat}
    (strict : Bool) (cfgB : Nat → ChunkCfg) {lvs : List (Nat × Nat)}
    (segs : List (List (Chunk β γ))) (streams : List Cols)
    (hsrc : segs.mapM (readCols false cdA 0 lvs) = some streams)
    (hp : ∀ s ∈ streams, Pairs LvOK lvs s) (hcd : ∀ i, i < lvs.length → (cdB i).OK B)
    (hB : ∀ lv ∈ lvs, lv.1 ≤ B ∧ lv.2 ≤ B)
    (hv : valsIn (fun j => (cdB j).okV) 0 (joinSegs lvs.length streams) = true)
    (ha : strict = true → colsAligned cfgB 0 (joinSegs lvs.length streams) = true) :
    (packCols cdA cdB cfgB lvs segs).bind (readCols strict cdB 0 lvs) = some (joinSegs lvs.length streams) := by
  simp only [packCols, hsrc, Option.map_some, Option.bind_some]
  exact readCols_writeCols strict cfgB (pairs_joinSegs streams hp) 0 (fun i hi => by simpa using hcd i hi) hB hv ha

end PqModel.Reencode
