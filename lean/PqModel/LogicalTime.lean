/-! # Logical-type conversions of `time.Time` leaves (C01): TIMESTAMP(MILLIS/MICROS/NANOS) and DATE

A Go `time.Time` field is stored as an INT64 count of units since the Unix epoch (TIMESTAMP) or an
INT32 count of days (DATE) and rebuilt from it on read. This file holds

* MIRRORS of the write conversions: `Time.UnixMilli/UnixMicro/UnixNano` (Go `time` package) as used
  by `writeRowsFuncOfTime` (column_buffer_write.go:1085-1098), `writeTime` (column_buffer_reflect.go:
  241-248) and `makeValue` (value.go:297-304); `daysSinceUnixEpoch` (convert.go) as repaired in round 4;
* MIRRORS of the read conversions: `timestampType.AssignValue` (type_timestamp.go:218-257) as
  repaired in round 4 (`time.UnixMilli(v)`, `time.UnixMicro(v)`, `time.Unix(0, v)`), and as it was
  before (`time.Unix(0, v * unit)` in `int64`), `dateType.AssignValue` (type_date.go:88,101);
* the SPEC reading (LogicalTypes.md: "the number of milli/micro/nanoseconds / days from the Unix
  epoch"): `unitsOf`, `floorTo`, `dayOf`.

An instant is what `Time.Unix()` and `Time.Nanosecond()` return: seconds since the epoch (any sign)
and the nanoseconds within that second. Go's `time.UnixMilli(v)` is `Unix(v/1e3, (v%1e3)*1e6)` with
truncating `/`, `%` followed by `Unix`'s normalisation (`nsec < 0 → nsec += 1e9, sec--`): that is
floor division, which is how it is written here. -/
namespace PqModel.LogicalTime

structure Instant where
  sec : Int
  nsec : Nat
deriving DecidableEq, Repr

inductive TUnit where
  | milli | micro | nano
deriving DecidableEq, Repr

/-- units per second -/
def TUnit.perSec : TUnit → Nat
  | .milli => 1000
  | .micro => 1000000
  | .nano => 1000000000

/-- nanoseconds per unit -/
def TUnit.nanos : TUnit → Nat
  | .milli => 1000000
  | .micro => 1000
  | .nano => 1

/-- SPEC: the number of whole units from the epoch to the instant (floor) -/
def unitsOf (u : TUnit) (t : Instant) : Int := t.sec * u.perSec + (t.nsec / u.nanos : Nat)

/-- SPEC: the instant cut down to its unit -/
def floorTo (u : TUnit) (t : Instant) : Instant := ⟨t.sec, t.nsec / u.nanos * u.nanos⟩

/-- MIRROR of `Time.UnixMilli` / `UnixMicro` / `UnixNano`: `sec*perSec + nsec/nanos` computed in
    `int64` ("the result is undefined if the Unix time cannot be represented by an int64": it
    wraps) -/
def toUnit (u : TUnit) (t : Instant) : BitVec 64 := BitVec.ofInt 64 (unitsOf u t)

/-- MIRROR of the repaired read conversion: `time.UnixMilli(v)`, `time.UnixMicro(v)`,
    `time.Unix(0, v)` -/
def ofUnit (u : TUnit) (v : BitVec 64) : Instant :=
  ⟨v.toInt / u.perSec, (v.toInt % u.perSec).toNat * u.nanos⟩

/-- MIRROR of the read conversion BEFORE the repair (type_timestamp.go:233-235):
    `nanos := src.int64() * int64(timeUnitDuration(unit)); time.Unix(0, nanos)` — the product wraps -/
def ofUnitOld (u : TUnit) (v : BitVec 64) : Instant := ofUnit .nano (v * BitVec.ofNat 64 u.nanos)

/-! ## DATE -/

/-- SPEC: the day (UTC) that holds the instant, counted from 1970-01-01 -/
def dayOf (t : Instant) : Int := t.sec / 86400

/-- MIRROR of the repaired `daysSinceUnixEpoch` followed by the `int32(...)` conversion of its
    callers -/
def toDays (t : Instant) : BitVec 32 := BitVec.ofInt 32 (dayOf t)

/-- MIRROR of `dateType.AssignValue`: `time.Unix(int64(days)*86400, 0)` -/
def ofDays (d : BitVec 32) : Instant := ⟨d.toInt * 86400, 0⟩

/-- MIRROR of `daysSinceUnixEpoch` BEFORE the repair, `int(t.Sub(unixEpoch).Hours()) / 24`, for an
    instant exactly `h` hours from the epoch (then `Hours()` is exact in `float64`): `Sub` saturates
    at ±(2^63-1) ns, `int(..)` and `/` truncate toward zero -/
def toDaysOldHours (h : Int) : Int :=
  let d := h * 3600000000000
  let sat := if d > 9223372036854775807 then 9223372036854775807
             else if d < -9223372036854775808 then -9223372036854775808 else d
  Int.tdiv (Int.tdiv sat 3600000000000) 24

end PqModel.LogicalTime
