import PqModel.PoolProto

/-! # One generation of storage of a `memory.SliceBuffer` as a pool program

MIRROR of internal/memory/slice_buffer.go. A `SliceBuffer[T]` keeps its elements in ONE slice taken
from the process-wide bucket pools (`slicePools`, :30; `getSliceFromPool` :319-332 is the `Get`,
`putSliceToPool` :334-351 the `Put`). When the slice is full the buffer takes a slice of a larger
bucket, copies, and hands the old one back: a buffer that grows through m buckets uses m pooled
objects one after the other, and every one of them has the life

    Get · (appends into it) · (the ending that lets go of it)

which is a *program* of `PqModel.PoolProto` (k goroutines, any interleaving, sync.Pool as a bag).
The endings, with the touches of the OLD storage in source order:

* `grow`       reserve, "already using pooled storage" :94-102: `append(b.slice.data, b.data...)`
               READS the old storage (:98, `b.data` still aliases it), `oldSlice.data = b.data`
               (:99), `putSliceToPool(oldSlice)` (:100)
* `overflow`   reserve, beyond the last bucket :73-84: `copy(newData, b.data)` (:77), put (:79)
* `appendFunc` AppendFunc, fn reallocated :133-139: `b.slice.data = oldData` (:136), put (:137)
* `reset`      Reset :187-195: `b.slice.data = b.data` (:190), put (:192)
* `keep`       the buffer is dropped without Reset: the storage is garbage

`putFirst` is the order of seed C15-7a on the `grow` ending: the old slice is put back BEFORE its
content is copied into the new one. Independent buffers owned by different goroutines are
different programs; what they share is the pool. -/
namespace PqModel.PoolGrow
open PqModel.PoolProto

inductive Ending where
  | grow | overflow | appendFunc | reset | keep
deriving DecidableEq, Repr

def ending (e : Ending) (putFirst : Bool) : List Op :=
  match e with
  | .grow => if putFirst then [.use, .put, .use] else [.use, .use, .put]
  | .overflow => [.use, .put]
  | .appendFunc => [.use, .use, .put]
  | .reset => [.use, .put]
  | .keep => []

/-- one generation: `nApp` appends / reads by the owner, then the ending -/
def genProg (nApp : Nat) (e : Ending) (putFirst : Bool) : List Op :=
  List.replicate nApp .use ++ ending e putFirst

/-- the code as it is: every ending puts the storage back after its last touch -/
theorem genProg_disc (nApp : Nat) (e : Ending) : disc (genProg nApp e false) = true := by
  cases e <;> simp [genProg, ending, disc, disc_replicate_append, disc_replicate_use]

/-- put-before-copy is what `disc` rejects, whatever the fill -/
theorem growSlip_disc (nApp : Nat) : disc (genProg nApp .grow true) = false := by
  simp [genProg, ending, disc, disc_replicate_append]

/-- the other endings have no copy after their put: the flag changes nothing -/
theorem genProg_putFirst_other (nApp : Nat) (e : Ending) (h : e ≠ .grow) :
    genProg nApp e true = genProg nApp e false := by
  cases e <;> simp_all [genProg, ending]

end PqModel.PoolGrow
