import PqModel.Seek

/-! # Readers stacked on `FilePages` as refinement steps (C08)

`Machine` is the interface every `Pages` implementation of the library offers to the layer above:
a state, a step function for `SeekToRow` / `ReadPage`, an invariant and an abstraction map `pos`
to the reference reader (`PSpec`: a row counter over `total` rows whose position is undefined
between a failed read and the next seek). `FilePages` (the repaired mirror of `Seek.lean`) is an
instance (`filePages`); `rangePages` (row_range.go) and `multiPages` (multi_row_group.go) are
functions from machines to machines, so their refinement theorems compose. -/
namespace PqModel.SeekLayers
open PqModel.Seek (Op Chunk St)

universe u

/-- what a layer shows to the layer above: no page numbers -/
inductive ROut where
  | ok
  | err
  | eof
  | rows (start len : Nat)   -- a page holding rows start..start+len-1
  | fail                     -- the read failed (for instance ErrCorrupted)
deriving Repr, DecidableEq

/-- positions at or beyond the last row are all "at the end" -/
def SamePos (T k k' : Nat) : Prop := k' = k ∨ (T ≤ k ∧ T ≤ k')

/-- SPEC: one step of the reference reader over `T` rows standing before row `n` (`none`: a read
    failed and the position is undefined; nothing is required of reads until the next seek). -/
def PSpec (T : Nat) (n : Option Nat) (op : Op) (n' : Option Nat) (out : ROut) : Prop :=
  match op with
  | .seek k => (out = .ok ∧ ∃ k', n' = some k' ∧ SamePos T k k') ∨ (out = .err ∧ n' = n ∧ T < k)
  | .loadIndex => out = .ok ∧ n' = n
  | .readPage =>
    match n with
    | none => n' = none
    | some n =>
      match out with
      | .fail => n' = none
      | .eof => T ≤ n ∧ n' = some n
      | .rows st len => st = n ∧ 0 < len ∧ n + len ≤ T ∧ n' = some (n + len)
      | _ => False

structure Machine where
  σ : Type u
  step : σ → Op → σ × ROut
  inv : σ → Prop
  pos : σ → Option Nat
  total : Nat
  init : σ
  init_inv : inv init
  init_pos : pos init = some 0
  step_inv : ∀ s op, inv s → inv (step s op).1
  step_spec : ∀ s op, inv s → PSpec total (pos s) op (pos (step s op).1) (step s op).2

namespace Machine

def outs (m : Machine.{u}) : m.σ → List Op → List ROut
  | _, [] => []
  | s, op :: ops => (m.step s op).2 :: m.outs (m.step s op).1 ops

/-- SPEC for histories -/
inductive RunOK (T : Nat) : Option Nat → List Op → List ROut → Prop where
  | nil (n) : RunOK T n [] []
  | cons {n op n' out ops os} : PSpec T n op n' out → RunOK T n' ops os → RunOK T n (op :: ops) (out :: os)

theorem run_refines (m : Machine.{u}) : ∀ (ops : List Op) (s : m.σ), m.inv s →
    RunOK m.total (m.pos s) ops (m.outs s ops)
  | [], _, _ => RunOK.nil _
  | op :: ops, s, h => RunOK.cons (m.step_spec s op h) (run_refines m ops _ (m.step_inv s op h))

/-- every history of a machine, from its initial state, is a run of the reference reader -/
theorem history_refines (m : Machine.{u}) (ops : List Op) : RunOK m.total (some 0) ops (m.outs m.init ops) := by
  have := run_refines m ops m.init m.init_inv
  rwa [m.init_pos] at this

/-- the rows a reader standing at `pos` will still deliver -/
def abs {α} (m : Machine.{u}) (R : List α) (s : m.σ) : Option (List α) := (m.pos s).map R.drop

/-- the property in terms of row lists, for a reader in state `s` over the rows `R`: after a
    successful seek the reader delivers `R.drop k` (a refused seek changes nothing and is beyond
    the end); a read pops a non-empty prefix, or reports EOF exactly when nothing is left, or
    fails and leaves the position undefined -/
def Refines {α} (m : Machine.{u}) (R : List α) (s : m.σ) : Prop :=
    (∀ k, ((m.step s (.seek k)).2 = .ok ∧ m.abs R (m.step s (.seek k)).1 = some (R.drop k)) ∨
          ((m.step s (.seek k)).2 = .err ∧ m.abs R (m.step s (.seek k)).1 = m.abs R s ∧ R.length < k)) ∧
    (match m.abs R s, (m.step s .readPage).2 with
      | some rest, .rows st len => 0 < len ∧ st + len ≤ R.length ∧
          m.abs R (m.step s .readPage).1 = some (R.drop (st + len)) ∧ rest = (R.drop st).take len ++ R.drop (st + len)
      | some rest, .eof => rest = [] ∧ m.abs R (m.step s .readPage).1 = some []
      | some _, .fail => m.abs R (m.step s .readPage).1 = none
      | none, _ => m.abs R (m.step s .readPage).1 = none
      | _, _ => False)

theorem seek_refines {α} (m : Machine.{u}) (R : List α) (hR : R.length = m.total) (s : m.σ) (h : m.inv s) :
    m.Refines R s := by
  unfold Refines
  constructor
  · intro k
    have := m.step_spec s (.seek k) h
    rcases this with ⟨h1, k', h2, h3⟩ | ⟨h1, h2, h3⟩
    · refine Or.inl ⟨h1, ?_⟩
      simp only [abs, h2, Option.map_some]
      rcases h3 with rfl | ⟨a, b⟩
      · rfl
      · rw [List.drop_eq_nil_of_le (by omega), List.drop_eq_nil_of_le (by omega)]
    · exact Or.inr ⟨h1, by simp [abs, h2], by omega⟩
  · have := m.step_spec s .readPage h
    simp only [PSpec] at this
    cases hp : m.pos s with
    | none =>
      rw [hp] at this
      simp [abs, hp, this]
    | some n =>
      rw [hp] at this
      simp only [abs, hp, Option.map_some]
      cases ho : (m.step s .readPage).2 with
      | ok => simp [ho] at this
      | err => simp [ho] at this
      | fail => simp only [ho] at this; simp [this]
      | eof =>
        simp only [ho] at this
        obtain ⟨h1, h2⟩ := this
        simp only [h2, Option.map_some]
        exact ⟨List.drop_eq_nil_of_le (by omega), by rw [List.drop_eq_nil_of_le (by omega)]⟩
      | rows st len =>
        simp only [ho] at this
        obtain ⟨h1, h2, h3, h4⟩ := this
        subst h1
        refine ⟨h2, by omega, by simp [h4], ?_⟩
        rw [← List.drop_drop, List.take_append_drop]

/-- the states a machine can be in -/
inductive Reach (m : Machine.{u}) : m.σ → Prop where
  | init : Reach m m.init
  | step {s : m.σ} (op : Op) : Reach m s → Reach m (m.step s op).1

theorem reach_inv (m : Machine.{u}) (s : m.σ) (h : m.Reach s) : m.inv s := by
  induction h with
  | init => exact m.init_inv
  | step op _ ih => exact m.step_inv _ op ih

/-- a reader that accepts every `SeekToRow`: beyond the last row it simply stands at the end
    (`FilePages` over a chunk with pages, `multiPages`) -/
def Lenient (m : Machine.{u}) : Prop := ∀ s k, m.inv s → (m.step s (.seek k)).2 = .ok

/-- a reader that refuses every `SeekToRow` beyond its last row (`rangePages`) -/
def Strict (m : Machine.{u}) : Prop := ∀ s k, m.inv s → m.total < k → (m.step s (.seek k)).2 = .err

end Machine

/-! ### `FilePages` is a machine -/

def erase : Seek.Out → ROut
  | .ok => .ok
  | .err => .err
  | .eof => .eof
  | .page _ st len => .rows st len
  | .corrupt => .fail

theorem pspec_of_specOK (c : Chunk) (n : Option Nat) (op : Op) (n' : Option Nat) (out : Seek.Out)
    (h : Seek.SpecOK c n op n' out) : PSpec (Seek.total c) n op n' (erase out) := by
  cases op with
  | seek k =>
    rcases h with ⟨rfl, h2⟩ | ⟨rfl, h2, h3⟩
    · exact Or.inl ⟨rfl, k, h2, Or.inl rfl⟩
    · exact Or.inr ⟨rfl, h2, h3⟩
  | loadIndex => obtain ⟨rfl, h2⟩ := h; exact ⟨rfl, h2⟩
  | readPage =>
    simp only [Seek.SpecOK] at h
    simp only [PSpec]
    cases n with
    | none => exact h
    | some n =>
      cases out with
      | ok => exact absurd h (by simp)
      | err => exact absurd h (by simp)
      | corrupt => exact h.1
      | eof => exact h
      | page p st len =>
        obtain ⟨a, _, _, d, e, f, g, i⟩ := h
        simp only [erase]
        refine ⟨d, by omega, by omega, ?_⟩
        rw [f]; congr 1; omega

/-- the repaired `FilePages` over a chunk whose pages are non-empty -/
def filePages (c : Chunk) (hpos : ∀ r ∈ c.rows, 0 < r) (hi : Bool) : Machine where
  σ := St
  step s op := ((Seek.stepFixed c s op).1, erase (Seek.stepFixed c s op).2)
  inv := Seek.SInv c
  pos := Seek.npos c.rows
  total := Seek.total c
  init := Seek.init hi
  init_inv := Seek.init_inv c hi
  init_pos := Seek.npos_init c.rows hi
  step_inv s op h := Seek.stepFixed_inv c hpos s op h
  step_spec s op h := pspec_of_specOK c _ op _ _ (Seek.stepFixed_spec c hpos s op h)

/-! ### `rangePages` (row_range.go): a window `[off, off+len)` of a base reader -/

namespace Range

/-- what `SeekToRow` does with the base's answer: `remaining = length - k` on success -/
def seekK {σ : Type u} (len k rem : Nat) (r1 : σ) : ROut → (σ × Nat) × ROut
  | .ok => ((r1, len - k), .ok)
  | o => ((r1, rem), o)

/-- MIRROR of `rangePages.SeekToRow` (row_range.go:149-158): refuse beyond the window, seek the
    base to `off + k` -/
def seek (b : Machine.{u}) (off len : Nat) (s : b.σ × Nat) (k : Nat) : (b.σ × Nat) × ROut :=
  if len < k then (s, .err) else
  seekK len k s.2 (b.step s.1 (.seek (off + k))).1 (b.step s.1 (.seek (off + k))).2

/-- what `ReadPage` does with the base's answer: count the page, cut the last one with
    `Slice(0, remaining)`; the start is reported in window coordinates -/
def readK {σ : Type u} (off rem : Nat) (r1 : σ) : ROut → (σ × Nat) × ROut
  | .rows st n => if n ≤ rem then ((r1, rem - n), .rows (st - off) n) else ((r1, 0), .rows (st - off) rem)
  | o => ((r1, rem), o)

/-- MIRROR of `rangePages.ReadPage` (row_range.go:123-145): EOF once `remaining` is used up -/
def read (b : Machine.{u}) (off : Nat) (s : b.σ × Nat) : (b.σ × Nat) × ROut :=
  if s.2 = 0 then (s, .eof) else
  readK off s.2 (b.step s.1 .readPage).1 (b.step s.1 .readPage).2

def step (b : Machine.{u}) (off len : Nat) (s : b.σ × Nat) : Op → (b.σ × Nat) × ROut
  | .seek k => seek b off len s k
  | .readPage => read b off s
  | .loadIndex => (((b.step s.1 .loadIndex).1, s.2), .ok)

/-- abstraction: position inside the window -/
def pos (b : Machine.{u}) (len : Nat) (s : b.σ × Nat) : Option Nat :=
  match b.pos s.1 with
  | none => none
  | some _ => if s.2 = 0 then some len else some (len - s.2)

def inv (b : Machine.{u}) (off len : Nat) (s : b.σ × Nat) : Prop :=
  b.inv s.1 ∧ s.2 ≤ len ∧ (0 < s.2 → ∀ p, b.pos s.1 = some p → p = off + (len - s.2))

theorem base_seek_ok (b : Machine.{u}) (s : b.σ) (h : b.inv s) (k : Nat) (hk : k ≤ b.total) :
    (b.step s (.seek k)).2 = .ok ∧ ∃ k', b.pos (b.step s (.seek k)).1 = some k' ∧ SamePos b.total k k' := by
  rcases b.step_spec s (.seek k) h with ⟨h1, h2⟩ | ⟨_, _, h3⟩
  · exact ⟨h1, h2⟩
  · omega

theorem seek_spec (b : Machine.{u}) (off len : Nat) (hwin : off + len ≤ b.total) (s : b.σ × Nat) (k : Nat)
    (h : inv b off len s) :
    inv b off len (seek b off len s k).1 ∧
    PSpec len (pos b len s) (.seek k) (pos b len (seek b off len s k).1) (seek b off len s k).2 := by
  obtain ⟨h1, h2, h3⟩ := h
  unfold seek
  split
  · rename_i hk
    exact ⟨⟨h1, h2, h3⟩, Or.inr ⟨rfl, rfl, hk⟩⟩
  · rename_i hk
    obtain ⟨ho, k', hp, hsame⟩ := base_seek_ok b s.1 h1 (off + k) (by omega)
    have hinv := b.step_inv s.1 (.seek (off + k)) h1
    rw [ho]
    simp only [seekK]
    refine ⟨⟨hinv, by simp, ?_⟩, Or.inl ⟨rfl, k, ?_, Or.inl rfl⟩⟩
    · intro hr p hp'
      simp only [] at hr hp'
      rw [hp] at hp'
      cases hp'
      rcases hsame with rfl | ⟨a, _⟩
      · simp; omega
      · omega
    · simp only [pos, hp]
      split
      · rename_i h0
        have : len - k = 0 := h0
        congr 1; omega
      · congr 1; omega

theorem read_spec (b : Machine.{u}) (off len : Nat) (hwin : off + len ≤ b.total) (s : b.σ × Nat)
    (h : inv b off len s) :
    inv b off len (read b off s).1 ∧
    PSpec len (pos b len s) .readPage (pos b len (read b off s).1) (read b off s).2 := by
  obtain ⟨h1, h2, h3⟩ := h
  unfold read
  split
  · rename_i h0
    refine ⟨⟨h1, h2, h3⟩, ?_⟩
    simp only [PSpec, pos, h0]
    cases b.pos s.1 with
    | none => rfl
    | some p => simp
  · rename_i h0
    have hrem : 0 < s.2 := by omega
    have hspec := b.step_spec s.1 .readPage h1
    have hinv := b.step_inv s.1 .readPage h1
    simp only [PSpec] at hspec
    generalize b.step s.1 .readPage = r at hspec hinv ⊢
    obtain ⟨r1, o⟩ := r
    simp only [] at hspec hinv ⊢
    cases hp : b.pos s.1 with
    | none =>
      rw [hp] at hspec
      simp only [] at hspec
      -- the base has lost its position: whatever comes out, the window position stays undefined
      have hnone : ∀ rem, pos b len (r1, rem) = none := by
        intro rem; simp [pos, hspec]
      have hvac : ∀ rem : Nat, 0 < rem → ∀ p, b.pos r1 = some p → p = off + (len - rem) := by
        intro rem _ p hp'; rw [hspec] at hp'; cases hp'
      simp only [PSpec, pos, hp]
      cases o with
      | rows st n =>
        simp only [readK]
        split
        · exact ⟨⟨hinv, by simp; omega, hvac _⟩, hnone _⟩
        · exact ⟨⟨hinv, by simp, hvac _⟩, hnone _⟩
      | ok => exact ⟨⟨hinv, h2, hvac _⟩, hnone _⟩
      | err => exact ⟨⟨hinv, h2, hvac _⟩, hnone _⟩
      | eof => exact ⟨⟨hinv, h2, hvac _⟩, hnone _⟩
      | fail => exact ⟨⟨hinv, h2, hvac _⟩, hnone _⟩
    | some p =>
      rw [hp] at hspec
      simp only [] at hspec
      have hpw : p = off + (len - s.2) := h3 hrem p hp
      have hposs : pos b len s = some (len - s.2) := by simp [pos, hp, h0]
      rw [hposs]
      cases o with
      | ok => simp at hspec
      | err => simp at hspec
      | eof =>
        simp only [] at hspec
        omega
      | fail =>
        simp only [] at hspec
        simp only [readK]
        refine ⟨⟨hinv, h2, fun _ q hq => by rw [hspec] at hq; cases hq⟩, ?_⟩
        simp [PSpec, pos, hspec]
      | rows st n =>
        simp only [] at hspec
        obtain ⟨e1, e2, e3, e4⟩ := hspec
        simp only [readK]
        split
        · rename_i hle
          refine ⟨⟨hinv, by simp; omega, ?_⟩, ?_⟩
          · intro _ q hq
            simp only [] at hq
            rw [e4] at hq
            simp at hq ⊢
            omega
          · simp only [PSpec, pos, e4]
            refine ⟨by omega, e2, by omega, ?_⟩
            split
            · rename_i hz; simp at hz ⊢; omega
            · simp; omega
        · rename_i hgt
          refine ⟨⟨hinv, by simp, fun h => by simp at h⟩, ?_⟩
          simp only [PSpec, pos, e4]
          refine ⟨by omega, hrem, by omega, ?_⟩
          simp; omega

end Range

/-- `rangePages` over any base reader: rows `[off, off+len)` of the base -/
def rangeM (b : Machine.{u}) (off len : Nat) (hwin : off + len ≤ b.total) : Machine.{u} where
  σ := b.σ × Nat
  step := Range.step b off len
  inv := Range.inv b off len
  pos := Range.pos b len
  total := len
  init := ((b.step b.init (.seek off)).1, len)
  init_inv := by
    obtain ⟨_, k', hp, hsame⟩ := Range.base_seek_ok b b.init b.init_inv off (by omega)
    refine ⟨b.step_inv _ _ b.init_inv, Nat.le_refl _, ?_⟩
    intro hr p hp'
    simp only [] at hr hp'
    rw [hp] at hp'
    cases hp'
    rcases hsame with rfl | ⟨a, _⟩
    · simp
    · omega
  init_pos := by
    obtain ⟨_, k', hp, _⟩ := Range.base_seek_ok b b.init b.init_inv off (by omega)
    simp only [Range.pos, hp]
    split
    · rename_i h
      have h' : len = 0 := h
      rw [h']
    · simp
  step_inv s op h := by
    cases op with
    | seek k => exact (Range.seek_spec b off len hwin s k h).1
    | readPage => exact (Range.read_spec b off len hwin s h).1
    | loadIndex =>
      obtain ⟨h1, h2, h3⟩ := h
      have hs := b.step_spec s.1 .loadIndex h1
      exact ⟨b.step_inv _ _ h1, h2, fun hr p hp => h3 hr p (by rw [← hs.2]; exact hp)⟩
  step_spec s op h := by
    cases op with
    | seek k => exact (Range.seek_spec b off len hwin s k h).2
    | readPage => exact (Range.read_spec b off len hwin s h).2
    | loadIndex =>
      have hs := b.step_spec s.1 .loadIndex h.1
      refine ⟨rfl, ?_⟩
      show Range.pos b len ((b.step s.1 .loadIndex).1, s.2) = Range.pos b len s
      simp only [Range.pos, hs.2]


/-! ### `multiPages` (multi_row_group.go): the chunks of several row groups back to back -/

namespace Multi

/-- an open `Pages` of one chunk -/
structure Running.{v} where
  m : Machine.{v}
  s : m.σ

structure MSt.{v} where
  index : Nat            -- m.index: the next chunk to open
  cur : Option Running.{v}   -- m.pages
  lost : Bool            -- ghost: a read of a chunk failed since the last seek

/-- first row of chunk `i` (`rowCounts` summed) -/
def offset (ms : List Machine.{u}) (i : Nat) : Nat := ((ms.take i).map (·.total)).sum

def total (ms : List Machine.{u}) : Nat := offset ms ms.length

/-- MIRROR of the chunk scan of `multiPages.SeekToRow` (multi_row_group.go:551-563):
    `(chunk index, row index inside the chunk)`; the index is `len` when `k` is beyond the end -/
def locate : List Machine.{u} → Nat → Nat × Nat
  | [], k => (0, k)
  | m :: rest, k =>
    if k < m.total then (0, k) else ((locate rest (k - m.total)).1 + 1, (locate rest (k - m.total)).2)

/-- MIRROR of `multiPages.SeekToRow`: close, locate the chunk, open it and seek inside it -/
def seek (ms : List Machine.{u}) (k : Nat) : MSt.{u} × ROut :=
  match ms[(locate ms k).1]? with
  | some m =>
    ({ index := (locate ms k).1 + 1, cur := some ⟨m, (m.step m.init (.seek (locate ms k).2)).1⟩, lost := false },
     (m.step m.init (.seek (locate ms k).2)).2)
  | none => ({ index := (locate ms k).1, cur := none, lost := false }, .ok)

/-- what `ReadPage` does with the answer of the open chunk: EOF closes it (`inr`: go on with the
    next chunk), anything else is returned (rows in global coordinates) -/
def afterRead (ms : List Machine.{u}) (s : MSt.{u}) (m : Machine.{u}) (s1 : m.σ) : ROut → (MSt.{u} × ROut) ⊕ MSt.{u}
  | .eof => .inr { s with cur := none, lost := s.lost || (m.pos s1).isNone }
  | .rows st n => .inl ({ s with cur := some ⟨m, s1⟩, lost := s.lost || (m.pos s1).isNone },
                        .rows (offset ms (s.index - 1) + st) n)
  | o => .inl ({ s with cur := some ⟨m, s1⟩, lost := s.lost || (m.pos s1).isNone }, o)

/-- MIRROR of the loop of `multiPages.ReadPage` (multi_row_group.go:513-530) -/
def readLoop (ms : List Machine.{u}) : Nat → MSt.{u} → MSt.{u} × ROut
  | 0, s => (s, .eof)
  | fuel + 1, s =>
    match s.cur with
    | some r =>
      match afterRead ms s r.m (r.m.step r.s .readPage).1 (r.m.step r.s .readPage).2 with
      | .inl res => res
      | .inr s' => readLoop ms fuel s'
    | none =>
      match ms[s.index]? with
      | none => (s, .eof)
      | some m => readLoop ms fuel { s with index := s.index + 1, cur := some ⟨m, m.init⟩ }

def step (ms : List Machine.{u}) (s : MSt.{u}) : Op → MSt.{u} × ROut
  | .seek k => seek ms k
  | .readPage => readLoop ms (2 * ms.length + 2) s
  | .loadIndex => (s, .ok)

/-- abstraction: global row position -/
def pos (ms : List Machine.{u}) (s : MSt.{u}) : Option Nat :=
  if s.lost then none else
  match s.cur with
  | none => some (offset ms s.index)
  | some r => (r.m.pos r.s).map (offset ms (s.index - 1) + ·)

def inv (ms : List Machine.{u}) (s : MSt.{u}) : Prop :=
  s.index ≤ ms.length ∧
  ∀ r, s.cur = some r → 0 < s.index ∧ r.m.inv r.s ∧
    (∃ m, ms[s.index - 1]? = some m ∧ r.m.total = m.total) ∧
    (s.lost = false → ∃ p, r.m.pos r.s = some p ∧ p ≤ r.m.total)

theorem offset_succ (ms : List Machine.{u}) (i : Nat) (m : Machine.{u}) (h : ms[i]? = some m) :
    offset ms (i + 1) = offset ms i + m.total := by
  induction ms generalizing i with
  | nil => simp at h
  | cons a rest ih =>
    cases i with
    | zero => simp at h; subst h; simp [offset]
    | succ i =>
      have h' : rest[i]? = some m := by simpa using h
      have := ih i h'
      simp only [offset, List.take_succ_cons, List.map_cons, List.sum_cons] at this ⊢
      omega

theorem offset_mono (ms : List Machine.{u}) (i : Nat) : offset ms i ≤ offset ms (i + 1) := by
  cases h : ms[i]? with
  | some m => rw [offset_succ ms i m h]; omega
  | none =>
    have hl : ms.length ≤ i := by
      rcases Nat.lt_or_ge i ms.length with a | a
      · simp [List.getElem?_eq_getElem a] at h
      · exact a
    simp [offset, List.take_of_length_le hl, List.take_of_length_le (show ms.length ≤ i + 1 by omega)]

theorem offset_le_total (ms : List Machine.{u}) (i : Nat) : offset ms i ≤ total ms := by
  rcases Nat.lt_or_ge i ms.length with a | a
  · have : ∀ d, offset ms i ≤ offset ms (i + d) := by
      intro d
      induction d with
      | zero => exact Nat.le_refl _
      | succ d ih => exact Nat.le_trans ih (offset_mono ms (i + d))
    have := this (ms.length - i)
    rwa [show i + (ms.length - i) = ms.length by omega] at this
  · simp [offset, total, List.take_of_length_le a]

theorem locate_spec : ∀ (ms : List Machine.{u}) (k : Nat),
    (locate ms k).1 ≤ ms.length ∧
    (∀ m, ms[(locate ms k).1]? = some m → (locate ms k).2 < m.total ∧ offset ms (locate ms k).1 + (locate ms k).2 = k) ∧
    (ms[(locate ms k).1]? = none → total ms ≤ k)
  | [], k => by simp [locate, total, offset]
  | a :: rest, k => by
    simp only [locate]
    split
    · rename_i h
      refine ⟨by simp, ?_, by simp⟩
      intro m hm
      simp at hm; subst hm
      exact ⟨h, by simp [offset]⟩
    · rename_i h
      obtain ⟨h1, h2, h3⟩ := locate_spec rest (k - a.total)
      refine ⟨by simp; omega, ?_, ?_⟩
      · intro m hm
        have hm' : rest[(locate rest (k - a.total)).1]? = some m := by simpa using hm
        obtain ⟨e1, e2⟩ := h2 m hm'
        refine ⟨e1, ?_⟩
        simp only [offset, List.take_succ_cons, List.map_cons, List.sum_cons] at e2 ⊢
        omega
      · intro hm
        have hm' : rest[(locate rest (k - a.total)).1]? = none := by simpa using hm
        have := h3 hm'
        simp only [total, offset, List.length_cons, List.take_succ_cons, List.map_cons, List.sum_cons] at this ⊢
        omega

theorem seek_spec (ms : List Machine.{u}) (s : MSt.{u}) (k : Nat) :
    inv ms (seek ms k).1 ∧ PSpec (total ms) (pos ms s) (.seek k) (pos ms (seek ms k).1) (seek ms k).2 := by
  obtain ⟨h1, h2, h3⟩ := locate_spec ms k
  unfold seek
  cases hm : ms[(locate ms k).1]? with
  | none =>
    simp only []
    refine ⟨⟨h1, by intro r hr; cases hr⟩, Or.inl ⟨rfl, total ms, ?_, Or.inr ⟨h3 hm, Nat.le_refl _⟩⟩⟩
    have hl : ms.length ≤ (locate ms k).1 := by
      rcases Nat.lt_or_ge (locate ms k).1 ms.length with a | a
      · simp [List.getElem?_eq_getElem a] at hm
      · exact a
    simp [pos, total, offset, List.take_of_length_le hl]
  | some m =>
    simp only []
    obtain ⟨e1, e2⟩ := h2 m hm
    have hlt : (locate ms k).1 < ms.length := by
      rcases Nat.lt_or_ge (locate ms k).1 ms.length with a | a
      · exact a
      · simp [List.getElem?_eq_none a] at hm
    have hspec := m.step_spec m.init (.seek (locate ms k).2) m.init_inv
    have hinv := m.step_inv m.init (.seek (locate ms k).2) m.init_inv
    rcases hspec with ⟨ho, k', hp, hsame⟩ | ⟨_, _, hbad⟩
    · have hk' : k' = (locate ms k).2 := by
        rcases hsame with a | ⟨a, _⟩
        · exact a
        · omega
      subst hk'
      refine ⟨⟨by simp; omega, ?_⟩, Or.inl ⟨ho, k, ?_, Or.inl rfl⟩⟩
      · intro r hr
        simp at hr
        subst hr
        exact ⟨by simp, hinv, ⟨m, by simpa using hm, rfl⟩, fun _ => ⟨_, hp, by show (locate ms k).2 ≤ m.total; omega⟩⟩
      · simp only [pos, Bool.false_eq_true, if_false, hp, Option.map_some, Nat.add_sub_cancel]
        rw [e2]
    · omega

theorem afterRead_spec (ms : List Machine.{u}) (s : MSt.{u}) (r : Running.{u}) (hc : s.cur = some r) (h : inv ms s) :
    match afterRead ms s r.m (r.m.step r.s .readPage).1 (r.m.step r.s .readPage).2 with
    | .inl res => inv ms res.1 ∧ PSpec (total ms) (pos ms s) .readPage (pos ms res.1) res.2
    | .inr s' => inv ms s' ∧ pos ms s' = pos ms s ∧ s'.cur = none ∧ s'.index = s.index := by
  obtain ⟨hi, hcur⟩ := h
  obtain ⟨hidx, hrinv, ⟨m0, hm0, htot⟩, hpos⟩ := hcur r hc
  have hspec := r.m.step_spec r.s .readPage hrinv
  have hinv := r.m.step_inv r.s .readPage hrinv
  simp only [PSpec] at hspec
  generalize r.m.step r.s .readPage = x at hspec hinv ⊢
  obtain ⟨s1, o⟩ := x
  simp only [] at hspec hinv ⊢
  have hoff : offset ms (s.index - 1) + m0.total = offset ms s.index := by
    have := offset_succ ms (s.index - 1) m0 hm0
    rw [show s.index - 1 + 1 = s.index by omega] at this
    omega
  have hoffT := offset_le_total ms s.index
  -- new invariant for the "keep the chunk open" results
  have keep : ∀ l', (l' = false → ∃ p, r.m.pos s1 = some p ∧ p ≤ r.m.total) →
      inv ms { s with cur := some ⟨r.m, s1⟩, lost := l' } := by
    intro l' hl'
    refine ⟨hi, ?_⟩
    intro r' hr'
    simp at hr'
    subst hr'
    exact ⟨hidx, hinv, ⟨m0, hm0, htot⟩, hl'⟩
  cases hl : s.lost with
  | true =>
    -- position undefined before and after
    have hp0 : pos ms s = none := by simp [pos, hl]
    cases o with
    | eof =>
      simp only [afterRead, hl, Bool.true_or]
      refine ⟨⟨hi, by intro r' hr'; cases hr'⟩, ?_, trivial, trivial⟩
      simp [pos, hl]
    | rows st n =>
      simp only [afterRead, hl, Bool.true_or]
      exact ⟨keep true (by intro h; cases h), by simp [PSpec, pos, hl]⟩
    | ok => simp only [afterRead, hl, Bool.true_or]; exact ⟨keep true (by intro h; cases h), by simp [PSpec, pos, hl]⟩
    | err => simp only [afterRead, hl, Bool.true_or]; exact ⟨keep true (by intro h; cases h), by simp [PSpec, pos, hl]⟩
    | fail => simp only [afterRead, hl, Bool.true_or]; exact ⟨keep true (by intro h; cases h), by simp [PSpec, pos, hl]⟩
  | false =>
    obtain ⟨p, hp, hple⟩ := hpos hl
    rw [hp] at hspec
    simp only [] at hspec
    have hp0 : pos ms s = some (offset ms (s.index - 1) + p) := by simp [pos, hl, hc, hp]
    rw [hp0]
    cases o with
    | ok => simp at hspec
    | err => simp at hspec
    | eof =>
      simp only [] at hspec
      obtain ⟨e1, e2⟩ := hspec
      simp only [afterRead, hl, Bool.false_or, e2, Option.isNone_some]
      refine ⟨⟨hi, by intro r' hr'; cases hr'⟩, ?_, trivial, trivial⟩
      simp only [pos, Bool.false_eq_true, if_false]
      congr 1
      omega
    | fail =>
      simp only [] at hspec
      simp only [afterRead, hl, Bool.false_or, hspec, Option.isNone_none]
      exact ⟨keep true (by intro h; cases h), by simp [PSpec, pos]⟩
    | rows st n =>
      simp only [] at hspec
      obtain ⟨e1, e2, e3, e4⟩ := hspec
      simp only [afterRead, hl, Bool.false_or, e4, Option.isNone_some]
      refine ⟨keep false (fun _ => ⟨_, e4, e3⟩), ?_⟩
      simp only [PSpec, pos, Bool.false_eq_true, if_false, e4, Option.map_some]
      refine ⟨by omega, e2, by omega, ?_⟩
      congr 1
      omega

theorem readLoop_spec (ms : List Machine.{u}) : ∀ (fuel : Nat) (s : MSt.{u}), inv ms s →
    2 * (ms.length - s.index) + (if s.cur.isSome then 1 else 0) < fuel →
    inv ms (readLoop ms fuel s).1 ∧
    PSpec (total ms) (pos ms s) .readPage (pos ms (readLoop ms fuel s).1) (readLoop ms fuel s).2
  | 0, s, _, hf => by omega
  | fuel + 1, s, h, hf => by
    simp only [readLoop]
    cases hc : s.cur with
    | some r =>
      simp only []
      have ha := afterRead_spec ms s r hc h
      cases hres : afterRead ms s r.m (r.m.step r.s .readPage).1 (r.m.step r.s .readPage).2 with
      | inl res => rw [hres] at ha; exact ha
      | inr s' =>
        rw [hres] at ha
        obtain ⟨a1, a2, a3, a4⟩ := ha
        simp only []
        have := readLoop_spec ms fuel s' a1 (by
          simp only [a3, a4, Option.isSome_none, Bool.false_eq_true, if_false]
          simp only [hc, Option.isSome_some, if_true] at hf
          omega)
        rw [a2] at this
        exact this
    | none =>
      simp only []
      cases hm : ms[s.index]? with
      | none =>
        simp only []
        refine ⟨h, ?_⟩
        have hl : ms.length ≤ s.index := by
          rcases Nat.lt_or_ge s.index ms.length with a | a
          · simp [List.getElem?_eq_getElem a] at hm
          · exact a
        simp only [PSpec, pos, hc]
        cases s.lost with
        | true => simp
        | false =>
          simp only [Bool.false_eq_true, if_false]
          refine ⟨?_, trivial⟩
          simp [total, offset, List.take_of_length_le hl]
      | some m =>
        simp only []
        have hlt : s.index < ms.length := by
          rcases Nat.lt_or_ge s.index ms.length with a | a
          · exact a
          · simp [List.getElem?_eq_none a] at hm
        have hinv' : inv ms { s with index := s.index + 1, cur := some ⟨m, m.init⟩ } := by
          refine ⟨by simp; omega, ?_⟩
          intro r hr
          simp at hr
          subst hr
          exact ⟨by simp, m.init_inv, ⟨m, by simpa using hm, rfl⟩, fun _ => ⟨0, m.init_pos, Nat.zero_le _⟩⟩
        have hpos' : pos ms { s with index := s.index + 1, cur := some ⟨m, m.init⟩ } = pos ms s := by
          simp only [pos, hc, m.init_pos, Option.map_some, Nat.add_sub_cancel, Nat.add_zero]
        have := readLoop_spec ms fuel _ hinv' (by
          simp only [Option.isSome_some, if_true]
          simp only [hc, Option.isSome_none, Bool.false_eq_true, if_false] at hf
          omega)
        rw [hpos'] at this
        exact this

end Multi

/-- `multiPages` over the chunk readers of several row groups -/
def multiM (ms : List Machine.{u}) : Machine.{u+1} where
  σ := Multi.MSt.{u}
  step := Multi.step ms
  inv := Multi.inv ms
  pos := Multi.pos ms
  total := Multi.total ms
  init := { index := 0, cur := none, lost := false }
  init_inv := ⟨Nat.zero_le _, by intro r hr; cases hr⟩
  init_pos := by simp [Multi.pos, Multi.offset]
  step_inv s op h := by
    cases op with
    | seek k => exact (Multi.seek_spec ms s k).1
    | readPage =>
      refine (Multi.readLoop_spec ms _ s h ?_).1
      have := h.1
      split <;> omega
    | loadIndex => exact h
  step_spec s op h := by
    cases op with
    | seek k => exact (Multi.seek_spec ms s k).2
    | readPage =>
      refine (Multi.readLoop_spec ms _ s h ?_).2
      have := h.1
      split <;> omega
    | loadIndex => exact ⟨rfl, rfl⟩


/-! ### how the readers answer a seek beyond the last row -/

theorem seekFixed_ok (c : Chunk) (s : St) (k : Nat) (hne : c.rows ≠ []) : (Seek.seekFixed c s k).2 = .ok := by
  have hemp : c.rows.isEmpty = false := by
    cases h : c.rows with
    | nil => exact absurd h hne
    | cons _ _ => rfl
  unfold Seek.seekFixed
  simp only [hemp]
  split
  · rfl
  · simp only [Bool.false_eq_true, if_false]
    split <;> (repeat' split) <;> rfl

/-- `FilePages` over a chunk that has pages accepts every seek -/
theorem filePages_lenient (c : Chunk) (hpos : ∀ r ∈ c.rows, 0 < r) (hi : Bool) (hne : c.rows ≠ []) :
    (filePages c hpos hi).Lenient := by
  intro s k _
  show erase (Seek.stepFixed c s (.seek k)).2 = .ok
  simp only [Seek.stepFixed, seekFixed_ok c s k hne, erase]

/-- a row-range view refuses seeks beyond its window -/
theorem rangeM_strict (b : Machine.{u}) (off len : Nat) (hwin : off + len ≤ b.total) :
    (rangeM b off len hwin).Strict := by
  intro s k _ hk
  have hk' : len < k := hk
  show (Range.seek b off len s k).2 = .err
  simp only [Range.seek, hk', if_true]

/-- `multiPages` accepts every seek -/
theorem multiM_lenient (ms : List Machine.{u}) : (multiM ms).Lenient := by
  intro s k _
  show (Multi.seek ms k).2 = .ok
  obtain ⟨_, h2, _⟩ := Multi.locate_spec ms k
  unfold Multi.seek
  cases hm : ms[(Multi.locate ms k).1]? with
  | none => rfl
  | some m =>
    simp only []
    obtain ⟨e1, _⟩ := h2 m hm
    rcases m.step_spec m.init (.seek (Multi.locate ms k).2) m.init_inv with ⟨ho, _⟩ | ⟨_, _, hbad⟩
    · exact ho
    · omega


end PqModel.SeekLayers
