import PqModel.SeekBytes

/-! # A dictionary page met again in the page stream (C08, foreign chunk layouts)

`SeekBytes.lean` covers `SeekToRow` with an offset index. Without one, `SeekToRow` rewinds the
section to `data_page_offset`; in a chunk whose metadata records no `dictionary_page_offset`
(parquet-mr / impala style) that is the dictionary page, and `FilePages.ReadDictionary()` before the
first `ReadPage` leaves the stream on the dictionary page as well. In both cases
`readPageInSequence` decodes the header of a dictionary page while `f.dictionary != nil` and has to
step over its body.

* MIRROR: `nextPage` (file.go `readPageInSequence`, the loop from `header = new(format.PageHeader)`
  to the page switch, plain (not encrypted) path), byte bookkeeping only. `SkipBy` selects the header
  field given to `f.rbuf.Discard`: the code uses `CompressedPageSize` (`.compressed`).
* SPEC: `Layout.specLocs` — where the data pages really are. -/
namespace PqModel.SeekForeign
open PqModel.Layout

/-- the header field handed to `rbuf.Discard` when a dictionary page is skipped -/
inductive SkipBy where
  | compressed
  | uncompressed
deriving DecidableEq, Repr

def skipLen : SkipBy → PageOp → Nat
  | .compressed, p => p.bodyLen
  | .uncompressed, p => p.uncompLen

/-- MIRROR of the loop of `readPageInSequence`: `off` is the offset of the next byte the decoder
    sees, `ps` the pages laid out from there, `cached` is `f.dictionary != nil`. A dictionary page is
    skipped (`Discard`) when the dictionary is cached, read and decoded otherwise; the first data page
    is returned. Result: the offset at which the header of the returned page was decoded, the page,
    and the offset of the byte behind it. -/
def nextPage (sk : SkipBy) : Bool → Nat → List PageOp → Option (Nat × PageOp × Nat)
  | _, _, [] => none
  | cached, off, p :: ps =>
    if p.isDict then
      if cached then nextPage sk true (off + p.hdrLen + skipLen sk p) ps
      else nextPage sk true (off + p.hdrLen + p.bodyLen) ps
    else some (off, p, off + p.hdrLen + p.bodyLen)

/-- the header decoded for the page that is returned sits on the first byte of the first data page -/
theorem nextPage_offset (cached : Bool) (start row : Nat) (ps : List PageOp) :
    (nextPage .compressed cached start ps).map (·.1) = ((specLocs start row ps).head?).map (·.offset) := by
  induction ps generalizing cached start with
  | nil => simp [nextPage, specLocs]
  | cons p ps ih =>
    cases hd : p.isDict with
    | true =>
      cases cached with
      | true =>
        simp only [nextPage, specLocs, hd, if_true, skipLen]
        have := ih true (start + p.size)
        simpa [PageOp.size, Nat.add_assoc] using this
      | false =>
        simp only [nextPage, specLocs, hd, if_true]
        have := ih true (start + p.size)
        simpa [PageOp.size, Nat.add_assoc] using this
    | false => simp [nextPage, specLocs, hd]

/-- the page returned is a data page and the stream is left on the byte behind it -/
theorem nextPage_after (sk : SkipBy) (cached : Bool) (start : Nat) (ps : List PageOp)
    (r : Nat × PageOp × Nat) (h : nextPage sk cached start ps = some r) :
    r.2.1.isDict = false ∧ r.2.2 = r.1 + r.2.1.size := by
  induction ps generalizing cached start with
  | nil => simp [nextPage] at h
  | cons p ps ih =>
    cases hd : p.isDict with
    | true =>
      simp only [nextPage, hd, if_true] at h
      split at h
      · exact ih _ _ h
      · exact ih _ _ h
    | false =>
      simp only [nextPage, hd, Bool.false_eq_true, if_false, Option.some.injEq] at h
      subst h
      exact ⟨hd, by simp [PageOp.size, Nat.add_assoc]⟩

/-- when every dictionary page announces equal compressed and uncompressed sizes (an uncompressed
    chunk) the two header fields cannot be told apart -/
theorem skip_fields_agree (cached : Bool) (start : Nat) (ps : List PageOp)
    (h : ∀ p ∈ ps, p.isDict = true → p.uncompLen = p.bodyLen) :
    nextPage .uncompressed cached start ps = nextPage .compressed cached start ps := by
  induction ps generalizing cached start with
  | nil => simp [nextPage]
  | cons p ps ih =>
    have ht : ∀ q ∈ ps, q.isDict = true → q.uncompLen = q.bodyLen := fun q hq => h q (List.mem_cons_of_mem _ hq)
    cases hd : p.isDict with
    | true =>
      have he := h p (List.mem_cons_self) hd
      simp only [nextPage, hd, if_true, skipLen, he]
      split
      · exact ih _ _ ht
      · exact ih _ _ ht
    | false => simp [nextPage, hd]

end PqModel.SeekForeign
