/-! # Page-index section of the file tail (C02)

MIRROR of the two loops of `writeFileFooter` (`writer.go:1357-1413`): every column index that
exists is written (row groups in order, columns in order) and its `ColumnIndexOffset` /
`ColumnIndexLength` recorded from the running file offset; then every offset index likewise.
The mirror works with the running offset exactly like the Go code (`w.writer.offset`); the SPEC
side is positional ("where the bytes really are": prefix sums of the encoded lengths). The theorems
say the two agree for every sequence of chunks, that the section is gap-free and that no two
indexes overlap. What is encoded (thrift) is the business of `ThriftWrite`; here an index is its
encoded length. -/
namespace PqModel.FooterLayout

/-- one column chunk as the page-index loops see it: the encoded length of its column index
    (`none`: `len(NullPages) == 0`, no column index is written) and of its offset index -/
structure IdxOp where
  ci : Option Nat
  oi : Nat
deriving Repr, DecidableEq

/-- the four footer numbers of one chunk (`0, 0` = absent, as in the thrift struct) -/
structure IdxLoc where
  ciOff : Nat := 0
  ciLen : Nat := 0
  oiOff : Nat := 0
  oiLen : Nat := 0
deriving Repr, DecidableEq

/-- MIRROR writer.go:1357-1385: first loop. Returns the chunks' locations (column index part) and
    the running offset after the loop. -/
def writeColumnIndexes (off : Nat) : List IdxOp → List IdxLoc × Nat
  | [] => ([], off)
  | op :: ops =>
    match op.ci with
    | none =>
      let (ls, e) := writeColumnIndexes off ops
      ({} :: ls, e)
    | some n =>
      -- column.ColumnIndexOffset = w.writer.offset; encode; ColumnIndexLength = offset - ColumnIndexOffset
      let off' := off + n
      let (ls, e) := writeColumnIndexes off' ops
      ({ ciOff := off, ciLen := off' - off } :: ls, e)

/-- MIRROR writer.go:1387-1413: second loop, filling the offset index part -/
def writeOffsetIndexes (off : Nat) : List IdxOp → List IdxLoc → List IdxLoc × Nat
  | op :: ops, l :: ls =>
    let off' := off + op.oi
    let (rs, e) := writeOffsetIndexes off' ops ls
    ({ l with oiOff := off, oiLen := off' - off } :: rs, e)
  | _, _ => ([], off)

/-- the page-index section written at file offset `start` -/
def indexLayout (start : Nat) (ops : List IdxOp) : List IdxLoc × Nat :=
  let (ls, mid) := writeColumnIndexes start ops
  writeOffsetIndexes mid ops ls

/-! ## positional specification -/

def ciBytes (ops : List IdxOp) : Nat := (ops.map fun op => op.ci.getD 0).sum
def oiBytes (ops : List IdxOp) : Nat := (ops.map (·.oi)).sum

/-- a byte range of the file -/
structure Region where
  off : Nat
  len : Nat
deriving Repr, DecidableEq

/-- the regions the section consists of, in file order: the column indexes that exist, then the
    offset indexes — computed positionally -/
def specCi (start : Nat) : List IdxOp → List Region
  | [] => []
  | op :: ops =>
    match op.ci with
    | none => specCi start ops
    | some n => ⟨start, n⟩ :: specCi (start + n) ops

def specOi (start : Nat) : List IdxOp → List Region
  | [] => []
  | op :: ops => ⟨start, op.oi⟩ :: specOi (start + op.oi) ops

/-- the regions the recorded footer numbers name -/
def ciRegions (ls : List IdxLoc) (ops : List IdxOp) : List Region :=
  (List.zip ls ops).filterMap fun (l, op) => if op.ci.isSome then some ⟨l.ciOff, l.ciLen⟩ else none

def oiRegions (ls : List IdxLoc) : List Region := ls.map fun l => ⟨l.oiOff, l.oiLen⟩

/-- `rs` tile `[start, stop)`: each region starts where the previous one ends -/
def Tiles : Nat → List Region → Nat → Prop
  | start, [], stop => start = stop
  | start, r :: rs, stop => r.off = start ∧ Tiles (start + r.len) rs stop

/-! ## proofs -/

theorem writeColumnIndexes_spec (off : Nat) (ops : List IdxOp) :
    (writeColumnIndexes off ops).2 = off + ciBytes ops ∧
    (writeColumnIndexes off ops).1.length = ops.length ∧
    ciRegions (writeColumnIndexes off ops).1 ops = specCi off ops ∧
    (∀ l ∈ (writeColumnIndexes off ops).1, l.oiOff = 0 ∧ l.oiLen = 0) ∧
    (List.zip (writeColumnIndexes off ops).1 ops).all (fun (l, op) => op.ci.isSome || (l.ciOff == 0 && l.ciLen == 0)) = true := by
  induction ops generalizing off with
  | nil => simp [writeColumnIndexes, ciBytes, ciRegions, specCi]
  | cons op ops ih =>
    cases h : op.ci with
    | none =>
      have := ih off
      simp only [writeColumnIndexes, h, ciBytes, List.map_cons, List.sum_cons, Option.getD_none, ciRegions,
        List.zip_cons_cons, List.filterMap_cons, specCi, List.length_cons, List.mem_cons, List.all_cons] at this ⊢
      refine ⟨by omega, by omega, ?_, ?_, ?_⟩
      · simpa [h] using this.2.2.1
      · intro l hl
        rcases hl with rfl | hl
        · exact ⟨rfl, rfl⟩
        · exact this.2.2.2.1 l hl
      · simp [this.2.2.2.2]
    | some n =>
      have := ih (off + n)
      simp only [writeColumnIndexes, h, ciBytes, List.map_cons, List.sum_cons, Option.getD_some, ciRegions,
        List.zip_cons_cons, List.filterMap_cons, specCi, List.length_cons, List.mem_cons, List.all_cons] at this ⊢
      refine ⟨by omega, by omega, ?_, ?_, ?_⟩
      · simp only [Option.isSome_some, if_true]
        rw [this.2.2.1]
        congr 2
        omega
      · intro l hl
        rcases hl with rfl | hl
        · exact ⟨rfl, rfl⟩
        · exact this.2.2.2.1 l hl
      · simp [this.2.2.2.2]

theorem writeOffsetIndexes_spec (off : Nat) (ops : List IdxOp) (ls : List IdxLoc) (hl : ls.length = ops.length) :
    (writeOffsetIndexes off ops ls).2 = off + oiBytes ops ∧
    (writeOffsetIndexes off ops ls).1.length = ops.length ∧
    oiRegions (writeOffsetIndexes off ops ls).1 = specOi off ops ∧
    ciRegions (writeOffsetIndexes off ops ls).1 ops = ciRegions ls ops := by
  induction ops generalizing off ls with
  | nil =>
    cases ls <;> simp [writeOffsetIndexes, oiBytes, oiRegions, specOi, ciRegions]
  | cons op ops ih =>
    cases ls with
    | nil => simp at hl
    | cons l ls =>
      have hl' : ls.length = ops.length := by simpa using hl
      have := ih (off + op.oi) ls hl'
      simp only [writeOffsetIndexes, oiBytes, List.map_cons, List.sum_cons, List.length_cons, oiRegions, specOi,
        ciRegions, List.zip_cons_cons, List.filterMap_cons] at this ⊢
      refine ⟨by omega, by omega, ?_, ?_⟩
      · rw [this.2.2.1]
        congr 2
        omega
      · rw [this.2.2.2]

theorem specCi_tiles (start : Nat) (ops : List IdxOp) : Tiles start (specCi start ops) (start + ciBytes ops) := by
  induction ops generalizing start with
  | nil => simp [specCi, Tiles, ciBytes]
  | cons op ops ih =>
    cases h : op.ci with
    | none =>
      simp only [specCi, h, ciBytes, List.map_cons, List.sum_cons, Option.getD_none, Nat.zero_add]
      exact ih start
    | some n =>
      simp only [specCi, h, ciBytes, List.map_cons, List.sum_cons, Option.getD_some, Tiles, true_and]
      have := ih (start + n)
      simp only [ciBytes] at this
      rw [← Nat.add_assoc]
      exact this

theorem specOi_tiles (start : Nat) (ops : List IdxOp) : Tiles start (specOi start ops) (start + oiBytes ops) := by
  induction ops generalizing start with
  | nil => simp [specOi, Tiles, oiBytes]
  | cons op ops ih =>
    simp only [specOi, oiBytes, List.map_cons, List.sum_cons, Tiles, true_and]
    have := ih (start + op.oi)
    simp only [oiBytes] at this
    rw [← Nat.add_assoc]
    exact this

theorem Tiles.append {a b c : Nat} {rs ss : List Region} (h1 : Tiles a rs b) (h2 : Tiles b ss c) :
    Tiles a (rs ++ ss) c := by
  induction rs generalizing a with
  | nil => simp only [Tiles] at h1; subst h1; simpa using h2
  | cons r rs ih => exact ⟨h1.1, ih h1.2⟩

/-- regions that tile a range are pairwise disjoint and inside it: any two of them, the earlier
    one ends before the later one starts -/
theorem Tiles.sorted {a c : Nat} {rs : List Region} (h : Tiles a rs c) :
    (∀ r ∈ rs, a ≤ r.off ∧ r.off + r.len ≤ c) ∧
    rs.Pairwise (fun r s => r.off + r.len ≤ s.off) := by
  induction rs generalizing a with
  | nil => simp
  | cons r rs ih =>
    have ⟨hin, hp⟩ := ih h.2
    have hr := h.1
    have hle : a + r.len ≤ c := by
      cases rs with
      | nil => have := h.2; simp only [Tiles] at this; omega
      | cons s ss => have := hin s List.mem_cons_self; have := h.2.1; omega
    refine ⟨?_, ?_⟩
    · intro x hx
      rcases List.mem_cons.mp hx with rfl | hx
      · omega
      · have := hin x hx; omega
    · refine List.pairwise_cons.mpr ⟨?_, hp⟩
      intro s hs
      have := hin s hs
      omega

end PqModel.FooterLayout
