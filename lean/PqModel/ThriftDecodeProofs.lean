import PqModel.ThriftDecode

/-! Lemmas: the typed decoder mirror (`ThriftDecode.decT`) reads what the structure walk
    (`ThriftSkip.skipT`) reads - every accepting run of `decT` is an accepting run of the walk with the
    same end offset. -/
namespace PqModel.ThriftDecode
open PqModel.IoFault (Bytes)
open PqModel.ThriftSkip

theorem lift_ok {α} {r : PR α} {fe : SkErr → SkErr} {k : α → Nat → TR} {q : Nat}
    (h : lift r fe k = .ok q) : ∃ a p, r = .ok (a, p) ∧ k a p = .ok q := by
  cases r with
  | error e => simp [lift] at h
  | ok ap => obtain ⟨a, p⟩ := ap; exact ⟨a, p, rfl, h⟩

theorem seqT_ok {r : TR} {fe : SkErr → SkErr} {k : Nat → TR} {q : Nat}
    (h : seqT r fe k = .ok q) : ∃ p, r = .ok p ∧ k p = .ok q := by
  cases r with
  | error e => simp [seqT] at h
  | ok p => exact ⟨p, rfl, h⟩

/-- the walk's `ReadField` is the typed one with the id dropped -/
theorem readFieldT_walk (d : Bytes) (pos : Nat) (h : Option (Nat × Int × Bool)) (p : Nat)
    (e : readFieldT d pos = .ok (h, p)) : readField d pos = .ok (h.map (·.1), p) := by
  unfold readFieldT at e
  unfold readField
  cases hb : readByte d pos with
  | error x => rw [hb] at e; simp [seq] at e
  | ok bp =>
    obtain ⟨b, p1⟩ := bp
    rw [hb] at e
    simp only [seq] at e ⊢
    split at e
    · rename_i h0
      cases e
      simp [h0]
    · rename_i h0
      split at e
      · rename_i h1
        cases e
        by_cases hz : b.toNat % 16 = 0 <;> simp [h0, h1, hz]
      · rename_i h1
        simp only [h0, h1]
        cases hi : readInt16 d p1 with
        | error x => rw [hi] at e; simp at e
        | ok iq =>
          obtain ⟨i, q1⟩ := iq
          rw [hi] at e
          simp only [Except.ok.injEq, Prod.mk.injEq] at e
          obtain ⟨e1, e2⟩ := e
          subst e1; subst e2
          simp

/-- `ReadBytes` / `ReadString` accept only what `skipBinary` accepts, with the same end -/
theorem readBinary_walk (d : Bytes) (pos q : Nat) (e : readBinary d pos = .ok ((), q)) :
    skipBinary d pos = .ok ((), q) := by
  unfold readBinary at e
  unfold skipBinary
  cases hu : readUvarint maxInt32 d pos with
  | error x => rw [hu] at e; simp [seq] at e
  | ok np =>
    obtain ⟨n, p⟩ := np
    rw [hu] at e
    simp only [seq] at e ⊢
    split at e
    · cases e
    · rename_i hle
      cases e
      by_cases hn : n = 0
      · subst hn; simp
      · have : (n == 0) = false := by simp [hn]
        simp only [this]
        unfold ThriftSkip.discard
        have hd : ¬ (d.length - p < n) := by omega
        simp [hd]

theorem item12 (d : Bytes) (f p : Nat) : skipT d f (.item 1) p = skipT d f (.item 2) p := by
  cases f <;> simp [skipT]

theorem items12 (d : Bytes) : ∀ (f n p : Nat), skipT d f (.items 1 n) p = skipT d f (.items 2 n) p := by
  intro f
  induction f with
  | zero => intro n p; simp [skipT]
  | succ f ih =>
    intro n p
    cases n with
    | zero => simp [skipT]
    | succ n =>
      simp only [skipT]
      rw [item12]
      congr
      funext _ q
      exact ih n q

theorem item_to_val (d : Bytes) (f ty p : Nat) (y : Unit × Nat) (h1 : ty ≠ 1) (h2 : ty ≠ 2)
    (h : skipT d f (.item ty) p = .ok y) : ∃ f', skipT d f' (.val ty) p = .ok y := by
  cases f with
  | zero => simp [skipT] at h
  | succ f =>
    simp only [skipT] at h
    rw [if_neg (by simp [h1, h2])] at h
    exact ⟨f, h⟩

theorem val_to_item (d : Bytes) (f ty p : Nat) (y : Unit × Nat) (h1 : ty ≠ 1) (h2 : ty ≠ 2)
    (h : skipT d f (.val ty) p = .ok y) : skipT d (f + 1) (.item ty) p = .ok y := by
  simp only [skipT]
  rw [if_neg (by simp [h1, h2])]
  exact h

theorem walk_fields_step (d : Bytes) (first : Bool) (pos ty p q' q f1 f2 : Nat)
    (h0 : readField d pos = .ok (some ty, p))
    (h1 : skipT d f1 (.val ty) p = .ok ((), q'))
    (h2 : skipT d f2 (.fields false) q' = .ok ((), q)) :
    ∃ F, skipT d F (.fields first) pos = .ok ((), q) := by
  refine ⟨max f1 f2 + 1, ?_⟩
  have m1 := skipT_fuel_mono d (.val ty) p (Nat.le_max_left f1 f2) _ h1
  have m2 := skipT_fuel_mono d (.fields false) q' (Nat.le_max_right f1 f2) _ h2
  simp only [skipT, h0, seq, m1, m2]

theorem walk_items_step (d : Bytes) (ty n p q' q f1 f2 : Nat)
    (h1 : skipT d f1 (.item ty) p = .ok ((), q'))
    (h2 : skipT d f2 (.items ty n) q' = .ok ((), q)) :
    ∃ F, skipT d F (.items ty (n + 1)) p = .ok ((), q) := by
  refine ⟨max f1 f2 + 1, ?_⟩
  have m1 := skipT_fuel_mono d (.item ty) p (Nat.le_max_left f1 f2) _ h1
  have m2 := skipT_fuel_mono d (.items ty n) q' (Nat.le_max_right f1 f2) _ h2
  simp only [skipT, seq, m1, m2]

/-- what the walk does where the typed decoder does `t` -/
def erase : DTask → Task
  | .val t => .item (wire t)
  | .elems t n => .items (wire t) n
  | .fields _ first _ _ => .fields first

theorem scalar_item (d : Bytes) (ty pos q : Nat) {α} (r : PR α) (h1 : ty ≠ 1) (h2 : ty ≠ 2)
    (hv : ∀ f, skipT d (f + 1) (.val ty) pos = seq r id fun _ p => .ok ((), p))
    (h : lift r id (fun _ p => .ok p) = .ok q) : ∃ f', skipT d f' (.item ty) pos = .ok ((), q) := by
  obtain ⟨a, p, hr, hk⟩ := lift_ok h
  cases hk
  refine ⟨2, val_to_item d 1 ty pos _ h1 h2 ?_⟩
  rw [hv 0, hr]
  rfl

/-- **the typed decoder reads what the walk reads**: at every fuel, for every task, offset and
    allocator, an accepting run ends where some run of the walk ends. -/
theorem decT_walk (mem : Option Nat) (d : Bytes) : ∀ (f : Nat) (t : DTask) (pos q : Nat),
    decT mem d f t pos = .ok q → ∃ f', skipT d f' (erase t) pos = .ok ((), q) := by
  intro f
  induction f with
  | zero => intro t pos q h; simp [decT] at h
  | succ f ih =>
    intro t pos q h
    cases t with
    | val t =>
      cases t with
      | bool =>
        simp only [decT] at h
        obtain ⟨a, p, hr, hk⟩ := lift_ok h
        cases hk
        exact ⟨1, by simp [erase, wire, skipT, hr, seq]⟩
      | i8 => simp only [decT] at h; exact scalar_item d 3 pos q _ (by decide) (by decide) (fun f => by simp [skipT]) h
      | i16 => simp only [decT] at h; exact scalar_item d 4 pos q _ (by decide) (by decide) (fun f => by simp [skipT]) h
      | i32 => simp only [decT] at h; exact scalar_item d 5 pos q _ (by decide) (by decide) (fun f => by simp [skipT]) h
      | i64 => simp only [decT] at h; exact scalar_item d 6 pos q _ (by decide) (by decide) (fun f => by simp [skipT]) h
      | double =>
        simp only [decT] at h
        obtain ⟨a, p, hr, hk⟩ := lift_ok h
        cases hk
        exact ⟨2, val_to_item d 1 7 pos _ (by decide) (by decide) (by simp [skipT, hr])⟩
      | binary =>
        simp only [decT] at h
        obtain ⟨a, p, hr, hk⟩ := lift_ok h
        cases hk
        exact ⟨2, val_to_item d 1 8 pos _ (by decide) (by decide) (by simp [skipT, readBinary_walk d pos _ hr])⟩
      | list e =>
        simp only [decT] at h
        obtain ⟨l, p, hr, hk⟩ := lift_ok h
        have key : ∃ f1, skipT d f1 (.items l.1 l.2) p = .ok ((), q) := by
          generalize hty : (if l.1 = 1 then 2 else l.1) = ty' at hk
          have hit : ∀ f1 y, skipT d f1 (.items ty' l.2) p = .ok y → skipT d f1 (.items l.1 l.2) p = .ok y := by
            intro f1 y hs
            by_cases h1 : l.1 = 1
            · rw [h1, items12]; rw [if_pos h1] at hty; rw [hty]; exact hs
            · rw [if_neg h1] at hty; rw [hty]; exact hs
          split at hk
          · obtain ⟨_, q', hs, hq⟩ := lift_ok hk
            cases hq
            exact ⟨f, hit _ _ hs⟩
          · rename_i hw
            split at hk
            · cases hk
            · obtain ⟨f1, h1⟩ := ih _ p q hk
              simp only [erase] at h1
              have hw' : wire e = ty' := Decidable.of_not_not hw
              rw [hw'] at h1
              exact ⟨f1, hit _ _ h1⟩
        obtain ⟨f1, h1⟩ := key
        refine ⟨f1 + 2, val_to_item d (f1 + 1) 9 pos _ (by decide) (by decide) ?_⟩
        simp only [skipT, hr, seq]
        exact h1
      | struct fs =>
        simp only [decT] at h
        obtain ⟨f1, h1⟩ := ih _ pos q h
        simp only [erase] at h1
        refine ⟨f1 + 2, val_to_item d (f1 + 1) 12 pos _ (by decide) (by decide) ?_⟩
        simp only [skipT]
        exact h1
      | union ms =>
        simp only [decT] at h
        obtain ⟨f1, h1⟩ := ih _ pos q h
        simp only [erase] at h1
        refine ⟨f1 + 2, val_to_item d (f1 + 1) 12 pos _ (by decide) (by decide) ?_⟩
        simp only [skipT]
        exact h1
    | elems t n =>
      cases n with
      | zero =>
        simp only [decT] at h
        cases h
        exact ⟨1, by simp [erase, skipT]⟩
      | succ n =>
        simp only [decT] at h
        obtain ⟨p, hp, hk⟩ := seqT_ok h
        obtain ⟨f1, h1⟩ := ih _ pos p hp
        obtain ⟨f2, h2⟩ := ih _ p q hk
        exact walk_items_step d (wire t) n pos p q f1 f2 h1 h2
    | fields fs first last seen =>
      simp only [decT] at h
      obtain ⟨hd, p, hr, hk⟩ := lift_ok h
      have hr' := readFieldT_walk d pos hd p hr
      cases hd with
      | none =>
        simp only at hk
        split at hk
        · cases hk
        · cases hk
          exact ⟨1, by simp [erase, skipT, hr', seq]⟩
      | some x =>
        obtain ⟨ty, raw, delta⟩ := x
        simp only [Option.map] at hr'
        simp only at hk
        have skipBranch : ∀ seen' fid,
            lift (skipT d f (.val ty) p) dontExpectEOF
              (fun _ q => decT mem d f (.fields fs false fid seen') q) = .ok q →
            ∃ F, skipT d F (.fields first) pos = .ok ((), q) := by
          intro seen' fid hs
          obtain ⟨_, q', hs1, hs2⟩ := lift_ok hs
          obtain ⟨f2, h2⟩ := ih _ q' q hs2
          exact walk_fields_step d first pos ty p q' q f f2 hr' hs1 h2
        split at hk
        · exact skipBranch _ _ hk
        · rename_i fd hl
          split at hk
          · exact skipBranch _ _ hk
          · rename_i hm
            split at hk
            · rename_i h12
              obtain ⟨f2, h2⟩ := ih _ p q hk
              refine walk_fields_step d first pos ty p p q 1 f2 hr' ?_ h2
              rcases h12 with h12 | h12 <;> subst h12 <;> simp [skipT]
            · rename_i h12
              obtain ⟨q', hq1, hq2⟩ := seqT_ok hk
              obtain ⟨f1, h1⟩ := ih _ p q' hq1
              obtain ⟨f2, h2⟩ := ih _ q' q hq2
              simp only [erase] at h1 h2
              have hty : ty = wire fd.2.2 := by
                apply Decidable.byContradiction
                intro hne
                apply hm
                refine ⟨hne, fun hc => h12 (Or.inl hc.1)⟩
              rw [← hty] at h1
              obtain ⟨f1', h1'⟩ := item_to_val d f1 ty p _ (fun hc => h12 (Or.inl hc)) (fun hc => h12 (Or.inr hc)) h1
              exact walk_fields_step d first pos ty p q' q f1' f2 hr' h1' h2

end PqModel.ThriftDecode
