/-! # Write side of C16: who writes into the memory of rows passed to `WriteRows`

MIRROR of the row-writer wrappers of parquet-go and of two leaf writers, over an explicit memory of
`[]Value` backing arrays (`Mem`) AND of `[]Row` backing arrays (`RMem`):

* `filterRowWriter.WriteRows`      filter.go:52-90 (`clear = true`: as it was before the first repair, the
                                   deferred `clearValues` over `f.rows`; `clear = false`: the deferred loop
                                   only drops the references. `shadow = true`: as it was before the second
                                   repair, `_, err := f.writer.WriteRows(...)` shadowed the named result so
                                   that a failed write returned `n, nil`; `shadow = false`: the code, the
                                   error of the underlying writer is the error of the call)
* `transformRowWriter.WriteRows`   transform.go:108-141 (`makeRows` row.go:374-381, `clearRows` row.go:383-388)
* `dedupeRowWriter.WriteRows`      dedupe.go:45-66 with `dedupe.deduplicate` dedupe.go:78-108
* `multiRowWriter.WriteRows`       row.go:237-248 (binary; `MultiRowWriter(a, b, c)` = `multi a (multi b c)`)
* `RowBuffer.WriteRows`            row_buffer.go:164-174 (`buf.values = append(buf.values, rows[i]...)`,
                                   `buf.rows = append(buf.rows, row)`)
* a recording sink (`RowWriterFunc` that copies what it is given and fails at a chosen call)

A `parquet.Row` is a Go slice header (`Hdr`: backing array, offset, length, capacity) over `Mem`, the
`rows []Row` argument of `WriteRows` is a slice header (`RHdr`) over `RMem`, whose cells are `Hdr`s;
a `parquet.Value` is abstracted to a natural number (0 = the zero `Value{}` that `clearValues` writes).
What IS modelled: every store through a `[]Value` header (`clearValues`, `append` in place or with
reallocation) and every store through a `[]Row` header (`f.rows[i] = row`, `t.rows[n] = ...`,
`d.rows = append(d.rows[:0], rows...)`, the rewrite of `rows` by `deduplicate`, the deferred loops that
drop references, `clearRows`, `buf.rows = append(buf.rows, row)`), which `[]Row` slice each inner writer
is handed (`f.rows[:i]`, `t.rows[:numRows]`, `d.rows[:n]`, the argument itself for `MultiRowWriter`),
the chunking loops (42 rows for the filter, `len(t.rows)` for the transform), the state the wrappers
keep between calls (`f.rows`, `t.rows`, `d.rows`, `d.lastRow`, `buf.values`, `buf.rows`), error paths
(the filter returns the count of the completed chunks and the error of the underlying writer).
What is NOT: byte arrays behind BYTE_ARRAY values; capacities chosen by Go's `append` growth (the model
allocates exactly; only in-place-vs-realloc decisions of library-owned arrays depend on it, which is not
observable in caller memory or in what is delivered downstream); the scratch slices `d.uniq` / `d.dupe`
of `dedupe` (private to one call of `deduplicate`, emptied by its deferred function: computed by value);
a wrapper reads the rows of its argument (of one chunk, for the filter's inner calls) before the stores
of that call instead of one by one (the argument and the arrays stored to are distinct arrays in every
reachable state).

Each `[]Row` array carries a ghost tag: `true` for the arrays in which the library keeps rows it owns
(`t.rows`, `buf.rows`: their cells point into library-owned `[]Value` arrays), `false` for arrays of
references to rows of the caller (the caller's own `[]Row`, `f.rows`, `d.rows`). The tag is never read
by the mirror; it states the typing discipline the frame proof rests on.

SPEC side: `Keeps pv m m'` / `KeepsR pr rm rm'` — every protected (`pv` / `pr`) array holds the same
cells in `m'` / `rm'` as in `m` / `rm`.
-/
namespace PqModel.WriteOwn

abbrev Val := Nat

/-- a `[]Value` slice header -/
structure Hdr where
  arr : Nat
  off : Nat
  len : Nat
  cap : Nat
deriving DecidableEq, Repr, Inhabited

/-- the nil slice; array 0 is a reserved, never protected dummy array -/
def Hdr.nil : Hdr := ⟨0, 0, 0, 0⟩

/-- the memory: backing arrays of `[]Value` slices -/
abbrev Mem := List (List Val)

def writeAt {α : Type} (l : List α) (i : Nat) (xs : List α) : List α :=
  l.take i ++ xs ++ l.drop (i + xs.length)

/-- the values a row header shows -/
def row (m : Mem) (h : Hdr) : List Val := ((m.getD h.arr []).drop h.off).take h.len

def store (m : Mem) (a i : Nat) (xs : List Val) : Mem := m.set a (writeAt (m.getD a []) i xs)

/-- `clearValues(values)` value.go:990-994 -/
def clearValues (m : Mem) (h : Hdr) : Mem := store m h.arr h.off (List.replicate h.len 0)

/-- `append(h, xs...)`: in place when the capacity suffices, a fresh array otherwise -/
def append (m : Mem) (h : Hdr) (xs : List Val) : Mem × Hdr :=
  if h.len + xs.length ≤ h.cap then
    (store m h.arr (h.off + h.len) xs, { h with len := h.len + xs.length })
  else
    (m ++ [row m h ++ xs], ⟨m.length, 0, h.len + xs.length, h.len + xs.length⟩)

/-! ## `[]Row` arrays -/

/-- a `[]Row` slice header -/
structure RHdr where
  arr : Nat
  off : Nat
  len : Nat
  cap : Nat
deriving DecidableEq, Repr, Inhabited

/-- backing arrays of `[]Row` slices, each with its ghost tag (`true`: rows the library owns) -/
abbrev RMem := List (Bool × List Hdr)

/-- the nil `[]Row` of a field that holds references (`d.rows`): row array 0 is a reserved dummy
    tagged `false` -/
def RHdr.nil : RHdr := ⟨0, 0, 0, 0⟩

/-- the nil `[]Row` of a field that holds owned rows (`t.rows`, `buf.rows`): row array 1 is a
    reserved dummy tagged `true` -/
def RHdr.nilOwned : RHdr := ⟨1, 0, 0, 0⟩

def cellsOf (rm : RMem) (a : Nat) : List Hdr := (rm.getD a (false, [])).2
def tagOf (rm : RMem) (a : Nat) : Bool := (rm.getD a (false, [])).1

/-- the rows a `[]Row` header shows -/
def rowsOf (rm : RMem) (h : RHdr) : List Hdr := ((cellsOf rm h.arr).drop h.off).take h.len

def storeR (rm : RMem) (a i : Nat) (hs : List Hdr) : RMem :=
  rm.set a (tagOf rm a, writeAt (cellsOf rm a) i hs)

/-- `append(h, hs...)` on a `[]Row`; a reallocation makes an array with the ghost tag `tag` -/
def appendR (rm : RMem) (tag : Bool) (h : RHdr) (hs : List Hdr) : RMem × RHdr :=
  if h.len + hs.length ≤ h.cap then
    (storeR rm h.arr (h.off + h.len) hs, { h with len := h.len + hs.length })
  else
    (rm ++ [(tag, rowsOf rm h ++ hs)], ⟨rm.length, 0, h.len + hs.length, h.len + hs.length⟩)

/-! ## the frame: protected arrays keep their cells -/

def Keeps (pv : Nat → Bool) (m m' : Mem) : Prop :=
  m.length ≤ m'.length ∧ ∀ a, pv a = true → m'[a]? = m[a]?

/-- protected arrays exist (so a fresh allocation is never protected) -/
def Bounded (pv : Nat → Bool) (m : Mem) : Prop := ∀ a, pv a = true → a < m.length

theorem Keeps.refl (pv : Nat → Bool) (m : Mem) : Keeps pv m m := ⟨Nat.le_refl _, fun _ _ => rfl⟩

theorem Keeps.trans {pv : Nat → Bool} {a b c : Mem} (h1 : Keeps pv a b) (h2 : Keeps pv b c) : Keeps pv a c :=
  ⟨Nat.le_trans h1.1 h2.1, fun x hx => (h2.2 x hx).trans (h1.2 x hx)⟩

theorem Bounded.mono {pv : Nat → Bool} {m m' : Mem} (hb : Bounded pv m) (hk : Keeps pv m m') : Bounded pv m' :=
  fun a ha => Nat.lt_of_lt_of_le (hb a ha) hk.1

theorem store_keeps {pv : Nat → Bool} (m : Mem) (a i : Nat) (xs : List Val) (ha : pv a = false) :
    Keeps pv m (store m a i xs) := by
  refine ⟨by simp [store], fun x hx => ?_⟩
  have hne : a ≠ x := by intro e; subst e; simp [ha] at hx
  simp [store, List.getElem?_set_ne hne]

theorem clearValues_keeps {pv : Nat → Bool} (m : Mem) (h : Hdr) (ha : pv h.arr = false) :
    Keeps pv m (clearValues m h) := store_keeps m _ _ _ ha

theorem append_keeps {pv : Nat → Bool} (m : Mem) (h : Hdr) (xs : List Val) (hb : Bounded pv m)
    (ha : pv h.arr = false) : Keeps pv m (append m h xs).1 ∧ pv (append m h xs).2.arr = false := by
  unfold append
  split
  · exact ⟨store_keeps m _ _ _ ha, ha⟩
  · refine ⟨⟨by simp, fun x hx => ?_⟩, ?_⟩
    · have := hb x hx
      simp [List.getElem?_append_left this]
    · cases hp : pv m.length with
      | false => rfl
      | true => exact absurd (hb _ hp) (Nat.lt_irrefl _)

/-- the `[]Row` memory evolves: arrays are only added, ghost tags never change, protected arrays keep
    their cells (and tag) -/
def KeepsR (pr : Nat → Bool) (rm rm' : RMem) : Prop :=
  rm.length ≤ rm'.length ∧ (∀ a, a < rm.length → tagOf rm' a = tagOf rm a) ∧
    ∀ a, pr a = true → rm'[a]? = rm[a]?

def BoundedR (pr : Nat → Bool) (rm : RMem) : Prop := ∀ a, pr a = true → a < rm.length

/-- typing discipline of the `[]Row` arrays: an array the library uses for rows it owns holds
    headers of unprotected `[]Value` arrays only -/
def SlotsOk (pv : Nat → Bool) (rm : RMem) : Prop :=
  ∀ a, tagOf rm a = true → ∀ h ∈ cellsOf rm a, pv h.arr = false

theorem KeepsR.refl (pr : Nat → Bool) (rm : RMem) : KeepsR pr rm rm :=
  ⟨Nat.le_refl _, fun _ _ => rfl, fun _ _ => rfl⟩

theorem KeepsR.trans {pr : Nat → Bool} {a b c : RMem} (h1 : KeepsR pr a b) (h2 : KeepsR pr b c) : KeepsR pr a c :=
  ⟨Nat.le_trans h1.1 h2.1,
   fun x hx => (h2.2.1 x (Nat.lt_of_lt_of_le hx h1.1)).trans (h1.2.1 x hx),
   fun x hx => (h2.2.2 x hx).trans (h1.2.2 x hx)⟩

theorem BoundedR.mono {pr : Nat → Bool} {rm rm' : RMem} (hb : BoundedR pr rm) (hk : KeepsR pr rm rm') :
    BoundedR pr rm' :=
  fun a ha => Nat.lt_of_lt_of_le (hb a ha) hk.1

/-! ## behaviours of the caller-supplied functions -/

/-- what a transform function does with `(dst, src)`: return `dst` unchanged (the row is skipped),
    `append(dst, src...)`, `append(append(dst, src...), src...)`, or fail. All of them keep the
    documented contract (write into `dst` only). -/
inductive TrOut where
  | skip | copy | twice | fail
deriving DecidableEq, Repr

/-- `pred k vs`: predicate of filter node k on a row showing values vs; `same k a b`: the compare
    function of dedupe node k returned 0; `tr k vs`: transform node k -/
structure Beh where
  pred : Nat → List Val → Bool
  same : Nat → List Val → List Val → Bool
  tr : Nat → List Val → TrOut

/-! ## writer objects: static shape + state per node -/

inductive Shape where
  | sink (id failAt : Nat)
  | rowbuf (id : Nat)
  /-- `asIs = true`: the filter as it was before both repairs (`clear` and `shadow`) -/
  | filter (asIs : Bool) (id k : Nat) (inner : Shape)
  | transform (id k : Nat) (inner : Shape)
  | dedupe (id k : Nat) (inner : Shape)
  | multi (a b : Shape)
deriving Repr

/-- no filter node of the unrepaired kind -/
def Shape.repaired : Shape → Bool
  | .sink _ _ => true
  | .rowbuf _ => true
  | .filter asIs _ _ inner => !asIs && inner.repaired
  | .transform _ _ inner => inner.repaired
  | .dedupe _ _ inner => inner.repaired
  | .multi a b => a.repaired && b.repaired

/-- fields of one writer object.
    `held`: a `[]Row` of references to rows of the caller (`filterRowWriter.rows[:]`, `dedupeRowWriter.rows`);
    `slots`: a `[]Row` whose rows the object owns (`transformRowWriter.rows`, `RowBuffer.rows`);
    `hdr`: a `[]Value` the object owns (`dedupe.lastRow`, `RowBuffer.values`);
    `calls`, `got`: the recording sink -/
structure NodeSt where
  held : RHdr := RHdr.nil
  slots : RHdr := RHdr.nilOwned
  hdr : Hdr := Hdr.nil
  calls : Nat := 0
  got : List (List (List Val)) := []
deriving Repr, Inhabited

abbrev St := List NodeSt

def St.node (st : St) (id : Nat) : NodeSt := st.getD id {}

structure Res where
  st : St
  m : Mem
  rm : RMem
  n : Nat
  err : Bool

abbrev Writer := St → Mem → RMem → RHdr → Res

/-- chunks of at most k elements (fuel = length of the list) -/
def chunks {α} (k : Nat) : Nat → List α → List (List α)
  | 0, _ => []
  | _, [] => []
  | fuel + 1, l => l.take (max k 1) :: chunks k fuel (l.drop (max k 1))

def filterRowBufferSize : Nat := 42

/-- filter.go:65-87, the loop over chunks of `len(f.rows)` = 42 rows. Returns `(st, m, rm, n, err)`:
    `n` counts the rows of the chunks completed before a failure of the underlying writer -/
def filterChunks (B : Beh) (id k : Nat) (inner : Writer) :
    List (List Hdr) → St → Mem → RMem → Nat → St × Mem × RMem × Nat × Bool
  | [], st, m, rm, n => (st, m, rm, n, false)
  | c :: cs, st, m, rm, n =>
    let sel := c.filter fun h => B.pred k (row m h)
    let held := (st.node id).held
    -- `f.rows[i] = row; i++` for the selected rows: the prefix of the 42 cells is overwritten
    let rm1 := storeR rm held.arr held.off sel
    if sel.length > 0 then
      -- `f.writer.WriteRows(f.rows[:i])`
      let r := inner st m rm1 ⟨held.arr, held.off, sel.length, held.cap⟩
      -- filter.go:80-82: `if _, err = f.writer.WriteRows(f.rows[:i]); err != nil { break }`
      if r.err then (r.st, r.m, r.rm, n, true) else filterChunks B id k inner cs r.st r.m r.rm (n + c.length)
    else filterChunks B id k inner cs st m rm1 (n + c.length)

/-- `rows [defaultRowBufferSize]Row` is part of the filter struct: an array of 42 nil rows exists from
    the construction of the object on (allocated here at the first call) -/
def filterInit (id : Nat) (st : St) (rm : RMem) : St × RMem :=
  if (st.node id).held.cap = filterRowBufferSize then (st, rm)
  else (st.set id { st.node id with held := ⟨rm.length, 0, filterRowBufferSize, filterRowBufferSize⟩ },
        rm ++ [(false, List.replicate filterRowBufferSize Hdr.nil)])

/-- filter.go:52-90 -/
def filterWrite (B : Beh) (clear shadow : Bool) (id k : Nat) (inner : Writer)
    (st : St) (m : Mem) (rm : RMem) (rows : RHdr) : Res :=
  let st0 := (filterInit id st rm).1
  let rm0 := (filterInit id st rm).2
  let rs := rowsOf rm0 rows
  let r := filterChunks B id k inner (chunks filterRowBufferSize rs.length rs) st0 m rm0 0
  let st1 := r.1
  let m1 := r.2.1
  let rm1 := r.2.2.1
  let held := (st1.node id).held
  -- before the second repair the error was assigned to a variable shadowing the named result
  let err := if shadow then false else r.2.2.2.2
  if clear then
    -- before the first repair: `clearValues(clear[i])` for all 42 entries, which are the caller's rows
    ⟨st1, (rowsOf rm1 held).foldl clearValues m1, rm1, r.2.2.2.1, err⟩
  else
    -- `for i := range f.rows { f.rows[i] = nil }`
    ⟨st1, m1, storeR rm1 held.arr held.off (List.replicate held.len Hdr.nil), r.2.2.2.1, err⟩

/-- `makeRows(n)` row.go:374-381: n rows of capacity 1 carved out of one array of n values -/
def makeRows (m : Mem) (rm : RMem) (n : Nat) : Mem × RMem × RHdr :=
  (m ++ [List.replicate n 0], rm ++ [(true, (List.range n).map fun i => ⟨m.length, i, 0, 1⟩)],
   ⟨rm.length, 0, n, n⟩)

/-- `t.rows[i]` -/
def slotAt (rm : RMem) (sl : RHdr) (i : Nat) : Hdr := (cellsOf rm sl.arr).getD (sl.off + i) Hdr.nil

/-- one step of the loop of transform.go:128-136 over `t.rows` = `sl`. `acc = (m, rm, numRows, failed)` -/
def transformStep (B : Beh) (k : Nat) (sl : RHdr) (acc : Mem × RMem × Nat × Bool) (src : Hdr) :
    Mem × RMem × Nat × Bool :=
  let (m, rm, num, failed) := acc
  if failed then acc else
  let dst := { slotAt rm sl num with len := 0 }
  match B.tr k (row m src) with
  | .fail => (m, rm, num, true)
  | .skip => (m, storeR rm sl.arr (sl.off + num) [dst], num, false)
  | .copy =>
    let (m1, h) := append m dst (row m src)
    (m1, storeR rm sl.arr (sl.off + num) [h], if h.len ≠ 0 then num + 1 else num, false)
  | .twice =>
    let (m1, h1) := append m dst (row m src)
    let (m2, h2) := append m1 h1 (row m1 src)
    (m2, storeR rm sl.arr (sl.off + num) [h2], if h2.len ≠ 0 then num + 1 else num, false)

/-- `clearRows(t.rows[:num])` row.go:383-388 on the first `num` cells of `sl` -/
def clearSlots (sl : RHdr) : Nat → Nat → Mem → RMem → Mem × RMem
  | 0, _, m, rm => (m, rm)
  | fuel + 1, i, m, rm =>
    let h := slotAt rm sl i
    clearSlots sl fuel (i + 1) (clearValues m h) (storeR rm sl.arr (sl.off + i) [{ h with len := 0 }])

/-- transform.go:114-120, the loop over chunks of `len(t.rows)` rows, each through `writeRows`
    (transform.go:124-141) -/
def transformChunks (B : Beh) (id k : Nat) (inner : Writer) :
    List (List Hdr) → St → Mem → RMem → Nat → Res
  | [], st, m, rm, n => ⟨st, m, rm, n, false⟩
  | c :: cs, st, m, rm, n =>
    let sl := (st.node id).slots
    let (m1, rm1, num, failed) := c.foldl (transformStep B k sl) (m, rm, 0, false)
    if failed then
      ⟨st, (clearSlots sl num 0 m1 rm1).1, (clearSlots sl num 0 m1 rm1).2, n, true⟩
    else
      -- `t.writer.WriteRows(t.rows[:numRows])`
      let r := inner st m1 rm1 ⟨sl.arr, sl.off, num, sl.cap⟩
      let c2 := clearSlots ((r.st.node id).slots) num 0 r.m r.rm
      if r.err then ⟨r.st, c2.1, c2.2, n, true⟩ else transformChunks B id k inner cs r.st c2.1 c2.2 (n + c.length)

/-- `if len(t.rows) == 0 { t.rows = makeRows(len(rows)) }` transform.go:109-111 -/
def transformInit (id : Nat) (st : St) (m : Mem) (rm : RMem) (n : Nat) : St × Mem × RMem :=
  if (st.node id).slots.len = 0 then
    (st.set id { st.node id with slots := (makeRows m rm n).2.2 }, (makeRows m rm n).1, (makeRows m rm n).2.1)
  else (st, m, rm)

/-- transform.go:108-122 -/
def transformWrite (B : Beh) (id k : Nat) (inner : Writer)
    (st : St) (m : Mem) (rm : RMem) (rows : RHdr) : Res :=
  let rs := rowsOf rm rows
  let i := transformInit id st m rm rs.length
  transformChunks B id k inner (chunks (i.1.node id).slots.len rs.length rs) i.1 i.2.1 i.2.2 0

/-- one step of the loop of dedupe.go:92-99. `acc = (lastRow, d.uniq, d.dupe)` -/
def dedupeStep (B : Beh) (k : Nat) (m : Mem) (acc : Hdr × List Hdr × List Hdr) (r : Hdr) :
    Hdr × List Hdr × List Hdr :=
  if acc.1.len ≠ 0 && B.same k (row m r) (row m acc.1) then (acc.1, acc.2.1, acc.2.2 ++ [r])
  else (r, acc.2.1 ++ [r], acc.2.2)

/-- `d.deduplicate(rows, compare)` dedupe.go:78-108 on the `[]Row` `rows`: the unique rows are moved to
    the front of `rows` IN PLACE (`rows = append(append(rows[:0], d.uniq...), d.dupe...)`), `d.lastRow`
    is overwritten or reallocated. Returns the memories, the new `d.lastRow` and `len(d.uniq)`. -/
def deduplicate (B : Beh) (k : Nat) (m : Mem) (rm : RMem) (last : Hdr) (rows : RHdr) :
    Mem × RMem × Hdr × Nat :=
  let (lastRow, uniq, dupe) := (rowsOf rm rows).foldl (dedupeStep B k m) (last, [], [])
  let rm1 := storeR rm rows.arr rows.off (uniq ++ dupe)
  let (m1, last1) := append m { last with len := 0 } (row m lastRow)
  (m1, rm1, last1, uniq.length)

/-- `d.rows[:0]` -/
def RHdr.empty (h : RHdr) : RHdr := { h with len := 0 }

/-- dedupe.go:45-66 -/
def dedupeWrite (B : Beh) (id k : Nat) (inner : Writer)
    (st : St) (m : Mem) (rm : RMem) (rows : RHdr) : Res :=
  -- `d.rows = append(d.rows[:0], rows...)`
  let ar := appendR rm false (st.node id).held.empty (rowsOf rm rows)
  let dr := ar.2
  let dd := deduplicate B k m ar.1 (st.node id).hdr dr
  let st1 := st.set id { st.node id with hdr := dd.2.2.1, held := dr }
  if dd.2.2.2 > 0 then
    -- `d.writer.WriteRows(d.rows[:n])`
    let r := inner st1 dd.1 dd.2.1 ⟨dr.arr, dr.off, dd.2.2.2, dr.cap⟩
    -- deferred: `for i := range d.rows { d.rows[i] = Row{} }`
    let dr' := (r.st.node id).held
    let rm2 := storeR r.rm dr'.arr dr'.off (List.replicate dr'.len Hdr.nil)
    if r.err then ⟨r.st, r.m, rm2, r.n, true⟩ else ⟨r.st, r.m, rm2, rows.len, false⟩
  else ⟨st1, dd.1, storeR dd.2.1 dr.arr dr.off (List.replicate dr.len Hdr.nil), rows.len, false⟩

/-- row_buffer.go:164-174. `acc = (m, rm, buf.values, buf.rows)` -/
def rowbufStep (acc : Mem × RMem × Hdr × RHdr) (r : Hdr) : Mem × RMem × Hdr × RHdr :=
  let (m, rm, vals, slots) := acc
  let (m1, vals1) := append m vals (row m r)
  let (rm1, slots1) := appendR rm true slots [⟨vals1.arr, vals1.off + vals.len, r.len, r.len⟩]
  (m1, rm1, vals1, slots1)

def rowbufWrite (id : Nat) (st : St) (m : Mem) (rm : RMem) (rows : RHdr) : Res :=
  let (m1, rm1, vals1, slots1) := (rowsOf rm rows).foldl rowbufStep (m, rm, (st.node id).hdr, (st.node id).slots)
  ⟨st.set id { st.node id with hdr := vals1, slots := slots1 }, m1, rm1, rows.len, false⟩

/-- the recording sink: call number `failAt` (0-based) fails without looking at the rows -/
def sinkWrite (id failAt : Nat) (st : St) (m : Mem) (rm : RMem) (rows : RHdr) : Res :=
  let ns := st.node id
  if ns.calls = failAt then ⟨st.set id { ns with calls := ns.calls + 1 }, m, rm, 0, true⟩
  else ⟨st.set id { ns with calls := ns.calls + 1, got := ns.got ++ [(rowsOf rm rows).map (row m)] }, m, rm, rows.len, false⟩

/-- row.go:237-248 for two writers: both are handed the argument itself -/
def multiWrite (wa wb : Writer) (st : St) (m : Mem) (rm : RMem) (rows : RHdr) : Res :=
  let r1 := wa st m rm rows
  if r1.err then r1 else
  if r1.n ≠ rows.len then { r1 with err := true } else
  let r2 := wb r1.st r1.m r1.rm rows
  if r2.err then r2 else
  if r2.n ≠ rows.len then { r2 with err := true } else r2

/-- `WriteRows(rows)` on the writer object of shape `sh` -/
def write (B : Beh) : Shape → Writer
  | .sink id failAt => sinkWrite id failAt
  | .rowbuf id => rowbufWrite id
  | .filter asIs id k inner => filterWrite B asIs asIs id k (write B inner)
  | .transform id k inner => transformWrite B id k (write B inner)
  | .dedupe id k inner => dedupeWrite B id k (write B inner)
  | .multi a b => multiWrite (write B a) (write B b)

structure RunRes where
  st : St
  m : Mem
  rm : RMem
  rets : List (Nat × Bool)

/-- a history of `WriteRows` calls on one writer object; returns the final state, memories and the
    `(n, err)` of every call -/
def run (B : Beh) (sh : Shape) : List RHdr → St → Mem → RMem → RunRes
  | [], st, m, rm => ⟨st, m, rm, []⟩
  | b :: bs, st, m, rm =>
    let r := write B sh st m rm b
    let rest := run B sh bs r.st r.m r.rm
    { rest with rets := (r.n, r.err) :: rest.rets }

/-! ## invariant of the state: what the writer objects own is not protected -/

/-- the `[]Row` arrays an object keeps are its own (not protected) and of the right kind: `held` is an
    existing array of references, `slots` an array of owned rows; its `[]Value` is not protected -/
def NodeOwn (pv pr : Nat → Bool) (rm : RMem) (ns : NodeSt) : Prop :=
  (pr ns.held.arr = false ∧ ns.held.arr < rm.length ∧ tagOf rm ns.held.arr = false) ∧
  (pr ns.slots.arr = false ∧ tagOf rm ns.slots.arr = true) ∧ pv ns.hdr.arr = false

/-- every header stored in any writer object satisfies `NodeOwn`, and so do the nil headers (the
    reserved dummy arrays: `[]Value` array 0, `[]Row` arrays 0 and 1) -/
def Own (pv pr : Nat → Bool) (st : St) (rm : RMem) : Prop :=
  NodeOwn pv pr rm {} ∧ ∀ ns ∈ st, NodeOwn pv pr rm ns

theorem Own.pv0 {pv pr : Nat → Bool} {st : St} {rm : RMem} (ho : Own pv pr st rm) : pv 0 = false := ho.1.2.2

theorem Own.node {pv pr : Nat → Bool} {st : St} {rm : RMem} (ho : Own pv pr st rm) (id : Nat) :
    NodeOwn pv pr rm (st.node id) := by
  unfold St.node
  rw [List.getD_eq_getElem?_getD]
  cases h : st[id]? with
  | none => exact ho.1
  | some ns => exact ho.2 ns (List.mem_of_getElem? h)

theorem Own.set {pv pr : Nat → Bool} {st : St} {rm : RMem} (ho : Own pv pr st rm) (id : Nat) {ns : NodeSt}
    (hn : NodeOwn pv pr rm ns) : Own pv pr (st.set id ns) rm := by
  refine ⟨ho.1, fun x hx => ?_⟩
  rcases List.mem_or_eq_of_mem_set hx with h | h
  · exact ho.2 x h
  · exact h ▸ hn

theorem NodeOwn.mono {pv pr : Nat → Bool} {rm rm' : RMem} {ns : NodeSt} (hn : NodeOwn pv pr rm ns)
    (hk : KeepsR pr rm rm') : NodeOwn pv pr rm' ns := by
  obtain ⟨⟨h1, h2, h3⟩, ⟨h4, h5⟩, h6⟩ := hn
  refine ⟨⟨h1, Nat.lt_of_lt_of_le h2 hk.1, (hk.2.1 _ h2).trans h3⟩, ⟨h4, ?_⟩, h6⟩
  have hlt : ns.slots.arr < rm.length := by
    apply Classical.byContradiction
    intro hge
    have : tagOf rm ns.slots.arr = false := by
      unfold tagOf
      rw [List.getD_eq_getElem?_getD, List.getElem?_eq_none (Nat.le_of_not_lt hge)]
      rfl
    rw [this] at h5
    cases h5
  exact (hk.2.1 _ hlt).trans h5

theorem Own.mono {pv pr : Nat → Bool} {st : St} {rm rm' : RMem} (ho : Own pv pr st rm) (hk : KeepsR pr rm rm') :
    Own pv pr st rm' :=
  ⟨ho.1.mono hk, fun ns h => (ho.2 ns h).mono hk⟩

/-- the hypotheses under which a writer runs: the ownership invariant, the typing of the `[]Row`
    arrays, protected arrays exist -/
structure Good (pv pr : Nat → Bool) (st : St) (m : Mem) (rm : RMem) : Prop where
  own : Own pv pr st rm
  slots : SlotsOk pv rm
  bm : Bounded pv m
  br : BoundedR pr rm

/-- what an inner writer has to guarantee for the frame of a wrapper around it -/
def Safe (pv pr : Nat → Bool) (w : Writer) : Prop :=
  ∀ st m rm rows, Good pv pr st m rm →
    Keeps pv m (w st m rm rows).m ∧ KeepsR pr rm (w st m rm rows).rm ∧
      Good pv pr (w st m rm rows).st (w st m rm rows).m (w st m rm rows).rm

end PqModel.WriteOwn
