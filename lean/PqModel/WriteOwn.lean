/-! # Write side of C16: who writes into the memory of rows passed to `WriteRows`

MIRROR of the row-writer wrappers of parquet-go and of two leaf writers, over an explicit memory of
`[]Value` backing arrays:

* `filterRowWriter.WriteRows`      filter.go:52-86 (`asIs = true`: as it was before the repair, the
                                   deferred `clearValues` over `f.rows`; `asIs = false`: the repair,
                                   the deferred loop only drops the references)
* `transformRowWriter.WriteRows`   transform.go:108-141 (`makeRows` row.go:374-381, `clearRows` row.go:383-388)
* `dedupeRowWriter.WriteRows`      dedupe.go:45-66 with `dedupe.deduplicate` dedupe.go:78-108
* `multiRowWriter.WriteRows`       row.go:237-248 (binary; `MultiRowWriter(a, b, c)` = `multi a (multi b c)`)
* `RowBuffer.WriteRows`            row_buffer.go:164-174 (`buf.values = append(buf.values, rows[i]...)`)
* a recording sink (`RowWriterFunc` that copies what it is given and fails at a chosen call)

A `parquet.Row` is a Go slice header (`Hdr`: backing array, offset, length, capacity) and a
`parquet.Value` is abstracted to a natural number (0 = the zero `Value{}` that `clearValues` writes).
What IS modelled: every store through a `[]Value` header (`clearValues`, `append` in place or with
reallocation), the chunking loops (42 rows for the filter, `len(t.rows)` for the transform), the
state the wrappers keep between calls (`f.rows`, `t.rows`, `d.lastRow`), error paths (including the
shadowed `err` of filter.go:74 which makes the filter return `n, nil` after a failed write).
What is NOT: the `[]Row` header arrays themselves (passed by value here: that the dedupe writer
copies `rows` before reordering is invisible), byte arrays behind BYTE_ARRAY values, capacities
chosen by Go's `append` growth (the model allocates exactly; only in-place-vs-realloc decisions of
library-owned arrays depend on it, which is not observable in caller memory or in what is
delivered downstream).

SPEC side: `Keeps pv m m'` — every protected (`pv`) array holds the same cells in `m'` as in `m`.
-/
namespace PqModel.WriteOwn

abbrev Val := Nat

/-- a `[]Value` slice header -/
structure Hdr where
  arr : Nat
  off : Nat
  len : Nat
  cap : Nat
deriving DecidableEq, Repr, Inhabited

/-- the nil slice; array 0 is a reserved, never protected dummy array -/
def Hdr.nil : Hdr := ⟨0, 0, 0, 0⟩

/-- the memory: backing arrays of `[]Value` slices -/
abbrev Mem := List (List Val)

def writeAt (l : List Val) (i : Nat) (xs : List Val) : List Val :=
  l.take i ++ xs ++ l.drop (i + xs.length)

/-- the values a row header shows -/
def row (m : Mem) (h : Hdr) : List Val := ((m.getD h.arr []).drop h.off).take h.len

def store (m : Mem) (a i : Nat) (xs : List Val) : Mem := m.set a (writeAt (m.getD a []) i xs)

/-- `clearValues(values)` value.go:990-994 -/
def clearValues (m : Mem) (h : Hdr) : Mem := store m h.arr h.off (List.replicate h.len 0)

/-- `append(h, xs...)`: in place when the capacity suffices, a fresh array otherwise -/
def append (m : Mem) (h : Hdr) (xs : List Val) : Mem × Hdr :=
  if h.len + xs.length ≤ h.cap then
    (store m h.arr (h.off + h.len) xs, { h with len := h.len + xs.length })
  else
    (m ++ [row m h ++ xs], ⟨m.length, 0, h.len + xs.length, h.len + xs.length⟩)

/-! ## the frame: protected arrays keep their cells -/

def Keeps (pv : Nat → Bool) (m m' : Mem) : Prop :=
  m.length ≤ m'.length ∧ ∀ a, pv a = true → m'[a]? = m[a]?

/-- protected arrays exist (so a fresh allocation is never protected) -/
def Bounded (pv : Nat → Bool) (m : Mem) : Prop := ∀ a, pv a = true → a < m.length

theorem Keeps.refl (pv : Nat → Bool) (m : Mem) : Keeps pv m m := ⟨Nat.le_refl _, fun _ _ => rfl⟩

theorem Keeps.trans {pv : Nat → Bool} {a b c : Mem} (h1 : Keeps pv a b) (h2 : Keeps pv b c) : Keeps pv a c :=
  ⟨Nat.le_trans h1.1 h2.1, fun x hx => (h2.2 x hx).trans (h1.2 x hx)⟩

theorem Bounded.mono {pv : Nat → Bool} {m m' : Mem} (hb : Bounded pv m) (hk : Keeps pv m m') : Bounded pv m' :=
  fun a ha => Nat.lt_of_lt_of_le (hb a ha) hk.1

theorem store_keeps {pv : Nat → Bool} (m : Mem) (a i : Nat) (xs : List Val) (ha : pv a = false) :
    Keeps pv m (store m a i xs) := by
  refine ⟨by simp [store], fun x hx => ?_⟩
  have hne : a ≠ x := by intro e; subst e; simp [ha] at hx
  simp [store, List.getElem?_set_ne hne]

theorem clearValues_keeps {pv : Nat → Bool} (m : Mem) (h : Hdr) (ha : pv h.arr = false) :
    Keeps pv m (clearValues m h) := store_keeps m _ _ _ ha

theorem append_keeps {pv : Nat → Bool} (m : Mem) (h : Hdr) (xs : List Val) (hb : Bounded pv m)
    (ha : pv h.arr = false) : Keeps pv m (append m h xs).1 ∧ pv (append m h xs).2.arr = false := by
  unfold append
  split
  · exact ⟨store_keeps m _ _ _ ha, ha⟩
  · refine ⟨⟨by simp, fun x hx => ?_⟩, ?_⟩
    · have := hb x hx
      simp [List.getElem?_append_left this]
    · cases hp : pv m.length with
      | false => rfl
      | true => exact absurd (hb _ hp) (Nat.lt_irrefl _)

/-! ## behaviours of the caller-supplied functions -/

/-- what a transform function does with `(dst, src)`: return `dst` unchanged (the row is skipped),
    `append(dst, src...)`, `append(append(dst, src...), src...)`, or fail. All of them keep the
    documented contract (write into `dst` only). -/
inductive TrOut where
  | skip | copy | twice | fail
deriving DecidableEq, Repr

/-- `pred k vs`: predicate of filter node k on a row showing values vs; `same k a b`: the compare
    function of dedupe node k returned 0; `tr k vs`: transform node k -/
structure Beh where
  pred : Nat → List Val → Bool
  same : Nat → List Val → List Val → Bool
  tr : Nat → List Val → TrOut

/-! ## writer objects: static shape + state per node -/

inductive Shape where
  | sink (id failAt : Nat)
  | rowbuf (id : Nat)
  | filter (asIs : Bool) (id k : Nat) (inner : Shape)
  | transform (id k : Nat) (inner : Shape)
  | dedupe (id k : Nat) (inner : Shape)
  | multi (a b : Shape)
deriving Repr

/-- no filter node of the unrepaired kind -/
def Shape.repaired : Shape → Bool
  | .sink _ _ => true
  | .rowbuf _ => true
  | .filter asIs _ _ inner => !asIs && inner.repaired
  | .transform _ _ inner => inner.repaired
  | .dedupe _ _ inner => inner.repaired
  | .multi a b => a.repaired && b.repaired

/-- fields of one writer object.
    `held`: references to rows of the caller (`filterRowWriter.rows`);
    `slots`: `[]Row` whose rows the object owns (`transformRowWriter.rows`, `RowBuffer.rows`);
    `hdr`: a `[]Value` the object owns (`dedupe.lastRow`, `RowBuffer.values`);
    `calls`, `got`: the recording sink -/
structure NodeSt where
  held : List Hdr := []
  slots : List Hdr := []
  hdr : Hdr := Hdr.nil
  calls : Nat := 0
  got : List (List (List Val)) := []
deriving Repr, Inhabited

abbrev St := List NodeSt

def St.node (st : St) (id : Nat) : NodeSt := st.getD id {}

structure Res where
  st : St
  m : Mem
  n : Nat
  err : Bool

/-- chunks of at most k elements (fuel = length of the list) -/
def chunks {α} (k : Nat) : Nat → List α → List (List α)
  | 0, _ => []
  | _, [] => []
  | fuel + 1, l => l.take (max k 1) :: chunks k fuel (l.drop (max k 1))

/-- `f.rows[i] = row` for the selected rows of one chunk: the prefix of the 42 slots is overwritten -/
def overwritePrefix (slots sel : List Hdr) : List Hdr := sel ++ slots.drop sel.length

/-- filter.go:61-83, the loop over chunks of `len(f.rows)` = 42 rows -/
def filterChunks (B : Beh) (id k : Nat) (inner : St → Mem → List Hdr → Res) :
    List (List Hdr) → St → Mem → Nat → St × Mem × Nat
  | [], st, m, n => (st, m, n)
  | c :: cs, st, m, n =>
    let sel := c.filter fun h => B.pred k (row m h)
    let st := st.set id { st.node id with held := overwritePrefix (st.node id).held sel }
    if sel.length > 0 then
      let r := inner st m sel
      -- filter.go:74-77: `_, err := ...; if err != nil { break }` — the inner `err` shadows the result
      if r.err then (r.st, r.m, n) else filterChunks B id k inner cs r.st r.m (n + c.length)
    else filterChunks B id k inner cs st m (n + c.length)

def filterRowBufferSize : Nat := 42

/-- filter.go:52-86 -/
def filterWrite (B : Beh) (asIs : Bool) (id k : Nat) (inner : St → Mem → List Hdr → Res)
    (st : St) (m : Mem) (rows : List Hdr) : Res :=
  -- `rows [defaultRowBufferSize]Row` is part of the struct: 42 nil rows before the first call
  let st := if (st.node id).held.length = filterRowBufferSize then st
            else st.set id { st.node id with held := List.replicate filterRowBufferSize Hdr.nil }
  let r := filterChunks B id k inner (chunks filterRowBufferSize rows.length rows) st m 0
  let st1 := r.1
  let m1 := r.2.1
  if asIs then
    -- before the repair: `clearValues(clear[i])` for all 42 entries, which are the caller's rows
    ⟨st1, (st1.node id).held.foldl clearValues m1, r.2.2, false⟩
  else
    ⟨st1.set id { st1.node id with held := List.replicate filterRowBufferSize Hdr.nil }, m1, r.2.2, false⟩

/-- `makeRows(n)` row.go:374-381: n rows of capacity 1 carved out of one array of n values -/
def makeRows (m : Mem) (n : Nat) : Mem × List Hdr :=
  (m ++ [List.replicate n 0], (List.range n).map fun i => ⟨m.length, i, 0, 1⟩)

/-- one step of the loop of transform.go:128-136. `acc = (m, slots, numRows, failed)` -/
def transformStep (B : Beh) (k : Nat) (acc : Mem × List Hdr × Nat × Bool) (src : Hdr) :
    Mem × List Hdr × Nat × Bool :=
  let (m, slots, num, failed) := acc
  if failed then acc else
  let dst := { slots.getD num Hdr.nil with len := 0 }
  match B.tr k (row m src) with
  | .fail => (m, slots, num, true)
  | .skip => (m, slots.set num dst, num, false)
  | .copy =>
    let (m1, h) := append m dst (row m src)
    (m1, slots.set num h, if h.len ≠ 0 then num + 1 else num, false)
  | .twice =>
    let (m1, h1) := append m dst (row m src)
    let (m2, h2) := append m1 h1 (row m1 src)
    (m2, slots.set num h2, if h2.len ≠ 0 then num + 1 else num, false)

/-- `clearRows(rows[:num])` row.go:383-388 on the first `num` slots -/
def clearSlots : Nat → Nat → Mem → List Hdr → Mem × List Hdr
  | 0, _, m, slots => (m, slots)
  | fuel + 1, i, m, slots =>
    let h := slots.getD i Hdr.nil
    clearSlots fuel (i + 1) (clearValues m h) (slots.set i { h with len := 0 })

/-- transform.go:114-120, the loop over chunks of `len(t.rows)` rows, each through `writeRows`
    (transform.go:124-141) -/
def transformChunks (B : Beh) (id k : Nat) (inner : St → Mem → List Hdr → Res) :
    List (List Hdr) → St → Mem → Nat → Res
  | [], st, m, n => ⟨st, m, n, false⟩
  | c :: cs, st, m, n =>
    let (m1, slots1, num, failed) := c.foldl (transformStep B k) (m, (st.node id).slots, 0, false)
    if failed then
      let (m2, slots2) := clearSlots num 0 m1 slots1
      ⟨st.set id { st.node id with slots := slots2 }, m2, n, true⟩
    else
      let st1 := st.set id { st.node id with slots := slots1 }
      let r := inner st1 m1 (slots1.take num)
      let (m2, slots2) := clearSlots num 0 r.m ((r.st.node id).slots)
      let st2 := r.st.set id { r.st.node id with slots := slots2 }
      if r.err then ⟨st2, m2, n, true⟩ else transformChunks B id k inner cs st2 m2 (n + c.length)

/-- transform.go:108-122 -/
def transformWrite (B : Beh) (id k : Nat) (inner : St → Mem → List Hdr → Res)
    (st : St) (m : Mem) (rows : List Hdr) : Res :=
  let (m0, st0) :=
    if (st.node id).slots.length = 0 then
      let (m', slots) := makeRows m rows.length
      (m', st.set id { st.node id with slots := slots })
    else (m, st)
  transformChunks B id k inner (chunks (st0.node id).slots.length rows.length rows) st0 m0 0

/-- one step of the loop of dedupe.go:92-99. `acc = (lastRow, uniq)` (the dupes are dropped: they are
    moved behind the `n` unique rows of a `[]Row` the model does not keep) -/
def dedupeStep (B : Beh) (k : Nat) (m : Mem) (acc : Hdr × List Hdr) (r : Hdr) : Hdr × List Hdr :=
  if acc.1.len ≠ 0 && B.same k (row m r) (row m acc.1) then acc else (r, acc.2 ++ [r])

/-- dedupe.go:45-66 + 78-108 -/
def dedupeWrite (B : Beh) (id k : Nat) (inner : St → Mem → List Hdr → Res)
    (st : St) (m : Mem) (rows : List Hdr) : Res :=
  let last := (st.node id).hdr
  let (lastRow, uniq) := rows.foldl (dedupeStep B k m) (last, [])
  -- dedupe.go:106 `d.lastRow = append(d.lastRow[:0], lastRow...)`
  let (m1, last1) := append m { last with len := 0 } (row m lastRow)
  let st1 := st.set id { st.node id with hdr := last1 }
  if uniq.length > 0 then
    let r := inner st1 m1 uniq
    if r.err then r else ⟨r.st, r.m, rows.length, false⟩
  else ⟨st1, m1, rows.length, false⟩

/-- row_buffer.go:164-174 -/
def rowbufStep (acc : Mem × Hdr × List Hdr) (r : Hdr) : Mem × Hdr × List Hdr :=
  let (m, vals, slots) := acc
  let (m1, vals1) := append m vals (row m r)
  (m1, vals1, slots ++ [⟨vals1.arr, vals1.off + vals.len, r.len, r.len⟩])

def rowbufWrite (id : Nat) (st : St) (m : Mem) (rows : List Hdr) : Res :=
  let (m1, vals1, slots1) := rows.foldl rowbufStep (m, (st.node id).hdr, (st.node id).slots)
  ⟨st.set id { st.node id with hdr := vals1, slots := slots1 }, m1, rows.length, false⟩

/-- the recording sink: call number `failAt` (0-based) fails without looking at the rows -/
def sinkWrite (id failAt : Nat) (st : St) (m : Mem) (rows : List Hdr) : Res :=
  let ns := st.node id
  if ns.calls = failAt then ⟨st.set id { ns with calls := ns.calls + 1 }, m, 0, true⟩
  else ⟨st.set id { ns with calls := ns.calls + 1, got := ns.got ++ [rows.map (row m)] }, m, rows.length, false⟩

/-- row.go:237-248 for two writers -/
def multiWrite (wa wb : St → Mem → List Hdr → Res) (st : St) (m : Mem) (rows : List Hdr) : Res :=
  let r1 := wa st m rows
  if r1.err then r1 else
  if r1.n ≠ rows.length then { r1 with err := true } else
  let r2 := wb r1.st r1.m rows
  if r2.err then r2 else
  if r2.n ≠ rows.length then { r2 with err := true } else r2

/-- `WriteRows(rows)` on the writer object of shape `sh` -/
def write (B : Beh) : Shape → St → Mem → List Hdr → Res
  | .sink id failAt => sinkWrite id failAt
  | .rowbuf id => rowbufWrite id
  | .filter asIs id k inner => filterWrite B asIs id k (write B inner)
  | .transform id k inner => transformWrite B id k (write B inner)
  | .dedupe id k inner => dedupeWrite B id k (write B inner)
  | .multi a b => multiWrite (write B a) (write B b)

/-- a history of `WriteRows` calls on one writer object; returns the final state, memory and the
    `(n, err)` of every call -/
def run (B : Beh) (sh : Shape) : List (List Hdr) → St → Mem → St × Mem × List (Nat × Bool)
  | [], st, m => (st, m, [])
  | b :: bs, st, m =>
    let r := write B sh st m b
    let rest := run B sh bs r.st r.m
    (rest.1, rest.2.1, (r.n, r.err) :: rest.2.2)

/-! ## invariant of the state: what the writer objects own is not protected -/

def NodeOwn (pv : Nat → Bool) (ns : NodeSt) : Prop :=
  (∀ h ∈ ns.slots, pv h.arr = false) ∧ pv ns.hdr.arr = false

/-- every owned header stored in any writer object points to an unprotected array, and so does the
    nil header (array 0 is the reserved dummy) -/
def Own (pv : Nat → Bool) (st : St) : Prop := pv 0 = false ∧ ∀ ns ∈ st, NodeOwn pv ns

theorem NodeOwn.default {pv : Nat → Bool} (h0 : pv 0 = false) : NodeOwn pv {} := by
  refine ⟨?_, h0⟩
  intro h hh
  cases hh

theorem Own.node {pv : Nat → Bool} {st : St} (ho : Own pv st) (id : Nat) : NodeOwn pv (st.node id) := by
  unfold St.node
  rw [List.getD_eq_getElem?_getD]
  cases h : st[id]? with
  | none => exact NodeOwn.default ho.1
  | some ns => exact ho.2 ns (List.mem_of_getElem? h)

theorem Own.set {pv : Nat → Bool} {st : St} (ho : Own pv st) (id : Nat) {ns : NodeSt} (hn : NodeOwn pv ns) :
    Own pv (st.set id ns) := by
  refine ⟨ho.1, fun x hx => ?_⟩
  rcases List.mem_or_eq_of_mem_set hx with h | h
  · exact ho.2 x h
  · exact h ▸ hn

/-- what an inner writer has to guarantee for the frame of a wrapper around it -/
def Safe (pv : Nat → Bool) (w : St → Mem → List Hdr → Res) : Prop :=
  ∀ st m rows, Own pv st → Bounded pv m →
    Keeps pv m (w st m rows).m ∧ Own pv (w st m rows).st

end PqModel.WriteOwn
