import PqModel.Stats

/-! # The column index of several row groups seen as one chunk (C05): order claims across chunk borders

`parquet.MultiRowGroup(...)` (and every merge that produces one) answers `ColumnChunk.ColumnIndex()` with a
`multiColumnIndex` (multi_row_group.go): the pages of the member chunks one after the other, each entry read
from the member's own index, and `IsAscending()` / `IsDescending()` RECOMPUTED: every member must make the
claim itself, and the members must line up at the borders. A reader prunes / binary-searches by that claim
exactly as by a file's `boundary_order`, so it is a "claimed boundary order" of C05.

MIRRORS: `ascSeams`/`descSeams`/`multiAsc`/`multiDesc` transliterate the REPAIRED `IsAscending`/`IsDescending`
(one pass carrying the bound of the last non-null page seen so far); `ascSeams_before_fix`/`descSeams_before_fix`
transliterate the code before the repair (adjacent members only; the descending check looked at the wrong ends).
SPEC: `multiPages` (the concatenation) and the `Pairwise` statements of `Props/C05Ext.lean`. -/
namespace PqModel.Stats

/-- what `multiColumnIndex` reads of one member chunk's `ColumnIndex`: one entry per page (`none` = `NullPage`)
    and the member's own `IsAscending()` / `IsDescending()` -/
structure MChunk (α : Type) where
  pages : List (Option (α × α))
  asc : Bool
  desc : Bool

/-- SPEC: the pages of the view are the members' pages one after the other (`mapPageIndex`, tied in C06) -/
def multiPages {α} (cs : List (MChunk α)) : List (Option (α × α)) := (cs.map (·.pages)).flatten

/-- the last element of `p :: ps` -/
def lastOr {α} (p : α) : List α → α
  | [] => p
  | q :: qs => lastOr q qs

/-- MIRROR multi_row_group.go `(*multiColumnIndex).IsAscending` seam loop + `nonNullPageRange`; each member is
    given as the entries of its non-null pages (`pairsOf`), `prev` = `prevMax`/`hasPrev`. `cmp(prevMax, min) > 0`
    is `lt min prevMax`. A member without non-null page is skipped and does not reset `prev`. -/
def ascSeams {α} (lt : α → α → Bool) : Option α → List (List (α × α)) → Bool
  | _, [] => true
  | prev, [] :: rest => ascSeams lt prev rest
  | prev, (p :: ps) :: rest =>
    (match prev with
      | some m => !lt p.1 m
      | none => true) && ascSeams lt (some (lastOr p ps).2) rest

/-- MIRROR `(*multiColumnIndex).IsDescending` seam loop: `prev` = `prevMin`; `cmp(prevMin, max) < 0` is `lt prevMin max` -/
def descSeams {α} (lt : α → α → Bool) : Option α → List (List (α × α)) → Bool
  | _, [] => true
  | prev, [] :: rest => descSeams lt prev rest
  | prev, (p :: ps) :: rest =>
    (match prev with
      | some m => !lt m p.2
      | none => true) && descSeams lt (some (lastOr p ps).1) rest

/-- MIRROR `IsAscending()`: no member ⇒ false; every member claims ascending; the seams line up -/
def multiAsc {α} (o : ColOrder α) (cs : List (MChunk α)) : Bool :=
  !cs.isEmpty && cs.all (·.asc) && ascSeams o.lt none (cs.map (fun c => pairsOf c.pages))

/-- MIRROR `IsDescending()` -/
def multiDesc {α} (o : ColOrder α) (cs : List (MChunk α)) : Bool :=
  !cs.isEmpty && cs.all (·.desc) && descSeams o.lt none (cs.map (fun c => pairsOf c.pages))

/-! ### the code before the repair (regression facts) -/

/-- MIRROR of `IsAscending` before the repair: ADJACENT members only, a pair is compared when both have a
    non-null page (last of the current against first of the next) -/
def ascSeams_before_fix {α} (lt : α → α → Bool) : List (List (α × α)) → Bool
  | [] => true
  | [_] => true
  | cur :: nxt :: rest =>
    (match cur, nxt with
      | p :: ps, q :: _ => !lt q.1 (lastOr p ps).2
      | _, _ => true) && ascSeams_before_fix lt (nxt :: rest)

/-- MIRROR of `IsDescending` before the repair: the FIRST non-null page of the current member against the LAST
    non-null page of the next (`cmp(currMin, nextMax) < 0` ⇒ false) -/
def descSeams_before_fix {α} (lt : α → α → Bool) : List (List (α × α)) → Bool
  | [] => true
  | [_] => true
  | cur :: nxt :: rest =>
    (match cur, nxt with
      | p :: _, q :: qs => !lt p.1 (lastOr q qs).2
      | _, _ => true) && descSeams_before_fix lt (nxt :: rest)

def multiAsc_before_fix {α} (o : ColOrder α) (cs : List (MChunk α)) : Bool :=
  !cs.isEmpty && cs.all (·.asc) && ascSeams_before_fix o.lt (cs.map (fun c => pairsOf c.pages))

def multiDesc_before_fix {α} (o : ColOrder α) (cs : List (MChunk α)) : Bool :=
  !cs.isEmpty && cs.all (·.desc) && descSeams_before_fix o.lt (cs.map (fun c => pairsOf c.pages))

/-! ### lemmas -/

theorem lastOr_mem {α} : ∀ (ps : List α) (p : α), lastOr p ps ∈ p :: ps
  | [], p => by simp [lastOr]
  | q :: qs, p => by
    simp only [lastOr]
    exact List.mem_cons_of_mem _ (lastOr_mem qs q)

/-- in a list sorted by a reflexive relation every element is below the last one -/
theorem le_lastOr {α} (R : α → α → Prop) (hrefl : ∀ a, R a a) :
    ∀ (ps : List α) (p : α), (p :: ps).Pairwise R → ∀ x ∈ p :: ps, R x (lastOr p ps)
  | [], p, _, x, hx => by
    simp only [List.mem_cons, List.not_mem_nil, or_false] at hx
    subst hx; exact hrefl _
  | q :: qs, p, hpw, x, hx => by
    simp only [lastOr]
    rcases List.pairwise_cons.mp hpw with ⟨hhead, htail⟩
    rcases List.mem_cons.mp hx with hx | hx
    · subst hx; exact hhead _ (lastOr_mem qs q)
    · exact le_lastOr R hrefl qs q htail x hx

/-- `a ≤ b ≤ c` with `b` taking part in the order -/
theorem le_trans' {α} {o : ColOrder α} (h : Lawful o) {a b c : α} (hb : o.ok b = true)
    (h1 : o.lt b a = false) (h2 : o.lt c b = false) : o.lt c a = false := by
  cases hca : o.lt c a with
  | false => rfl
  | true =>
    rcases h.negtrans c b a hb hca with h' | h'
    · rw [h2] at h'; exact absurd h' (by decide)
    · rw [h1] at h'; exact absurd h' (by decide)

theorem descSeams_eq_flip {α} (lt : α → α → Bool) : ∀ (L : List (List (α × α))) (prev : Option α),
    descSeams lt prev L = ascSeams (fun a b => lt b a) prev (L.map (fun l => l.map Prod.swap))
  | [], _ => rfl
  | [] :: rest, prev => by
    simp only [List.map_cons, List.map_nil, descSeams, ascSeams]
    exact descSeams_eq_flip lt rest prev
  | (p :: ps) :: rest, prev => by
    have hl : ∀ (qs : List (α × α)) (q : α × α), (lastOr q.swap (qs.map Prod.swap)) = (lastOr q qs).swap := by
      intro qs
      induction qs with
      | nil => intro q; rfl
      | cons r rs ih => intro q; simp only [List.map_cons, lastOr]; exact ih r
    simp only [List.map_cons, descSeams, ascSeams, hl, Prod.fst_swap, Prod.snd_swap]
    rw [descSeams_eq_flip lt rest]

/-- The seam loop is sound: members whose own non-null entries are sorted in min and in max, whose bounds all take
    part in the order with `min ≤ max`, and which pass the seam loop, are sorted as a whole; and everything lies
    above the carried bound `prev`. -/
theorem ascSeams_sound {α} {o : ColOrder α} (h : Lawful o) : ∀ (L : List (List (α × α))) (prev : Option α),
    (∀ l ∈ L, ∀ p ∈ l, o.ok p.1 = true ∧ o.ok p.2 = true ∧ o.lt p.2 p.1 = false) →
    (∀ l ∈ L, (l.map Prod.fst).Pairwise (fun a b => o.lt b a = false) ∧
              (l.map Prod.snd).Pairwise (fun a b => o.lt b a = false)) →
    ascSeams o.lt prev L = true →
    (L.flatten.map Prod.fst).Pairwise (fun a b => o.lt b a = false) ∧
    (L.flatten.map Prod.snd).Pairwise (fun a b => o.lt b a = false) ∧
    (∀ m, prev = some m → ∀ p ∈ L.flatten, o.lt p.1 m = false)
  | [], _, _, _, _ => by simp
  | [] :: rest, prev, hok, hs, hrun => by
    simp only [ascSeams] at hrun
    simpa using ascSeams_sound h rest prev (fun l hl => hok l (List.mem_cons_of_mem _ hl))
      (fun l hl => hs l (List.mem_cons_of_mem _ hl)) hrun
  | (p :: ps) :: rest, prev, hok, hs, hrun => by
    simp only [ascSeams, Bool.and_eq_true] at hrun
    obtain ⟨hprev, hrest⟩ := hrun
    have hokl := hok (p :: ps) (List.mem_cons_self ..)
    obtain ⟨hmins, hmaxs⟩ := hs (p :: ps) (List.mem_cons_self ..)
    obtain ⟨ih1, ih2, ih3⟩ := ascSeams_sound h rest (some (lastOr p ps).2)
      (fun l hl => hok l (List.mem_cons_of_mem _ hl)) (fun l hl => hs l (List.mem_cons_of_mem _ hl)) hrest
    have ih3 := ih3 _ rfl
    have hg := lastOr_mem ps p
    have hgok := hokl _ hg
    -- every max of this member is below the last max
    have hmaxLast : ∀ x ∈ p :: ps, o.lt (lastOr p ps).2 x.2 = false :=
      le_lastOr (fun a b : α × α => o.lt b.2 a.2 = false) (fun a => h.irrefl _) ps p
        (List.pairwise_map.mp hmaxs)
    -- every entry of this member lies (min and max) below every min of the later members
    have hcross : ∀ x ∈ p :: ps, ∀ q ∈ rest.flatten, o.lt q.1 x.2 = false := fun x hx q hq =>
      le_trans' h hgok.2.1 (hmaxLast x hx) (ih3 q hq)
    have hokRest : ∀ q ∈ rest.flatten, o.ok q.1 = true ∧ o.ok q.2 = true ∧ o.lt q.2 q.1 = false := by
      intro q hq
      obtain ⟨l, hl, hql⟩ := List.mem_flatten.mp hq
      exact hok l (List.mem_cons_of_mem _ hl) q hql
    refine ⟨?_, ?_, ?_⟩
    · simp only [List.flatten_cons, List.map_append]
      refine List.pairwise_append.mpr ⟨hmins, ih1, ?_⟩
      intro a ha b hb
      obtain ⟨x, hx, rfl⟩ := List.mem_map.mp ha
      obtain ⟨q, hq, rfl⟩ := List.mem_map.mp hb
      exact le_trans' h (hokl x hx).2.1 (hokl x hx).2.2 (hcross x hx q hq)
    · simp only [List.flatten_cons, List.map_append]
      refine List.pairwise_append.mpr ⟨hmaxs, ih2, ?_⟩
      intro a ha b hb
      obtain ⟨x, hx, rfl⟩ := List.mem_map.mp ha
      obtain ⟨q, hq, rfl⟩ := List.mem_map.mp hb
      exact le_trans' h (hokRest q hq).1 (hcross x hx q hq) (hokRest q hq).2.2
    · intro m hm x hx
      subst hm
      simp only [Bool.not_eq_true'] at hprev
      -- m ≤ p.1 ≤ every min of this member
      have hhead : ∀ y ∈ p :: ps, o.lt y.1 m = false := by
        intro y hy
        rcases List.mem_cons.mp hy with hy | hy
        · subst hy; exact hprev
        · have := (List.pairwise_cons.mp (List.pairwise_map.mp hmins)).1 y hy
          exact le_trans' h (hokl p (List.mem_cons_self ..)).1 hprev this
      simp only [List.flatten_cons, List.mem_append] at hx
      rcases hx with hx | hx
      · exact hhead x hx
      · -- m ≤ p.1 ≤ p.2 ≤ x.1
        have hp := hokl p (List.mem_cons_self ..)
        have h1 : o.lt p.2 m = false := le_trans' h hp.1 hprev hp.2.2
        exact le_trans' h hp.2.1 h1 (hcross p (List.mem_cons_self ..) x hx)

theorem pairsOf_flatten {α} : ∀ L : List (List (Option (α × α))),
    pairsOf L.flatten = (L.map pairsOf).flatten
  | [] => rfl
  | l :: rest => by
    simp only [List.flatten_cons, List.map_cons, pairsOf, List.filterMap_append]
    have := pairsOf_flatten rest
    simp only [pairsOf] at this
    rw [this]

theorem nonNullMins_eq {α} : ∀ pages : List (Option (α × α)), nonNullMins pages = (pairsOf pages).map Prod.fst
  | [] => rfl
  | none :: rest => by
    have := nonNullMins_eq rest
    simp only [nonNullMins, pairsOf] at this
    simpa [nonNullMins, pairsOf] using this
  | some q :: rest => by
    have := nonNullMins_eq rest
    simp only [nonNullMins, pairsOf] at this
    simpa [nonNullMins, pairsOf] using this

theorem nonNullMaxs_eq {α} : ∀ pages : List (Option (α × α)), nonNullMaxs pages = (pairsOf pages).map Prod.snd
  | [] => rfl
  | none :: rest => by
    have := nonNullMaxs_eq rest
    simp only [nonNullMaxs, pairsOf] at this
    simpa [nonNullMaxs, pairsOf] using this
  | some q :: rest => by
    have := nonNullMaxs_eq rest
    simp only [nonNullMaxs, pairsOf] at this
    simpa [nonNullMaxs, pairsOf] using this

/-- the entries a reader sees for a BYTE_ARRAY member: the exact page bounds truncated to the size limit -/
def recordedBytes (lim : Nat) (pages : List (Option (List Nat × List Nat))) : List (Option (List Nat × List Nat)) :=
  pages.map (fun p => p.map (fun ab => (truncMinLim ab.1 lim, truncMaxLim ab.2 lim)))

theorem nonNullOf_bytesIndexMins (lim : Nat) : ∀ pages : List (Option (List Nat × List Nat)),
    nonNullOf pages (bytesIndexMins lim pages) = nonNullMins (recordedBytes lim pages)
  | [] => rfl
  | none :: rest => by
    have := nonNullOf_bytesIndexMins lim rest
    simp only [nonNullOf, bytesIndexMins, storedMins, nonNullMins, recordedBytes] at this
    simpa [nonNullOf, bytesIndexMins, storedMins, nonNullMins, recordedBytes] using this
  | some q :: rest => by
    have := nonNullOf_bytesIndexMins lim rest
    simp only [nonNullOf, bytesIndexMins, storedMins, nonNullMins, recordedBytes] at this
    simpa [nonNullOf, bytesIndexMins, storedMins, nonNullMins, recordedBytes] using this

theorem nonNullOf_bytesIndexMaxs (lim : Nat) : ∀ pages : List (Option (List Nat × List Nat)),
    nonNullOf pages (bytesIndexMaxs lim pages) = nonNullMaxs (recordedBytes lim pages)
  | [] => rfl
  | none :: rest => by
    have := nonNullOf_bytesIndexMaxs lim rest
    simp only [nonNullOf, bytesIndexMaxs, storedMaxs, nonNullMaxs, recordedBytes] at this
    simpa [nonNullOf, bytesIndexMaxs, storedMaxs, nonNullMaxs, recordedBytes] using this
  | some q :: rest => by
    have := nonNullOf_bytesIndexMaxs lim rest
    simp only [nonNullOf, bytesIndexMaxs, storedMaxs, nonNullMaxs, recordedBytes] at this
    simpa [nonNullOf, bytesIndexMaxs, storedMaxs, nonNullMaxs, recordedBytes] using this

end PqModel.Stats
