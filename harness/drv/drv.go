// Package drv is the client side of the pqdriver line protocol: it spawns the compiled Lean
// model once and pipelines requests (one line out, one line back).
package drv

import (
	"bufio"
	"fmt"
	"io"
	"os/exec"
	"strings"
	"sync"
)

type Driver struct {
	mu  sync.Mutex
	cmd *exec.Cmd
	in  *bufio.Writer
	inc io.WriteCloser
	out *bufio.Reader
	N   int64 // requests answered
}

func Start(path string) (*Driver, error) {
	cmd := exec.Command(path)
	inc, err := cmd.StdinPipe()
	if err != nil {
		return nil, err
	}
	outp, err := cmd.StdoutPipe()
	if err != nil {
		return nil, err
	}
	if err := cmd.Start(); err != nil {
		return nil, err
	}
	d := &Driver{cmd: cmd, in: bufio.NewWriterSize(inc, 1<<20), inc: inc, out: bufio.NewReaderSize(outp, 1<<20)}
	r, err := d.Ask("ping")
	if err != nil || r != "ok pong" {
		return nil, fmt.Errorf("pqdriver handshake failed: %q %v", r, err)
	}
	return d, nil
}

// Ask sends one request and waits for its answer.
func (d *Driver) Ask(req string) (string, error) {
	rs, err := d.AskMany([]string{req})
	if err != nil {
		return "", err
	}
	return rs[0], nil
}

// AskMany pipelines a batch of requests. A writer goroutine feeds the model while answers are read,
// so batches larger than the pipe buffers cannot deadlock.
func (d *Driver) AskMany(reqs []string) ([]string, error) {
	d.mu.Lock()
	defer d.mu.Unlock()
	errc := make(chan error, 1)
	go func() {
		for _, r := range reqs {
			if strings.ContainsAny(r, "\n\r") {
				errc <- fmt.Errorf("request contains newline: %q", r)
				return
			}
			if _, err := d.in.WriteString(r); err != nil {
				errc <- err
				return
			}
			if err := d.in.WriteByte('\n'); err != nil {
				errc <- err
				return
			}
		}
		errc <- d.in.Flush()
	}()
	out := make([]string, 0, len(reqs))
	for range reqs {
		line, err := d.out.ReadString('\n')
		if err != nil {
			return out, fmt.Errorf("pqdriver died after %d answers: %w", len(out), err)
		}
		out = append(out, strings.TrimRight(line, "\n"))
		d.N++
	}
	if err := <-errc; err != nil {
		return out, err
	}
	return out, nil
}

func (d *Driver) Close() {
	d.inc.Close()
	d.cmd.Wait()
}
