// pqrace runs the C15 concurrency scenarios (the same functions pqcheck runs) in a binary built
// with `go build -race -tags verif`. A data race makes the race runtime print
// "WARNING: DATA RACE" and (GORACE=halt_on_error=1) exit with status 66; a mismatch between the
// serial and the concurrent run prints MISMATCH and exits 3; a panic exits 2.
package main

import (
	"flag"
	"fmt"
	"os"
	"runtime"

	"verifharness/props"
)

func main() {
	name := flag.String("scenario", "", "scenario name (see props.C15Scenarios)")
	seed := flag.Int64("seed", 1, "first seed")
	n := flag.Int("n", 1, "number of consecutive seeds")
	procs := flag.Int("procs", 0, "GOMAXPROCS (0 = leave)")
	flag.Parse()
	if *procs > 0 {
		runtime.GOMAXPROCS(*procs)
	}
	for i := 0; i < *n; i++ {
		s := *seed + int64(i)
		fmt.Printf("RUN scenario=%s seed=%d\n", *name, s)
		a, b, err := props.C15RunScenario(*name, s)
		if err != nil {
			fmt.Printf("MISMATCH scenario=%s seed=%d serial=%s concurrent=%s: %v\n", *name, s, a, b, err)
			os.Exit(3)
		}
		fmt.Printf("OK scenario=%s seed=%d digest=%s\n", *name, s, a)
	}
}
