// pqcheck runs the correspondence (L1/L2) part of one property check against the parquet-go
// tree it was built from (module replace => /repo, -tags verif[,purego]).
package main

import (
	"flag"
	"fmt"
	"os"

	"verifharness/core"
	"verifharness/props"
)

func main() {
	c := core.NewCtx()
	var out string
	flag.StringVar(&c.Prop, "prop", "", "property id")
	flag.StringVar(&c.Tier, "tier", "quick", "quick|thorough")
	flag.Int64Var(&c.Seed, "seed", 1, "PRNG seed (VERIF_SEED)")
	flag.StringVar(&c.Variant, "variant", "asm", "asm|purego (how this binary was built)")
	flag.StringVar(&c.DriverPath, "driver", "", "path to pqdriver")
	flag.StringVar(&c.CorpusDir, "corpus", "", "corpus directory")
	flag.StringVar(&c.Replay, "replay", "", "replay file")
	flag.StringVar(&c.Only, "only", os.Getenv("VERIF_ONLY"), "run only the named sub-check")
	flag.BoolVar(&c.Widen, "widen", false, "run the widened failing-input search")
	flag.StringVar(&out, "out", "", "result json")
	worker := flag.String("worker", "", "internal: isolated worker mode")
	flag.Parse()
	if *worker != "" {
		os.Exit(props.Worker(*worker, flag.Args()))
	}
	f, ok := props.Registry[c.Prop]
	if !ok {
		fmt.Fprintln(os.Stderr, "unknown property", c.Prop)
		os.Exit(2)
	}
	f(c)
	if err := c.Finish(out); err != nil {
		fmt.Fprintln(os.Stderr, err)
		os.Exit(2)
	}
}
