package props

import (
	"sync"
	"testing"
	"time"
)

// The deadlock classifier must say "deadlock" for goroutines parked on channels for good and must
// not say it for goroutines that are merely slow (sleeping or spinning).
func TestC15AwaitDeadlockVsSlow(t *testing.T) {
	sel := func(stack string) bool {
		return stackHas(stack, "props.c15StuckVictim") || stackHas(stack, "props.c15SlowVictim")
	}
	// slow: finishes after a while, must come back "done"
	done := make(chan struct{})
	go func() { c15SlowVictim(); close(done) }()
	if v, _ := c15Await(done, time.Minute, sel); v != "done" {
		t.Fatalf("slow goroutine classified as %s", v)
	}
	// stuck: two goroutines waiting for each other
	done = make(chan struct{})
	a, b := make(chan int), make(chan int)
	var wg sync.WaitGroup
	wg.Add(2)
	go func() { defer wg.Done(); c15StuckVictim(a, b) }()
	go func() { defer wg.Done(); c15StuckVictim(b, a) }()
	go func() { wg.Wait(); close(done) }()
	v, dump := c15Await(done, time.Minute, sel)
	if v != "deadlock" {
		t.Fatalf("deadlocked goroutines classified as %s\n%s", v, dump)
	}
	// a sleeping goroutine among blocked ones: not a deadlock, the cap expires
	done = make(chan struct{})
	go func() { c15SlowVictimN(40); close(done) }()
	if v, _ := c15Await(done, 12*time.Second, sel); v != "unfinished" {
		t.Fatalf("sleeping goroutine next to blocked ones classified as %s", v)
	}
}

func stackHas(stack, s string) bool {
	for i := 0; i+len(s) <= len(stack); i++ {
		if stack[i:i+len(s)] == s {
			return true
		}
	}
	return false
}

//go:noinline
func c15StuckVictim(in, out chan int) { out <- <-in }

//go:noinline
func c15SlowVictim() { c15SlowVictimN(8) }

//go:noinline
func c15SlowVictimN(n int) {
	for i := 0; i < n; i++ {
		time.Sleep(time.Second)
	}
}

func TestC15AllBlockedSigquitDump(t *testing.T) {
	dump := "SIGQUIT: quit\nPC=0x4ac2e1 m=0 sigcode=0\n\ngoroutine 0 gp=0x5e9060 m=0 mp=0x5e9f40 [idle]:\nruntime.futex()\n\n" +
		"goroutine 1 gp=0xc000002380 m=nil [chan receive, 2 minutes]:\nruntime.gopark()\nmain.main()\n\t/x/main.go:16\n\n" +
		"goroutine 2 gp=0xc000002e00 m=nil [force gc (idle)]:\nruntime.forcegchelper()\n\n" +
		"goroutine 18 gp=0xc000002e00 m=nil [select (scan)]:\ngithub.com/parquet-go/parquet-go.readPages()\n"
	user := func(stack string) bool { return stackHas(stack, "main.main") || stackHas(stack, "parquet-go.") }
	if stuck, states := c15AllBlocked(dump, user); !stuck || states != "1 gp=0xc000002380 m=nil:chan receive 18 gp=0xc000002e00 m=nil:select" {
		t.Fatalf("stuck=%v states=%q", stuck, states)
	}
	if stuck, _ := c15AllBlocked(dump+"\ngoroutine 19 [runnable]:\ngithub.com/parquet-go/parquet-go.readPages()\n", user); stuck {
		t.Fatal("a runnable goroutine must prevent the verdict")
	}
}
