package props

// C07 — Bloom filters never answer absent for a value that was written.
//
// Sub-check "pure" (this file): L2 ties of the Lean definitions to the Go code, on whichever build
// this binary is (asm or purego):
//   * xxhash.Sum64 vs the Lean XXH64 (spec) on boundary lengths and unaligned slices;
//   * Sum64Uint8/32/64/128 and MultiSum64Uint8/32/64/128 (dirty dst, cap smaller/larger than src)
//     vs the Lean mirror;
//   * bloom.SplitBlockFilter Insert / InsertBulk / MakeSplitBlockFilter bytes vs the model filter,
//     block by block; Check / CheckSplitBlock vs the model on probes; L1: everything inserted is found;
//   * splitBlockEncoding.Encode* (the write side of bloom.go) vs `hashWrite`, Value.hash vs `hashRead`.
// Sub-check "files" is in c07_files.go.

import (
	"bytes"
	"encoding/binary"
	"fmt"
	"math"
	"math/rand"
	"strconv"
	"strings"
	"sync"

	"github.com/parquet-go/parquet-go"
	"github.com/parquet-go/parquet-go/bloom"
	"github.com/parquet-go/parquet-go/bloom/xxhash"
	"github.com/parquet-go/parquet-go/deprecated"

	"verifharness/core"
	"verifharness/drv"
)

func init() {
	RegisterSub("C07", "pure", RunC07Pure)
	RegisterSub("C07", "files", RunC07Files)
	RegisterSub("C07", "multi", RunC07Multi)
}

const c07Rule = "pure: hashed input or inserted hash list non-empty; files: the checked column chunk holds at least one non-null value and a filter; multi: the member row group holds at least one non-null value of the column and every member has a filter"

// c07Batch pipelines driver requests with a callback per answer.
type c07Batch struct {
	ctx  *core.Ctx
	d    *drv.Driver
	reqs []string
	cbs  []func(resp string)
}

func (b *c07Batch) add(req string, cb func(resp string)) {
	b.reqs = append(b.reqs, req)
	b.cbs = append(b.cbs, cb)
	if len(b.reqs) >= 2000 {
		b.flush()
	}
}

func (b *c07Batch) flush() {
	if len(b.reqs) == 0 || b.d == nil {
		b.reqs, b.cbs = b.reqs[:0], b.cbs[:0]
		return
	}
	resp, err := b.d.AskMany(b.reqs)
	if err != nil {
		b.ctx.Fail("L2", "driver-died", "pqdriver stopped answering: "+err.Error(), b.reqs[min(len(resp), len(b.reqs)-1)])
	}
	for i := range resp {
		b.cbs[i](resp[i])
	}
	b.reqs, b.cbs = b.reqs[:0], b.cbs[:0]
}

func c07U64s(xs []uint64) string {
	if len(xs) == 0 {
		return "-"
	}
	var sb strings.Builder
	for i, x := range xs {
		if i > 0 {
			sb.WriteByte(',')
		}
		sb.WriteString(strconv.FormatUint(x, 10))
	}
	return sb.String()
}

func c07ParseU64s(s string) ([]uint64, bool) {
	if s == "-" {
		return nil, true
	}
	parts := strings.Split(s, ",")
	out := make([]uint64, len(parts))
	for i, p := range parts {
		v, err := strconv.ParseUint(p, 10, 64)
		if err != nil {
			return nil, false
		}
		out[i] = v
	}
	return out, true
}

var c07Lens = []int{0, 1, 2, 3, 4, 5, 6, 7, 8, 9, 10, 11, 12, 13, 14, 15, 16, 17, 18, 19, 20, 21, 22, 23, 24, 25, 26, 27, 28, 29, 30,
	31, 32, 33, 34, 35, 36, 37, 38, 39, 40, 63, 64, 65, 95, 96, 97, 127, 128, 129, 255, 256, 257}

func c07Len(r *rand.Rand) int {
	switch r.Intn(10) {
	case 0:
		return r.Intn(1200)
	case 1:
		return 32*r.Intn(12) + r.Intn(3) - 1 + 1
	default:
		return c07Lens[r.Intn(len(c07Lens))]
	}
}

func c07Fill(r *rand.Rand, b []byte) {
	switch r.Intn(6) {
	case 0:
		for i := range b {
			b[i] = 0
		}
	case 1:
		for i := range b {
			b[i] = 0xFF
		}
	case 2:
		for i := range b {
			b[i] = byte(i)
		}
	default:
		r.Read(b)
	}
}

var c07HashPool = []uint64{0, 1, 0xFFFFFFFF, 0x100000000, 0xFFFFFFFF00000000, 0xFFFFFFFFFFFFFFFF, 0x7FFFFFFFFFFFFFFF,
	0x8000000000000000, 0x00000000FFFFFFFE, 0xFFFFFFFE00000001, 0x0000000180000000, 0x8000000080000000}

func c07Hash(r *rand.Rand) uint64 {
	switch r.Intn(8) {
	case 0:
		return c07HashPool[r.Intn(len(c07HashPool))]
	case 1: // extreme block index, random low word
		return 0xFFFFFFFF00000000 | uint64(r.Uint32())
	case 2: // block 0
		return uint64(r.Uint32())
	default:
		return r.Uint64()
	}
}

var c07Blocks = []int{1, 1, 2, 3, 4, 5, 7, 8, 9, 15, 16, 17, 31, 32, 33, 63, 64, 65, 100, 255, 256, 257, 1000}

func RunC07Pure(ctx *core.Ctx) {
	ctx.SetRule(c07Rule)
	if ctx.Replay != "" { // pure cases are a function of the seed: re-run the stream of the recorded seed
		rf := c07ReadReplay(ctx)
		if rf == nil || rf.Detail.Case != nil || rf.Detail.MultiCase != nil {
			return
		}
		ctx.Seed = rf.Seed
	}
	workers := 12
	var wg sync.WaitGroup
	for wi := 0; wi < workers; wi++ {
		wg.Add(1)
		go func(wi int) {
			defer wg.Done()
			d := ctx.Driver()
			if d == nil {
				return
			}
			b := &c07Batch{ctx: ctx, d: d}
			r := ctx.Rand(fmt.Sprintf("pure/%d", wi))
			defer func() {
				if p := recover(); p != nil {
					ctx.Fail("L1", "pure-panic", fmt.Sprintf("panic in bloom/xxhash primitives: %v", p), fmt.Sprintf("worker %d", wi))
				}
			}()
			// thorough = 8x quick (was 20x: the whole of C07 thorough cost ~96 CPU-minutes; budget is 10 min
			// of wall time on 16 cores for both builds together)
			nHash := ctx.Scale(60000, 480000) / workers
			nFixed := ctx.Scale(30000, 240000) / workers
			nMulti := ctx.Scale(40000, 320000) / workers
			nFilter := ctx.Scale(50000, 400000) / workers
			nEnc := ctx.Scale(30000, 240000) / workers
			if wi == 0 { // every boundary length once, deterministically
				for _, n := range c07Lens {
					buf := make([]byte, n)
					for i := range buf {
						buf[i] = byte(i*7 + 1)
					}
					c07HashCase(ctx, b, buf, "boundary")
				}
			}
			for i := 0; i < nHash; i++ {
				n := c07Len(r)
				off := r.Intn(9)
				big := make([]byte, off+n+r.Intn(9))
				c07Fill(r, big)
				c07HashCase(ctx, b, big[off:off+n:off+n], "random")
			}
			for i := 0; i < nFixed; i++ {
				c07FixedCase(ctx, b, r)
			}
			for i := 0; i < nMulti; i++ {
				c07MultiCase(ctx, b, r)
			}
			for i := 0; i < nFilter; i++ {
				c07FilterCase(ctx, b, r)
			}
			for i := 0; i < nEnc; i++ {
				c07EncCase(ctx, b, r)
			}
			for i := 0; i < nEnc; i++ {
				c07SizeCase(ctx, b, r)
			}
			b.flush()
		}(wi)
	}
	wg.Wait()
}

func c07HashCase(ctx *core.Ctx, b *c07Batch, data []byte, how string) {
	got := xxhash.Sum64(data)
	got2 := bloom.XXH64{}.Sum64(data)
	req := "xxh64 " + core.Hex(data)
	ctx.Case(req, len(data) > 0)
	ctx.Hist("pure.op", "xxh64")
	ctx.Hist("xxh64.len", c07Bucket(len(data)))
	if got != got2 {
		ctx.Fail("L2", "xxh64-interface-vs-package", "bloom.XXH64.Sum64 differs from xxhash.Sum64", req)
	}
	b.add(req, func(resp string) {
		want := "ok " + strconv.FormatUint(got, 10)
		if resp != want {
			ctx.Fail("L2", "xxh64-sum64-vs-spec", fmt.Sprintf("xxhash.Sum64 (%s build) differs from the Lean XXH64 on %d bytes", ctx.Variant, len(data)),
				map[string]any{"request": req, "go": want, "lean": resp, "how": how})
		}
	})
}

func c07Bucket(n int) string {
	switch {
	case n == 0:
		return "0"
	case n < 4:
		return "1-3"
	case n < 8:
		return "4-7"
	case n < 32:
		return "8-31"
	case n < 64:
		return "32-63"
	case n < 256:
		return "64-255"
	default:
		return "256+"
	}
}

func c07U32(r *rand.Rand) uint32 {
	pool := []uint32{0, 1, 0x7FFFFFFF, 0x80000000, 0xFFFFFFFF, 0xFF, 0x100, 0xFFFF, 0x10000, 0x7FC00000, 0x80000000 /* -0.0f */}
	if r.Intn(4) == 0 {
		return pool[r.Intn(len(pool))]
	}
	return r.Uint32()
}

func c07U64(r *rand.Rand) uint64 {
	pool := []uint64{0, 1, 0x7FFFFFFFFFFFFFFF, 0x8000000000000000, 0xFFFFFFFFFFFFFFFF, 0xFFFFFFFF, 0x100000000, 0x7FF8000000000001}
	if r.Intn(4) == 0 {
		return pool[r.Intn(len(pool))]
	}
	return r.Uint64()
}

// single-value specialisations vs XXH64 of the little-endian bytes (asked from the model)
func c07FixedCase(ctx *core.Ctx, b *c07Batch, r *rand.Rand) {
	var le []byte
	var got uint64
	var name string
	switch r.Intn(5) {
	case 0:
		v := uint8(r.Intn(256))
		le, got, name = []byte{v}, xxhash.Sum64Uint8(v), "Sum64Uint8"
	case 1:
		v := uint16(r.Intn(65536))
		le, got, name = binary.LittleEndian.AppendUint16(nil, v), xxhash.Sum64Uint16(v), "Sum64Uint16"
	case 2:
		v := c07U32(r)
		le, got, name = binary.LittleEndian.AppendUint32(nil, v), xxhash.Sum64Uint32(v), "Sum64Uint32"
	case 3:
		v := c07U64(r)
		le, got, name = binary.LittleEndian.AppendUint64(nil, v), xxhash.Sum64Uint64(v), "Sum64Uint64"
	default:
		var v [16]byte
		c07Fill(r, v[:])
		le, got, name = v[:], xxhash.Sum64Uint128(v), "Sum64Uint128"
	}
	req := "xxh64 " + core.Hex(le)
	ctx.Case(name+" "+req, true)
	ctx.Hist("pure.op", name)
	b.add(req, func(resp string) {
		want := "ok " + strconv.FormatUint(got, 10)
		if resp != want {
			ctx.Fail("L2", "sum64uint-vs-xxh64-of-le-bytes", name+" differs from XXH64 of the little-endian bytes",
				map[string]any{"fn": name, "request": req, "go": want, "lean": resp})
		}
	})
}

var c07MultiLens = []int{0, 1, 2, 3, 4, 5, 7, 8, 9, 15, 16, 17, 31, 32, 33, 34, 63, 64, 65, 127, 128, 129, 255, 256, 257}

func c07MultiCase(ctx *core.Ctx, b *c07Batch, r *rand.Rand) {
	n := c07MultiLens[r.Intn(len(c07MultiLens))]
	capd := n
	switch r.Intn(5) {
	case 0:
		capd = max(0, n-1-r.Intn(3))
	case 1:
		capd = n + 1 + r.Intn(5)
	case 2:
		capd = n / 2
	case 3:
		capd = 128 // the staging buffer of bloom.go
	}
	dst := make([]uint64, capd+2)
	const dirty = 0xA5A5A5A5A5A5A5A5
	for i := range dst {
		dst[i] = dirty
	}
	width := []int{8, 32, 64, 128}[r.Intn(4)]
	var ret int
	var vals string
	switch width {
	case 8:
		src := make([]uint8, n)
		c07Fill(r, src)
		ret = xxhash.MultiSum64Uint8(dst[:capd], src)
		vals = core.JoinInts(src)
	case 32:
		src := make([]uint32, n)
		for i := range src {
			src[i] = c07U32(r)
		}
		ret = xxhash.MultiSum64Uint32(dst[:capd], src)
		vals = core.JoinInts(src)
	case 64:
		src := make([]uint64, n)
		for i := range src {
			src[i] = c07U64(r)
		}
		ret = xxhash.MultiSum64Uint64(dst[:capd], src)
		vals = c07U64s(src)
	default:
		src := make([][16]byte, n)
		hx := make([]string, n)
		for i := range src {
			c07Fill(r, src[i][:])
			hx[i] = core.Hex(src[i][:])
		}
		ret = xxhash.MultiSum64Uint128(dst[:capd], src)
		vals = "-"
		if n > 0 {
			vals = strings.Join(hx, ",")
		}
	}
	req := fmt.Sprintf("multisum %d %d %s", width, capd, vals)
	ctx.Case(req, min(n, capd) > 0)
	ctx.Hist("pure.op", fmt.Sprintf("MultiSum64Uint%d", width))
	ctx.Hist("multisum.n", c07Bucket(min(n, capd)))
	if ret != min(n, capd) {
		ctx.Fail("L2", "multisum-return-count", fmt.Sprintf("MultiSum64Uint%d returned %d, want min(len h, len v) = %d", width, ret, min(n, capd)), req)
		return
	}
	for i := ret; i < len(dst); i++ {
		if dst[i] != dirty {
			ctx.Fail("L2", "multisum-writes-past-count", fmt.Sprintf("MultiSum64Uint%d wrote dst[%d] beyond the %d hashes it reported", width, i, ret), req)
			return
		}
	}
	got := "ok " + c07U64s(dst[:ret])
	b.add(req, func(resp string) {
		if resp != got {
			ctx.Fail("L2", fmt.Sprintf("multisum%d-vs-mirror", width), fmt.Sprintf("MultiSum64Uint%d (%s build) differs from the Lean mirror", width, ctx.Variant),
				map[string]any{"request": req, "go": got, "lean": resp})
		}
	})
}

func c07FilterCase(ctx *core.Ctx, b *c07Batch, r *rand.Rand) {
	nb := c07Blocks[r.Intn(len(c07Blocks))]
	nh := []int{0, 1, 2, 3, 4, 5, 7, 8, 9, 15, 16, 17, 31, 32, 33, 64, 129, 300}[r.Intn(18)]
	if nb >= 255 {
		nh = min(nh, 64)
	}
	hs := make([]uint64, nh)
	for i := range hs {
		hs[i] = c07Hash(r)
		if i > 0 && r.Intn(10) == 0 {
			hs[i] = hs[r.Intn(i)] // duplicates
		}
	}
	mode := []string{"insert", "bulk", "mixed", "bytes"}[r.Intn(4)]
	var f bloom.SplitBlockFilter
	switch mode {
	case "insert":
		f = make(bloom.SplitBlockFilter, nb)
		for _, h := range hs {
			f.Insert(h)
		}
	case "bulk":
		f = make(bloom.SplitBlockFilter, nb)
		f.InsertBulk(hs)
	case "mixed":
		f = make(bloom.SplitBlockFilter, nb)
		for i := 0; i < len(hs); {
			k := 1 + r.Intn(9)
			j := min(len(hs), i+k)
			if r.Intn(2) == 0 {
				f.InsertBulk(hs[i:j])
			} else {
				for _, h := range hs[i:j] {
					f.Insert(h)
				}
			}
			i = j
		}
	default: // the writer's way: a zeroed byte buffer seen as a filter
		raw := make([]byte, nb*bloom.BlockSize)
		f = bloom.MakeSplitBlockFilter(raw)
		f.InsertBulk(hs)
	}
	got := bytes.Clone(f.Bytes())
	req := fmt.Sprintf("bloom.build %d %s", nb, c07U64s(hs))
	ctx.Case(req, nh > 0)
	ctx.Hist("pure.op", "filter."+mode)
	ctx.Hist("filter.blocks", c07Bucket(nb))
	// L1: everything inserted is found, by the in-memory check and by the reader's check on the bytes
	for _, h := range hs {
		if !f.Check(h) {
			ctx.Fail("L1", "filter-check-misses-inserted-hash", "SplitBlockFilter.Check is false for an inserted hash",
				map[string]any{"request": req, "mode": mode, "hash": h})
			break
		}
		ok, err := bloom.CheckSplitBlock(bytes.NewReader(got), int64(len(got)), h)
		if err != nil || !ok {
			ctx.Fail("L1", "checksplitblock-misses-inserted-hash", fmt.Sprintf("CheckSplitBlock = %v, %v for an inserted hash", ok, err),
				map[string]any{"request": req, "mode": mode, "hash": h})
			break
		}
	}
	b.add(req, func(resp string) {
		want := "ok " + core.Hex(got)
		if resp == want {
			return
		}
		blk := -1
		lean := strings.TrimPrefix(resp, "ok ")
		goh := core.Hex(got)
		for i := 0; i+64 <= len(goh) && i+64 <= len(lean); i += 64 {
			if goh[i:i+64] != lean[i:i+64] {
				blk = i / 64
				break
			}
		}
		ctx.Fail("L2", "filter-bytes-vs-mirror-"+mode, fmt.Sprintf("SplitBlockFilter bytes (%s, %s build) differ from the model filter, first differing block %d", mode, ctx.Variant, blk),
			map[string]any{"request": req, "go": goh, "lean": lean})
	})
	// probes: Check vs the model's CheckSplitBlock mirror on the same bytes
	np := 8
	probes := make([]uint64, np)
	gotp := make([]string, np)
	for i := range probes {
		if nh > 0 && r.Intn(3) == 0 {
			probes[i] = hs[r.Intn(nh)] ^ (1 << uint(r.Intn(64))) // near miss
		} else {
			probes[i] = c07Hash(r)
		}
		c1 := f.Check(probes[i])
		c2, err := bloom.CheckSplitBlock(bytes.NewReader(got), int64(len(got)), probes[i])
		if err != nil || c1 != c2 {
			ctx.Fail("L2", "check-vs-checksplitblock", fmt.Sprintf("Check=%v CheckSplitBlock=%v,%v on the same filter", c1, c2, err),
				map[string]any{"request": req, "probe": probes[i]})
		}
		gotp[i] = "0"
		if c1 {
			gotp[i] = "1"
		}
	}
	if nb <= 65 {
		preq := fmt.Sprintf("bloom.checks %s %s", core.Hex(got), c07U64s(probes))
		b.add(preq, func(resp string) {
			if resp != "ok "+strings.Join(gotp, ",") {
				ctx.Fail("L2", "filter-check-vs-mirror", "SplitBlockFilter.Check differs from the model check on probes",
					map[string]any{"request": preq, "go": strings.Join(gotp, ","), "lean": resp})
			}
		})
	}
}

// the write side (splitBlockEncoding.Encode*) and the read side (Value.hash) of bloom.go
func c07EncCase(ctx *core.Ctx, b *c07Batch, r *rand.Rand) {
	enc := parquet.SplitBlockFilter(10, "x").Encoding()
	nb := []int{1, 2, 3, 8, 33}[r.Intn(5)]
	dst := make([]byte, nb*bloom.BlockSize)
	n := []int{0, 1, 2, 3, 7, 8, 9, 16, 17, 127, 128, 129, 130, 257}[r.Intn(14)]
	kind := []string{"boolean", "int32", "int64", "int96", "float", "double", "bytearray", "flba"}[r.Intn(8)]
	var req string
	var err error
	var probe parquet.Value // one of the encoded values, looked up through Value.hash
	var probeReq string
	switch kind {
	case "boolean":
		raw := make([]byte, n)
		c07Fill(r, raw)
		_, err = enc.EncodeBoolean(dst, raw)
		req = fmt.Sprintf("bloom.enc boolean %d %s", nb, core.Hex(raw))
		pb := r.Intn(2) == 1
		probe = parquet.BooleanValue(pb)
		probeReq = fmt.Sprintf("bloom.hashread boolean %d", map[bool]int{false: 0, true: 1}[pb])
	case "int32", "float":
		src := make([]int32, n)
		us := make([]uint32, n)
		for i := range src {
			us[i] = c07U32(r)
			src[i] = int32(us[i])
		}
		if kind == "int32" {
			_, err = enc.EncodeInt32(dst, src)
		} else {
			fs := make([]float32, n)
			for i := range fs {
				fs[i] = math.Float32frombits(us[i])
			}
			_, err = enc.EncodeFloat(dst, fs)
		}
		req = fmt.Sprintf("bloom.enc %s %d %s", kind, nb, core.JoinInts(us))
		v := c07U32(r)
		if n > 0 {
			v = us[r.Intn(n)]
		}
		if kind == "int32" {
			probe = parquet.Int32Value(int32(v))
		} else {
			probe = parquet.FloatValue(math.Float32frombits(v))
		}
		probeReq = fmt.Sprintf("bloom.hashread %s %d", kind, v)
	case "int64", "double":
		src := make([]int64, n)
		us := make([]uint64, n)
		for i := range src {
			us[i] = c07U64(r)
			src[i] = int64(us[i])
		}
		if kind == "int64" {
			_, err = enc.EncodeInt64(dst, src)
		} else {
			fs := make([]float64, n)
			for i := range fs {
				fs[i] = math.Float64frombits(us[i])
			}
			_, err = enc.EncodeDouble(dst, fs)
		}
		req = fmt.Sprintf("bloom.enc %s %d %s", kind, nb, c07U64s(us))
		v := c07U64(r)
		if n > 0 {
			v = us[r.Intn(n)]
		}
		if kind == "int64" {
			probe = parquet.Int64Value(int64(v))
		} else {
			probe = parquet.DoubleValue(math.Float64frombits(v))
		}
		probeReq = fmt.Sprintf("bloom.hashread %s %d", kind, v)
	case "int96":
		n = min(n, 40)
		src := make([]deprecated.Int96, n)
		raw := make([]byte, 0, 12*n)
		for i := range src {
			src[i] = deprecated.Int96{c07U32(r), c07U32(r), c07U32(r)}
			for _, w := range src[i] {
				raw = binary.LittleEndian.AppendUint32(raw, w)
			}
		}
		_, err = enc.EncodeInt96(dst, src)
		req = fmt.Sprintf("bloom.enc int96 %d %s", nb, core.Hex(raw))
		pv := deprecated.Int96{1, 2, 3}
		if n > 0 {
			pv = src[r.Intn(n)]
		}
		probe = parquet.Int96Value(pv)
		var pb []byte
		for _, w := range pv {
			pb = binary.LittleEndian.AppendUint32(pb, w)
		}
		probeReq = "bloom.hashread int96 " + core.Hex(pb)
	case "bytearray":
		n = min(n, 40)
		base := r.Intn(4) // the first offset need not be 0
		data := make([]byte, base)
		offs := []uint32{uint32(base)}
		var vals [][]byte
		for i := 0; i < n; i++ {
			v := make([]byte, c07Len(r)%70)
			c07Fill(r, v)
			vals = append(vals, v)
			data = append(data, v...)
			offs = append(offs, uint32(len(data)))
		}
		data = append(data, make([]byte, r.Intn(3))...) // slack after the last value
		_, err = enc.EncodeByteArray(dst, data, offs)
		req = fmt.Sprintf("bloom.enc bytearray %d %s %s", nb, core.Hex(data), core.JoinInts(offs))
		pv := []byte("probe")
		if n > 0 {
			pv = vals[r.Intn(n)]
		}
		probe = parquet.ByteArrayValue(pv)
		probeReq = "bloom.hashread bytearray " + c07BytesTok(pv)
	default: // flba
		n = min(n, 40)
		size := []int{1, 2, 5, 12, 15, 16, 16, 16, 17, 32, 33}[r.Intn(11)]
		raw := make([]byte, n*size+[]int{0, 0, 0, 1, size - 1}[r.Intn(5)]) // sometimes a trailing partial value
		c07Fill(r, raw)
		_, err = enc.EncodeFixedLenByteArray(dst, raw, size)
		kind = fmt.Sprintf("flba%d", size)
		req = fmt.Sprintf("bloom.enc %s %d %s", kind, nb, core.Hex(raw))
		pv := make([]byte, size)
		if n > 0 {
			i := r.Intn(n)
			pv = raw[i*size : (i+1)*size]
		}
		probe = parquet.FixedLenByteArrayValue(pv)
		probeReq = "bloom.hashread " + kind + " " + c07BytesTok(pv)
	}
	label := kind
	if strings.HasPrefix(kind, "flba") {
		label = "flba"
	}
	ctx.Case(req, n > 0)
	ctx.Hist("pure.op", "encode."+label)
	if err != nil {
		ctx.Fail("L2", "encode-error", "splitBlockEncoding returned an error: "+err.Error(), req)
		return
	}
	got := "ok " + core.Hex(dst)
	b.add(req, func(resp string) {
		if resp != got {
			ctx.Fail("L2", "encode-vs-hashwrite-"+label, "filter bytes after splitBlockEncoding.Encode* differ from the model write side",
				map[string]any{"request": req, "go": got, "lean": resp, "variant": ctx.Variant})
		}
	})
	ph := parquet.VerifBloomValueHash(probe)
	b.add(probeReq, func(resp string) {
		if resp != "ok "+strconv.FormatUint(ph, 10) {
			ctx.Fail("L2", "value-hash-vs-hashread-"+label, "Value.hash differs from the model read side",
				map[string]any{"request": probeReq, "go": ph, "lean": resp})
		}
	})
}

func c07BytesTok(b []byte) string {
	if len(b) == 0 {
		return "e"
	}
	return core.Hex(b)
}

// filter sizing: bloom.NumSplitBlocksOf and splitBlockFilter.Size vs the 64-bit mirror (wraparound included)
func c07SizeCase(ctx *core.Ctx, b *c07Batch, r *rand.Rand) {
	var n int64
	switch r.Intn(6) {
	case 0:
		n = []int64{0, 1, 2, 25, 26, 255, 256, 257, 1 << 31, 1<<31 - 1, 1 << 32, math.MaxInt64, -1}[r.Intn(13)]
	case 1:
		n = int64(r.Uint64() >> uint(r.Intn(64)))
	default:
		n = int64(r.Intn(100000))
	}
	bits := []uint{0, 1, 2, 4, 7, 8, 9, 10, 10, 16, 33, 64, 255, 256, 257, 1 << 32}[r.Intn(16)]
	got := bloom.NumSplitBlocksOf(n, bits)
	req := fmt.Sprintf("bloom.blocks %d %d", uint64(n), bits)
	ctx.Case(req, n > 0 && bits > 0)
	ctx.Hist("pure.op", "NumSplitBlocksOf")
	if sz := parquet.SplitBlockFilter(bits, "x").Size(n); sz != bloom.BlockSize*got {
		ctx.Fail("L2", "size-vs-numsplitblocks", fmt.Sprintf("splitBlockFilter.Size = %d, 32*NumSplitBlocksOf = %d", sz, bloom.BlockSize*got), req)
	}
	if n >= 1 && bits >= 1 && uint64(n) < 1<<40 && bits <= 256 && got < 1 {
		ctx.Fail("L1", "filter-size-zero-blocks", "NumSplitBlocksOf gives no block for at least one value and one bit per value", req)
	}
	b.add(req, func(resp string) {
		// int(numBlocks): compare as uint64 of the int
		if resp != "ok "+strconv.FormatUint(uint64(got), 10) {
			ctx.Fail("L2", "numsplitblocks-vs-mirror", "bloom.NumSplitBlocksOf differs from the Lean mirror",
				map[string]any{"request": req, "go": uint64(got), "lean": resp})
		}
	})
}
