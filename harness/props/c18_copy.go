package props

import (
	"bytes"
	"encoding/binary"
	"errors"
	"fmt"
	"io"
	"reflect"
	"strings"

	"github.com/parquet-go/parquet-go"
	"github.com/parquet-go/parquet-go/format"

	"verifharness/core"
	"verifharness/gen"
)

// Sub-check copy: an output file whose rows come from the row groups of other FILES (the
// "compact / merge into an encrypted file" history): Writer.WriteRowGroup of a *FileRowGroup, of a
// MultiRowGroup / MergeRowGroups of file row groups, and CopyRows from their Rows(), where the
// destination, the source(s), or both are encrypted. The writer has byte-level fast paths for file
// row groups (writer_copy.go: verbatim splice of pages, page index and bloom filter;
// writer_reencode.go); the property does not care which one is taken:
//
//	(leak)       an encrypted destination never holds a value of the source rows in clear;
//	(sealed)     an encrypted destination is tiled by modules that open under the AAD of their slot;
//	(round trip) the destination reads back (with its keys, or without any when it is plaintext) as
//	             the rows of the sources in order.
//
// Lean side: PqModel.Props.C18Copy (verbatim path taken -> neither side encrypted); the count of
// verbatim-copied chunks is compared with that theorem (L2).
func init() { RegisterSub("C18", "copy", RunC18Copy) }

var c18CopyEntries = []string{"write-rowgroup-each", "write-rowgroup-multi", "write-rowgroup-merge", "copy-rows"}

// c18CopySide: how one file (a source or the destination) is protected.
//
//	plain | enc (its own keys) | enc-dst (sources only: the very keys of the destination)
type c18CopySettings struct {
	version int
	codec   string
	stats   bool
	bloom   bool
}

func (s c18CopySettings) opts() []parquet.WriterOption {
	o := []parquet.WriterOption{parquet.DataPageVersion(s.version), parquet.Compression(gen.Codecs[s.codec]), parquet.DataPageStatistics(s.stats)}
	if s.bloom {
		o = append(o, parquet.BloomFilters(parquet.SplitBlockFilter(10, "s"), parquet.SplitBlockFilter(10, "i")))
	}
	return o
}

type c18CopyCase struct {
	idx      int
	entry    string
	dst      string   // plain | enc-footer | plain-footer
	srcs     []string // per source file: plain | enc | enc-dst
	keyMode  int
	src, out c18CopySettings
	maxRows  int64
	rowsPer  int
}

func (c c18CopyCase) String() string {
	return fmt.Sprintf("entry=%s dst=%s sources=%v keymode=%d src-settings=%+v dst-settings=%+v maxrows=%d rows-per-source=%d stream=c18/copy/%d",
		c.entry, c.dst, c.srcs, c.keyMode, c.src, c.out, c.maxRows, c.rowsPer, c.idx)
}

func c18CopyRead(f *parquet.File) (rows []c18LeakRow, err error) {
	defer func() {
		if p := recover(); p != nil {
			err = fmt.Errorf("PANIC: %v", p)
		}
	}()
	r := parquet.NewGenericReader[c18LeakRow](f)
	defer r.Close()
	buf := make([]c18LeakRow, 37)
	for {
		n, e := r.Read(buf)
		for i := 0; i < n; i++ {
			row := buf[i]
			row.L = append([]int64(nil), row.L...)
			if row.O != nil {
				o := *row.O
				row.O = &o
			}
			rows = append(rows, row)
		}
		if errors.Is(e, io.EOF) {
			return rows, nil
		}
		if e != nil {
			return rows, e
		}
		if n == 0 {
			return rows, fmt.Errorf("Read returned 0 rows and no error")
		}
	}
}

func c18CopyNorm(rows []c18LeakRow) []c18LeakRow {
	out := append([]c18LeakRow{}, rows...)
	for i := range out {
		if len(out[i].L) == 0 {
			out[i].L = nil
		}
	}
	return out
}

// c18CopyFeed hands the row groups of the source files to a writer through one of the entry points.
func c18CopyFeed(entry string, files []*parquet.File, opts []parquet.WriterOption) (out []byte, err error) {
	defer func() {
		if p := recover(); p != nil {
			err = fmt.Errorf("PANIC: %v", p)
		}
	}()
	var buf bytes.Buffer
	w := parquet.NewGenericWriter[c18LeakRow](&buf, opts...)
	var rgs []parquet.RowGroup
	for _, f := range files {
		rgs = append(rgs, f.RowGroups()...)
	}
	switch entry {
	case "write-rowgroup-each":
		for _, rg := range rgs {
			if _, err = w.WriteRowGroup(rg); err != nil {
				return nil, err
			}
		}
	case "write-rowgroup-multi":
		if _, err = w.WriteRowGroup(parquet.MultiRowGroup(rgs...)); err != nil {
			return nil, err
		}
	case "write-rowgroup-merge":
		// the destination's schema is named: without it the merged schema is rebuilt from the files' and WriteRowGroup refuses it
		m, merr := parquet.MergeRowGroups(rgs, parquet.SchemaOf(c18LeakRow{}))
		if merr != nil {
			return nil, merr
		}
		if _, err = w.WriteRowGroup(m); err != nil {
			return nil, err
		}
	case "copy-rows":
		for _, rg := range rgs {
			rows := rg.Rows()
			_, err = parquet.CopyRows(w, rows)
			rows.Close()
			if err != nil {
				return nil, err
			}
		}
	default:
		return nil, fmt.Errorf("unknown entry %s", entry)
	}
	err = w.Close()
	return buf.Bytes(), err
}

// c18CopyPlainPagesSane looks, without the library's page reader, at the first page header of every
// column chunk of a PLAINTEXT output: it must be a thrift page header whose sizes fit in the chunk.
// (The library's reader allocates what a header says before it reads the page.)
func c18CopyPlainPagesSane(data []byte, f *parquet.File) error {
	for ri, rg := range f.Metadata().RowGroups {
		for ci, cc := range rg.Columns {
			off := cc.MetaData.DataPageOffset
			if d := cc.MetaData.DictionaryPageOffset; d > 0 && d < off {
				off = d
			}
			if off < 4 || off >= int64(len(data)) {
				return fmt.Errorf("row group %d column %d: first page offset %d outside the file", ri, ci, off)
			}
			var h format.PageHeader
			n, err := c18DecodePrefix(data[off:], &h)
			if err != nil {
				return fmt.Errorf("row group %d column %d: the bytes at the first page offset %d are not a page header: %v", ri, ci, off, err)
			}
			if h.Type != format.DataPage && h.Type != format.DataPageV2 && h.Type != format.DictionaryPage {
				return fmt.Errorf("row group %d column %d: page type %d at offset %d", ri, ci, h.Type, off)
			}
			if h.CompressedPageSize < 0 || int64(n)+int64(h.CompressedPageSize) > cc.MetaData.TotalCompressedSize {
				return fmt.Errorf("row group %d column %d: page header at offset %d announces %d bytes in a chunk of %d", ri, ci, off, h.CompressedPageSize, cc.MetaData.TotalCompressedSize)
			}
		}
	}
	return nil
}

func RunC18Copy(ctx *core.Ctx) {
	ctx.SetRule(c18Rule)
	settings := []c18CopySettings{
		{1, "none", true, false}, {2, "none", false, true}, {1, "snappy", false, true}, {2, "zstd", true, false}, {1, "none", false, false}, {2, "snappy", true, true},
	}
	sources := [][]string{{"plain"}, {"enc"}, {"enc-dst"}, {"plain", "enc"}, {"enc-dst", "plain"}, {"plain", "plain"}}
	var cases []c18CopyCase
	k := 0
	for _, dst := range []string{"enc-footer", "plain-footer", "plain"} {
		for si, srcs := range sources {
			for ei, entry := range c18CopyEntries {
				for _, match := range []int{0, 3, 1, 2} { // 0, 3: same writer settings on both sides (the verbatim path is eligible), 1: other codec/version, 2: other statistics setting
					allPlain := dst == "plain"
					for _, s := range srcs {
						if s != "plain" {
							allPlain = false
						}
						if s == "enc-dst" && dst == "plain" {
							allPlain = true // no destination keys to share: skip
						}
					}
					if allPlain {
						continue
					}
					if !ctx.Thorough() && match != 0 && (si+ei+match)%2 != 0 && !(match == 3 && ei < 2) {
						continue
					}
					c := c18CopyCase{idx: k, entry: entry, dst: dst, srcs: srcs, keyMode: k % 3, src: settings[k%len(settings)],
						maxRows: []int64{0, 0, 25, 0, 1000}[k%5], rowsPer: []int{40, 7, 120}[k%3]}
					if match == 3 { // a second eligible configuration per (sides, entry): other settings, no row limit
						c.src, c.maxRows = settings[(k+3)%len(settings)], 0
					}
					c.out = c.src
					switch match {
					case 1:
						c.out = settings[(k+1)%len(settings)]
					case 2:
						c.out.stats = !c.out.stats
					}
					cases = append(cases, c)
					k++
				}
			}
		}
	}
	schema := parquet.SchemaOf(c18LeakRow{})
	mkEnc := func(c c18CopyCase, encFooter bool, stream string) *c18Enc {
		r := ctx.Rand(stream)
		enc := &c18Enc{EncFooter: encFooter, FooterKey: c18RandKey(r), KeyMode: []string{"footer-only", "all-columns", "some-columns"}[c.keyMode]}
		if c.keyMode > 0 {
			enc.ColKeys = map[string][]byte{}
			for i, p := range schema.Columns() {
				if c.keyMode == 1 || i%2 == 0 {
					enc.ColKeys[joinPath(p)] = c18RandKey(r)
				}
			}
		}
		return enc
	}
	eligibleReached := 0 // plaintext source chunks a plaintext destination spliced verbatim: the generator reaches copy-eligible configurations
	// The cases run one after the other: the count of verbatim-copied chunks is a process-wide counter.
	for _, c := range cases {
		stream := fmt.Sprintf("c18/copy/%d", c.idx)
		r := ctx.Rand(stream)
		var dstEnc *c18Enc
		if c.dst != "plain" {
			dstEnc = mkEnc(c, c.dst == "enc-footer", stream+"/dst-keys")
		}
		detail := map[string]any{"case": c.String(), "row_type": "c18LeakRow (harness/props/c18_leak.go), rows of source k drawn by c18LeakRows from ctx.Rand(stream) in source order",
			"source_writer": "NewGenericWriter, half the rows, Flush, the rest (2 row groups per source)", "entry": c.entry}
		if dstEnc != nil {
			detail["destination_encryption"] = dstEnc.Desc()
		}
		ctx.Case("copy|"+c.String(), c.keyMode > 0 && len(c.srcs) > 1)
		ctx.Hist("copy_entry", c.entry)
		ctx.Hist("copy_sides", fmt.Sprintf("dst=%s sources=%v", c.dst, c.srcs))
		// ---- the sources
		var files []*parquet.File
		var want []c18LeakRow
		pats := map[[8]byte]string{}
		plainChunks, ok := int64(0), true
		for si, kind := range c.srcs {
			rows, p := c18LeakRows(r, c.rowsPer)
			for w, col := range p {
				pats[w] = col
			}
			want = append(want, rows...)
			var enc *c18Enc
			switch kind {
			case "enc":
				enc = mkEnc(c, (c.idx+si)%2 == 0, fmt.Sprintf("%s/src-keys/%d", stream, si))
			case "enc-dst":
				cp := *dstEnc
				cp.EncFooter = (c.idx+si)%2 == 0
				enc = &cp
			}
			opts := c.src.opts()
			var keys parquet.KeyRetriever
			if enc != nil {
				opts = append(opts, parquet.WithEncryption(enc.Config()))
				keys = enc.Keys()
				detail[fmt.Sprintf("source_%d_encryption", si)] = enc.Desc()
			}
			data, err := c18LeakWrite(rows, "generic-writer", opts)
			if err != nil {
				ctx.Hist("copy_outcome", "source-write-error") // the roundtrip/leak sub-checks' matter
				ok = false
				break
			}
			f, err := c18Open(data, keys)
			if err != nil {
				ctx.Hist("copy_outcome", "source-open-error")
				ok = false
				break
			}
			files = append(files, f)
			if enc == nil {
				plainChunks += int64(len(f.RowGroups()) * len(schema.Columns()))
			}
		}
		if !ok {
			continue
		}
		want = c18CopyNorm(want)
		// ---- the destination
		opts := c.out.opts()
		if c.maxRows > 0 {
			opts = append(opts, parquet.MaxRowsPerRowGroup(c.maxRows))
		}
		if dstEnc != nil {
			opts = append(opts, parquet.WithEncryption(dstEnc.Config()))
		}
		sides := fmt.Sprintf("dst=%s sources=%s", c.dst, strings.Join(c.srcs, "+"))
		before := parquet.VerifCopyPathCount()
		data, err := c18CopyFeed(c.entry, files, opts)
		copied := parquet.VerifCopyPathCount() - before
		settingsSig := "settings-differ"
		if c.src == c.out {
			settingsSig = "settings-match"
		}
		ctx.Hist("copy_verbatim_chunks", fmt.Sprintf("%s %s maxrows=%d: %s", sides, settingsSig, c.maxRows, c18Bucket(int(copied))))
		detail["verbatim_copied_chunks"] = copied
		if dstEnc == nil && copied > 0 {
			eligibleReached++
		}
		if err != nil {
			ctx.Fail("L1", "copy-write-error entry="+c.entry+" "+sides+" "+c18ErrKind(err), "writing the row groups of the source files to the destination failed: "+err.Error(), detail)
			continue
		}
		// (Lean: C18Copy.verbatim_implies_plaintext_sides) a chunk is spliced verbatim only when neither side is encrypted
		if limit := map[bool]int64{true: plainChunks, false: 0}[dstEnc == nil]; copied > limit {
			detail["chunks_of_plaintext_sources"] = plainChunks
			ctx.Fail("L2", "verbatim-copy-with-an-encrypted-side entry="+c.entry+" "+sides, fmt.Sprintf("%d column chunks were spliced verbatim although the destination or the source is encrypted; the mirror of copyableColumnChunks (CopyPath.copyable, theorem C18Copy.verbatim_implies_plaintext_sides) never takes that path", copied), detail)
		}
		if dstEnc != nil {
			// (leak) no value of the sources in clear
			found, firstAt := c18Scan(data, pats)
			footerStart := len(data)
			if len(data) >= 12 {
				footerStart = len(data) - 8 - int(binary.LittleEndian.Uint32(data[len(data)-8:]))
			}
			for col, n := range found {
				where, key := "data-region", "plaintext-values-leak"
				if firstAt[col] >= footerStart {
					where, key = "footer-region", "plaintext-statistics-leak"
				}
				d := map[string]any{"column": col, "hits": n, "first_offset": firstAt[col], "region": where, "bytes": fmt.Sprintf("%x", data[firstAt[col]:firstAt[col]+8])}
				for k, v := range detail {
					d[k] = v
				}
				ctx.Fail("L1", key+" path=copy/"+c.entry+" "+sides, fmt.Sprintf("%d marker values of column %q of the source rows occur in clear in the %s of the encrypted destination (first at offset %d)", n, col, where, firstAt[col]), d)
			}
			// (sealed) every module opens with the standard library under the AAD of its slot, and the modules tile the file
			if c18LooksUnencrypted(data) {
				ctx.Fail("L1", "encryption-request-ignored path=copy/"+c.entry+" "+sides, "the destination was created with WithEncryption and is an ordinary unencrypted parquet file", detail)
				continue
			}
			lay, layErr := c18Parse(data, dstEnc.Keys(), c18AAD)
			if layErr != nil {
				ctx.Fail("L1", "copied-file-not-sealed path=copy/"+c.entry+" "+sides+" "+c18ErrKind(layErr), "the encrypted destination, closed without error, is not a well-formed encrypted file: "+layErr.Error()+" (the library's reader is not tried: it would allocate whatever length the unsealed bytes announce)", detail)
				continue
			}
			if len(lay.Gaps) > 0 {
				ctx.Fail("L1", "copied-file-unsealed-bytes path=copy/"+c.entry+" "+sides, "bytes of the encrypted destination are outside every sealed module, footer and framing: "+lay.Gaps[0], detail)
			}
			if len(found) > 0 {
				ctx.Hist("copy_outcome", "leak")
				continue
			}
		}
		// (round trip)
		var keys parquet.KeyRetriever
		if dstEnc != nil {
			keys = dstEnc.Keys()
		}
		f, err := c18Open(data, keys)
		if err != nil {
			ctx.Fail("L1", "copy-open-error path=copy/"+c.entry+" "+sides+" "+c18ErrKind(err), "OpenFile on the destination (with its keys) failed: "+err.Error(), detail)
			continue
		}
		if dstEnc == nil {
			if c18LooksUnencrypted(data) == false {
				ctx.Fail("L1", "plaintext-destination-looks-encrypted path=copy/"+c.entry+" "+sides, "the destination was created without encryption and does not look like an ordinary parquet file", detail)
				continue
			}
			if err := c18CopyPlainPagesSane(data, f); err != nil {
				ctx.Fail("L1", "plaintext-destination-holds-unreadable-pages path=copy/"+c.entry+" "+sides, "the plaintext destination does not hold page headers where its footer says the pages are (sealed bytes of the source spliced in?): "+err.Error(), detail)
				continue
			}
		}
		got, err := c18CopyRead(f)
		if err != nil {
			ctx.Fail("L1", "copy-read-error path=copy/"+c.entry+" "+sides+" "+c18ErrKind(err), fmt.Sprintf("reading the destination back failed after %d of %d rows: %v", len(got), len(want), err), detail)
			continue
		}
		got = c18CopyNorm(got)
		if !reflect.DeepEqual(got, want) {
			at := 0
			for at < len(got) && at < len(want) && reflect.DeepEqual(got[at], want[at]) {
				at++
			}
			ctx.Fail("L1", "copy-rows-differ path=copy/"+c.entry+" "+sides, fmt.Sprintf("the destination reads back as %d rows, the sources hold %d; first difference at row %d", len(got), len(want), at), detail)
			continue
		}
		ctx.Hist("copy_outcome", "clean")
	}
	if eligibleReached == 0 {
		ctx.Fail("L2", "copy-generator-never-eligible", "no case with a plaintext destination and a plaintext source with the same writer settings took the verbatim path: the sources of this sub-check are no longer eligible for it, the cases with an encrypted side say nothing about its guard", map[string]any{"cases": len(cases)})
	}
}
