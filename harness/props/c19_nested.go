package props

import (
	"bytes"
	"fmt"
	"io"
	"math/rand"
	"strings"

	"github.com/parquet-go/parquet-go"

	"verifharness/core"
)

// Property C19, shredding, variant groups below repeated / optional ancestors.
//
// The variant group sits under one repeated group, two nested repeated groups, an optional group,
// or an optional group holding a repeated group, so one row carries 0..n variant occurrences and the
// reader has to separate the repetition levels of the ancestors from those of a shredded LIST
// typed_value. Schemas are biased to array-shredded and object-with-array-field-shredded
// typed_value, rows to several occurrences whose first value is an array of >= 2 elements.
// L1 only: 5 write paths (the columnar VariantColumnWriter refuses columns beneath a repeated field)
// x 4 read paths; every occurrence read equals the occurrence written, and the grouping of the
// occurrences (how many per repeated ancestor) is preserved.

type c19ItemAny struct {
	V any `parquet:"v,variant"`
}
type c19ItemRaw struct {
	V c19Raw `parquet:"v,variant"`
}
type c19MidAny struct {
	Inner []c19ItemAny `parquet:"inner"`
}
type c19MidRaw struct {
	Inner []c19ItemRaw `parquet:"inner"`
}

type c19Rep1Any struct {
	ID    int32        `parquet:"id"`
	Items []c19ItemAny `parquet:"items"`
}
type c19Rep1Raw struct {
	ID    int32        `parquet:"id"`
	Items []c19ItemRaw `parquet:"items"`
}
type c19Rep2Any struct {
	ID    int32       `parquet:"id"`
	Outer []c19MidAny `parquet:"outer"`
}
type c19Rep2Raw struct {
	ID    int32       `parquet:"id"`
	Outer []c19MidRaw `parquet:"outer"`
}
type c19OptAny struct {
	ID  int32       `parquet:"id"`
	Opt *c19ItemAny `parquet:"opt"`
}
type c19OptRaw struct {
	ID  int32       `parquet:"id"`
	Opt *c19ItemRaw `parquet:"opt"`
}
type c19OptRepAny struct {
	ID  int32      `parquet:"id"`
	Opt *c19MidAny `parquet:"opt"`
}
type c19OptRepRaw struct {
	ID  int32      `parquet:"id"`
	Opt *c19MidRaw `parquet:"opt"`
}

type c19OptItemAny struct {
	Opt *c19ItemAny `parquet:"opt"`
}
type c19OptItemRaw struct {
	Opt *c19ItemRaw `parquet:"opt"`
}
type c19RepOptAny struct {
	ID    int32           `parquet:"id"`
	Items []c19OptItemAny `parquet:"items"`
}
type c19RepOptRaw struct {
	ID    int32           `parquet:"id"`
	Items []c19OptItemRaw `parquet:"items"`
}

// occurrences of one row: groups of variant values. rep1: one group; rep2: any number of groups;
// opt: no group or one group of one value; optrep: no group or one group; repopt: one group per
// element of the repeated ancestor, empty where the optional group below it is null (so a null
// occurrence sits between the other occurrences of the row).
type c19Occ[X any] [][]X

func c19OccShape[X any](o c19Occ[X]) string {
	var sb strings.Builder
	sb.WriteByte('(')
	for i, g := range o {
		if i > 0 {
			sb.WriteByte(',')
		}
		fmt.Fprint(&sb, len(g))
	}
	sb.WriteByte(')')
	return sb.String()
}

func c19ItemsAny(g []any) []c19ItemAny {
	out := make([]c19ItemAny, len(g))
	for i, x := range g {
		out[i].V = x
	}
	return out
}

func c19AnyOfItems(it []c19ItemAny) []any {
	out := make([]any, len(it))
	for i, x := range it {
		out[i] = x.V
	}
	return out
}

func c19RawOfItems(it []c19ItemRaw) []c19Raw {
	out := make([]c19Raw, len(it))
	for i, x := range it {
		out[i] = x.V
	}
	return out
}

// one ancestor shape: the schema around the variant node, and the row types
type c19Shape[A, R any] struct {
	name   string
	schema func(v parquet.Node) *parquet.Schema
	mk     func(id int32, o c19Occ[any]) A
	anyOf  func(A) c19Occ[any]
	rawOf  func(R) c19Occ[c19Raw]
	occGen func(r *rand.Rand, empties bool) []int // group sizes of one row; empties: null/empty ancestors allowed
}

func c19GroupSizes(r *rand.Rand, maxGroups int, allowNone, empties bool) []int {
	if allowNone && empties && r.Intn(4) == 0 {
		return nil
	}
	n := 1
	if maxGroups > 1 {
		n = 1 + r.Intn(maxGroups)
		if empties && r.Intn(4) == 0 {
			n = 0
		}
	}
	out := make([]int, n)
	for i := range out {
		out[i] = []int{1, 1, 2, 2, 3, 4}[r.Intn(6)]
		if empties && r.Intn(4) == 0 {
			out[i] = 0
		}
	}
	return out
}

var c19ShapeRep1 = c19Shape[c19Rep1Any, c19Rep1Raw]{
	name: "repeated",
	schema: func(v parquet.Node) *parquet.Schema {
		return parquet.NewSchema("table", parquet.Group{"id": parquet.Int(32), "items": parquet.Repeated(parquet.Group{"v": v})})
	},
	mk:     func(id int32, o c19Occ[any]) c19Rep1Any { return c19Rep1Any{ID: id, Items: c19ItemsAny(o[0])} },
	anyOf:  func(a c19Rep1Any) c19Occ[any] { return c19Occ[any]{c19AnyOfItems(a.Items)} },
	rawOf:  func(a c19Rep1Raw) c19Occ[c19Raw] { return c19Occ[c19Raw]{c19RawOfItems(a.Items)} },
	occGen: func(r *rand.Rand, e bool) []int { return c19GroupSizes(r, 1, false, e) },
}

var c19ShapeRep2 = c19Shape[c19Rep2Any, c19Rep2Raw]{
	name: "repeated-repeated",
	schema: func(v parquet.Node) *parquet.Schema {
		return parquet.NewSchema("table", parquet.Group{"id": parquet.Int(32),
			"outer": parquet.Repeated(parquet.Group{"inner": parquet.Repeated(parquet.Group{"v": v})})})
	},
	mk: func(id int32, o c19Occ[any]) c19Rep2Any {
		a := c19Rep2Any{ID: id}
		for _, g := range o {
			a.Outer = append(a.Outer, c19MidAny{Inner: c19ItemsAny(g)})
		}
		return a
	},
	anyOf: func(a c19Rep2Any) c19Occ[any] {
		o := c19Occ[any]{}
		for _, m := range a.Outer {
			o = append(o, c19AnyOfItems(m.Inner))
		}
		return o
	},
	rawOf: func(a c19Rep2Raw) c19Occ[c19Raw] {
		o := c19Occ[c19Raw]{}
		for _, m := range a.Outer {
			o = append(o, c19RawOfItems(m.Inner))
		}
		return o
	},
	occGen: func(r *rand.Rand, e bool) []int { return c19GroupSizes(r, 3, false, e) },
}

var c19ShapeOpt = c19Shape[c19OptAny, c19OptRaw]{
	name: "optional",
	schema: func(v parquet.Node) *parquet.Schema {
		return parquet.NewSchema("table", parquet.Group{"id": parquet.Int(32), "opt": parquet.Optional(parquet.Group{"v": v})})
	},
	mk: func(id int32, o c19Occ[any]) c19OptAny {
		if len(o) == 0 {
			return c19OptAny{ID: id}
		}
		return c19OptAny{ID: id, Opt: &c19ItemAny{V: o[0][0]}}
	},
	anyOf: func(a c19OptAny) c19Occ[any] {
		if a.Opt == nil {
			return c19Occ[any]{}
		}
		return c19Occ[any]{{a.Opt.V}}
	},
	rawOf: func(a c19OptRaw) c19Occ[c19Raw] {
		if a.Opt == nil {
			return c19Occ[c19Raw]{}
		}
		return c19Occ[c19Raw]{{a.Opt.V}}
	},
	occGen: func(r *rand.Rand, e bool) []int {
		if e && r.Intn(3) == 0 {
			return nil
		}
		return []int{1}
	},
}

var c19ShapeOptRep = c19Shape[c19OptRepAny, c19OptRepRaw]{
	name: "optional-repeated",
	schema: func(v parquet.Node) *parquet.Schema {
		return parquet.NewSchema("table", parquet.Group{"id": parquet.Int(32),
			"opt": parquet.Optional(parquet.Group{"inner": parquet.Repeated(parquet.Group{"v": v})})})
	},
	mk: func(id int32, o c19Occ[any]) c19OptRepAny {
		if len(o) == 0 {
			return c19OptRepAny{ID: id}
		}
		return c19OptRepAny{ID: id, Opt: &c19MidAny{Inner: c19ItemsAny(o[0])}}
	},
	anyOf: func(a c19OptRepAny) c19Occ[any] {
		if a.Opt == nil {
			return c19Occ[any]{}
		}
		return c19Occ[any]{c19AnyOfItems(a.Opt.Inner)}
	},
	rawOf: func(a c19OptRepRaw) c19Occ[c19Raw] {
		if a.Opt == nil {
			return c19Occ[c19Raw]{}
		}
		return c19Occ[c19Raw]{c19RawOfItems(a.Opt.Inner)}
	},
	occGen: func(r *rand.Rand, e bool) []int { return c19GroupSizes(r, 1, true, e) },
}

var c19ShapeRepOpt = c19Shape[c19RepOptAny, c19RepOptRaw]{
	name: "repeated-optional",
	schema: func(v parquet.Node) *parquet.Schema {
		return parquet.NewSchema("table", parquet.Group{"id": parquet.Int(32),
			"items": parquet.Repeated(parquet.Group{"opt": parquet.Optional(parquet.Group{"v": v})})})
	},
	mk: func(id int32, o c19Occ[any]) c19RepOptAny {
		a := c19RepOptAny{ID: id}
		for _, g := range o {
			it := c19OptItemAny{}
			if len(g) > 0 {
				it.Opt = &c19ItemAny{V: g[0]}
			}
			a.Items = append(a.Items, it)
		}
		return a
	},
	anyOf: func(a c19RepOptAny) c19Occ[any] {
		o := c19Occ[any]{}
		for _, it := range a.Items {
			if it.Opt == nil {
				o = append(o, []any{})
			} else {
				o = append(o, []any{it.Opt.V})
			}
		}
		return o
	},
	rawOf: func(a c19RepOptRaw) c19Occ[c19Raw] {
		o := c19Occ[c19Raw]{}
		for _, it := range a.Items {
			if it.Opt == nil {
				o = append(o, []c19Raw{})
			} else {
				o = append(o, []c19Raw{it.Opt.V})
			}
		}
		return o
	},
	occGen: func(r *rand.Rand, e bool) []int {
		n := 1 + r.Intn(4)
		if e && r.Intn(5) == 0 {
			n = 0
		}
		out := make([]int, n)
		for i := range out {
			out[i] = 1
			if e && r.Intn(3) == 0 {
				out[i] = 0
			}
		}
		return out
	},
}

func c19WriteRowsOf[T any](schema *parquet.Schema, rows []T, mode string) ([]byte, error) {
	buf := new(bytes.Buffer)
	err := c19Guard(func() error {
		w := parquet.NewGenericWriter[T](buf, schema)
		switch mode {
		case "generic":
			k := len(rows) / 2
			if _, err := w.Write(rows[:k]); err != nil {
				return err
			}
			if _, err := w.Write(rows[k:]); err != nil {
				return err
			}
		case "buffer":
			b := parquet.NewGenericBuffer[T](schema)
			if _, err := b.Write(rows); err != nil {
				return err
			}
			if _, err := w.WriteRowGroup(b); err != nil {
				return err
			}
		case "deconstruct":
			dec := make([]parquet.Row, len(rows))
			for i := range rows {
				dec[i] = schema.Deconstruct(nil, &rows[i])
			}
			if _, err := w.WriteRows(dec); err != nil {
				return err
			}
		}
		return w.Close()
	})
	return buf.Bytes(), err
}

func c19ReadDirectOf[T any](data []byte, schema *parquet.Schema, n int) (rows []T, err error) {
	err = c19Guard(func() error {
		r := parquet.NewGenericReader[T](bytes.NewReader(data), schema)
		defer r.Close()
		out := make([]T, n)
		k, err := r.Read(out)
		if err != nil && err != io.EOF {
			return err
		}
		rows = out[:k]
		return nil
	})
	return
}

func c19ReadConvertOf[T any](data []byte) (rows []T, err error) {
	err = c19Guard(func() error {
		var e error
		rows, e = parquet.Read[T](bytes.NewReader(data), int64(len(data)))
		return e
	})
	return
}

func c19ReadLegacyOf[T any](data []byte, readSchema *parquet.Schema, n int) (rows []T, err error) {
	err = c19Guard(func() error {
		r := parquet.NewReader(bytes.NewReader(data), readSchema)
		defer r.Close()
		for i := 0; i < n; i++ {
			var row T
			if err := r.Read(&row); err != nil {
				return err
			}
			rows = append(rows, row)
		}
		return nil
	})
	return
}

// a typed_value schema biased to LIST and object-with-LIST-field
func c19NestedSchema(r *rand.Rand) *c19Schema {
	leaf := func() *c19Schema {
		l := c19RandLeaf(r)
		return &c19Schema{kind: "prim", tag: l.tag, node: l.node}
	}
	switch r.Intn(10) {
	case 0, 1, 2:
		return &c19Schema{kind: "list", elem: leaf()}
	case 3:
		return &c19Schema{kind: "list", elem: &c19Schema{kind: "list", elem: leaf()}}
	case 4, 5, 6:
		s := &c19Schema{kind: "obj", names: []string{"a", "b"}, fields: []*c19Schema{{kind: "list", elem: leaf()}, c19RandSchema(r, 2)}}
		if r.Intn(2) == 0 {
			s.names, s.fields = s.names[:1], s.fields[:1]
		}
		return s
	case 7:
		return &c19Schema{kind: "none"}
	default:
		return c19RandSchema(r, 1)
	}
}

// the first occurrence of a row: an array (or the object holding one) with at least two elements
func c19LongArrayFor(r *rand.Rand, s *c19Schema, native bool) *c19Node {
	switch s.kind {
	case "list":
		a := &c19Node{kind: "arr"}
		for i, n := 0, 2+r.Intn(3); i < n; i++ {
			a.elems = append(a.elems, c19ShredValue(r, s.elem, 1, native))
		}
		return a
	case "obj":
		o := &c19Node{kind: "obj"}
		for i, name := range s.names {
			o.keys = append(o.keys, name)
			o.elems = append(o.elems, c19LongArrayFor(r, s.fields[i], native))
		}
		return o
	}
	return c19ShredValue(r, s, 0, native)
}

func c19NestedCase[A, R any](ctx *core.Ctx, r *rand.Rand, sh c19Shape[A, R], p *c19Pending) {
	s := c19NestedSchema(r)
	stxt := s.String()
	variantNode := parquet.Variant()
	if s.kind != "none" {
		if err := c19Guard(func() error { var e error; variantNode, e = parquet.ShreddedVariant(s.parquetNode()); return e }); err != nil {
			ctx.Fail("L1", "shredded-schema-rejected "+s.kind, "ShreddedVariant rejects a valid shredding schema: "+err.Error(), map[string]any{"schema": stxt})
			return
		}
	}
	schema := sh.schema(variantNode)
	readSchema := sh.schema(parquet.Variant())
	ctx.Hist("shred.ancestor", sh.name)
	ctx.Hist("shred.nested.schema", s.kind)
	nrows := 3 + r.Intn(5)
	// half of the cases have a value in every ancestor (no null optional group, no empty repeated
	// group); the other half mixes null / empty ancestors in
	empties := r.Intn(2) == 0
	ctx.Hist("shred.nested.ancestors", map[bool]string{true: "with null/empty ancestors", false: "all present"}[empties])
	type wpath struct {
		name, mode string
		native     bool
	}
	for _, wp := range []wpath{{"raw-generic", "generic", false}, {"native-generic", "generic", true}, {"raw-buffer", "buffer", false},
		{"raw-deconstruct", "deconstruct", false}, {"native-deconstruct", "deconstruct", true}} {
		rows := make([]A, nrows)
		wantShape := make([]string, nrows)
		want := make([][]string, nrows)       // sorted value text per occurrence
		wantNative := make([][]string, nrows) // Go image text per occurrence
		var canon strings.Builder
		canon.WriteString(sh.name + " " + stxt + " " + wp.name)
		var evs [][]c19Ev       // per row: the Dremel events of the variant subtree
		var occNodes []*c19Node // the occurrences, in order
		for i := range rows {
			sizes := sh.occGen(r, empties)
			evs = append(evs, c19AncestorEvents(sh.name, sizes))
			occ := c19Occ[any]{}
			first := true
			for _, k := range sizes {
				g := make([]any, k)
				for j := range g {
					var n *c19Node
					if first && r.Intn(4) > 0 {
						n = c19LongArrayFor(r, s, wp.native)
					} else {
						n = c19ShredValue(r, s, 0, wp.native)
					}
					first = false
					occNodes = append(occNodes, n)
					want[i] = append(want[i], n.SortedString())
					var sb strings.Builder
					n.nativeText(&sb)
					wantNative[i] = append(wantNative[i], sb.String())
					canon.WriteString(" " + n.String())
					if wp.native {
						g[j] = n.toNative()
					} else {
						m, v := c19Encode(n.toVariant())
						g[j] = c19Raw{Metadata: m, Value: v}
					}
					ctx.Hist("shred.nested.occurrence", n.kind)
				}
				occ = append(occ, g)
			}
			wantShape[i] = c19OccShape(occ)
			canon.WriteString(" " + wantShape[i])
			rows[i] = sh.mk(int32(i), occ)
		}
		ctx.Case(canon.String(), true)
		detail := func(extra map[string]any) map[string]any {
			m := map[string]any{"ancestor": sh.name, "schema": stxt, "parquet_schema": schema.String(), "write": wp.name, "rows": want, "row_shapes": wantShape}
			for k, x := range extra {
				m[k] = x
			}
			return m
		}
		// two situations failed before the library fixes a3c4594/0a6a826 (rows after a null / empty
		// ancestor were shifted or lost); they keep one stable key each, whatever symptom the read path
		// shows, so that a regression matches the recorded finding
		class := ""
		if empties && s.kind == "none" && wp.mode != "deconstruct" {
			class = "null-or-empty-ancestor-dropped unshredded-variant write/buffer path"
		} else if empties && s.kind != "none" && wp.mode == "buffer" {
			class = "null-or-empty-ancestor-dropped shredded-variant buffer path"
		}
		fail := func(key, what string, d map[string]any) {
			if class != "" {
				d["symptom"] = key
				ctx.Fail("L1", class, "a variant group below an optional/repeated ancestor: rows whose ancestor is null or empty are dropped from the variant columns, later rows read back shifted or fail to read ("+what+")", d)
				return
			}
			ctx.Fail("L1", key, what, d)
		}
		data, err := c19WriteRowsOf(schema, rows, wp.mode)
		sigw := wp.name + " under=" + sh.name + " schema=" + s.kind
		if err != nil {
			fail("write-fails "+sigw, "writing a variant column below "+sh.name+" ancestors fails: "+err.Error(), detail(nil))
			continue
		}
		c19NestedReadCheck(ctx, sh, data, schema, readSchema, nrows, want, wantNative, wantShape, wp.name, s.kind, fail, detail)
		c19NestedLevels(ctx, p, sh.name, s, data, wp.name, evs, occNodes, detail)
	}
}

// c19NestedReadCheck: the four read paths over a file holding variant occurrences below the ancestors of
// shape sh; every occurrence read equals the occurrence written and the grouping is preserved.
func c19NestedReadCheck[A, R any](ctx *core.Ctx, sh c19Shape[A, R], data []byte, schema, readSchema *parquet.Schema, nrows int,
	want, wantNative [][]string, wantShape []string, wname, skind string,
	fail func(key, what string, d map[string]any), detail func(map[string]any) map[string]any) {
	for _, rp := range []string{"raw-direct", "native-direct", "convert", "legacy-unshredded"} {
		sig := wname + "->" + rp + " under=" + sh.name + " schema=" + skind
		var gotRaw []c19Occ[c19Raw]
		var gotAny []c19Occ[any]
		var err error
		switch rp {
		case "raw-direct":
			var rs []R
			rs, err = c19ReadDirectOf[R](data, schema, nrows)
			for _, x := range rs {
				gotRaw = append(gotRaw, sh.rawOf(x))
			}
		case "native-direct":
			var rs []A
			rs, err = c19ReadDirectOf[A](data, schema, nrows)
			for _, x := range rs {
				gotAny = append(gotAny, sh.anyOf(x))
			}
		case "convert":
			var rs []R
			rs, err = c19ReadConvertOf[R](data)
			for _, x := range rs {
				gotRaw = append(gotRaw, sh.rawOf(x))
			}
		case "legacy-unshredded":
			var rs []R
			rs, err = c19ReadLegacyOf[R](data, readSchema, nrows)
			for _, x := range rs {
				gotRaw = append(gotRaw, sh.rawOf(x))
			}
		}
		ctx.Hist("shred.nested.read", rp)
		if err != nil {
			fail("read-fails "+sig, "reading the variant column back fails: "+err.Error(), detail(map[string]any{"read": rp}))
			continue
		}
		if len(gotRaw)+len(gotAny) != nrows {
			fail("row-count "+sig, fmt.Sprintf("read %d rows, wrote %d", len(gotRaw)+len(gotAny), nrows), detail(map[string]any{"read": rp}))
			continue
		}
		for i := 0; i < nrows; i++ {
			var shape string
			var texts []string
			if gotRaw != nil {
				shape = c19OccShape(gotRaw[i])
				for _, g := range gotRaw[i] {
					for _, raw := range g {
						v, err := c19Decode(raw.Metadata, raw.Value)
						if err != nil {
							texts = append(texts, "undecodable: "+err.Error())
						} else {
							texts = append(texts, c19VText(v, true))
						}
					}
				}
			} else {
				shape = c19OccShape(gotAny[i])
				for _, g := range gotAny[i] {
					for _, x := range g {
						var sb strings.Builder
						c19GoText(x, &sb)
						texts = append(texts, sb.String())
					}
				}
			}
			exp := want[i]
			if gotRaw == nil {
				exp = wantNative[i]
			}
			if shape != wantShape[i] {
				fail("occurrence-grouping-changed "+sig, "the variant occurrences of a row are grouped differently after the round trip",
					detail(map[string]any{"read": rp, "row": i, "got_shape": shape, "want_shape": wantShape[i], "got": texts}))
				break
			}
			if strings.Join(texts, " ") != strings.Join(exp, " ") {
				fail("value-changed "+sig, "a variant value below "+sh.name+" ancestors reads back changed",
					detail(map[string]any{"read": rp, "row": i, "got": texts, "want": exp}))
				break
			}
		}
	}
}

func c19NestedCases(ctx *core.Ctx, r *rand.Rand, p *c19Pending) {
	switch r.Intn(7) {
	case 0, 1:
		c19NestedCase(ctx, r, c19ShapeRep1, p)
	case 2, 3:
		c19NestedCase(ctx, r, c19ShapeRep2, p)
	case 4:
		c19NestedCase(ctx, r, c19ShapeOptRep, p)
	case 5:
		c19NestedCase(ctx, r, c19ShapeRepOpt, p)
	default:
		c19NestedCase(ctx, r, c19ShapeOpt, p)
	}
}
