package props

import (
	"bytes"
	"encoding/hex"
	"fmt"
	"io"
	"math/rand"
	"strconv"
	"strings"
	"sync"

	"github.com/parquet-go/parquet-go"

	"verifharness/core"
	"verifharness/drv"
)

// Property C19, sub-check "window" (L2): the leaf windows of the columnar VariantReader against
// the Lean mirror op `variant.window`.
//
// A file with a shredded variant column is written with small pages (and sometimes several row
// groups). For every row group a VariantReader runs a random history of Next / SeekToRow while its
// cursor tree is created lazily (a leaf reader exists — is "attached" — from the moment a cursor
// using it is created). After every Next that returns rows, the window of every leaf reader (level
// vectors, slot -> dense index table, dense values, slot-group starts per depth) is snapshotted
// through the hook VerifVariantLeafWindows. Independently the pages of each leaf's column chunk are
// read through ColumnChunk.Pages (levels and values per page) and handed with the same history to
// the mirror, whose answer is compared token by token with the snapshots. A few slotOf(depth, g)
// lookups per window are compared with `variant.slotof`.
//
// L1 sanity on the way: the reader's row offset follows the history (SeekToRow(k) sets k, Next adds
// the rows returned), Next returns min(k, remaining) rows / io.EOF, and no call fails on a valid file.

func init() { RegisterSub("C19", "window", RunC19Window) }

const c19WindowRule = "window: a case is one written file (random shredding schema, small pages) with one random Next/SeekToRow/lazy-cursor history per row group; " +
	"non-trivial = some SeekToRow is directly followed by a Next that returns rows AND some compared leaf column chunk has more than one page"

type c19WinOp struct {
	kind byte // 'n' Next, 's' SeekToRow
	k    int
}

func (o c19WinOp) String() string { return string(o.kind) + strconv.Itoa(o.k) }

type c19WinOutcome struct {
	kind   byte // 'R' rows, 'E' io.EOF, 'X' error, 'N' nothing
	n      int
	before int64 // row offset before the op
}

type c19WinLeaf struct {
	relCol, column int
	maxDef, maxRep int
	attach         int // history index before which the leaf exists
	snaps          map[int]*parquet.VerifVariantLeafWindow
}

type c19WinProbe struct {
	reps   string
	nslots int
	depth  int
	g      int32
	slot   int32
	ok     bool
	ctx    string
}

// requests waiting for the driver, with what to do with the answer
type c19WinPending struct {
	reqs []string
	then []func(answer string)
}

func (p *c19WinPending) add(req string, then func(string)) {
	p.reqs = append(p.reqs, req)
	p.then = append(p.then, then)
}

func (p *c19WinPending) flush(ctx *core.Ctx, d *drv.Driver) {
	if len(p.reqs) == 0 {
		return
	}
	if d == nil {
		p.reqs, p.then = nil, nil
		return
	}
	answers, err := d.AskMany(p.reqs)
	if err != nil {
		ctx.Fail("L2", "window-driver-fails", "pqdriver fails on a variant.window batch: "+err.Error(), nil)
	}
	for i, a := range answers {
		p.then[i](a)
	}
	p.reqs, p.then = nil, nil
}

func c19WinList[T ~int | ~int32 | ~uint8](xs []T) string {
	if len(xs) == 0 {
		return "-"
	}
	var sb strings.Builder
	for i, x := range xs {
		if i > 0 {
			sb.WriteByte(',')
		}
		sb.WriteString(strconv.Itoa(int(x)))
	}
	return sb.String()
}

// kind + little-endian bytes: floats compare by bit pattern
func c19WinValueCanon(v parquet.Value) string {
	return strconv.Itoa(int(v.Kind())) + "x" + hex.EncodeToString(v.Bytes())
}

func c19WinBucket(n int) string {
	switch {
	case n <= 2:
		return strconv.Itoa(n)
	case n <= 4:
		return "3-4"
	case n <= 8:
		return "5-8"
	case n <= 16:
		return "9-16"
	case n <= 64:
		return "17-64"
	}
	return "65+"
}

// the pages of one column chunk in the grammar of variant.window, and the chunk's non-null values
func c19WinReadChunk(cc parquet.ColumnChunk, maxDef int) (pagesText string, values []string, npages int, err error) {
	err = c19Guard(func() error {
		pages := cc.Pages()
		defer pages.Close()
		var sb strings.Builder
		buf := make([]parquet.Value, 64)
		for {
			p, err := pages.ReadPage()
			if err == io.EOF {
				break
			}
			if err != nil {
				return err
			}
			defs, reps := p.DefinitionLevels(), p.RepetitionLevels()
			nslots := int(p.NumValues())
			if defs != nil {
				nslots = len(defs)
			}
			if reps != nil && len(reps) != nslots {
				parquet.Release(p)
				return fmt.Errorf("page %d: %d repetition levels for %d slots", npages, len(reps), nslots)
			}
			if npages > 0 {
				sb.WriteByte('|')
			}
			nonNull := 0
			if nslots == 0 {
				sb.WriteByte('-')
			}
			for i := 0; i < nslots; i++ {
				d, rp := maxDef, 0
				if defs != nil {
					d = int(defs[i])
				}
				if reps != nil {
					rp = int(reps[i])
				}
				if d == maxDef {
					nonNull++
				}
				if i > 0 {
					sb.WriteByte(',')
				}
				sb.WriteString(strconv.Itoa(d))
				sb.WriteByte('.')
				sb.WriteString(strconv.Itoa(rp))
			}
			sb.WriteByte(';')
			first := len(values)
			vr := p.Values()
			for {
				n, err := vr.ReadValues(buf)
				for _, v := range buf[:n] {
					if !v.IsNull() {
						values = append(values, c19WinValueCanon(v))
					}
				}
				if err == io.EOF {
					break
				}
				if err != nil {
					parquet.Release(p)
					return err
				}
				if n == 0 {
					break
				}
			}
			if len(values)-first != nonNull {
				parquet.Release(p)
				return fmt.Errorf("page %d: %d non-null values for %d slots at the maximum definition level", npages, len(values)-first, nonNull)
			}
			if nonNull == 0 {
				sb.WriteByte('-')
			}
			for i := 0; i < nonNull; i++ {
				if i > 0 {
					sb.WriteByte(',')
				}
				sb.WriteString(strconv.Itoa(first + i))
			}
			parquet.Release(p)
			npages++
		}
		pagesText = sb.String()
		if npages == 0 {
			pagesText = "-"
		}
		return nil
	})
	return
}

// the window of a leaf rendered like a W token of the mirror (values in canonical form)
func c19WinToken(n int, w *parquet.VerifVariantLeafWindow) (fields []string, values []string) {
	starts := make([]string, len(w.Starts))
	for d, s := range w.Starts {
		starts[d] = c19WinList(s)
	}
	values = make([]string, len(w.Values))
	for i, v := range w.Values {
		values[i] = c19WinValueCanon(v)
	}
	vtxt := "-"
	if len(values) > 0 {
		vtxt = strings.Join(values, ",")
	}
	return []string{"W" + strconv.Itoa(n), c19WinList(w.Defs), c19WinList(w.Reps), c19WinList(w.DenseIdx), vtxt, strings.Join(starts, "/")}, values
}

var c19WinFieldNames = []string{"rows", "defs", "reps", "denseidx", "values", "starts"}

func c19WindowCase(ctx *core.Ctx, r *rand.Rand, pend *c19WinPending, sample bool) {
	// ---- the file (as c19LayoutCase, fewer rows; lists favoured)
	var s *c19Schema
	switch r.Intn(5) {
	case 0:
		l := c19RandLeaf(r)
		s = &c19Schema{kind: "prim", tag: l.tag, node: l.node}
	case 1, 2:
		s = c19NestedSchema(r)
	default:
		s = c19RandSchema(r, 1)
	}
	if s.kind == "none" {
		s = &c19Schema{kind: "prim", tag: "str", node: func() parquet.Node { return parquet.String() }}
	}
	s = s.withDictionary()
	stxt := s.String()
	var variantNode parquet.Node
	if err := c19Guard(func() error { var e error; variantNode, e = parquet.ShreddedVariant(s.parquetNode()); return e }); err != nil {
		ctx.Fail("L1", "shredded-schema-rejected "+s.kind, "ShreddedVariant rejects a valid shredding schema with dictionary-encoded leaves: "+err.Error(), map[string]any{"schema": stxt})
		return
	}
	schema := parquet.NewSchema("table", parquet.Group{"id": parquet.Int(32), "var": variantNode})
	nrows := 30 + r.Intn(91)
	pageBuf := []int{64, 128, 256, 1024}[r.Intn(4)]
	dictMax := []int{32, 128, 512, 2048}[r.Intn(4)]
	pageVersion := 1 + r.Intn(2)
	opts := []parquet.WriterOption{schema,
		parquet.PageBufferSize(pageBuf),
		parquet.DictionaryMaxBytes(int64(dictMax)),
		parquet.DataPageVersion(pageVersion),
	}
	maxRows := 0
	if r.Intn(2) == 0 {
		maxRows = 17 + r.Intn(60)
		opts = append(opts, parquet.MaxRowsPerRowGroup(int64(maxRows)))
	}
	rows := make([]c19RowAny, nrows)
	var canon strings.Builder
	fmt.Fprintf(&canon, "window %s rows=%d pagebuf=%d dict=%d v%d maxrows=%d", stxt, nrows, pageBuf, dictMax, pageVersion, maxRows)
	firstValues := []string{}
	for i := range rows {
		n := c19ShredValue(r, s, 0, false)
		if i < 6 {
			firstValues = append(firstValues, n.String())
		}
		m, v := c19Encode(n.toVariant())
		rows[i] = c19RowAny{ID: int32(i), Var: c19Raw{Metadata: m, Value: v}}
	}
	step := 1 + r.Intn(3)
	buf := new(bytes.Buffer)
	err := c19Guard(func() error {
		w := parquet.NewGenericWriter[c19RowAny](buf, opts...)
		for i := 0; i < nrows; i += step {
			if _, err := w.Write(rows[i:min(i+step, nrows)]); err != nil {
				return err
			}
		}
		return w.Close()
	})
	base := map[string]any{"schema": stxt, "parquet_schema": schema.String(), "rows": nrows, "page_buffer": pageBuf, "dictionary_max_bytes": dictMax,
		"data_page_version": pageVersion, "max_rows_per_row_group": maxRows, "write_step": step, "first_values": firstValues}
	detail := func(extra map[string]any) map[string]any {
		m := map[string]any{}
		for k, x := range base {
			m[k] = x
		}
		for k, x := range extra {
			m[k] = x
		}
		return m
	}
	if err != nil {
		ctx.Fail("L1", "write-fails window schema="+s.kind, "writing a shredded variant column with small pages/dictionaries fails: "+err.Error(), detail(nil))
		return
	}
	data := buf.Bytes()
	var f *parquet.File
	if err := c19Guard(func() error { var e error; f, e = parquet.OpenFile(bytes.NewReader(data), int64(len(data))); return e }); err != nil {
		ctx.Fail("L1", "window-open-fails", "the written file does not open: "+err.Error(), detail(nil))
		return
	}

	seekThenRows, multiPage := false, false
	caseMaxRep := 0
	for rgi, rg := range f.RowGroups() {
		numRows := int(rg.NumRows())
		// ---- the history
		nops := 8 + r.Intn(13)
		ops := make([]c19WinOp, nops)
		cur := 0 // offset the history would have if every Next returned min(k, remaining)
		for i := range ops {
			atEnd := cur >= numRows && r.Intn(4) != 0 // at the end: mostly seek back
			if !atEnd && (r.Intn(10) < 6 || (i > 0 && ops[i-1].kind == 's' && r.Intn(4) != 0)) {
				k := 0
				switch r.Intn(12) {
				case 0, 1:
					k = 1
				case 2:
					k = 2
				case 3:
					k = 3
				case 4, 5:
					k = 7
				case 6, 7, 8:
					k = 1 + r.Intn(max(numRows, 1))
				case 9:
					k = numRows
				case 10:
					k = numRows + 5
				case 11:
					if r.Intn(2) == 0 {
						k = 0
					} else {
						k = max(numRows-cur, 0) // exactly to the end
					}
				}
				ops[i] = c19WinOp{'n', k}
				cur = min(cur+k, numRows)
			} else {
				j := 0
				switch r.Intn(10) {
				case 0:
					j = 0
				case 1:
					j = numRows
				case 2:
					j = cur
				case 3:
					j = max(numRows-1, 0)
				case 4:
					j = numRows + 1 // out of range: an error, nothing changes
				default:
					j = r.Intn(numRows + 1)
				}
				ops[i] = c19WinOp{'s', j}
				if j <= numRows {
					cur = j
				}
			}
		}
		fullAt := 0 // every cursor is created before the op of this index (len(ops) = after the last op)
		if r.Intn(3) != 0 {
			fullAt = r.Intn(nops + 1)
		}
		midAt := -1 // one child cursor only
		if fullAt > 0 && r.Intn(2) == 0 {
			midAt = r.Intn(fullAt + 1)
		}
		midPick := r.Intn(1 << 16)
		probeSeed := r.Int63()
		opsText := make([]string, nops)
		for i, o := range ops {
			opsText[i] = o.String()
		}
		fmt.Fprintf(&canon, " | rg%d rows=%d mid=%d full=%d %s", rgi, numRows, midAt, fullAt, strings.Join(opsText, ","))
		rgDetail := func(extra map[string]any) map[string]any {
			m := detail(map[string]any{"row_group": rgi, "row_group_rows": numRows, "history": strings.Join(opsText, ","),
				"child_cursor_created_before_op": midAt, "all_cursors_created_before_op": fullAt})
			for k, x := range extra {
				m[k] = x
			}
			return m
		}

		// ---- run it on the real reader
		leaves := map[int]*c19WinLeaf{}
		var order []int
		outcomes := make([]c19WinOutcome, nops)
		var probes []c19WinProbe
		executed := 0
		failed := false
		pr := rand.New(rand.NewSource(probeSeed))
		err := c19Guard(func() error {
			rd, err := parquet.NewVariantReader(rg, "var")
			if err != nil {
				return fmt.Errorf("NewVariantReader: %w", err)
			}
			defer rd.Close()
			note := func(at int) {
				for _, w := range parquet.VerifVariantLeafWindows(rd) {
					if _, ok := leaves[w.RelCol]; !ok {
						leaves[w.RelCol] = &c19WinLeaf{relCol: w.RelCol, column: w.Column, maxDef: int(w.MaxDef), maxRep: int(w.MaxRep), attach: at,
							snaps: map[int]*parquet.VerifVariantLeafWindow{}}
						order = append(order, w.RelCol)
					}
				}
			}
			note(0)
			offset := int64(0)
			for i := 0; i <= nops; i++ {
				if i == midAt {
					root := rd.Root()
					switch root.Kind() {
					case parquet.VariantCursorObject:
						if names := root.Fields(); len(names) > 0 {
							root.Field(names[midPick%len(names)])
						}
					case parquet.VariantCursorList:
						root.Elements()
					}
					note(i)
				}
				if i == fullAt {
					c19MaterializeCursors(rd.Root())
					note(i)
				}
				if i == nops {
					break
				}
				o := ops[i]
				out := c19WinOutcome{kind: 'N', before: offset}
				if o.kind == 's' {
					err := rd.SeekToRow(int64(o.k))
					switch {
					case o.k > numRows && err == nil:
						ctx.Fail("L1", "window-seek-out-of-range-accepted", "SeekToRow beyond the row group succeeds", rgDetail(map[string]any{"op": i}))
						failed = true
					case o.k > numRows:
						out.kind = 'X'
						ctx.Hist("window.outcome", "seek out of range: error")
					case err != nil:
						ctx.Fail("L1", "window-seek-fails", "SeekToRow inside the row group fails: "+err.Error(), rgDetail(map[string]any{"op": i}))
						failed = true
					default:
						offset = int64(o.k)
						ctx.Hist("window.outcome", "seek")
					}
				} else {
					n, err := rd.Next(o.k)
					want := min(int64(o.k), int64(numRows)-offset)
					switch {
					case err == io.EOF && n == 0 && want == 0 && o.k > 0:
						out.kind = 'E'
						ctx.Hist("window.outcome", "next: io.EOF")
					case err != nil:
						ctx.Fail("L1", "window-next-fails "+c19WinErrKind(err), fmt.Sprintf("Next(%d) at row %d of %d fails on a valid file: %v", o.k, offset, numRows, err),
							rgDetail(map[string]any{"op": i}))
						failed = true
					case int64(n) != want:
						ctx.Fail("L1", "window-next-row-count", fmt.Sprintf("Next(%d) at row %d of %d returns %d rows, expected %d", o.k, offset, numRows, n, want),
							rgDetail(map[string]any{"op": i}))
						failed = true
					default:
						out.kind, out.n = 'R', n
						offset += int64(n)
						if n == 0 {
							ctx.Hist("window.outcome", "next(0): 0 rows")
						} else {
							ctx.Hist("window.outcome", "next: rows")
							ctx.Hist("window.rows", c19WinBucket(n))
							if i > 0 && ops[i-1].kind == 's' && outcomes[i-1].kind == 'N' {
								seekThenRows = true
							}
						}
					}
					if out.kind == 'R' && out.n > 0 {
						wins := parquet.VerifVariantLeafWindows(rd)
						for wi := range wins {
							w := &wins[wi]
							if l := leaves[w.RelCol]; l != nil {
								l.snaps[i] = w
							}
						}
						// slotOf lookups, now (the next Next overwrites the window)
						for t := 0; t < 2 && len(wins) > 0; t++ {
							w := &wins[pr.Intn(len(wins))]
							depth := pr.Intn(int(w.MaxRep) + 1)
							groups := int32(len(w.Starts[depth]) - 1)
							var g int32
							switch pr.Intn(5) {
							case 0:
								g = 0
							case 1:
								g = groups
							case 2:
								g = groups + 1 + int32(pr.Intn(3))
							case 3:
								g = max(groups-1, 0)
							default:
								g = int32(pr.Intn(int(groups) + 1))
							}
							slot, ok := parquet.VerifVariantSlotOf(rd, w.RelCol, depth, g)
							probes = append(probes, c19WinProbe{reps: c19WinList(w.Reps), nslots: len(w.Defs), depth: depth, g: g, slot: slot, ok: ok,
								ctx: fmt.Sprintf("row group %d, op %d, leaf %d (maxRep %d)", rgi, i, w.RelCol, w.MaxRep)})
						}
					}
				}
				if failed {
					return nil
				}
				outcomes[i] = out
				executed = i + 1
				if got := parquet.VerifVariantRowOffset(rd); got != offset {
					ctx.Fail("L1", "window-row-offset "+string(o.kind), fmt.Sprintf("after %s the reader's row offset is %d, expected %d", o, got, offset), rgDetail(map[string]any{"op": i}))
					failed = true
					return nil
				}
			}
			return nil
		})
		if err != nil {
			key := "window-reader-fails"
			if strings.HasPrefix(err.Error(), "PANIC") {
				key = "window-reader-panics"
			}
			ctx.Fail("L1", key, "the VariantReader fails on a valid file: "+err.Error(), rgDetail(map[string]any{"ops_executed": executed}))
			continue
		}
		if failed {
			continue
		}
		for _, o := range ops {
			ctx.Hist("window.op", map[byte]string{'n': "Next", 's': "SeekToRow"}[o.kind])
		}
		switch {
		case fullAt == 0:
			ctx.Hist("window.cursors", "all created before the first op")
		case midAt >= 0:
			ctx.Hist("window.cursors", "root, then one child, then all")
		default:
			ctx.Hist("window.cursors", "root, then all")
		}

		// ---- every leaf against the mirror
		chunks := rg.ColumnChunks()
		for _, relCol := range order {
			l := leaves[relCol]
			caseMaxRep = max(caseMaxRep, l.maxRep)
			ctx.Hist("window.leaf maxRep", strconv.Itoa(l.maxRep))
			if l.column >= len(chunks) {
				ctx.Fail("L1", "window-leaf-column-out-of-range", "a leaf reader names a column beyond the row group", rgDetail(map[string]any{"leaf": relCol, "column": l.column}))
				continue
			}
			pagesText, colValues, npages, err := c19WinReadChunk(chunks[l.column], l.maxDef)
			if err != nil {
				ctx.Fail("L1", "window-pages-unreadable", "reading the leaf's column chunk page by page fails: "+err.Error(), rgDetail(map[string]any{"leaf": relCol, "column": l.column}))
				continue
			}
			ctx.Hist("window.pages per leaf", c19WinBucket(npages))
			if npages > 1 {
				multiPage = true
			}
			// ops of this leaf, the real answer, and the situation of every token
			var leafOps, real, situation []string
			var realValues [][]string
			var realFields [][]string
			attached := false
			firstNext := false
			lazyCounted := false
			for i := 0; i <= nops; i++ {
				if i == l.attach {
					leafOps = append(leafOps, "a")
					real = append(real, "N")
					realFields = append(realFields, nil)
					realValues = append(realValues, nil)
					situation = append(situation, "attach")
					attached, firstNext = true, true
				}
				if i == nops {
					break
				}
				o, out := ops[i], outcomes[i]
				leafOps = append(leafOps, o.String())
				sit := "sequential"
				if i > 0 && ops[i-1].kind == 's' && outcomes[i-1].kind == 'N' {
					sit = "after-seek"
				}
				tok := string(out.kind)
				var fields, values []string
				if out.kind == 'R' {
					tok = "R" + strconv.Itoa(out.n)
					if attached && out.n > 0 {
						if firstNext && l.attach > 0 {
							sit = "first-next-of-late-leaf-at-offset-0"
							if out.before > 0 {
								sit = "first-next-of-late-leaf-at-offset>0"
								if !lazyCounted {
									ctx.Hist("window.leaf opened lazily", "at row offset > 0")
									lazyCounted = true
								}
							}
						}
						firstNext = false
						if w := l.snaps[i]; w != nil {
							fields, values = c19WinToken(out.n, w)
							tok = strings.Join(fields, ":")
							ctx.Hist("window.slots", c19WinBucket(len(w.Defs)))
						} else {
							tok = "W" + strconv.Itoa(out.n) + ":<no window snapshot>"
							fields = []string{"W" + strconv.Itoa(out.n)}
						}
					}
				}
				real = append(real, tok)
				realFields = append(realFields, fields)
				realValues = append(realValues, values)
				situation = append(situation, sit)
			}
			if l.attach == 0 {
				ctx.Hist("window.leaf attached", "from the start")
			} else {
				ctx.Hist("window.leaf attached", "later")
				if !lazyCounted {
					ctx.Hist("window.leaf opened lazily", "at row offset 0 or never read")
				}
			}
			req := fmt.Sprintf("variant.window %d %d %d %s %s", l.maxDef, l.maxRep, numRows, pagesText, strings.Join(leafOps, ","))
			leafDetail := rgDetail(map[string]any{"leaf": relCol, "column": l.column, "max_def": l.maxDef, "max_rep": l.maxRep, "pages": pagesText,
				"ops": strings.Join(leafOps, ","), "request": req, "real": strings.Join(real, " ")})
			repTag := "maxRep=0"
			if l.maxRep > 0 {
				repTag = "maxRep>0"
			}
			pend.add(req, func(answer string) {
				fail := func(key, what string, extra map[string]any) {
					m := map[string]any{"mirror": answer}
					for k, x := range leafDetail {
						m[k] = x
					}
					for k, x := range extra {
						m[k] = x
					}
					ctx.Fail("L2", key, what, m)
				}
				if !strings.HasPrefix(answer, "ok ") {
					fail("window-mirror-rejects", "the mirror does not answer a variant.window request: "+answer, nil)
					return
				}
				toks := strings.Fields(answer[3:])
				if len(toks) != len(real) {
					fail("window-token-count", fmt.Sprintf("the mirror answers %d tokens for %d ops", len(toks), len(real)), nil)
					return
				}
				for ti, mt := range toks {
					rt := real[ti]
					if realFields[ti] == nil || len(realFields[ti]) != 6 || !strings.HasPrefix(mt, "W") {
						if mt != rt {
							fail(fmt.Sprintf("window-outcome-differs %s real=%s mirror=%s %s", repTag, c19WinTokKind(rt), c19WinTokKind(mt), situation[ti]),
								fmt.Sprintf("op %d (%s): the reader's outcome is %s, the mirror's %s", ti, leafOps[ti], c19WinShort(rt), c19WinShort(mt)), map[string]any{"token": ti})
							return
						}
						continue
					}
					mf := strings.Split(mt, ":")
					if len(mf) != 6 {
						fail("window-mirror-token-malformed", "a W token of the mirror does not have 6 fields: "+mt, map[string]any{"token": ti})
						return
					}
					for fi := range mf {
						if fi == 4 {
							// the mirror names values by their index among the chunk's non-null values
							var mv []string
							bad := false
							if mf[4] != "-" {
								for _, x := range strings.Split(mf[4], ",") {
									id, err := strconv.Atoi(x)
									if err != nil || id < 0 || id >= len(colValues) {
										bad = true
										break
									}
									mv = append(mv, colValues[id])
								}
							}
							if bad || strings.Join(mv, ",") != strings.Join(realValues[ti], ",") {
								fail(fmt.Sprintf("window-values-differ %s %s", repTag, situation[ti]),
									fmt.Sprintf("op %d (%s): the dense values of the window differ from the mirror's", ti, leafOps[ti]),
									map[string]any{"token": ti, "mirror_token": mt, "mirror_values": strings.Join(mv, ","), "real_token": rt})
								return
							}
							continue
						}
						if mf[fi] != realFields[ti][fi] {
							fail(fmt.Sprintf("window-%s-differ %s %s", c19WinFieldNames[fi], repTag, situation[ti]),
								fmt.Sprintf("op %d (%s): %s of the window is %s, the mirror's %s", ti, leafOps[ti], c19WinFieldNames[fi], realFields[ti][fi], mf[fi]),
								map[string]any{"token": ti, "mirror_token": mt, "real_token": rt})
							return
						}
					}
				}
			})
		}
		for _, p := range probes {
			p := p
			req := fmt.Sprintf("variant.slotof %s %d %d %d", p.reps, p.nslots, p.depth, p.g)
			pend.add(req, func(answer string) {
				got := "ok none"
				if p.ok {
					got = "ok " + strconv.Itoa(int(p.slot))
				}
				ctx.Hist("window.slotof", map[bool]string{true: "found", false: "none"}[p.ok])
				if answer != got {
					where := "inside"
					if !p.ok || answer == "ok none" {
						where = "past-the-last-group"
					}
					ctx.Fail("L2", fmt.Sprintf("window-slotof-differs depth=%d %s", p.depth, where),
						fmt.Sprintf("slotOf(%d, %d) on a window of %d slots: the reader answers %q, the mirror %q", p.depth, p.g, p.nslots, got, answer),
						detail(map[string]any{"request": req, "where": p.ctx}))
				}
			})
		}
	}
	ctx.Hist("window.case max maxRep", strconv.Itoa(caseMaxRep))
	ctx.Hist("window.schema", s.kind)
	nontrivial := seekThenRows && multiPage
	ctx.Case(canon.String(), nontrivial)
	if sample {
		ctx.Sample(map[string]any{"sub": "window", "case": canon.String()})
	}
}

func c19WinErrKind(err error) string {
	m := err.Error()
	switch {
	case strings.HasPrefix(m, "PANIC"):
		return "panic"
	case strings.Contains(m, "ended after"):
		return "column-ended-early"
	case err == io.EOF:
		return "unexpected-eof"
	}
	return "error"
}

func c19WinTokKind(t string) string {
	if t == "" {
		return "?"
	}
	return t[:1]
}

func c19WinShort(t string) string {
	if len(t) > 80 {
		return t[:80] + "..."
	}
	return t
}

func RunC19Window(ctx *core.Ctx) {
	ctx.SetRule(c19Rule + "; " + c19WindowRule)
	nw := 8
	total := ctx.Scale(480, 4800)
	var wg sync.WaitGroup
	for w := 0; w < nw; w++ {
		w := w
		wg.Add(1)
		go func() {
			defer wg.Done()
			r := ctx.Rand(fmt.Sprintf("window-%d", w))
			d := ctx.Driver()
			var p c19WinPending
			for i := 0; i < total/nw; i++ {
				c19WindowCase(ctx, r, &p, w == 0 && i < 2)
				if len(p.reqs) >= 1000 {
					p.flush(ctx, d)
				}
			}
			p.flush(ctx, d)
		}()
	}
	wg.Wait()
}
