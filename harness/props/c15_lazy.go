package props

// C15 sub-check "lazyload": state of an opened File that is loaded by the first goroutine that needs
// it while other goroutines arrive — the gzip-compressed bloom filter bits (bloom.go: guarded by a
// sync.Once) — driven through a CHOSEN schedule instead of a hoped-for one, against the Lean model
// PqModel.OnceLoad (driver op once.run).
//
// The storage handed to OpenFile is a gate: once armed, the next ReadAt (the load made on behalf of
// the first caller of Check) parks until the harness lets it go. While it is parked the other callers
// are started; each of them is followed until it has either returned or is parked on a lock (its
// state in the goroutine dump: nothing but the end of the load can wake it). Then the load is let go.
//
//   L2: what every caller did at every point of the schedule (entered the loader / blocked / went
//       past the guard / answered from the loaded content or not) and the number of loads must be what
//       the Lean model does under the same schedule (`once.run 1 …`).
//   L1: every Check must answer what a serial execution answers (a second File over the same bytes,
//       probed by one goroutine) with a nil error — the property itself, independent of the model.
//
// Nothing here depends on elapsed time: "blocked" is read off the goroutine's wait state, and a caller
// that is neither finished nor blocked when the (generous) cap expires is an observation.

import (
	"bytes"
	"fmt"
	"io"
	"runtime"
	"strings"
	"sync"
	"sync/atomic"
	"time"

	"github.com/parquet-go/parquet-go"

	"verifharness/core"
)

func init() {
	RegisterSub("C15", "lazyload", RunC15LazyLoad)
}

// c15Gate is an io.ReaderAt whose next read after arm() parks until open().
type c15Gate struct {
	r       io.ReaderAt
	armed   atomic.Bool
	entered chan int64
	release chan struct{}
	reads   atomic.Int64 // reads since arm()
}

func (g *c15Gate) arm() {
	g.entered = make(chan int64, 1)
	g.release = make(chan struct{})
	g.reads.Store(0)
	g.armed.Store(true)
}

func (g *c15Gate) ReadAt(p []byte, off int64) (int, error) {
	g.reads.Add(1)
	if g.armed.CompareAndSwap(true, false) {
		g.entered <- off
		<-g.release
	}
	return g.r.ReadAt(p, off)
}

type c15LazyResult struct {
	ok  bool
	err error
}

func (r c15LazyResult) String() string { return fmt.Sprintf("(%v, %v)", r.ok, r.err) }

// c15LazyCaller is one caller of Check; its name identifies its goroutine in a dump.
func c15LazyCaller(bf parquet.BloomFilter, v parquet.Value, out *c15LazyResult, done *atomic.Bool, wg *sync.WaitGroup) {
	defer wg.Done()
	ok, err := bf.Check(v)
	*out = c15LazyResult{ok, err}
	done.Store(true)
}

// c15CallersSettled waits until `want` goroutines running c15LazyCaller are parked on a lock or have
// returned. It returns how many are parked, or -1 when the cap expired first.
func c15CallersSettled(done []*atomic.Bool, exclude int, limit time.Duration, fn string) int {
	start := time.Now()
	buf := make([]byte, 1<<18)
	for {
		finished := 0
		for i, d := range done {
			if i != exclude && d.Load() {
				finished++
			}
		}
		var n int
		for {
			n = runtime.Stack(buf, true)
			if n < len(buf) {
				break
			}
			buf = make([]byte, 2*len(buf))
		}
		blocked := 0
		for _, block := range strings.Split(string(buf[:n]), "\n\n") {
			if !strings.Contains(block, fn+"(") || strings.Contains(block, "c15Gate).ReadAt") {
				continue
			}
			head, _, _ := strings.Cut(block, "\n")
			open, cl := strings.Index(head, "["), strings.LastIndex(head, "]")
			if open < 0 || cl < open {
				continue
			}
			state, _, _ := strings.Cut(head[open+1:cl], ",")
			if c15BlockedStates[strings.TrimSuffix(strings.TrimSpace(state), " (scan)")] {
				blocked++
			}
		}
		// re-read the flags: a caller may have finished between the two looks
		finished2 := 0
		for i, d := range done {
			if i != exclude && d.Load() {
				finished2++
			}
		}
		if finished == finished2 && finished+blocked >= len(done)-1 {
			return blocked
		}
		if time.Since(start) > limit {
			return -1
		}
		time.Sleep(200 * time.Microsecond)
	}
}

type c15LazyRow struct {
	ID   int64  `parquet:"id"`
	Name string `parquet:"name"`
}

func RunC15LazyLoad(ctx *core.Ctx) {
	ctx.SetRule("one case = k concurrent BloomFilter().Check calls on one column chunk of a file whose bloom filter bits are gzip-compressed, the first call held inside its load while `early` others are started and `late` others after the load; distinct by (file options, open mode, chunk, k, schedule, probed values); non-trivial = at least one caller arrives while the load is in progress")
	d := ctx.Driver()
	if d == nil {
		return
	}
	r := ctx.Rand("lazyload")
	cases := ctx.Scale(60, 600)
	defer c15LazyCasCases(ctx, ctx.Rand("lazyload-cas"), ctx.Scale(40, 400))
	for c := 0; c < cases; c++ {
		n := 50 + r.Intn(400)
		rows := make([]c15LazyRow, n)
		for i := range rows {
			rows[i] = c15LazyRow{ID: int64(i) * 3, Name: fmt.Sprintf("name-%04d", i)}
		}
		var file bytes.Buffer
		pageVersion := 1 + r.Intn(2)
		maxRows := int64([]int{40, 1000}[r.Intn(2)])
		w := parquet.NewGenericWriter[c15LazyRow](&file,
			parquet.BloomFilters(parquet.SplitBlockFilter(10, "id"), parquet.SplitBlockFilter(10, "name")),
			parquet.BloomFilterCompression(&parquet.Gzip), parquet.DataPageVersion(pageVersion), parquet.MaxRowsPerRowGroup(maxRows))
		if _, err := w.Write(rows); err != nil {
			ctx.Fail("L2", "lazyload-setup", "cannot write the file: "+err.Error(), nil)
			return
		}
		if err := w.Close(); err != nil {
			ctx.Fail("L2", "lazyload-setup", "cannot write the file: "+err.Error(), nil)
			return
		}
		data := file.Bytes()
		skip := r.Intn(2) == 0 // bloom filter headers read at open, or by the first BloomFilter() call
		gate := &c15Gate{r: bytes.NewReader(data)}
		f, err := parquet.OpenFile(gate, int64(len(data)), parquet.SkipBloomFilters(skip))
		if err != nil {
			ctx.Fail("L2", "lazyload-setup", "cannot open the file: "+err.Error(), nil)
			return
		}
		ref, err := parquet.OpenFile(bytes.NewReader(data), int64(len(data)))
		if err != nil {
			ctx.Fail("L2", "lazyload-setup", "cannot open the file: "+err.Error(), nil)
			return
		}
		g := r.Intn(len(f.RowGroups()))
		col := r.Intn(2)
		bf := f.RowGroups()[g].ColumnChunks()[col].BloomFilter()
		refbf := ref.RowGroups()[g].ColumnChunks()[col].BloomFilter()
		if bf == nil || refbf == nil {
			ctx.Fail("L2", "lazyload-setup", "the column chunk has no bloom filter", nil)
			return
		}
		early, late := 1+r.Intn(4), r.Intn(3)
		if r.Intn(8) == 0 {
			early = 0
		}
		k := 1 + early + late
		values := make([]parquet.Value, k)
		for i := range values {
			x := r.Intn(n + n/2) // present and absent values
			if col == 0 {
				values[i] = parquet.Int64Value(int64(x) * 3)
			} else {
				values[i] = parquet.ByteArrayValue([]byte(fmt.Sprintf("name-%04d", x)))
			}
		}
		// serial execution: one goroutine, its own File
		want := make([]c15LazyResult, k)
		for i := range want {
			ok, err := refbf.Check(values[i])
			want[i] = c15LazyResult{ok, err}
		}
		canon := fmt.Sprintf("rows=%d v%d maxrows=%d skip=%v rg=%d col=%d early=%d late=%d values=%v", n, pageVersion, maxRows, skip, g, col, early, late, values)
		ctx.Case(canon, early > 0)
		ctx.Hist("callers", fmt.Sprint(k))
		ctx.Hist("early_late", fmt.Sprintf("%d/%d", early, late))
		ctx.Hist("bloom_headers", map[bool]string{true: "lazy (CAS-published)", false: "read at open"}[skip])
		detail := map[string]any{"case": canon,
			"replay": fmt.Sprintf("VERIF_SEED=%d VERIF_ONLY=lazyload ./check C15 %s (case %d); standalone: write %d rows {id: 3*i, name: name-%%04d} with BloomFilters(id, name), BloomFilterCompression(&parquet.Gzip), DataPageVersion(%d), MaxRowsPerRowGroup(%d); OpenFile(SkipBloomFilters(%v)) over an io.ReaderAt that holds back its next read; bf := RowGroups()[%d].ColumnChunks()[%d].BloomFilter(); goroutine 0 calls bf.Check(%s) (parks in the read), then %d goroutines call bf.Check for %v, then the read is let go, then %d more callers; compare every result with the same Check on a second File from one goroutine",
				ctx.Seed, ctx.Tier, c, n, pageVersion, maxRows, skip, g, col, values[0], early, values[1:1+early], late)}

		got := make([]c15LazyResult, k)
		done := make([]*atomic.Bool, k)
		for i := range done {
			done[i] = new(atomic.Bool)
		}
		var wg sync.WaitGroup
		var acts, observed []string
		// caller 0: enters the loader and parks in the gate
		gate.arm()
		wg.Add(1)
		go c15LazyCaller(bf, values[0], &got[0], done[0], &wg)
		<-gate.entered
		acts, observed = append(acts, "e0"), append(observed, "load")
		// the early callers arrive while the load is in progress
		for i := 1; i <= early; i++ {
			wg.Add(1)
			go c15LazyCaller(bf, values[i], &got[i], done[i], &wg)
		}
		settled := c15CallersSettled(done[:1+early], 0, 3*time.Minute, "props.c15LazyCaller")
		if settled < 0 {
			ctx.Observe("lazyload-callers-unsettled", "callers started during the load were neither finished nor parked on a lock when the harness gave up waiting (slow machine); no verdict is derived from it", detail)
			close(gate.release)
			wg.Wait()
			return
		}
		for i := 1; i <= early; i++ {
			acts = append(acts, fmt.Sprintf("e%d", i))
			if done[i].Load() {
				// went past the guard and answered while the load was still in progress
				acts = append(acts, fmt.Sprintf("p%d", i))
				observed = append(observed, "pass", c15LazyAnswer(got[i], want[i]))
			} else {
				observed = append(observed, "blocked")
			}
		}
		// the load completes
		close(gate.release)
		wg.Wait()
		acts, observed = append(acts, "f0", "p0"), append(observed, "ok", c15LazyAnswer(got[0], want[0]))
		for i := 1; i <= early; i++ {
			if !strings.Contains(strings.Join(acts, ","), fmt.Sprintf("p%d", i)) {
				acts = append(acts, fmt.Sprintf("e%d", i), fmt.Sprintf("p%d", i))
				observed = append(observed, "pass", c15LazyAnswer(got[i], want[i]))
			}
		}
		// the late callers arrive after the load, all at once
		for i := 1 + early; i < k; i++ {
			wg.Add(1)
			go c15LazyCaller(bf, values[i], &got[i], done[i], &wg)
		}
		wg.Wait()
		for i := 1 + early; i < k; i++ {
			acts = append(acts, fmt.Sprintf("e%d", i), fmt.Sprintf("p%d", i))
			observed = append(observed, "pass", c15LazyAnswer(got[i], want[i]))
		}
		loads := gate.reads.Load()
		detail["schedule"] = strings.Join(acts, ",")
		detail["results"] = fmt.Sprint(got)
		detail["serial"] = fmt.Sprint(want)
		// ---- L1: every caller answers what the serial execution answers
		for i := range got {
			if got[i].ok != want[i].ok || got[i].err != nil || want[i].err != nil {
				when := "after the load had completed"
				if i >= 1 && i <= early {
					when = "while goroutine 0 was loading the filter"
				} else if i == 0 {
					when = "first (it loads the filter)"
				}
				detail["caller"] = i
				ctx.Fail("L1", "lazy-bloom-check-differs-from-serial", fmt.Sprintf("BloomFilter().Check(%s) called %s returned %s; a serial execution returns %s", values[i], when, got[i], want[i]), detail)
				break
			}
		}
		// ---- L2: the schedule as observed vs the Lean model
		ans, err := d.AskMany([]string{fmt.Sprintf("once.run 1 %d 1 %s", k, strings.Join(acts, ","))})
		if err != nil {
			ctx.Fail("L2", "driver-error", err.Error(), nil)
			return
		}
		obs := fmt.Sprintf("ok %s loads=%d", strings.Join(observed, ","), loads)
		ctx.Hist("once_model", map[bool]string{true: "agrees", false: "differs"}[ans[0] == obs])
		if ans[0] != obs {
			detail["model"], detail["observed"] = ans[0], obs
			ctx.Fail("L2", "once-load-protocol-differs", "callers of Check on a lazily loaded gzip bloom filter do not behave like the Lean model of the once-guarded load (PqModel.OnceLoad, Props.C15.once_load_serial) under the same schedule: `blocked` = waits for the load, `pass`,`rnil` = went on and answered from the not yet loaded state (Props.C15.once_flag_slip_not_serial)", detail)
		}
	}
}

// ---------------------------------------------------------------- CAS-published pointers under a chosen schedule

// c15LazyIndexCaller is one caller of ColumnIndex / OffsetIndex / BloomFilter on a column chunk whose
// page index and bloom filter header were skipped at open (file.go readColumnIndexFrom,
// readOffsetIndex, readBloomFilter: load; read + decode; CompareAndSwap; load).
func c15LazyIndexCaller(cc parquet.ColumnChunk, kind int, out *any, text *string, done *atomic.Bool, wg *sync.WaitGroup) {
	defer wg.Done()
	defer done.Store(true)
	switch kind {
	case 0:
		ci, err := cc.ColumnIndex()
		if err != nil {
			*text = "error: " + err.Error()
			return
		}
		*out = ci
		var sb strings.Builder
		for p := 0; p < ci.NumPages(); p++ {
			fmt.Fprintf(&sb, "%s..%s n%d %v|", ci.MinValue(p), ci.MaxValue(p), ci.NullCount(p), ci.NullPage(p))
		}
		*text = sb.String()
	case 1:
		oi, err := cc.OffsetIndex()
		if err != nil {
			*text = "error: " + err.Error()
			return
		}
		*out = oi
		var sb strings.Builder
		for p := 0; p < oi.NumPages(); p++ {
			fmt.Fprintf(&sb, "@%d+%d r%d|", oi.Offset(p), oi.CompressedPageSize(p), oi.FirstRowIndex(p))
		}
		*text = sb.String()
	default:
		bf := cc.BloomFilter()
		*out = bf
		if bf == nil {
			*text = "nil"
			return
		}
		*text = fmt.Sprintf("size %d", bf.Size())
	}
}

// c15LazyCasCases: caller 0 is parked inside its read of the index (it has seen the nil pointer);
// the others run meanwhile — the protocol has no lock, so none of them may block: the first of them
// publishes its value, the rest find or lose against it — then caller 0 is let go: its
// CompareAndSwap fails and it must come back with the published pointer, not with its own
// (Props.C15.cas_publish_unique: all callers return one pointer; reader_progress: nobody waits).
func c15LazyCasCases(ctx *core.Ctx, r interface{ Intn(int) int }, cases int) {
	for c := 0; c < cases; c++ {
		n := 50 + r.Intn(300)
		rows := make([]c15LazyRow, n)
		for i := range rows {
			rows[i] = c15LazyRow{ID: int64(i) * 3, Name: fmt.Sprintf("name-%04d", i)}
		}
		var file bytes.Buffer
		gz := r.Intn(2) == 0
		wopts := []parquet.WriterOption{parquet.BloomFilters(parquet.SplitBlockFilter(10, "id"), parquet.SplitBlockFilter(10, "name")),
			parquet.PageBufferSize(64 + r.Intn(500)), parquet.MaxRowsPerRowGroup(int64([]int{40, 1000}[r.Intn(2)]))}
		if gz {
			wopts = append(wopts, parquet.BloomFilterCompression(&parquet.Gzip))
		}
		w := parquet.NewGenericWriter[c15LazyRow](&file, wopts...)
		if _, err := w.Write(rows); err != nil {
			ctx.Fail("L2", "lazyload-setup", "cannot write the file: "+err.Error(), nil)
			return
		}
		if err := w.Close(); err != nil {
			ctx.Fail("L2", "lazyload-setup", "cannot write the file: "+err.Error(), nil)
			return
		}
		data := file.Bytes()
		gate := &c15Gate{r: bytes.NewReader(data)}
		f, err := parquet.OpenFile(gate, int64(len(data)), parquet.SkipPageIndex(true), parquet.SkipBloomFilters(true))
		if err != nil {
			ctx.Fail("L2", "lazyload-setup", "cannot open the file: "+err.Error(), nil)
			return
		}
		ref, err := parquet.OpenFile(bytes.NewReader(data), int64(len(data)))
		if err != nil {
			ctx.Fail("L2", "lazyload-setup", "cannot open the file: "+err.Error(), nil)
			return
		}
		g, col, kind := r.Intn(len(f.RowGroups())), r.Intn(2), r.Intn(3)
		cc := f.RowGroups()[g].ColumnChunks()[col]
		k := 2 + r.Intn(4)
		what := []string{"ColumnIndex", "OffsetIndex", "BloomFilter"}[kind]
		canon := fmt.Sprintf("cas %s rows=%d gzip=%v rg=%d col=%d k=%d", what, n, gz, g, col, k)
		ctx.Case(canon, true)
		ctx.Hist("cas_publish_call", what)
		detail := map[string]any{"case": canon,
			"replay": fmt.Sprintf("VERIF_SEED=%d VERIF_ONLY=lazyload ./check C15 %s (cas case %d); standalone: write %d rows {id: 3*i, name: name-%%04d} with bloom filters on both columns (gzip=%v); OpenFile(SkipPageIndex(true), SkipBloomFilters(true)) over an io.ReaderAt that holds back its next read; goroutine 0 calls RowGroups()[%d].ColumnChunks()[%d].%s() (parks in the read), %d more goroutines make the same call, then the read is let go: all %d results must be one pointer with the content a second File yields",
				ctx.Seed, ctx.Tier, c, n, gz, g, col, what, k-1, k)}
		var want string
		{
			var o any
			var d atomic.Bool
			var wg sync.WaitGroup
			wg.Add(1)
			c15LazyIndexCaller(ref.RowGroups()[g].ColumnChunks()[col], kind, &o, &want, &d, &wg)
		}
		outs, texts := make([]any, k), make([]string, k)
		done := make([]*atomic.Bool, k)
		for i := range done {
			done[i] = new(atomic.Bool)
		}
		var wg sync.WaitGroup
		gate.arm()
		wg.Add(1)
		go c15LazyIndexCaller(cc, kind, &outs[0], &texts[0], done[0], &wg)
		<-gate.entered
		for i := 1; i < k; i++ {
			wg.Add(1)
			go c15LazyIndexCaller(cc, kind, &outs[i], &texts[i], done[i], &wg)
		}
		blocked := c15CallersSettled(done, 0, 3*time.Minute, "props.c15LazyIndexCaller")
		close(gate.release)
		wg.Wait()
		if blocked < 0 {
			ctx.Observe("lazyload-callers-unsettled", "callers started during the load were neither finished nor parked on a lock when the harness gave up waiting (slow machine); no verdict is derived from it", detail)
			return
		}
		detail["results"] = texts
		detail["serial"] = want
		if blocked > 0 {
			detail["blocked"] = blocked
			ctx.Fail("L2", "cas-publish-protocol-differs", fmt.Sprintf("%d callers of %s() waited for the caller that was reading the index; the Lean model of the publication (PqModel.CasPublish) has no waiting: every reader computes its own value and the CompareAndSwap decides", blocked, what), detail)
		}
		for i := range outs {
			if texts[i] != want {
				detail["caller"] = i
				ctx.Fail("L1", "lazy-index-differs-from-serial", fmt.Sprintf("%s() of caller %d returned %q; a serial execution returns %q", what, i, texts[i], want), detail)
				break
			}
			if outs[i] != outs[1] {
				detail["caller"] = i
				when := "it ran while goroutine 0 was reading the index"
				if i == 0 {
					when = "it was the first to start reading and the last to finish: its CompareAndSwap failed"
				}
				ctx.Fail("L1", "lazy-index-pointer-differs", fmt.Sprintf("%s() of caller %d returned a different object than caller 1 for the same column chunk (%s); serially every call returns the one published object", what, i, when), detail)
				break
			}
		}
	}
}

// c15LazyAnswer classifies an answer the way the model does: from the loaded content (r1) or not.
func c15LazyAnswer(got, want c15LazyResult) string {
	if got.err == nil && want.err == nil && got.ok == want.ok {
		return "r1"
	}
	return "rnil"
}
