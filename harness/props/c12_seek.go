package props

// Property C12, sub-check "seek": reading THROUGH a converted view with seeks.
//
// The property: reading rows through a target schema yields, for every column present on both
// sides, exactly the source values; "the row count and order are unchanged". A reader that can be
// positioned therefore hands out, after SeekToRow(k), the projection of source rows k, k+1, ... -
// whatever the history of reads and seeks before, whatever buffer the caller passes.
//
// A case = random source schema (+ a required int64 column `rid` = row number, so that every row
// is distinguishable) x random target (permute / delete+permute, then nothing / add / widen) x
// rows shredded by the harness x ONE history of ReadRows / SeekToRow calls, run against every
// reader a conversion hands out:
//
//	convert-row-reader over a plain RowReader, over Buffer.Rows(), over file Rows()   (forward only)
//	ConvertRowGroup(...).Rows() over a Buffer and over a file
//	NewReader(file, schema), NewGenericReader[any](file, schema), NewRowGroupReader(rg, schema),
//	NewGenericRowGroupReader[any](buffer, schema), MergeRowGroups(rgs, schema).Rows()
//
// History: reads of the case's batch size (sometimes another size) into TWO caller buffers that
// are REUSED across calls and left dirty (every slot's backing array is overwritten by the
// harness after the comparison); seeks to positions strictly inside the next batch, on its edge,
// beyond it, to the last row, to the end, beyond the end, backward and to 0.
//
// Oracle (from the property statement only): each ReadRows yields rows pos, pos+1, ... of the
// reference projection (harness shredder over the projected value; columns the target ADDS are
// not compared here - they are the business of the sub-check `schemas` and of finding F19), never
// more than fit, never none while rows remain, io.EOF only at the end; a seek to a row in
// [position, rows] is not refused (a backward seek or one beyond the end may be: the history of
// that reader ends there); distinct slots of the caller's buffers keep distinct storage (writing to one
// returned row must not change another).

import (
	"bytes"
	"fmt"
	"io"
	"math/rand"
	"strings"
	"sync"

	"github.com/parquet-go/parquet-go"

	"verifharness/core"
	"verifharness/gen"
)

func init() { RegisterSub("C12", "seek", RunC12Seek) }

const c12SeekRule = "seek: a case is one (random source schema + row-number column, random target: permute / delete+permute then nothing / add / widen, 1-100 rows, " +
	"one history of 3-12 ReadRows/SeekToRow calls with two reused dirty caller buffers; seeks inside / on the edge of / beyond the next batch, to the end, backward) " +
	"run against ten readers handed out by conversions (ConvertRowReader x3 sources, ConvertRowGroup.Rows x2, NewReader, NewGenericReader[any], NewRowGroupReader, NewGenericRowGroupReader[any] over a Buffer, MergeRowGroups with a schema); " +
	"expected = reference projection of rows pos.. after every call; non-trivial = the history holds a seek strictly inside the next batch followed by at least two reads into the same buffer"

func RunC12Seek(ctx *core.Ctx) {
	ctx.SetRule(c12SeekRule)
	n := ctx.Scale(480, 8000)
	shards := 8
	var wg sync.WaitGroup
	for w := 0; w < shards; w++ {
		wg.Add(1)
		go func(w int) {
			defer wg.Done()
			c12RunShard(ctx, "seekhist", w, n/shards)
		}(w)
	}
	wg.Wait()
}

type c12SeekOp struct {
	kind  byte // 'r' read, 's' seek
	arg   int  // read: number of rows asked for; seek: row
	buf   int  // read: which of the two caller buffers
	class string
}

func (o c12SeekOp) String() string {
	if o.kind == 's' {
		return fmt.Sprintf("s%d", o.arg)
	}
	return fmt.Sprintf("r%d@%c", o.arg, 'A'+o.buf)
}

// c12SeekHistory draws a history against the oracle position (what the property says comes next).
func c12SeekHistory(r *rand.Rand, nrows, batch int) (ops []c12SeekOp, nontrivial bool) {
	pos := 0
	nops := 3 + r.Intn(10)
	oneBuf := r.Intn(3) > 0 // mostly one buffer reused for every call, as CopyRows does
	insideAt := -1
	readsAfterInside := 0
	for k := 0; k < nops; k++ {
		if r.Intn(3) == 0 {
			var row int
			var class string
			switch x := r.Intn(20); {
			case x < 8 && batch > 1:
				row, class = pos+1+r.Intn(batch-1), "inside-next-batch"
			case x < 10:
				row, class = pos+batch, "edge-of-next-batch"
			case x < 12:
				row, class = pos+batch+1+r.Intn(2*batch+1), "beyond-next-batch"
			case x < 13:
				row, class = nrows-1, "last-row"
			case x < 14:
				row, class = nrows, "end"
			case x < 15:
				row, class = nrows+1+r.Intn(5), "beyond-end"
			case x < 16:
				row, class = 0, "start"
			case x < 18:
				row, class = pos, "current"
			default:
				row, class = pos-1-r.Intn(batch+1), "backward"
			}
			if row < 0 {
				row, class = 0, "start"
			}
			if row < pos && class != "start" {
				class = "backward"
			}
			if class == "inside-next-batch" && row < nrows {
				insideAt, readsAfterInside = k, 0
			}
			ops = append(ops, c12SeekOp{kind: 's', arg: row, class: class})
			pos = row
			continue
		}
		c := batch
		if r.Intn(6) == 0 {
			c = []int{1, 2, 3, 5, 8, 64}[r.Intn(6)]
		}
		b := 0
		if !oneBuf {
			b = r.Intn(2)
		}
		ops = append(ops, c12SeekOp{kind: 'r', arg: c, buf: b})
		pos += c
		if insideAt >= 0 {
			readsAfterInside++
		}
	}
	return ops, insideAt >= 0 && readsAfterInside >= 2
}

type c12SeekPath struct {
	name        string
	forwardOnly bool
	open        func(c *c12Case, b *parquet.Buffer, f *parquet.File) (parquet.RowReader, error)
}

func c12OneRowGroup(f *parquet.File) parquet.RowGroup {
	rgs := f.RowGroups()
	if len(rgs) == 1 {
		return rgs[0]
	}
	return parquet.MultiRowGroup(rgs...)
}

var c12SeekPaths = []c12SeekPath{
	{"convert-row-reader:plain-reader", true, func(c *c12Case, b *parquet.Buffer, f *parquet.File) (parquet.RowReader, error) {
		conv, err := parquet.Convert(c.tgtS, c.srcS)
		if err != nil {
			return nil, err
		}
		return parquet.ConvertRowReader(&c12SliceReader{rows: c.rows, schema: c.srcS}, conv), nil
	}},
	{"convert-row-reader:buffer-rows", true, func(c *c12Case, b *parquet.Buffer, f *parquet.File) (parquet.RowReader, error) {
		conv, err := parquet.Convert(c.tgtS, b.Schema())
		if err != nil {
			return nil, err
		}
		return parquet.ConvertRowReader(b.Rows(), conv), nil
	}},
	{"convert-row-reader:file-rows", true, func(c *c12Case, b *parquet.Buffer, f *parquet.File) (parquet.RowReader, error) {
		conv, err := parquet.Convert(c.tgtS, f.Schema())
		if err != nil {
			return nil, err
		}
		return parquet.ConvertRowReader(c12OneRowGroup(f).Rows(), conv), nil
	}},
	{"convert-rowgroup-rows:buffer", false, func(c *c12Case, b *parquet.Buffer, f *parquet.File) (parquet.RowReader, error) {
		conv, err := parquet.Convert(c.tgtS, b.Schema())
		if err != nil {
			return nil, err
		}
		return parquet.ConvertRowGroup(b, conv).Rows(), nil
	}},
	{"convert-rowgroup-rows:file", false, func(c *c12Case, b *parquet.Buffer, f *parquet.File) (parquet.RowReader, error) {
		conv, err := parquet.Convert(c.tgtS, f.Schema())
		if err != nil {
			return nil, err
		}
		return parquet.ConvertRowGroup(c12OneRowGroup(f), conv).Rows(), nil
	}},
	{"new-reader-schema:file", false, func(c *c12Case, b *parquet.Buffer, f *parquet.File) (parquet.RowReader, error) {
		return parquet.NewReader(f, c.tgtS), nil
	}},
	{"generic-reader-schema:file", false, func(c *c12Case, b *parquet.Buffer, f *parquet.File) (parquet.RowReader, error) {
		return parquet.NewGenericReader[any](f, c.tgtS), nil
	}},
	{"rowgroup-reader-schema:file", false, func(c *c12Case, b *parquet.Buffer, f *parquet.File) (parquet.RowReader, error) {
		return parquet.NewRowGroupReader(c12OneRowGroup(f), c.tgtS), nil
	}},
	{"generic-rowgroup-reader:buffer", false, func(c *c12Case, b *parquet.Buffer, f *parquet.File) (parquet.RowReader, error) {
		return parquet.NewGenericRowGroupReader[any](b, c.tgtS), nil
	}},
	{"merge-rowgroups-schema:file", false, func(c *c12Case, b *parquet.Buffer, f *parquet.File) (parquet.RowReader, error) {
		m, err := parquet.MergeRowGroups(f.RowGroups(), c.tgtS)
		if err != nil {
			return nil, err
		}
		return m.Rows(), nil
	}},
}

func c12SeekHistCase(ctx *core.Ctx, d c12Asker, r *rand.Rand, at func(path, mode string, detail any)) {
	g := &c12Gen{r: r}
	src := g.schema()
	mode := []string{"permute", "drop-permute", "drop-permute", "add", "widen"}[r.Intn(5)]
	tg := g.target(src, mode)
	tgt := tg.node
	// the row number: present on both sides, at independent places of the root
	rid := func() *c12Node { return &c12Node{name: "rid", kind: 2} }
	si := r.Intn(len(src.fields) + 1)
	src.fields = append(src.fields[:si:si], append([]*c12Node{rid()}, src.fields[si:]...)...)
	ti := r.Intn(len(tgt.fields) + 1)
	tgt.fields = append(tgt.fields[:ti:ti], append([]*c12Node{rid()}, tgt.fields[ti:]...)...)

	nrows := []int{1, 3, 8, 20, 40, 100}[r.Intn(6)]
	batch := []int{1, 2, 3, 4, 7, 8, 16, 64}[r.Intn(8)]
	nullP := []float64{0.1, 0.4, 0.8}[r.Intn(3)]
	maxLen := 1 + r.Intn(3)
	c := &c12Case{src: src, tgt: tgt, batch: batch, tleaves: tgt.leaves()}
	c.srcS = parquet.NewSchema("src", src.build())
	c.tgtS = parquet.NewSchema("tgt", tgt.build())
	added := make([]bool, len(c.tleaves))
	for ci, lf := range c.tleaves {
		added[ci], _, _ = c12AddedShape(src, tgt, lf.path)
	}
	var expRows [][][]gen.Triple
	var rowTexts []string
	for i := 0; i < nrows; i++ {
		v := c12GenBody(r, src, nullP, maxLen)
		v.kids[si] = &c12Val{k: 'P', p: parquet.ValueOf(int64(i))}
		row := c12RowOf(c12ShredRow(src, v))
		c.rows = append(c.rows, row)
		rowTexts = append(rowTexts, fmt.Sprintf("%+v", row))
		cols := c12ShredRow(tgt, c12ProjectBody(src, tgt, v))
		one := make([][]gen.Triple, len(cols))
		for ci, col := range cols {
			for _, x := range col {
				one[ci] = append(one[ci], c12Canon(nil, x, c.tleaves[ci]))
			}
		}
		expRows = append(expRows, one)
	}
	ops, nontrivial := c12SeekHistory(r, nrows, batch)
	var opTexts []string
	for _, o := range ops {
		opTexts = append(opTexts, o.String())
		if o.kind == 's' {
			ctx.Hist("seek-target", o.class)
		}
	}
	rowsPerGroup := []int{0, 0, 5, 16}[r.Intn(4)]
	detail := func(extra map[string]any) map[string]any {
		m := map[string]any{"source": src.text(), "target": tgt.text(), "mode": tg.mode, "target_ops": tg.ops, "rows": nrows,
			"batch": batch, "ops": opTexts, "max_rows_per_row_group": rowsPerGroup, "source_rows": rowTexts}
		for k, v := range extra {
			m[k] = v
		}
		return m
	}
	ctx.Case(src.text()+"|"+tgt.text()+"|"+strings.Join(opTexts, ";")+"|"+strings.Join(rowTexts, "|"), nontrivial)
	ctx.Hist("seek-mode", tg.mode)
	ctx.Hist("seek-rows", fmt.Sprint(nrows))
	ctx.Hist("seek-batch", fmt.Sprint(batch))
	ctx.Hist("seek-history-length", fmt.Sprint(len(ops)))

	// the source as a file (several row groups and small pages in part of the cases) and as a Buffer
	at("seek:source-write", tg.mode, detail(nil))
	var fbuf bytes.Buffer
	_, err := c12Guard(func() (*c12Out, error) {
		opts := []parquet.WriterOption{c.srcS, parquet.PageBufferSize(64)}
		if rowsPerGroup > 0 {
			opts = append(opts, parquet.MaxRowsPerRowGroup(int64(rowsPerGroup)))
		}
		w := parquet.NewWriter(&fbuf, opts...)
		for _, row := range c.rows {
			if _, err := w.WriteRows([]parquet.Row{row.Clone()}); err != nil {
				return nil, err
			}
		}
		return nil, w.Close()
	})
	if err != nil {
		ctx.Fail("L1", "source-write-error "+errClass(err), "cannot write the source file: "+err.Error(), detail(nil))
		return
	}
	c.file = fbuf.Bytes()

	for _, p := range c12SeekPaths {
		at("seek:"+p.name, tg.mode, detail(nil))
		var fails []*c12Extra
		_, err := c12Guard(func() (*c12Out, error) {
			f, err := c.open()
			if err != nil {
				return nil, err
			}
			b := parquet.NewBuffer(c.srcS)
			for _, row := range c.rows {
				if _, err := b.WriteRows([]parquet.Row{row.Clone()}); err != nil {
					return nil, err
				}
			}
			rr, err := p.open(c, b, f)
			if err != nil {
				return nil, err
			}
			// (the result of ConvertRowReader has a Close method that dereferences a nil embedded
			// io.Closer - not closed here)
			if cl, ok := rr.(io.Closer); ok && !p.forwardOnly {
				defer cl.Close()
			}
			fails = c12SeekRun(ctx, c, p, rr, ops, expRows, added)
			return nil, nil
		})
		if err != nil {
			k := "converted-seek:" + p.name + ":error:" + errClass(err)
			if strings.HasPrefix(err.Error(), "PANIC") {
				k = "path-panic:seek:" + p.name + ":" + tg.mode
			}
			ctx.Fail("L1", k, err.Error(), detail(nil))
			continue
		}
		for _, fail := range fails {
			ctx.Fail("L1", "converted-seek:"+p.name+":"+fail.key, fail.what, detail(fail.detail))
		}
	}
}

// c12SeekRun drives one reader through the history; the first violation of the values / counts
// ends it, shared storage between buffer slots is reported once and the history goes on.
func c12SeekRun(ctx *core.Ctx, c *c12Case, p c12SeekPath, rr parquet.RowReader, ops []c12SeekOp, exp [][][]gen.Triple, added []bool) (fails []*c12Extra) {
	nrows := len(exp)
	bufs := [2][]parquet.Row{make([]parquet.Row, 64), make([]parquet.Row, 64)}
	pos := 0
	lastSeek := "no-seek"
	readsSince := 0
	var trace []string
	mk := func(key, what string, extra map[string]any) []*c12Extra {
		m := map[string]any{"path": p.name, "trace": append([]string(nil), trace...), "oracle_position": pos}
		for k, v := range extra {
			m[k] = v
		}
		return append(fails, &c12Extra{key: key + ":after-seek-" + lastSeek, what: what, detail: m})
	}
	for oi, op := range ops {
		if op.kind == 's' {
			sk, ok := rr.(parquet.RowSeeker)
			if !ok {
				return mk("not-a-row-seeker", fmt.Sprintf("%T does not implement parquet.RowSeeker", rr), nil)
			}
			err := sk.SeekToRow(int64(op.arg))
			if err != nil {
				trace = append(trace, fmt.Sprintf("%v=err", op))
				ctx.Hist("seek-refused", p.name+":"+op.class)
				if op.arg > nrows || op.arg < pos {
					// a reader may be forward-only (forwardRowSeeker, the concatenating reader of a merge
					// say so in the error) and may refuse a position beyond the end; where a refused seek
					// leaves the reader is not stated anywhere, so the history ends here
					return fails
				}
				return mk("seek-refused:"+op.class, fmt.Sprintf("op %d: SeekToRow(%d) at position %d of %d rows: %v", oi, op.arg, pos, nrows, err), map[string]any{"failed_op": oi})
			}
			trace = append(trace, fmt.Sprintf("%v=ok", op))
			pos = op.arg
			lastSeek, readsSince = op.class, 0
			continue
		}
		buf := bufs[op.buf][:op.arg]
		n, err := rr.ReadRows(buf)
		var ids []string
		if n < 0 || n > len(buf) {
			return mk("row-count-out-of-range", fmt.Sprintf("op %d: ReadRows of %d rows returned %d", oi, len(buf), n), map[string]any{"failed_op": oi})
		}
		var firstBad map[string]any
		sym := ""
		for i := 0; i < n; i++ {
			cols, serr := c12SplitRows(nil, buf[i:i+1], c.tleaves)
			id := "?"
			for ci, lf := range c.tleaves {
				if len(lf.path) == 1 && lf.path[0] == "rid" && len(cols[ci]) == 1 {
					id = cols[ci][0].Val
				}
			}
			ids = append(ids, id)
			if sym != "" {
				continue
			}
			if pos+i >= nrows {
				sym = "rows-beyond-the-end"
				firstBad = map[string]any{"slot": i, "got_row": fmt.Sprintf("%+v", buf[i])}
				continue
			}
			if serr != nil {
				sym = "malformed-row"
				firstBad = map[string]any{"slot": i, "row": pos + i, "got_row": fmt.Sprintf("%+v", buf[i]), "error": serr.Error()}
				continue
			}
			for ci := range c.tleaves {
				if added[ci] || triplesEqual(cols[ci], exp[pos+i][ci]) {
					continue
				}
				sym = "wrong-values"
				if lf := c.tleaves[ci]; len(lf.path) == 1 && lf.path[0] == "rid" {
					sym = "wrong-row"
				}
				firstBad = map[string]any{"slot": i, "row": pos + i, "column": strings.Join(c.tleaves[ci].path, "."),
					"got": fmt.Sprint(cols[ci]), "want": fmt.Sprint(exp[pos+i][ci]), "got_row": fmt.Sprintf("%+v", buf[i])}
				break
			}
		}
		trace = append(trace, fmt.Sprintf("%v=%d[%s]%s", op, n, strings.Join(ids, ","), errName(err)))
		reuse := "first-read"
		if readsSince > 0 {
			reuse = "buffer-reused"
		}
		if sym != "" {
			firstBad["failed_op"] = oi
			return mk(sym+":"+reuse, fmt.Sprintf("op %d: ReadRows at position %d does not yield the projection of rows %d..", oi, pos, pos), firstBad)
		}
		if err != nil && err != io.EOF {
			return mk("read-error:"+errClass(err), fmt.Sprintf("op %d: ReadRows at position %d: %v", oi, pos, err), map[string]any{"failed_op": oi})
		}
		if err == io.EOF && pos+n < nrows {
			return mk("early-eof:"+reuse, fmt.Sprintf("op %d: io.EOF after row %d of %d", oi, pos+n, nrows), map[string]any{"failed_op": oi})
		}
		if n == 0 && err == nil && pos < nrows && len(buf) > 0 {
			return mk("no-progress:"+reuse, fmt.Sprintf("op %d: ReadRows returned 0 rows and no error at position %d of %d", oi, pos, nrows), map[string]any{"failed_op": oi})
		}
		pos += n
		readsSince++
		// distinct slots keep distinct storage: the caller overwrites every slot's backing array
		// (which also leaves the buffers dirty for the next call) and finds its own marks again
		mark := func(b, i int) parquet.Value { return parquet.ValueOf(int64(-1000 - 100*b - i)) }
		for b := range bufs {
			for i, row := range bufs[b] {
				row = row[:cap(row)]
				for k := range row {
					row[k] = mark(b, i)
				}
			}
		}
		for b := range bufs {
			for i, row := range bufs[b] {
				for _, v := range row[:cap(row)] {
					if v.Int64() != mark(b, i).Int64() && len(fails) == 0 {
						fails = mk("buffer-slots-share-storage:"+reuse, fmt.Sprintf("op %d: after ReadRows slot %d of buffer %c shares its backing array with the slot marked %d", oi, i, 'A'+b, v.Int64()),
							map[string]any{"failed_op": oi, "slot": i})
					}
				}
			}
		}
	}
	return fails
}
