package props

// C04, part "dicttyped": the TYPED insert path of every dictionary type
// (`Dictionary.insert(indexes, sparse.Array)`, which column buffers call when Go structs are
// written), reached through the public API only. The "plain" sub-check drives
// `Dictionary.Insert([]Value)`; for several dictionary types (be128, fixed-len, int96, ...) that is
// separate code, and the typed path inserts in chunks (8192/size values: 2048 for 4-byte, 1024 for
// 8-byte, 512 for 16-byte values), so the cases put MORE than a chunk of values in ONE insert with
// values new to the dictionary arriving after the chunk boundaries:
//   - `GenericBuffer[T].Write(rows)` of 513/700/1100/2100/... rows in one call, then WriteRowGroup;
//   - `GenericWriter[T].Write(rows)` (64-row batches) with repeated fields holding that many elements.
// L1: the values read back from the file (Value level: pages of the column chunk) are the written
//     values bit-exactly, row structure included.
// L2: the dictionary page entries and the per-value indexes of the data pages equal the Lean
//     dictionary model (`insertAll []`, first-occurrence order; boolean: both entries first).

import (
	"bytes"
	"fmt"
	"io"
	"math/rand"
	"runtime"
	"strings"
	"sync"

	"github.com/parquet-go/parquet-go"
	"github.com/parquet-go/parquet-go/deprecated"

	"verifharness/core"
)

func init() { RegisterSub("C04", "dicttyped", RunC04DictTyped) }

// one struct type per dictionary type, flat and repeated
type (
	c4tBool struct {
		V bool `parquet:"v,dict"`
	}
	c4tInt32 struct {
		V int32 `parquet:"v,dict"`
	}
	c4tInt64 struct {
		V int64 `parquet:"v,dict"`
	}
	c4tInt96 struct {
		V deprecated.Int96 `parquet:"v,dict"`
	}
	c4tFloat struct {
		V float32 `parquet:"v,dict"`
	}
	c4tDouble struct {
		V float64 `parquet:"v,dict"`
	}
	c4tBytes struct {
		V []byte `parquet:"v,dict"`
	}
	c4tString struct {
		V string `parquet:"v,dict"`
	}
	c4tFLBA5 struct {
		V [5]byte `parquet:"v,dict"`
	}
	c4tBE128 struct {
		V [16]byte `parquet:"v,dict"`
	}
	c4tUUID struct {
		V [16]byte `parquet:"v,uuid,dict"`
	}
	c4tUint32 struct {
		V uint32 `parquet:"v,dict"`
	}
	c4tUint64 struct {
		V uint64 `parquet:"v,dict"`
	}

	c4rBool struct {
		V []bool `parquet:"v,dict"`
	}
	c4rInt32 struct {
		V []int32 `parquet:"v,dict"`
	}
	c4rInt64 struct {
		V []int64 `parquet:"v,dict"`
	}
	c4rInt96 struct {
		V []deprecated.Int96 `parquet:"v,dict"`
	}
	c4rFloat struct {
		V []float32 `parquet:"v,dict"`
	}
	c4rDouble struct {
		V []float64 `parquet:"v,dict"`
	}
	c4rBytes struct {
		V [][]byte `parquet:"v,dict"`
	}
	c4rString struct {
		V []string `parquet:"v,dict"`
	}
	c4rFLBA5 struct {
		V [][5]byte `parquet:"v,dict"`
	}
	c4rBE128 struct {
		V [][16]byte `parquet:"v,dict"`
	}
	c4rUint32 struct {
		V []uint32 `parquet:"v,dict"`
	}
	c4rUint64 struct {
		V []uint64 `parquet:"v,dict"`
	}
)

type c4typed struct {
	name     string
	k        c4kind
	repeated bool
	// write builds the Go rows from canonical values and returns the file
	write func(path string, rows [][][]byte) ([]byte, error)
	// writeGroups writes one row group per element of groups with ONE writer (c04_dictreset.go)
	writeGroups func(mode string, groups [][][][]byte) ([][]byte, error)
}

func c4le32(v []byte) uint32 {
	return uint32(v[0]) | uint32(v[1])<<8 | uint32(v[2])<<16 | uint32(v[3])<<24
}
func c4le64(v []byte) uint64 { return uint64(c4le32(v)) | uint64(c4le32(v[4:]))<<32 }
func c4i96(v []byte) deprecated.Int96 {
	return deprecated.Int96{c4le32(v), c4le32(v[4:]), c4le32(v[8:])}
}

func c4WriteTyped[T any](path string, rows []T) (file []byte, err error) {
	defer func() {
		if p := recover(); p != nil {
			err = fmt.Errorf("panic: %v", p)
		}
	}()
	out := new(bytes.Buffer)
	w := parquet.NewGenericWriter[T](out)
	switch path {
	case "buffer":
		buf := parquet.NewGenericBuffer[T]()
		if _, err := buf.Write(rows); err != nil { // ONE call: one typed insert per column
			return nil, err
		}
		if _, err := w.WriteRowGroup(buf); err != nil {
			return nil, err
		}
	default:
		if _, err := w.Write(rows); err != nil {
			return nil, err
		}
	}
	if err := w.Close(); err != nil {
		return nil, err
	}
	return out.Bytes(), nil
}

// flat: every row holds exactly one value
func c4Flat[T any](name string, k c4kind, mk func([]byte) T) c4typed {
	conv := func(rows [][][]byte) []T {
		rs := make([]T, len(rows))
		for i, r := range rows {
			rs[i] = mk(r[0])
		}
		return rs
	}
	return c4typed{name: name, k: k, write: func(path string, rows [][][]byte) ([]byte, error) {
		return c4WriteTyped(path, conv(rows))
	}, writeGroups: func(mode string, groups [][][][]byte) ([][]byte, error) {
		gs := make([][]T, len(groups))
		for i, g := range groups {
			gs[i] = conv(g)
		}
		return c4WriteTypedGroups(mode, gs)
	}}
}

func c4Rep[T any](name string, k c4kind, mk func([][]byte) T) c4typed {
	conv := func(rows [][][]byte) []T {
		rs := make([]T, len(rows))
		for i, r := range rows {
			rs[i] = mk(r)
		}
		return rs
	}
	return c4typed{name: name, k: k, repeated: true, write: func(path string, rows [][][]byte) ([]byte, error) {
		return c4WriteTyped(path, conv(rows))
	}, writeGroups: func(mode string, groups [][][][]byte) ([][]byte, error) {
		gs := make([][]T, len(groups))
		for i, g := range groups {
			gs[i] = conv(g)
		}
		return c4WriteTypedGroups(mode, gs)
	}}
}

func c4mapv[E any](vs [][]byte, f func([]byte) E) []E {
	if len(vs) == 0 {
		return nil
	}
	out := make([]E, len(vs))
	for i, v := range vs {
		out[i] = f(v)
	}
	return out
}

func c4TypedTypes() []c4typed {
	b5 := func(v []byte) (a [5]byte) { copy(a[:], v); return }
	b16 := func(v []byte) (a [16]byte) { copy(a[:], v); return }
	bl := func(v []byte) bool { return v[0] != 0 }
	i32 := func(v []byte) int32 { return int32(c4le32(v)) }
	i64 := func(v []byte) int64 { return int64(c4le64(v)) }
	f32 := func(v []byte) float32 { return c4f32(c4le32(v)) }
	f64 := func(v []byte) float64 { return c4f64(c4le64(v)) }
	by := func(v []byte) []byte { return bytes.Clone(v) }
	st := func(v []byte) string { return string(v) }
	return []c4typed{
		c4Flat("boolean", c4Bool, func(v []byte) c4tBool { return c4tBool{bl(v)} }),
		c4Flat("int32", c4Int32, func(v []byte) c4tInt32 { return c4tInt32{i32(v)} }),
		c4Flat("int64", c4Int64, func(v []byte) c4tInt64 { return c4tInt64{i64(v)} }),
		c4Flat("int96", c4Int96, func(v []byte) c4tInt96 { return c4tInt96{c4i96(v)} }),
		c4Flat("float", c4Float, func(v []byte) c4tFloat { return c4tFloat{f32(v)} }),
		c4Flat("double", c4Double, func(v []byte) c4tDouble { return c4tDouble{f64(v)} }),
		c4Flat("byte_array", c4Bytes, func(v []byte) c4tBytes { return c4tBytes{by(v)} }),
		c4Flat("string", c4Bytes, func(v []byte) c4tString { return c4tString{st(v)} }),
		c4Flat("flba5", c4FLBA(5), func(v []byte) c4tFLBA5 { return c4tFLBA5{b5(v)} }),
		c4Flat("flba16-be128", c4FLBA(16), func(v []byte) c4tBE128 { return c4tBE128{b16(v)} }),
		c4Flat("uuid", c4FLBA(16), func(v []byte) c4tUUID { return c4tUUID{b16(v)} }),
		c4Flat("uint32", c4Int32, func(v []byte) c4tUint32 { return c4tUint32{c4le32(v)} }),
		c4Flat("uint64", c4Int64, func(v []byte) c4tUint64 { return c4tUint64{c4le64(v)} }),
		c4Rep("boolean", c4Bool, func(vs [][]byte) c4rBool { return c4rBool{c4mapv(vs, bl)} }),
		c4Rep("int32", c4Int32, func(vs [][]byte) c4rInt32 { return c4rInt32{c4mapv(vs, i32)} }),
		c4Rep("int64", c4Int64, func(vs [][]byte) c4rInt64 { return c4rInt64{c4mapv(vs, i64)} }),
		c4Rep("int96", c4Int96, func(vs [][]byte) c4rInt96 { return c4rInt96{c4mapv(vs, c4i96)} }),
		c4Rep("float", c4Float, func(vs [][]byte) c4rFloat { return c4rFloat{c4mapv(vs, f32)} }),
		c4Rep("double", c4Double, func(vs [][]byte) c4rDouble { return c4rDouble{c4mapv(vs, f64)} }),
		c4Rep("byte_array", c4Bytes, func(vs [][]byte) c4rBytes { return c4rBytes{c4mapv(vs, by)} }),
		c4Rep("string", c4Bytes, func(vs [][]byte) c4rString { return c4rString{c4mapv(vs, st)} }),
		c4Rep("flba5", c4FLBA(5), func(vs [][]byte) c4rFLBA5 { return c4rFLBA5{c4mapv(vs, b5)} }),
		c4Rep("flba16-be128", c4FLBA(16), func(vs [][]byte) c4rBE128 { return c4rBE128{c4mapv(vs, b16)} }),
		c4Rep("uint32", c4Int32, func(vs [][]byte) c4rUint32 { return c4rUint32{c4mapv(vs, c4le32)} }),
		c4Rep("uint64", c4Int64, func(vs [][]byte) c4rUint64 { return c4rUint64{c4mapv(vs, c4le64)} }),
	}
}

// what the file holds for the single column: rows of values, dictionary entries, indexes
type c4fileColumn struct {
	rows       [][][]byte
	dict       [][]byte
	idx        []int32
	dictPages  int
	plainPages int
	rowGroups  int
}

func c4ReadColumn(k c4kind, repeated bool, file []byte) (col c4fileColumn, err error) {
	return c4ReadColumnGroups(k, repeated, file, nil)
}

// one c4fileColumn per row group of the file
func c4ReadRowGroups(k c4kind, repeated bool, file []byte) ([]c4fileColumn, error) {
	var groups []c4fileColumn
	last, err := c4ReadColumnGroups(k, repeated, file, &groups)
	if err != nil {
		return nil, err
	}
	if last.rowGroups > 0 {
		groups = append(groups, last)
	}
	return groups, nil
}

func c4ReadColumnGroups(k c4kind, repeated bool, file []byte, perGroup *[]c4fileColumn) (col c4fileColumn, err error) {
	defer func() {
		if p := recover(); p != nil {
			err = fmt.Errorf("panic while reading the file back: %v", p)
		}
	}()
	f, err := parquet.OpenFile(bytes.NewReader(file), int64(len(file)))
	if err != nil {
		return col, err
	}
	buf := make([]parquet.Value, 997)
	for _, rg := range f.RowGroups() {
		if perGroup != nil && col.rowGroups > 0 {
			*perGroup = append(*perGroup, col)
			col = c4fileColumn{}
		}
		col.rowGroups++
		pages := rg.ColumnChunks()[0].Pages()
		for {
			p, err := pages.ReadPage()
			if err == io.EOF {
				break
			}
			if err != nil {
				pages.Close()
				return col, err
			}
			if d := p.Dictionary(); d != nil {
				col.dictPages++
				if col.dict == nil {
					col.dict = [][]byte{}
					for i := 0; i < d.Len(); i++ {
						col.dict = append(col.dict, c4ValueBytes(k, d.Index(int32(i))))
					}
				}
				data := p.Data()
				col.idx = append(col.idx, data.Int32()...)
			} else {
				col.plainPages++
			}
			vr := p.Values()
			for {
				n, err := vr.ReadValues(buf)
				for _, v := range buf[:n] {
					if !repeated || v.RepetitionLevel() == 0 {
						col.rows = append(col.rows, [][]byte{})
					}
					if !v.IsNull() {
						last := len(col.rows) - 1
						col.rows[last] = append(col.rows[last], c4ValueBytes(k, v))
					}
				}
				if err == io.EOF {
					break
				}
				if err != nil {
					pages.Close()
					return col, err
				}
				if n == 0 {
					break
				}
			}
			parquet.Release(p)
		}
		pages.Close()
	}
	return col, nil
}

func c4rowsCanon(k c4kind, rows [][][]byte) string {
	var sb strings.Builder
	for i, r := range rows {
		if i > 0 {
			sb.WriteByte(';')
		}
		sb.WriteString(c4toks(k, r))
	}
	return sb.String()
}

func (w *c4worker) typedDictCase(t c4typed, path, pattern string, rows [][][]byte) {
	ctx := w.b.ctx
	k := t.k
	var all [][]byte
	for _, r := range rows {
		all = append(all, r...)
	}
	shape := "flat"
	if t.repeated {
		shape = "repeated"
	}
	rowsCanon := c4rowsCanon(k, rows)
	canon := fmt.Sprintf("typed-dict %s %s %s %s", shape, t.name, path, rowsCanon)
	distinct := map[string]bool{}
	for _, v := range all {
		distinct[string(v)] = true
	}
	ctx.Case(canon, len(all) > 512 && len(distinct) >= 2)
	ctx.Hist("typed.type", shape+" "+t.name)
	ctx.Hist("typed.path", path)
	ctx.Hist("typed.pattern", pattern)
	ctx.Hist("typed.values", c4typedLenClass(len(all)))
	sig := "typed-dict-" + shape + "-" + t.name
	detail := func(extra map[string]any) map[string]any {
		m := map[string]any{"type": t.name, "shape": shape, "path": path, "pattern": pattern, "rows": len(rows), "values": len(all),
			"input_rows": c4short(rowsCanon), "variant": w.b.variant}
		for kk, v := range extra {
			m[kk] = v
		}
		return m
	}
	file, err := t.write(path, rows)
	if err != nil {
		ctx.Fail("L1", sig+"-write-error", "writing rows with a dict column failed: "+err.Error(), detail(nil))
		return
	}
	col, err := c4ReadColumn(k, t.repeated, file)
	if err != nil {
		ctx.Fail("L1", sig+"-read-error", "the written file cannot be read back: "+err.Error(), detail(nil))
		return
	}
	// L1: values (and row structure) bit-exact
	if len(col.rows) != len(rows) {
		ctx.Fail("L1", sig+"-row-count", fmt.Sprintf("%d rows written, %d rows read back", len(rows), len(col.rows)), detail(nil))
		return
	}
	for i := range rows {
		if !c4Equal(rows[i], col.rows[i]) {
			pos := 0
			for j := 0; j < i; j++ {
				pos += len(rows[j])
			}
			ctx.Fail("L1", sig+"-values-differ", "a dictionary-encoded column written from Go structs reads back other values",
				detail(map[string]any{"row": i, "value_position_of_row": pos, "written": c4short(c4toks(k, rows[i])), "read": c4short(c4toks(k, col.rows[i]))}))
			return
		}
	}
	if len(all) == 0 {
		return
	}
	// L2: dictionary page and indexes against the Lean model
	if col.dictPages == 0 || col.plainPages != 0 || col.rowGroups != 1 {
		ctx.Hist("typed.layout", fmt.Sprintf("dictpages=%d plainpages=%d rowgroups=%d", col.dictPages, col.plainPages, col.rowGroups))
		ctx.Fail("L2", sig+"-not-dictionary-encoded", "the column is not (only) dictionary encoded in one row group: the dictionary model cannot be compared",
			detail(map[string]any{"dict_pages": col.dictPages, "plain_pages": col.plainPages, "row_groups": col.rowGroups}))
		return
	}
	ctx.Hist("typed.layout", "one row group, dictionary pages only")
	goAns := fmt.Sprintf("ok %s %s", core.JoinInts(col.idx), c4toks(k, col.dict))
	req := fmt.Sprintf("dict.insert - %s", c4toks(k, all))
	if k.name == "bool" {
		req = fmt.Sprintf("dict.insertbool - %s", c4toks(k, all))
	}
	w.b.ask(req, func(ans string) {
		if ans != goAns {
			ctx.Fail("L2", sig+"-model", "dictionary page entries / data page indexes of the file differ from the Lean dictionary model (first occurrence order)",
				detail(map[string]any{"go": c4short(goAns), "model": c4short(ans)}))
		}
	})
}

func c4typedLenClass(n int) string {
	switch {
	case n <= 512:
		return "<=512"
	case n <= 1024:
		return "513..1024"
	case n <= 2048:
		return "1025..2048"
	case n <= 4096:
		return "2049..4096"
	default:
		return ">4096"
	}
}

// a value sequence of length n: "late-new" keeps to a tiny alphabet up to just past a chunk boundary
// and then brings mostly new values; "all-new"; "mixed" new/duplicate half and half
func c4TypedSeq(k c4kind, r *rand.Rand, n int, pattern string) [][]byte {
	out := make([][]byte, 0, n)
	fresh := func() []byte {
		v := c4Value(k, r, 2)
		if k.name == "bytes" && len(v) > 24 {
			v = v[:r.Intn(24)]
		}
		return v
	}
	alpha := [][]byte{fresh(), c4Value(k, r, 0), fresh()}
	if k.name == "bytes" {
		alpha[1] = []byte{}
	}
	quiet := 0
	if pattern == "late-new" {
		quiet = []int{500, 512, 513, 1024, 1030, 2048, 2050}[r.Intn(7)]
		if quiet >= n {
			quiet = n - 1 - r.Intn(min(n, 8))
			if quiet < 0 {
				quiet = 0
			}
		}
	}
	pNew := map[string]int{"late-new": 7, "all-new": 10, "mixed": 5}[pattern]
	for i := 0; i < n; i++ {
		switch {
		case i < quiet:
			out = append(out, alpha[r.Intn(len(alpha))])
		case len(out) == 0 || r.Intn(10) < pNew:
			out = append(out, fresh())
		default:
			out = append(out, out[r.Intn(len(out))]) // a duplicate of any earlier value, early chunks included
		}
	}
	return out
}

func c4TypedRows(t c4typed, r *rand.Rand, vals [][]byte) [][][]byte {
	if !t.repeated {
		rows := make([][][]byte, len(vals))
		for i, v := range vals {
			rows[i] = [][]byte{v}
		}
		return rows
	}
	switch r.Intn(3) {
	case 0: // one row holding everything
		return [][][]byte{vals}
	case 1: // a few short rows, an empty one, then one long row, then a tail
		a := min(3, len(vals))
		rows := [][][]byte{vals[:a], {}}
		rest := vals[a:]
		tail := min(len(rest), r.Intn(3))
		rows = append(rows, rest[:len(rest)-tail])
		if tail > 0 {
			rows = append(rows, rest[len(rest)-tail:])
		}
		return rows
	default: // many rows of 0..3 elements
		var rows [][][]byte
		for len(vals) > 0 {
			n := min(len(vals), r.Intn(4))
			rows = append(rows, vals[:n])
			vals = vals[n:]
		}
		return rows
	}
}

func RunC04DictTyped(ctx *core.Ctx) {
	types := c4TypedTypes()
	nw := min(max(runtime.GOMAXPROCS(0), 2), 12)
	type job struct {
		t    c4typed
		path string
	}
	jobs := make(chan job, 2*len(types))
	for _, t := range types {
		for _, p := range []string{"buffer", "writer"} {
			jobs <- job{t, p}
		}
	}
	close(jobs)
	big := []int{513, 700, 1100, 2100}
	other := []int{1, 2, 63, 64, 65, 511, 512, 1023, 1024, 1025, 2047, 2048, 2049, 2600, 4097, 4200}
	var wg sync.WaitGroup
	for wi := 0; wi < nw; wi++ {
		wg.Add(1)
		go func(wi int) {
			defer wg.Done()
			d := ctx.Driver()
			w := &c4worker{b: &c4batch{ctx: ctx, d: d, variant: ctx.Variant}}
			for j := range jobs {
				shape := "flat"
				if j.t.repeated {
					shape = "repeated"
				}
				r := ctx.Rand("c04dicttyped/" + shape + "/" + j.t.name + "/" + j.path)
				w.r = r
				for rep := 0; rep < ctx.Scale(1, 2); rep++ {
					for _, n := range big {
						for _, pattern := range []string{"late-new", "all-new", "mixed"} {
							w.typedDictCase(j.t, j.path, pattern, c4TypedRows(j.t, r, c4TypedSeq(j.t.k, r, n, pattern)))
						}
					}
					for i := 0; i < 6; i++ {
						n := other[r.Intn(len(other))]
						pattern := []string{"late-new", "all-new", "mixed"}[r.Intn(3)]
						w.typedDictCase(j.t, j.path, pattern, c4TypedRows(j.t, r, c4TypedSeq(j.t.k, r, n, pattern)))
					}
				}
				w.b.flush()
			}
		}(wi)
	}
	wg.Wait()
}
